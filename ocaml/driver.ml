(* Generic case runner: reads "kind \t tags \t args \t outs" lines, calls the
   extracted Model.run_case, prints one R line per case that is not accepted
   and a summary.  Nothing property-specific lives here. *)
module M = Model

let rec pos_of_int n =
  if n = 1 then M.XH
  else if n land 1 = 0 then M.XO (pos_of_int (n lsr 1)) else M.XI (pos_of_int (n lsr 1))
let z_of_int n =
  if n = 0 then M.Z0 else if n > 0 then M.Zpos (pos_of_int n) else M.Zneg (pos_of_int (-n))

let chunk = z_of_int 1_000_000_000_000_000_000 (* 10^18 *)

(* decimal string -> Z, arbitrary size *)
let z_of_string (s : string) : M.z =
  let neg = String.length s > 0 && s.[0] = '-' in
  let d = if neg then String.sub s 1 (String.length s - 1) else s in
  if d = "" then failwith ("bad integer: " ^ s);
  String.iter (fun c -> if c < '0' || c > '9' then failwith ("bad integer: " ^ s)) d;
  let n = String.length d in
  let rec go acc i =
    if i >= n then acc
    else
      let len = min 18 (n - i) in
      let part = int_of_string (String.sub d i len) in
      let mult = if len = 18 then chunk else z_of_int (int_of_float (10. ** float_of_int len)) in
      go (M.Z.add (M.Z.mul acc mult) (z_of_int part)) (i + len)
  in
  let v = go M.Z0 0 in
  if neg then M.Z.opp v else v

let rec int_of_pos_opt p depth =
  if depth > 61 then None
  else match p with
    | M.XH -> Some 1
    | M.XO q -> (match int_of_pos_opt q (depth + 1) with Some v -> Some (2 * v) | None -> None)
    | M.XI q -> (match int_of_pos_opt q (depth + 1) with Some v -> Some (2 * v + 1) | None -> None)

let rec string_of_z (x : M.z) : string =
  match x with
  | M.Z0 -> "0"
  | M.Zneg p -> "-" ^ string_of_z (M.Zpos p)
  | M.Zpos p ->
    (match int_of_pos_opt p 0 with
     | Some v -> string_of_int v
     | None ->
       let (q, r) = M.Z.div_eucl x chunk in
       let rs = string_of_z r in
       string_of_z q ^ String.make (18 - String.length rs) '0' ^ rs)

let coq_string_of (s : string) =
  let n = String.length s in
  let rec go i =
    if i >= n then M.EmptyString
    else
      let c = Char.code s.[i] in
      let b k = (c lsr k) land 1 = 1 in
      M.String (M.Ascii (b 0, b 1, b 2, b 3, b 4, b 5, b 6, b 7), go (i + 1))
  in go 0

let hexval c =
  match c with
  | '0'..'9' -> Char.code c - 48
  | 'a'..'f' -> Char.code c - 87
  | 'A'..'F' -> Char.code c - 55
  | _ -> failwith "bad hex digit"

(* small table so that byte values share structure *)
let byte_tab = Array.init 256 z_of_int

let parse_values (s : string) : M.value list =
  let n = String.length s in
  let pos = ref 0 in
  let rec skip () = if !pos < n && s.[!pos] = ' ' then (incr pos; skip ()) in
  let rec parse_list closing =
    skip ();
    if !pos >= n then (if closing then failwith "unterminated list" else [])
    else if s.[!pos] = ']' then (if closing then (incr pos; []) else failwith "unexpected ]")
    else let v = parse_value () in v :: parse_list closing
  and parse_value () =
    let c = s.[!pos] in
    if c = '[' then (incr pos; M.VL (parse_list true))
    else begin
      let start = !pos in
      while !pos < n && s.[!pos] <> ' ' && s.[!pos] <> ']' && s.[!pos] <> '[' do incr pos done;
      let tok = String.sub s start (!pos - start) in
      if tok.[0] = 'x' then begin
        let m = String.length tok - 1 in
        if m land 1 = 1 then failwith ("odd hex: " ^ tok);
        let rec bytes i = if i >= m then [] else
            byte_tab.(hexval tok.[1 + i] * 16 + hexval tok.[2 + i]) :: bytes (i + 2) in
        M.VB (bytes 0)
      end else M.VZ (z_of_string tok)
    end
  in
  parse_list false

let rec string_of_value v =
  match v with
  | M.VZ z -> string_of_z z
  | M.VB b ->
    let buf = Buffer.create 64 in
    Buffer.add_char buf 'x';
    List.iter (fun z -> Buffer.add_string buf (Printf.sprintf "%02x" (int_of_string (string_of_z z) land 0xffff))) b;
    Buffer.contents buf
  | M.VL l -> "[" ^ String.concat " " (List.map string_of_value l) ^ "]"

let split_tabs line =
  String.split_on_char '\t' line

let () =
  let file = Sys.argv.(1) in
  let ic = open_in file in
  let total = ref 0 and agree = ref 0 and oracle_ok = ref 0 and unknown = ref 0 and bad = ref 0 in
  let kinds : (string, int ref) Hashtbl.t = Hashtbl.create 16 in
  let lineno = ref 0 in
  (try
     while true do
       let line = input_line ic in
       incr lineno;
       if String.length line > 0 && line.[0] <> '#' then begin
         match split_tabs line with
         | [kind; _tags; args; outs] ->
           incr total;
           (match Hashtbl.find_opt kinds kind with
            | Some r -> incr r
            | None -> Hashtbl.add kinds kind (ref 1));
           (try
              let a = parse_values args and o = parse_values outs in
              let v = M.run_case (coq_string_of kind) a o in
              if not v.M.v_known then incr unknown;
              if v.M.v_agree then incr agree;
              if v.M.v_oracle then incr oracle_ok;
              if not (v.M.v_known && v.M.v_agree && v.M.v_oracle) then
                Printf.printf "R\t%d\t%s\tknown=%d agree=%d oracle=%d\t%s\n" !lineno kind
                  (if v.M.v_known then 1 else 0) (if v.M.v_agree then 1 else 0) (if v.M.v_oracle then 1 else 0)
                  (String.concat " " (List.map string_of_value v.M.v_expected))
            with Failure m | Invalid_argument m ->
              incr bad;
              Printf.printf "E\t%d\t%s\t%s\n" !lineno kind m)
         | _ -> incr bad; Printf.printf "E\t%d\t?\tmalformed line\n" !lineno
       end
     done
   with End_of_file -> ());
  close_in ic;
  Hashtbl.iter (fun k r -> Printf.printf "K\t%s\t%d\n" k !r) kinds;
  Printf.printf "S\ttotal=%d agree=%d oracle_ok=%d unknown=%d bad=%d\n" !total !agree !oracle_ok !unknown !bad
