(* Dispatcher of C05: recorded histories of one client (calls of
   MeasureClockOffsetIP against a scripted peer) are replayed against the model
   of the receive loop (Model/ClientAccept.v) and the property oracle C05_ok.

   Case kinds "ip.hist" (client.MeasureClockOffsetIP), "scion.hist" (client.MeasureClockOffsetSCION, client
   without packet authentication), "scion.auth" (SCIONClient with Auth.Enabled: DRKey host-host key, packet
   authenticator), "scion.nts" / "scion.ntsauth" (NTS over SCION, without / with the packet authenticator),
   "scion.allfail" / "scion.allfailauth" (calls in which no datagram is acceptable), "scion.addrtype" (the bytes
   of the queried / the client's host under every address type and length the SCION header can express):
     args = cfg table ops
       cfg   = [scion imode nts deadline server server_ia local_ia local]
       table = [[key nonce ad ct ok pt] ...]   AEAD Open answers recomputed by the harness with miscreant
       ops   = [[0 [xchg ...] unused-scripts [server ke-target ke-one mapped]] | [1] | [2 ms] ...]     call / ResetInterleavedMode / pause (not modelled)
       xchg  = [[ref ctx1 uid s2c authkey oireq [ke-cookie ...] server port] [event ...] recipe]
               (server, port: the remote address of this exchange - what the caller passed or, with NTS, what the key
                exchange in force names)
               (ke-cookies: the cookies of the key exchange the client made for this exchange, if it made one)
       event = [0 before xflags front payload crx from_server uid_ok auth_ok [cookie ...] spao_ok] | [1 before]
               (cookies: the ones the datagram carries in authenticated fields, computed by the harness with the key;
                spao_ok = 0: the client holds the host-host key and the datagram carries, in an end-to-end extension,
                an authenticator for the server's SPI and algorithm whose MAC does not verify)
       front = src (IP)  |  [decode_ok nlayers last len_ok src_ia dst_ia src_host dst_host e2e tsopt auth] (SCION;
               hosts: the host as an unmapped IPv4 address, -1 = the header's address type is not IPv4 / IPv6 host, or the
               bytes are not an IPv4(-mapped) address; tsopt: -1 = none; auth: 0 no authenticator the client looks at, 1 MAC ok, 2 MAC wrong;
               authkey in xchg: the client fetched the host-host key for this exchange)
     outs  = [[code off [[cls [org_s org_f rx_s rx_f tx_s tx_f] [t0 t1 t2 t3 off]] ...] [pool-cookie ...]] ...]   one per call
             (pool: the fetcher's cookie pool after the call, through the VerifData hook; empty without NTS)
   The model's AEAD is the table; a query that is not in the table poisons the case. *)
From Coq Require Import ZArith List String Bool.
From ST Require Import Base.Ints Base.Value Model.NtpTime Model.ClientAccept Model.AuthModes Extract.GlueBase.
Import ListNotations.
Open Scope string_scope.
Open Scope Z_scope.

Record centry := { c_key : bytes; c_nonce : bytes; c_ad : bytes; c_ct : bytes; c_ok : Z; c_pt : bytes }.
Definition centry_of (v : value) : option centry :=
  match v with
  | VL [VB k; VB n; VB ad; VB ct; VZ ok; VB pt] =>
      Some {| c_key := k; c_nonce := n; c_ad := ad; c_ct := ct; c_ok := ok; c_pt := pt |}
  | _ => None
  end.
Fixpoint table_of (l : list value) : option (list centry) :=
  match l with
  | [] => Some []
  | v :: r => match centry_of v, table_of r with Some e, Some es => Some (e :: es) | _, _ => None end
  end.
Definition entry_match (k n ad ct : bytes) (e : centry) : bool :=
  bytes_eqb (c_key e) k && bytes_eqb (c_nonce e) n && bytes_eqb (c_ad e) ad && bytes_eqb (c_ct e) ct.
(* an unknown query opens to a plaintext that makes the decrypted-buffer loop fail: the case then disagrees *)
Definition poison : bytes := repeat 0 28.
Definition open_tab (t : list centry) (k n ad ct : bytes) : option bytes :=
  match find (entry_match k n ad ct) t with
  | Some e => if c_ok e =? 0 then None else Some (c_pt e)
  | None => Some poison
  end.

Definition zb (z : Z) : bool := negb (z =? 0).
Definition optz (z : Z) : option Z := if z <? 0 then None else Some z.

Definition parse_front (v : value) : option front :=
  match v with
  | VL [VZ src; VZ sport] => Some (FrontIP src sport)
  | VL [VZ dok; VZ nl; VZ last; VZ lok; VZ sia; VZ dia; VZ sh; VZ dh; VZ e2e; VZ ts; VZ au] =>
      Some (FrontSCION {| sv_decode_ok := zb dok; sv_nlayers := nl; sv_last := last; sv_len_ok := zb lok;
                          sv_src_ia := sia; sv_dst_ia := dia; sv_src_host := optz sh; sv_dst_host := optz dh;
                          sv_e2e := zb e2e; sv_tsopt := optz ts;
                          sv_auth := if au =? 0 then AuthNone else AuthMac (au =? 1) |})
  | _ => None
  end.

Fixpoint getBs (l : list value) : option (list bytes) :=
  match l with
  | [] => Some []
  | VB b :: r => match getBs r with Some bs => Some (b :: bs) | None => None end
  | _ => None
  end.

(* an event and, for a datagram, the oracle's view of it and the cookies it carries authentically *)
Definition parse_event (v : value) : option (event * option oview * list bytes) :=
  match v with
  | VL [VZ 0; VZ before; VZ xf; fr; VB payload; VZ crx; VZ fs; VZ uo; VZ ao; VL cks; VZ sp] =>
      match parse_front fr, getBs cks with
      | Some f, Some cs =>
          Some (EvDgram {| g_before := zb before; g_xflags := xf; g_front := f; g_payload := payload; g_crx := crx |},
                Some {| o_from_server := zb fs; o_payload := payload; o_uid_ok := zb uo; o_auth_ok := zb ao;
                        o_spao_ok := zb sp |},
                if zb fs && zb sp && zb uo && zb ao then cs else [])
      | _, _ => None
      end
  | VL [VZ 1; VZ before] => Some (EvErr (zb before), None, [])
  | _ => None
  end.
Fixpoint parse_events (l : list value) : option (list event * list oview * list bytes) :=
  match l with
  | [] => Some ([], [], [])
  | v :: r =>
      match parse_event v, parse_events r with
      | Some (ev, ov, cs), Some (evs, ovs, css) =>
          Some (ev :: evs, match ov with Some o => o :: ovs | None => ovs end, (cs ++ css)%list)
      | _, _ => None
      end
  end.

(* one exchange: the model's environment, the oracle's views, whether the request on the wire was an interleaved one *)
Record pxchg := { px_env : xenv; px_views : list oview; px_oireq : bool; px_ke : list bytes; px_authentic : list bytes }.
Definition parse_xchg (v : value) : option pxchg :=
  match v with
  | VL [VL [VZ ref; VZ ctx1; VB uid; VB s2c; VZ ak; VZ oireq; VL ke; VZ srv; VZ port]; VL evs; _] =>
      match parse_events evs, getBs ke with
      | Some (es, vs, cs), Some kes =>
          Some {| px_env := {| e_ref := ref; e_ctx1 := ctx1; e_uid := uid; e_s2c := s2c; e_authkey := zb ak; e_server := srv; e_port := port; e_evs := es |};
                  px_views := vs; px_oireq := zb oireq; px_ke := kes; px_authentic := cs |}
      | _, _ => None
      end
  | _ => None
  end.
Fixpoint parse_xchgs (l : list value) : option (list pxchg) :=
  match l with
  | [] => Some []
  | v :: r => match parse_xchg v, parse_xchgs r with Some x, Some xs => Some (x :: xs) | _, _ => None end
  end.

Inductive pop := PCall (xs : list pxchg) | PReset | PPause.
Definition parse_op (v : value) : option pop :=
  match v with
  | VL [VZ 0; VL xs; _; _] => match parse_xchgs xs with Some l => Some (PCall l) | None => None end
  | VL [VZ 1] => Some PReset
  | VL [VZ 2; VZ _] => Some PPause
  | _ => None
  end.
Fixpoint parse_ops (l : list value) : option (list pop) :=
  match l with
  | [] => Some []
  | v :: r => match parse_op v, parse_ops r with Some x, Some xs => Some (x :: xs) | _, _ => None end
  end.

Definition parse_cfg (v : value) : option config :=
  match v with
  | VL [VZ sc; VZ im; VZ nts; VZ dl; VZ srv; VZ sia; VZ lia; VZ loc] =>
      Some {| c_scion := zb sc; c_imode := zb im; c_nts := zb nts; c_server := srv; c_server_ia := sia;
              c_local_ia := lia; c_local := loc; c_deadline := zb dl |}
  | _ => None
  end.

Fixpoint hops_of (ops : list pop) : list hop :=
  match ops with
  | [] => []
  | PCall xs :: r => HCall (map px_env xs) :: hops_of r
  | PReset :: r => HReset :: hops_of r
  | PPause :: r => hops_of r
  end.

(* ---- the model's output in the shape of the observation ---- *)
Definition t64_values (t : time64) : list value := [VZ (t64_sec t); VZ (t64_frac t)].
Definition xo_value (c : config) (ql : request * loop_result) : value :=
  let '(q, lr) := ql in
  let wire := VL (t64_values (if q_ireq q then q_psrx q else zero64) ++ t64_values (q_rx q) ++ t64_values (q_tx q)) in
  match lr with
  | LAccept _ r => VL [VZ 0; wire; VL [VZ (r_t0 r); VZ (r_t1 r); VZ (r_t2 r); VZ (r_t3 r); VZ (r_off r)]]
  | LFail _ e => VL [VZ (eclass_code e); wire; VL []]
  | LPanic _ => VL [VZ 100; wire; VL []]
  | LFuel _ => VL [VZ 101; wire; VL []]
  | LBlocked => VL [VZ 102; wire; VL []]
  end.
Definition call_value (c : config) (pool : list bytes) (cl : call_result * list (request * loop_result)) : value :=
  let '(cr0, l) := cl in
  let cr := if c_scion c then scion_return cr0 else cr0 in
  let pv := VL (map VB pool) in
  match cr with
  | COffset off _ => VL [VZ 0; VZ off; VL (map (xo_value c) l); pv]
  | CError e => VL [VZ (eclass_code e); VZ 0; VL (map (xo_value c) l); pv]
  | CPanic => VL [VZ 100; VZ 0; VL (map (xo_value c) l); pv]
  | CStuck => VL [VZ 102; VZ 0; VL (map (xo_value c) l); pv]
  end.

(* the cookie pool through the exchanges a call made *)
Fixpoint xchg_pool (open : bytes -> bytes -> bytes -> bytes -> option bytes) (pool : list bytes)
         (l : list (request * loop_result)) (xs : list pxchg) : list bytes :=
  match l, xs with
  | (q, _) :: lr, x :: xr =>
      let p1 := fetch_pool pool (px_ke x) in
      xchg_pool open (store_cookies p1 (loop_cookies open q 0 (e_evs (px_env x)))) lr xr
  | _, _ => pool
  end.

Fixpoint calls_values (open : bytes -> bytes -> bytes -> bytes -> option bytes) (c : config) (pool : list bytes)
         (ops : list pop) (res : list (call_result * list (request * loop_result))) : list value :=
  match ops with
  | [] => []
  | PCall xs :: r =>
      match res with
      | cl :: rr =>
          let pool' := if c_nts c then xchg_pool open pool (snd cl) xs else pool in
          call_value c pool' cl :: calls_values open c pool' r rr
      | [] => []
      end
  | _ :: r => calls_values open c pool r res
  end.

(* ---- the oracle on the observation ---- *)
Definition obs_of_xo (v : value) : option (oobs * (time64 * time64 * time64)) :=
  match v with
  | VL [VZ cls; VL [VZ os; VZ of_; VZ rs; VZ rf; VZ ts; VZ tf]; rec] =>
      let w := ({| t64_sec := os; t64_frac := of_ |}, {| t64_sec := rs; t64_frac := rf |}, {| t64_sec := ts; t64_frac := tf |}) in
      match rec with
      | VL [VZ t0; VZ t1; VZ t2; VZ t3; VZ off] => if cls =? 0 then Some (ObsOffset t0 t1 t2 t3 off, w) else None
      | VL [] => if cls =? 0 then None else Some (ObsError, w)
      | _ => None
      end
  | _ => None
  end.

(* every exchange of a call meets C05_ok; exchanges the implementation made beyond the script have no views: an
   offset there is a violation.  [prev] is the oracle's own history (Model: oq_prev, C05_basis), threaded through the
   exchanges of a call and through the calls of the history; the result is the verdict and the history afterwards *)
Fixpoint xchgs_ok (nts : bool) (prev : list (Z * time64)) (xs : list pxchg) (obs : list value) : bool * list (Z * time64) :=
  match obs with
  | [] => (true, prev)
  | v :: orest =>
      match obs_of_xo v with
      | None => (false, prev)
      | Some (o, (org, rx, tx)) =>
          match xs with
          | x :: xrest =>
              let oq := {| oq_nts := nts; oq_ireq := px_oireq x; oq_rx := rx; oq_tx := tx;
                           oq_sid := e_server (px_env x) * 65536 + e_port (px_env x); oq_prev := prev;
                           oq_ref := e_ref (px_env x) |} in
              let '(b, p) := xchgs_ok nts (C05_basis oq (px_views x) o) xrest orest in
              (C05_ok oq (px_views x) o && b, p)
          | [] => match o with ObsError => xchgs_ok nts prev [] orest | _ => (false, prev) end
          end
      end
  end.

(* an offset returned by the call is the offset of one of its accepted exchanges *)
Definition accepted_off (v : value) : option Z :=
  match v with
  | VL [VZ 0; _; VL [_; _; _; _; VZ off]] => Some off
  | _ => None
  end.
Definition call_ok (nts : bool) (prev : list (Z * time64)) (xs : list pxchg) (before : list bytes) (v : value) : bool * list (Z * time64) :=
  match v with
  | VL [VZ code; VZ off; VL obs; VL poolv] =>
      let '(b, p) := xchgs_ok nts prev xs obs in
      (match getBs poolv with
       | Some after => C05_pool_ok before (flat_map px_ke xs) (flat_map px_authentic xs) after
       | None => false
       end &&
       b &&
       (if code =? 0 then
          existsb (fun x => match accepted_off x with Some o => o =? off | None => false end) obs
        else true), p)
  | _ => (false, prev)
  end.
Definition pool_of (v : value) : list bytes :=
  match v with
  | VL [_; _; _; VL poolv] => match getBs poolv with Some p => p | None => [] end
  | _ => []
  end.
Fixpoint calls_ok (nts : bool) (prev : list (Z * time64)) (before : list bytes) (ops : list pop) (outs : list value) : bool :=
  match ops with
  | [] => match outs with [] => true | _ => false end
  | PCall xs :: r =>
      match outs with
      | v :: orest => let '(b, p) := call_ok nts prev xs before v in b && calls_ok nts p (pool_of v) r orest
      | [] => false
      end
  | _ :: r => calls_ok nts prev before r outs
  end.

Definition glue_C05 (k : string) (a o : list value) : option verdict :=
  if is k "ip.hist" || is k "scion.hist" || is k "scion.allfail" || is k "scion.auth" || is k "scion.nts" ||
     is k "scion.ntsauth" || is k "scion.allfailauth" || is k "scion.addrtype" ||
     is k "ip.late" || is k "scion.late" || is k "scion.lateauth" || is k "ip.nofilter" || is k "scion.nofilter" ||
     is k "ip6.hist" || is k "ip.servers" || is k "scion.servers" then
    match a with
    | [cfgv; VL tabv; VL opsv] =>
        match parse_cfg cfgv, table_of tabv, parse_ops opsv with
        | Some c, Some t, Some ops =>
            let expected := calls_values (open_tab t) c [] ops (history (open_tab t) c cstate0 (hops_of ops)) in
            Some (functional expected o (calls_ok (c_nts c) [] [] ops o))
        | _, _, _ => Some (relational false true)
        end
    | _ => Some (relational false true)
    end
  else None.

(* "client.badlocal": a call with a local address that is not an IP address (regression of /repo b838846: both clients
   used to return offset 0 with a nil error): args = scion, outs = [error-returned requests-seen]; nothing can be
   sent, so the model's call has no exchange and no accumulated result: an error, never an offset *)
Definition glue_badlocal (k : string) (a o : list value) : option verdict :=
  if is k "client.badlocal" then
    Some (functional [VZ 1; VZ 0] o (match o with VZ e :: _ => negb (e =? 0) | _ => false end))
  else None.

(* "client.ctxdone": calls whose context is already cancelled (variant 0), whose deadline is in the past (1) or
   passes between the tries of an interleaved-mode call (3); args = scion variant, outs = reported(nil error)
   requests-seen-by-the-peer measurements-evaluated offset.  Which of the racing events wins is Go's choice
   (relational); with the deadline in the past nothing can be sent: an error, no request.  Oracle: a reported
   measurement needs an accepted datagram (and a request the peer saw). *)
Definition glue_ctxdone (k : string) (a o : list value) : option verdict :=
  if is k "client.ctxdone" then
    match a, o with
    | [VZ _; VZ v], [VZ rep; VZ nreq; VZ nf; VZ _] =>
        Some (relational (if v =? 1 then (rep =? 0) && (nreq =? 0) && (nf =? 0) else true)
                         (C05_call_needs_datagram (negb (rep =? 0)) nf && ((rep =? 0) || (1 <=? nreq))))
    | _, _ => Some (relational false true)
    end
  else None.

(* "svc.authmodes": the real service's loadConfig / createClocks run on a configuration text (harness/svclib, hook
   timeservice_wiring_verif.go); args = [mode ...] daemon [scion ...] (auth_modes as codes 1 nts, 2 spao, other =
   unknown; scion_daemon_address configured; per clock of the two lists in order: SCION clock or IP clock),
   outs = fatal [[auth nts ke quic drkey] ...per client of the clock] ...per clock] *)
Definition aclient_value (c : aclient) : value :=
  VL [VZ (if a_auth c then 1 else 0); VZ (if a_nts c then 1 else 0); VZ (a_ke c); VZ (if a_quic c then 1 else 0);
      VZ (if a_drkey c then 1 else 0)].
Definition aclient_of (v : value) : option aclient :=
  match v with
  | VL [VZ au; VZ nt; VZ ke; VZ qu; VZ dk] =>
      Some {| a_auth := zb au; a_nts := zb nt; a_ke := ke; a_quic := zb qu; a_drkey := zb dk |}
  | _ => None
  end.
Fixpoint getZs (l : list value) : option (list Z) :=
  match l with
  | [] => Some []
  | VZ z :: r => match getZs r with Some zs => Some (z :: zs) | None => None end
  | _ => None
  end.
(* all clients of all clocks; None if a value is malformed *)
Fixpoint clients_of (l : list value) : option (list aclient) :=
  match l with
  | [] => Some []
  | VL cs :: r =>
      match (fix go (x : list value) := match x with
                                        | [] => Some []
                                        | v :: t => match aclient_of v, go t with Some a, Some b => Some (a :: b) | _, _ => None end
                                        end) cs, clients_of r with
      | Some a, Some b => Some (a ++ b)%list
      | _, _ => None
      end
  | _ => None
  end.
Definition glue_authmodes (k : string) (a o : list value) : option verdict :=
  if is k "svc.authmodes" then
    match a with
    | [VL mv; VZ daemon; VL sv] =>
        match getZs mv, getZs sv with
        | Some modes, Some scions =>
            let expected :=
              VZ 0 :: map (fun s => VL (repeat (aclient_value (wired_client modes (zb daemon) (zb s))) (if zb s then 7%nat else 1%nat))) scions in
            let oracle := match o with
                          | VZ 0 :: clocks => match clients_of clocks with Some cs => C05_cfg_ok modes cs | None => false end
                          | VZ _ :: _ => true   (* the service refused the configuration: no client was built *)
                          | _ => false
                          end in
            Some (functional expected o oracle)
        | _, _ => Some (relational false true)
        end
    | _ => Some (relational false true)
    end
  else None.

(* "scion.twopath": MeasureClockOffsetSCION with two clients and two paths, each path with a scripted next hop of its
   own; args = variant (0: one path answers at once with a response that is rejected at once, the other with the
   genuine response 300 ms later; 1: both genuine; 2: both rejected), outs = reported(nil error) offset
   zero-timestamp requests-seen [offset of every measurement a client evaluated].  Relational (which client gets
   which path, who reports first): a measurement is reported iff a path delivers a genuine response. *)
Definition glue_twopath (k : string) (a o : list value) : option verdict :=
  if is k "scion.twopath" then
    match a, o with
    | [VZ v], [VZ rep; VZ off; VZ tsz; VZ nreq; VL offsv] =>
        match getZs offsv with
        | Some offs =>
            Some (relational (if v =? 2 then rep =? 0 else negb (rep =? 0))
                             (if rep =? 0 then true
                              else C05_call_needs_datagram true (Z.of_nat (length offs)) && C05_call_offset_within off offs &&
                                   (tsz =? 0) && (1 <=? nreq)))
        | None => Some (relational false true)
        end
    | _, _ => Some (relational false true)
    end
  else None.

Definition run_case (k : string) (a o : list value) : verdict := first_some [glue_C05; glue_badlocal; glue_ctxdone; glue_authmodes; glue_twopath] k a o.
