(* Dispatcher of C15: single draws and samples of base/crypto on scripted
   tapes are compared with the model; recorded histories of rounds of the real
   MeasureClockOffsetSCION are replayed against the model (path of every
   client, resets, request forms, filter values, state after the round,
   reported offset, words consumed) and the C15 property oracle.  In the
   mp.pather kinds the offered paths of every round are what the real
   scion.Pather returned after scripted refreshes: they are compared with the
   model of the Pather, and the round is judged against the paths the scripted
   daemon last reported (C15_pather_round_ok).
   A client without a filter reports the raw offsets of its exchanges, which
   are not scripted: the model is given the offsets that were observed (their
   number and the reported midpoint are still checked). *)
From Coq Require Import ZArith List String Bool.
From ST Require Import Base.Ints Base.Value Model.Ftm Model.Sample Model.PathAssign Model.PathOracle Model.Pather Extract.GlueBase.
Import ListNotations.
Open Scope string_scope.
Open Scope Z_scope.

Definition zb (z : Z) : bool := negb (z =? 0).
Definition consumed (tape rest : list Z) : Z := Z.of_nat (length tape) - Z.of_nat (length rest).

Fixpoint picks_value (l : list (Z * Z)) : list value :=
  match l with [] => [] | (a, b) :: r => VL [VZ a; VZ b] :: picks_value r end.
Fixpoint parse_picks (l : list value) : option (list (Z * Z)) :=
  match l with
  | [] => Some []
  | VL [VZ a; VZ b] :: r => match parse_picks r with Some ps => Some ((a, b) :: ps) | None => None end
  | _ => None
  end.

Definition glue_intn (a o : list value) : option verdict :=
  match a, o with
  | [VZ n; VZ c; VZ d; VL tp], [VZ cls; VZ v; VZ ncons; VZ lastw; VZ reads] =>
      match getZs tp with
      | Some tape =>
          let exp := match rand_intn n (zb c) d tape with
                     | Ok (x, rest) => [VZ 0; VZ x; VZ (consumed tape rest)]
                     | Err => [VZ 1; VZ 0; VZ 0]
                     | Panic => [VZ 2; VZ 0; VZ 0]
                     | Hang => [VZ 3; VZ 0; VZ 0]
                     end in
          let orc := if cls =? 0 then (if n <=? 0 then false else C15_intn_ok n lastw reads v)
                     else if cls =? 2 then n <=? 0      (* a panic only for n <= 0 *)
                     else if cls =? 1 then zb c         (* an error only with a cancelled context *)
                     else false in
          Some (functional exp (if cls =? 0 then [VZ cls; VZ v; VZ ncons] else [VZ cls; VZ 0; VZ 0]) orc)
      | None => None
      end
  | _, _ => None
  end.

Definition glue_sample (a o : list value) : option verdict :=
  match a, o with
  | [VZ k; VZ n; VZ c; VZ d; VL tp], [VZ cls; VZ k'; VL pks; VZ ncons; VZ reads] =>
      match getZs tp, parse_picks pks with
      | Some tape, Some picks =>
          let exp := match sample k n (zb c) d tape with
                     | Ok (kk, ps, rest) => [VZ 0; VZ kk; VL (picks_value ps); VZ (consumed tape rest)]
                     | Err => [VZ 1; VZ 0; VL []; VZ 0]
                     | Panic => [VZ 2; VZ 0; VL []; VZ 0]
                     | Hang => [VZ 3; VZ 0; VL []; VZ 0]
                     end in
          let obs := if cls =? 0 then [VZ cls; VZ k'; VL pks; VZ ncons] else [VZ cls; VZ 0; VL []; VZ 0] in
          let orc := if cls =? 0 then (0 <=? k) && (0 <=? n) && C15_sample_ok k n k' picks reads
                     else if cls =? 2 then (k <? 0) || (n <? 0)
                     else if cls =? 1 then zb c
                     else false in
          Some (functional exp obs orc)
      | _, _ => None
      end
  | _, _ => None
  end.

(* ---- histories of rounds ---- *)
Definition parse_mode (z : Z) : pmode := if z =? 1 then PB else if z =? 2 then PF else if z =? 3 then PS else PN.
Fixpoint parse_zss (l : list value) : option (list (list Z)) :=
  match l with
  | [] => Some []
  | VL x :: r => match getZs x, parse_zss r with Some a, Some b => Some (a :: b) | _, _ => None end
  | _ => None
  end.

(* ri_pause: 3 s or more pass before the round; ri_cancel: the round is started with a cancelled context *)
Record round_in := { ri_fps : list Z; ri_d : Z; ri_tape : list Z; ri_mss : list (list pmode); ri_vss : list (list Z);
                     ri_pause : bool; ri_cancel : bool }.
Definition mk_round (f : list Z) (d : Z) (t : list Z) (m vs : list (list Z)) (flags : Z) : round_in :=
  {| ri_fps := f; ri_d := d; ri_tape := t; ri_mss := map (map parse_mode) m; ri_vss := vs;
     ri_pause := Z.odd flags; ri_cancel := Z.odd (flags / 2) |}.
(* [fps d tape modes vals] or [fps d tape modes vals flags] *)
Definition parse_round (v : value) : option round_in :=
  match v with
  | VL (VL fps :: VZ d :: VL tp :: VL mss :: VL vss :: fl) =>
      match getZs fps, getZs tp, parse_zss mss, parse_zss vss with
      | Some f, Some t, Some m, Some vs =>
          match fl with
          | [] => Some (mk_round f d t m vs 0)
          | [VZ flags] => Some (mk_round f d t m vs flags)
          | _ => None
          end
      | _, _, _, _ => None
      end
  | _ => None
  end.

(* observed of one client: [hops] resets [request forms] [filter values] post_ilv post_fp [dataplane paths];
   hops = the next hops its requests reached; dataplane paths = the offered paths whose SCION path (hop fields)
   its requests carried, named by the next hop of that offered path (a request with an empty SCION path counts
   for the next hop it reached) *)
Record cl_obs := { lo_hops : list Z; lo_resets : Z; lo_reqs : list Z; lo_vals : list Z; lo_ilv : Z; lo_fp : Z;
                   lo_dps : list Z }.
Definition parse_cl (v : value) : option cl_obs :=
  match v with
  | VL (VL h :: VZ rs :: VL rq :: VL vs :: VZ il :: VZ fp :: more) =>
      match getZs h, getZs rq, getZs vs with
      | Some h', Some rq', Some vs' =>
          match more with
          | [] => Some {| lo_hops := h'; lo_resets := rs; lo_reqs := rq'; lo_vals := vs'; lo_ilv := il; lo_fp := fp; lo_dps := h' |}
          | [VL dp] => match getZs dp with
                       | Some dp' => Some {| lo_hops := h'; lo_resets := rs; lo_reqs := rq'; lo_vals := vs'; lo_ilv := il; lo_fp := fp; lo_dps := dp' |}
                       | None => None
                       end
          | _ => None
          end
      | _, _, _ => None
      end
  | _ => None
  end.
Fixpoint parse_cls (l : list value) : option (list cl_obs) :=
  match l with
  | [] => Some []
  | v :: r => match parse_cl v, parse_cls r with Some a, Some b => Some (a :: b) | _, _ => None end
  end.

Definition zbool (b : bool) : Z := if b then 1 else 0.
Definition zlist_eqb (a b : list Z) : bool := list_eqb Z.eqb a b.

(* model's expectation for one client against what was observed; mids: identity (next hop) of every offered path *)
Definition cl_agree (mids : list Z) (hasf : bool) (m : client_obs) (o : cl_obs) : bool :=
  zlist_eqb (match co_path m with Some p => [nth p mids (-1)] | None => [] end) (lo_hops o)
  && (lo_resets o =? zbool (hasf && co_reset m))
  && zlist_eqb (map zbool (co_reqs m)) (lo_reqs o)
  && zlist_eqb (co_vals m) (lo_vals o)
  && (lo_ilv o =? zbool (in_ilv (co_post m)))
  && (lo_fp o =? ilv_path (co_post m)).

Definition idle_obs (s : cstate) (rs : bool) : client_obs :=
  {| co_path := None; co_reset := rs; co_reqs := []; co_vals := []; co_post := if rs then reset_client s else s |}.

Fixpoint mk_cobs (pre : list (bool * Z)) (olds : list bool) (hasf : list bool) (os : list cl_obs) : list cobs :=
  match pre, olds, hasf, os with
  | (il, fp) :: pre', old :: olds', f :: hasf', o :: os' =>
      {| ob_ilv := il; ob_fp := fp; ob_filter := f; ob_hops := lo_hops o; ob_resets := lo_resets o;
         ob_first := match lo_reqs o with [] => -1 | x :: _ => x end; ob_vals := lo_vals o; ob_old := old |}
      :: mk_cobs pre' olds' hasf' os'
  | _, _, _, _ => []
  end.

(* the values the clients' filters return: scripted for a client with a filter, the observed raw offsets otherwise *)
Fixpoint model_vss (hasf : list bool) (vss : list (list Z)) (os : list cl_obs) : list (list Z) :=
  match hasf, os with
  | f :: hasf', o :: os' => (if f then hd [] vss else lo_vals o) :: model_vss hasf' (tl vss) os'
  | _, _ => []
  end.

(* h_old: for the oracle, per client: 3 s or more have passed since its last accepted exchange (from the pauses
   of the history, which are inputs, and the values observed) *)
Record hacc := { h_states : option (list cstate); h_pre : list (bool * Z); h_old : list bool; h_agree : bool; h_oracle : bool;
                 h_pst : pstate; h_truth : list dpath }.

Definition hfail (a : hacc) : hacc :=
  {| h_states := None; h_pre := h_pre a; h_old := h_old a; h_agree := false; h_oracle := h_oracle a;
     h_pst := h_pst a; h_truth := h_truth a |}.

(* one round.  moff: the paths the model offers (identity, fingerprint); truth: the paths the oracle counts as
   available (identity, fingerprint) *)
Definition no_hops (os : list cl_obs) : bool :=
  forallb (fun o => match lo_hops o, lo_reqs o with [], [] => true | _, _ => false end) os.

Definition hist_step (hasf : list bool) (a : hacc) (rin : round_in) (moff truth : list dpath) (rob : list value) : hacc :=
  match rob with
  | [VL clv; VZ cls; VZ off; VZ ncons] =>
      match parse_cls clv with
      | Some os =>
          let mfps := map snd moff in
          let mids := map fst moff in
          let olds := if ri_pause rin then map (fun _ => true) (h_old a) else h_old a in
          (* every request carries the SCION path of the offered path whose next hop it is sent to *)
          let dp_ok := forallb (fun o => zlist_eqb (lo_dps o) (lo_hops o)) os in
          let orc := Nat.eqb (length os) (length (h_pre a)) && dp_ok
                     && (if ri_cancel rin
                         then (* a cancelled context: outside the property, except that the context's error
                                 (class 5) means that nobody has probed *)
                              (if cls =? 5 then no_hops os else true)
                         else C15_pather_round_ok truth (mk_cobs (h_pre a) olds hasf os) cls off) in
          (* state before the next round, for the oracle: in interleaved mode as the getter says; the path of
             its previous exchange is the one its last accepted exchange was seen on *)
          let pre' := map (fun po : (bool * Z) * cl_obs =>
                             let o := snd po in
                             (zb (lo_ilv o),
                              match lo_vals o, lo_hops o with
                              | _ :: _, [p] => let i := index_of p (map fst truth) 0 in
                                               if i <? 0 then -1 else nth (Z.to_nat i) (map snd truth) (-1)
                              | _, _ => snd (fst po)
                              end)) (combine (h_pre a) os) in
          let olds' := map (fun oo : bool * cl_obs => match lo_vals (snd oo) with [] => fst oo | _ :: _ => false end)
                           (combine olds os) in
          let vss := model_vss hasf (ri_vss rin) os in
          let '(st', agr) :=
            match h_states a with
            | None => (None, false)
            | Some cs0 =>
                let cs := if ri_pause rin then map age_client cs0 else cs0 in
                match run_round_c (ri_cancel rin) mfps cs (ri_d rin) (ri_tape rin) (ri_mss rin) vss with
                | ROk mobs moff' rest =>
                    if ri_cancel rin then (None, true)    (* the collection is cut at once: anything may be reported *)
                    else
                    (Some (map co_post mobs),
                     (cls =? 0) && (off =? moff') && (ncons =? consumed (ri_tape rin) rest)
                     && all2 (fun hm o => cl_agree mids (fst hm) (snd hm) o) (combine hasf mobs) os)
                | RNoMeas mobs rest =>
                    if ri_cancel rin then (None, true)
                    else
                    (Some (map co_post mobs),
                     (cls =? 4) && (ncons =? consumed (ri_tape rin) rest)
                     && all2 (fun hm o => cl_agree mids (fst hm) (snd hm) o) (combine hasf mobs) os)
                | RNoPath post resets rest =>
                    (Some post,
                     (cls =? 1) && (ncons =? consumed (ri_tape rin) rest)
                     && all2 (fun hm o => cl_agree mids (fst hm) (snd hm) o)
                          (combine hasf (map (fun sr : cstate * bool => idle_obs (fst sr) (snd sr)) (combine cs resets))) os)
                | RErr post resets =>
                    (Some post,
                     (cls =? 5)
                     && all2 (fun hm o => cl_agree mids (fst hm) (snd hm) o)
                          (combine hasf (map (fun sr : cstate * bool => idle_obs (fst sr) (snd sr)) (combine cs resets))) os)
                | RFail => (None, false)
                end
            end in
          {| h_states := st'; h_pre := pre'; h_old := olds'; h_agree := h_agree a && agr; h_oracle := h_oracle a && orc;
             h_pst := h_pst a; h_truth := h_truth a |}
      | None => hfail a
      end
  | _ => hfail a
  end.

(* plain histories: the offered paths are given; path k is reached through next hop k *)
Definition numbered (fps : list Z) : list dpath := combine (map Z.of_nat (seq 0 (length fps))) fps.

Fixpoint hist_run (hasf : list bool) (a : hacc) (rins : list value) (robs : list value) : hacc :=
  match rins, robs with
  | [], [] => a
  | ri :: rins', VL ro :: robs' =>
      match parse_round ri with
      | Some rin => let ps := numbered (ri_fps rin) in hist_run hasf (hist_step hasf a rin ps ps ro) rins' robs'
      | None => hfail a
      end
  | _, _ => hfail a
  end.

Fixpoint parse_cfg (l : list value) : option (list (bool * bool)) :=
  match l with
  | [] => Some []
  | VL (VZ en :: VZ hf :: _) :: r => match parse_cfg r with Some c => Some ((zb en, zb hf) :: c) | None => None end
  | _ => None
  end.

Definition hinit (c : list (bool * bool)) : hacc :=
  {| h_states := Some (map (fun eh => fresh_client (fst eh)) c);
     h_pre := map (fun _ => (false, 0)) c; h_old := map (fun _ => false) c; h_agree := true; h_oracle := true;
     h_pst := []; h_truth := [] |}.

Definition glue_hist (a o : list value) : option verdict :=
  match a, o with
  | [VL cfg; VL rins], [VL robs] =>
      match parse_cfg cfg with
      | Some c =>
          let r := hist_run (map snd c) (hinit c) rins robs in
          Some (relational (h_agree r) (h_oracle r))
      | None => None
      end
  | _, _ => None
  end.

(* ---- histories behind a Pather ---- *)
(* answers of the scripted daemon: [ia ok [fingerprints]]; the harness gives the paths of one refresh the
   identities 0, 1, 2, ... in the order of the answers that succeed *)
Fixpoint with_ids (k : Z) (fps : list Z) : list dpath :=
  match fps with [] => [] | f :: r => (k, f) :: with_ids (k + 1) r end.
Fixpoint parse_answers (k : Z) (l : list value) : option (list answer) :=
  match l with
  | [] => Some []
  | VL [VZ ia; VZ ok; VL fps] :: r =>
      match getZs fps with
      | Some f =>
          let k' := if zb ok then k + Z.of_nat (length f) else k in
          match parse_answers k' r with
          | Some rest => Some ({| an_ia := ia; an_ok := zb ok; an_paths := if zb ok then with_ids k f else [] |} :: rest)
          | None => None
          end
      | None => None
      end
  | _ => None
  end.

Fixpoint parse_offered (l : list value) : option (list dpath) :=
  match l with
  | [] => Some []
  | VL [VZ k; VZ f] :: r => match parse_offered r with Some ps => Some ((k, f) :: ps) | None => None end
  | _ => None
  end.
Fixpoint dpaths_eqb (a b : list dpath) : bool :=
  match a, b with
  | [], [] => true
  | (k, f) :: a', (k', f') :: b' => (k =? k') && (f =? f') && dpaths_eqb a' b'
  | _, _ => false
  end.

(* a round of a pather history: [refresh d tape modes vals] with refresh = [] | [liaok [answers]] *)
Definition pather_step (hasf : list bool) (dstIAs : list Z) (q : Z) (a : hacc) (ri ro : value) : hacc :=
  match ri, ro with
  | VL (VL rf :: VZ d :: VL tp :: VL mss :: VL vss :: fl), VL (VL offv :: VZ odd :: rob) =>
      match getZs tp, parse_zss mss, parse_zss vss, parse_offered offv with
      | Some t, Some m, Some vs, Some offered =>
          let rin := mk_round [] d t m vs (match fl with [VZ flags] => flags | _ => 0 end) in
          let upd := match rf with
                     | [] => Some (h_pst a, h_truth a)
                     | [VZ liaok; VL ans] =>
                         match parse_answers 0 ans with
                         | Some answers => Some (pather_update (h_pst a) (zb liaok) dstIAs answers,
                                                 truth_update (h_truth a) (zb liaok) dstIAs answers q)
                         | None => None
                         end
                     | _ => None
                     end in
          match upd with
          | Some (pst, truth) =>
              let moff := pather_paths pst q in
              let a1 := {| h_states := h_states a; h_pre := h_pre a; h_old := h_old a;
                           h_agree := h_agree a && dpaths_eqb moff offered;   (* Paths() returned what the model says *)
                           (* every lookup of the refresh came from the local IA and asked for fresh paths
                              (PathReqFlags{Refresh: true}): odd = number of lookups that did not *)
                           h_oracle := h_oracle a && (odd =? 0); h_pst := pst; h_truth := truth |} in
              hist_step hasf a1 rin moff truth rob
          | None => hfail a
          end
      | _, _, _, _ => hfail a
      end
  | _, _ => hfail a
  end.

Fixpoint pather_run (hasf : list bool) (dstIAs : list Z) (q : Z) (a : hacc) (rins robs : list value) : hacc :=
  match rins, robs with
  | [], [] => a
  | ri :: rins', ro :: robs' => pather_run hasf dstIAs q (pather_step hasf dstIAs q a ri ro) rins' robs'
  | _, _ => hfail a
  end.

Definition glue_pather (a o : list value) : option verdict :=
  match a, o with
  | [VL cfg; VL dst; VZ q; VL rins], [VL robs] =>
      match parse_cfg cfg, getZs dst with
      | Some c, Some dstIAs =>
          let r := pather_run (map snd c) dstIAs q (hinit c) rins robs in
          Some (relational (h_agree r) (h_oracle r))
      | _, _ => None
      end
  | _, _ => None
  end.

(* thorough tier, c15race: histories with two or more NTS clients per round ran under the Go race detector in a
   child process (their cases are judged as mp.hist / mp.pather); outs: did the race detector report a data race,
   did the child end abnormally otherwise *)
Definition glue_race (a o : list value) : option verdict :=
  match a, o with
  | [VZ _; VZ _; VZ _], [VZ raced; VZ crashed] => Some (relational (crashed =? 0) (raced =? 0))
  | _, _ => None
  end.

(* stat.uniform - a statistical TEST, not a proof: counts of N outcomes of the real crypto.Sample / RandIntn on
   the real crypto/rand, one count per possible outcome (M of them); Pearson's chi-square against the uniform
   distribution, sum (c_i - N/M)^2 / (N/M) = sum (M c_i - N)^2 / (M N), with the threshold at p = 1e-9 for M - 1
   degrees of freedom (M = 6: 54, 10: 64, 35: 112): a correct implementation fails once in 10^9 runs *)
Definition chi_threshold (m : Z) : Z := if m =? 6 then 54 else if m =? 10 then 64 else if m =? 35 then 112 else 0.
Definition glue_stat (a o : list value) : option verdict :=
  match a, o with
  | [VZ what; VZ k; VZ n; VZ total], [VL cv] =>
      match getZs cv with
      | Some counts =>
          let m := Z.of_nat (length counts) in
          let sum := fold_left Z.add counts 0 in
          let chi := fold_left (fun acc c => acc + (m * c - total) * (m * c - total)) counts 0 in
          Some (relational true ((sum =? total) && (0 <? chi_threshold m) && (chi <=? chi_threshold m * m * total)))
      | None => None
      end
  | _, _ => None
  end.

(* mp.service - the service's own wiring in a child process (createClocks, StartPather, MeasureClockOffset of a
   SCION reference clock with its seven clients) against the scripted daemon and peer.  All clients carry the
   same DSCP value, so a round is observed as the set of next hops that received requests and the largest
   number of requests at one next hop.  Oracle (no model): the next hops probed are paths the daemon last
   reported for the clock's IA (at a refresh that has taken effect), as many as min(7, paths) - two clients on
   one path would leave a path unused -, at most three requests each; errNoPath exactly without paths; and with
   unchanged paths the clients of a clock (all in interleaved mode after their first round) probe the same
   paths as in the clock's previous round.  odd = lookups the daemon saw without the refresh flag or with
   another source than the local IA. *)
Definition svc_clients : Z := 7.
Record svc_prev_t := { sp_truth : list dpath; sp_hops : list Z; sp_cls : Z }.
Fixpoint svc_prev (c : Z) (l : list (Z * svc_prev_t)) : option svc_prev_t :=
  match l with [] => None | (c', x) :: r => if c =? c' then Some x else svc_prev c r end.
Fixpoint form_at (h : Z) (hops forms : list Z) : Z :=
  match hops, forms with
  | x :: hr, f :: fr => if x =? h then f else form_at h hr fr
  | _, _ => -1
  end.
(* forms: per next hop the form of the first request it received (1 interleaved); recent: the clock's previous
   round ended less than 2 s ago.  Sticky clause per path: a path that the clock's previous (successful, recent)
   round probed and that is still offered is probed again, and its first request is an interleaved one - the
   client that held it goes on with it, whatever happens to the other paths and wherever that client sits in the
   clock's client list. *)
Definition svc_round_ok (truth : list dpath) (cls : Z) (hops : list Z) (maxrq : Z) (forms : option (list Z)) (recent : bool)
  (prev : option svc_prev_t) : bool :=
  let n := Z.of_nat (length truth) in
  forallb (fun h => zmem h (map fst truth)) hops && znodupb hops
  && (if n =? 0 then (cls =? 1) && Nat.eqb (length hops) 0
      else (cls =? 0) && (Z.of_nat (length hops) =? Z.min svc_clients n) && (maxrq <=? 3))
  && match prev with
     | Some pv =>
         (if dpaths_eqb (sp_truth pv) truth then zlist_eqb (sp_hops pv) hops else true)
         && match forms with
            | Some fs =>
                if recent && (sp_cls pv =? 0)
                then forallb (fun h => if zmem h (map fst truth) then zmem h hops && (form_at h hops fs =? 1) else true) (sp_hops pv)
                else true
            | None => true
            end
     | None => true
     end.
Fixpoint svc_run (prev : list (Z * svc_prev_t)) (rins robs : list value) : bool :=
  match rins, robs with
  | [], [] => true
  | VL [VZ c; VL tv] :: rins', VL (VZ cls :: VL hv :: VZ maxrq :: more) :: robs' =>
      match parse_offered tv, getZs hv with
      | Some truth, Some hops =>
          let '(forms, recent, wf) :=
            match more with
            | [] => (None, false, true)
            | [VL fv; VZ rc] => match getZs fv with
                                | Some fs => (Some fs, zb rc, Nat.eqb (length fs) (length hops))
                                | None => (None, false, false)
                                end
            | _ => (None, false, false)
            end in
          wf && svc_round_ok truth cls hops maxrq forms recent (svc_prev c prev)
          && svc_run ((c, {| sp_truth := truth; sp_hops := hops; sp_cls := cls |}) :: prev) rins' robs'
      | _, _ => false
      end
  | _, _ => false
  end.
Definition glue_service (a o : list value) : option verdict :=
  match a, o with
  | [VL rins], [VL robs; VZ odd] => Some (relational true ((odd =? 0) && negb (Nat.eqb (length rins) 0) && svc_run [] rins robs))
  | _, _ => None
  end.

(* mp.collect - collectMeasurements alone: the participants deliver in the order given, the context ends after
   `cut` deliveries.  Model: round_offset_cut.  Oracle: the midpoint over the successes delivered in time,
   errNoMeasurement without one, and the late participants are drained. *)
Fixpoint parse_arrived (l : list value) : option (list (option Z)) :=
  match l with
  | [] => Some []
  | VL [VZ ok; VZ v] :: r =>
      match parse_arrived r with Some a => Some ((if zb ok then Some v else None) :: a) | None => None end
  | _ => None
  end.
Definition glue_collect (a o : list value) : option verdict :=
  match a, o with
  | [VL av; VZ cut], [VZ n; VZ cls; VZ off; VZ drained] =>
      match parse_arrived av with
      | Some arrived =>
          let intime := measured (firstn (Z.to_nat cut) arrived) in
          let exp := match round_offset_cut arrived (Z.to_nat cut) with
                     | Some m => [VZ (Z.of_nat (length intime)); VZ 0; VZ m]
                     | None => [VZ 0; VZ 4; VZ 0]
                     end in
          let orc := (drained =? 1)
                     && match Ftm.ftm intime with
                        | Some m => (cls =? 0) && (off =? m)
                        | None => cls =? 4
                        end in
          Some (functional exp [VZ n; VZ cls; VZ off] orc)
      | None => None
      end
  | _, _ => None
  end.

Definition glue_C15 (k : string) (a o : list value) : option verdict :=
  if is k "rand.intn" then glue_intn a o
  else if is k "rand.sample" then glue_sample a o
  else if is k "mp.hist" then glue_hist a o
  else if is k "mp.pather" then glue_pather a o
  else if is k "mp.pather.dupia" then glue_pather a o
  else if is k "mp.race" then glue_race a o
  else if is k "stat.uniform" then glue_stat a o
  else if is k "mp.service" then glue_service a o
  else if is k "mp.collect" then glue_collect a o
  else None.

Definition run_case (k : string) (a o : list value) : verdict := first_some [glue_C15] k a o.
