(* Dispatcher of C06: recorded histories of the server's timestamp store are
   replayed against the model (reply fields, reported times, the client's
   stored exchanges) and the C06 property oracle; histories played against the
   real IP / SCION listeners on loopback are checked with the listener-level
   oracle and replayed on the model relationally. *)
From Coq Require Import ZArith List String Bool.
From ST Require Import Base.Ints Base.Value Model.Tss Model.TssOracle Model.TssListenerOracle Extract.GlueBase Extract.GlueTss.
Import ListNotations.
Open Scope string_scope.
Open Scope Z_scope.

(* ---- kinds lsn.hist, lsn.slowlink, lsn.fallback ----
   outs: [[cl sock qorg qrx qtx got rorg rrx rtx rref crx unread fb V W] ...] strict tolerated
   rows in the order the listener handled the requests; got = 0: no reply datagram arrived;
   fb = 1: the request reached the listener without kernel receive stamp, V W = the scripted clock
   readings; strict = 1: every failure report of the listener is attributed to its exchange;
   tolerated: failure reports that could not be attributed *)
Definition parse_wrow (v : value) : option (bool * wobs) :=
  match v with
  | VL [VZ cl; VZ sock; VZ qorg; VZ qrx; VZ qtx; VZ got; VZ rorg; VZ rrx; VZ rtx; VZ rref; VZ crx; VZ unread; VZ fb; VZ fv; VZ fw] =>
      Some (got =? 1,
            {| w_obs := {| l_cl := cl; l_q := {| q_org := qorg; q_rx := qrx; q_tx := qtx |};
                           l_org := rorg; l_rx := rrx; l_tx := rtx |};
               w_ref := rref; w_sock := sock; w_crx := crx; w_unread := unread =? 1;
               w_fb := if fb =? 1 then Some (fv, fw) else None |})
  | _ => None
  end.

Fixpoint parse_wrows (l : list value) : option (bool * list wobs) :=
  match l with
  | [] => Some (true, [])
  | v :: r =>
      match parse_wrow v, parse_wrows r with
      | Some (g, s), Some (ga, ss) => Some (g && ga, if g then s :: ss else ss)
      | _, _ => None
      end
  end.

Definition run_wire (seq : bool) (o : list value) : option (bool * bool) :=
  match o with
  | VL rowsv :: VZ strict :: VZ tol :: rest =>
      match parse_wrows rowsv with
      | Some (all_got, rows) =>
          let '(kg, ko) := match rest with
                           | [VL obs; VL exp] => run_lsn_keys obs exp     (* the store after the history *)
                           | _ => (true, true)
                           end in
          Some (all_got && C06_wire_agree seq (Z.to_nat tol) rows && kg,
                C06_lsn_ok (map w_obs rows) && C06_wire_ok (strict =? 1) rows && ko)
      | None => None
      end
  | _ => None
  end.

(* ---- tss.flood for C06: last element of outs = [exst replies probes]
   exst: newcomers that got state hold exactly the exchange of the one reply they received;
   replies: [cid org rx tx rxt now rorg rrx rtx rref rxt' txt'] the reply to every newcomer (never
   seen before: nothing is on record for it, whatever origin it names);
   probes: operations as in tss.full *)
Definition flood_reply_ok (v : value) : option (bool * bool) :=
  match v with
  | VL [VZ cid; VZ org; VZ rx; VZ tx; VZ rxt; VZ now; VZ rorg; VZ rrx; VZ rtx; VZ rref; VZ rxt'; VZ txt'] =>
      let q := {| q_org := org; q_rx := rx; q_tx := tx |} in
      let orc := C06_handle_ok [] q rxt now rorg rrx rtx rxt' txt' && C06_rxt_ok [] rxt rxt' in
      let agree := match handle real_config tss_empty cid q rxt now 0 with
                   | Some out => let r := o_reply out in
                                 (r_org r =? rorg) && (r_rx r =? rrx) && (r_tx r =? rtx) && (r_ref r =? rref) &&
                                 (o_rxt out =? rxt') && (o_txt out =? txt')
                   | None => false
                   end in
      Some (agree, orc)
  | _ => None
  end.

Fixpoint flood_replies (l : list value) : option (bool * bool) :=
  match l with
  | [] => Some (true, true)
  | v :: r =>
      match flood_reply_ok v, flood_replies r with
      | Some (g, o), Some (ga, oa) => Some (g && ga, o && oa)
      | _, _ => None
      end
  end.

Definition run_flood_c06x (o : list value) : option (bool * bool) :=
  match o with
  | [a1; a2; a3; a4; a5; a6; a7; a8; a9; a10; VL [VL exst; VL reps; VL probes; VL _]] =>
      match run_flood_c06 [a1; a2; a3; a4; a5; a6; a7; a8; a9; a10; VL exst], flood_replies reps, full_steps probes with
      | Some b, Some (g1, o1), Some (g2, o2, _) => Some (b && g1 && g2, b && o1 && o2)
      | _, _, _ => None
      end
  | _ => None
  end.

Definition glue_C06 (k : string) (a o : list value) : option verdict :=
  if is k "tss.hist" then
    let ac := run_hist false a o in
    Some (relational (a_agree06 ac && negb (a_bad ac)) (a_oracle06 ac))
  else if is k "tss.era" then   (* histories across the NTP era rollover *)
    let ac := run_hist true a o in
    Some (relational (a_agree06 ac && negb (a_bad ac)) (a_oracle06 ac))
  else if is k "tss.flood" then
    match run_flood_c06x o with
    | Some (g, orc) => Some (relational g orc)
    | None => Some (relational false true)
    end
  else if is k "tss.full" then
    match o with
    | [VL recs] => match full_steps recs with
                   | Some (g, orc, _) => Some (relational g orc)
                   | None => Some (relational false true)
                   end
    | _ => Some (relational false true)
    end
  else if is k "lsn.hist" then
    match run_wire true o with
    | Some (g, orc) => Some (relational g orc)
    | None => Some (relational false true)
    end
  else if is k "lsn.noreply" then
    (* args: variant a b c u z; observed: A answered?, the client's record after A, B's request,
       B answered?, B's reply [org rx tx ref], the client's record after B *)
    match a, o with
    | [VZ _; VZ _; VZ _; VZ _; VZ _; VZ zA],
      [VZ gotA; VL eA; VL [VZ qorg; VZ qrx; VZ qtx]; VZ gotB; VL [VZ org; VZ rx; VZ tx; VZ ref]; VL eB] =>
        match parse_pairs eA, parse_pairs eB with
        | Some entsA, Some entsB =>
            let q := {| q_org := qorg; q_rx := qrx; q_tx := qtx |} in
            Some (relational (C06_noreply_agree zA (gotA =? 1) entsA q (gotB =? 1) org rx tx ref entsB)
                             (C06_noreply_ok (gotA =? 1) entsA q (gotB =? 1) org rx tx entsB))
        | _, _ => Some (relational false true)
        end
    | _, _ => Some (relational false true)
    end
  else if is k "lsn.slowlink" || is k "lsn.fallback" then
    match run_wire false o with
    | Some (g, orc) => Some (relational g orc)
    | None => Some (relational false true)
    end
  else if is k "lsn.race" then
    (* the listeners serving many clients at once under the race detector: every client's history on its own *)
    match o with
    | [VZ status; VZ race; VL clients] =>
        let rs := map (fun c => match c with VL l => run_wire true l | _ => None end) clients in
        let g := forallb (fun r => match r with Some (g, _) => g | None => false end) rs in
        let orc := forallb (fun r => match r with Some (_, orc) => orc | None => true end) rs in
        Some (relational ((status =? 0) && (race =? 0) && g && negb (Nat.eqb (length clients) 0)) ((race =? 0) && orc))
    | _ => Some (relational false true)
    end
  else if is k "tss.conc" then
    match o with
    | [VL clients; VL counts] => let ok := run_conc clients counts in Some (relational ok ok)
    | _ => Some (relational false true)
    end
  else if is k "tss.lockdiscipline" then Some (relational true true)   (* C07's case kind *)
  else None.

Definition run_case (k : string) (a o : list value) : verdict := first_some [glue_C06] k a o.
