(* Dispatcher of C06: recorded histories of the server's timestamp store are
   replayed against the model (reply fields, reported times, the client's
   stored exchanges) and the C06 property oracle; histories played against the
   real IP / SCION listeners on loopback are checked with the listener-level
   oracle and replayed on the model relationally. *)
From Coq Require Import ZArith List String Bool.
From ST Require Import Base.Ints Base.Value Model.Tss Model.TssOracle Model.TssListenerOracle Extract.GlueBase Extract.GlueTss.
Import ListNotations.
Open Scope string_scope.
Open Scope Z_scope.

(* ---- kind lsn.hist ----
   outs: [[cl sock qorg qrx qtx got rorg rrx rtx rref] ...] oldest first; got = 0: no reply datagram arrived *)
Definition parse_lstep (v : value) : option (bool * lstep) :=
  match v with
  | VL [VZ cl; VZ sock; VZ qorg; VZ qrx; VZ qtx; VZ got; VZ rorg; VZ rrx; VZ rtx; VZ rref] =>
      Some (got =? 1,
            {| s_obs := {| l_cl := cl; l_q := {| q_org := qorg; q_rx := qrx; q_tx := qtx |};
                           l_org := rorg; l_rx := rrx; l_tx := rtx |};
               s_ref := rref; s_sock := sock |})
  | _ => None
  end.

Fixpoint parse_lsteps (l : list value) : option (bool * list lstep) :=
  match l with
  | [] => Some (true, [])
  | v :: r =>
      match parse_lstep v, parse_lsteps r with
      | Some (g, s), Some (ga, ss) => Some (g && ga, if g then s :: ss else ss)
      | _, _ => None
      end
  end.

Definition run_lsn (o : list value) : option (bool * bool) :=
  match o with
  | [VL stepsv] =>
      match parse_lsteps stepsv with
      | Some (all_got, steps) =>
          Some (all_got && C06_lsn_agree steps, C06_lsn_ok (map s_obs steps))
      | None => None
      end
  | _ => None
  end.

(* ---- kind lsn.slowlink ----
   outs: [[cl sock qorg qrx qtx got rorg rrx rtx rref crecv unread] ...] in the order the requests were sent *)
Definition parse_sstep (v : value) : option (bool * sstepr) :=
  match v with
  | VL [VZ cl; VZ _; VZ qorg; VZ qrx; VZ qtx; VZ got; VZ rorg; VZ rrx; VZ rtx; VZ rref; VZ crecv; VZ unread] =>
      Some (got =? 1,
            {| ss_obs := {| sw_obs := {| l_cl := cl; l_q := {| q_org := qorg; q_rx := qrx; q_tx := qtx |};
                                         l_org := rorg; l_rx := rrx; l_tx := rtx |};
                            sw_crecv := crecv; sw_unread := unread =? 1 |};
               ss_ref := rref |})
  | _ => None
  end.

Fixpoint parse_ssteps (l : list value) : option (bool * list sstepr) :=
  match l with
  | [] => Some (true, [])
  | v :: r =>
      match parse_sstep v, parse_ssteps r with
      | Some (g, s), Some (ga, ss) => Some (g && ga, if g then s :: ss else ss)
      | _, _ => None
      end
  end.

Definition run_slow (o : list value) : option (bool * bool) :=
  match o with
  | [VL stepsv] =>
      match parse_ssteps stepsv with
      | Some (all_got, steps) =>
          Some (all_got && C06_slow_agree steps, C06_slow_ok (map ss_obs steps))
      | None => None
      end
  | _ => None
  end.

(* ---- operations on the store at its real capacity, each with the client's item as it was in
   the real store before and after (kind tss.full, and the probes of tss.flood) ----
   handle: [0 cid org rx tx rxt now pre rorg rrx rtx rref rxt' txt' post]
   report: [1 cid rxt txt pre txt' post]
   An operation only reads and writes the item of its own client (and, for a client without an
   item, the admission decision, which is C07's): the model is run on the store that holds just
   that item. *)
Definition mini_state (cid : Z) (pre : option oitem) : tss :=
  match pre with
  | Some it =>
      {| items := [{| it_key := cid; it_ents := map (fun p => {| e_rx := fst p; e_tx := snd p |}) (oi_ents it);
                      it_qval := oi_qval it |}];
         hq := [(cid, oi_qval it)] |}
  | None => tss_empty
  end.

Definition post_agrees (m : option (Z * list (Z * Z))) (post : option oitem) : bool :=
  let '(ge, gq) := items_agree m post in ge && gq.

Definition full_step (v : value) : option (bool * bool) :=
  match v with
  | VL [VZ 0; VZ cid; VZ org; VZ rx; VZ tx; VZ rxt; VZ now; prev; VZ rorg; VZ rrx; VZ rtx; VZ rref; VZ rxt'; VZ txt'; postv] =>
      match parse_item prev, parse_item postv with
      | Some pre, Some post =>
          let q := {| q_org := org; q_rx := rx; q_tx := tx |} in
          let orc := C06_handle_ok (ents_of pre) q rxt now rorg rrx rtx rxt' txt' && pairs_ordered (ents_of post)
                     && pairs_ordered (ents_of pre) in
          let agree :=
            match handle real_config (mini_state cid pre) cid q rxt now 0 with
            | Some out =>
                let r := o_reply out in
                (r_org r =? rorg) && (r_rx r =? rrx) && (r_tx r =? rtx) && (r_ref r =? rref) &&
                (o_rxt out =? rxt') && (o_txt out =? txt') &&
                match pre, post with
                | Some _, _ => post_agrees (model_ents (o_state out) cid) post
                | None, None => true                                   (* served without state *)
                | None, Some _ => post_agrees (model_ents (o_state out) cid) post
                end
            | None => false
            end in
          Some (agree, orc)
      | _, _ => None
      end
  | VL [VZ 1; VZ cid; VZ rxt; VZ txt; prev; VZ txt'; postv] =>
      match parse_item prev, parse_item postv with
      | Some pre, Some post =>
          let orc := C06_update_ok (ents_of pre) (ents_of post) rxt txt' && pairs_ordered (ents_of post) && (rxt <? txt') in
          let out := update_tx (mini_state cid pre) cid rxt txt in
          let agree := (t_txt out =? txt') && post_agrees (model_ents (t_state out) cid) post in
          Some (agree, orc)
      | _, _ => None
      end
  | _ => None
  end.

Fixpoint full_steps (l : list value) : option (bool * bool) :=
  match l with
  | [] => Some (true, true)
  | v :: r =>
      match full_step v, full_steps r with
      | Some (g, o), Some (ga, oa) => Some (g && ga, o && oa)
      | _, _ => None
      end
  end.

(* ---- tss.flood for C06: last element of outs = [exst replies probes]
   exst: newcomers that got state hold exactly the exchange of the one reply they received;
   replies: [cid org rx tx rxt now rorg rrx rtx rref rxt' txt'] the reply to every newcomer (never
   seen before: nothing is on record for it, whatever origin it names);
   probes: operations as in tss.full *)
Definition flood_reply_ok (v : value) : option (bool * bool) :=
  match v with
  | VL [VZ cid; VZ org; VZ rx; VZ tx; VZ rxt; VZ now; VZ rorg; VZ rrx; VZ rtx; VZ rref; VZ rxt'; VZ txt'] =>
      let q := {| q_org := org; q_rx := rx; q_tx := tx |} in
      let orc := C06_handle_ok [] q rxt now rorg rrx rtx rxt' txt' in
      let agree := match handle real_config tss_empty cid q rxt now 0 with
                   | Some out => let r := o_reply out in
                                 (r_org r =? rorg) && (r_rx r =? rrx) && (r_tx r =? rtx) && (r_ref r =? rref) &&
                                 (o_rxt out =? rxt') && (o_txt out =? txt')
                   | None => false
                   end in
      Some (agree, orc)
  | _ => None
  end.

Fixpoint flood_replies (l : list value) : option (bool * bool) :=
  match l with
  | [] => Some (true, true)
  | v :: r =>
      match flood_reply_ok v, flood_replies r with
      | Some (g, o), Some (ga, oa) => Some (g && ga, o && oa)
      | _, _ => None
      end
  end.

Definition run_flood_c06x (o : list value) : option (bool * bool) :=
  match o with
  | [a1; a2; a3; a4; a5; a6; a7; a8; a9; a10; VL [VL exst; VL reps; VL probes; VL _]] =>
      match run_flood_c06 [a1; a2; a3; a4; a5; a6; a7; a8; a9; a10; VL exst], flood_replies reps, full_steps probes with
      | Some b, Some (g1, o1), Some (g2, o2) => Some (b && g1 && g2, b && o1 && o2)
      | _, _, _ => None
      end
  | _ => None
  end.

Definition glue_C06 (k : string) (a o : list value) : option verdict :=
  if is k "tss.hist" then
    let ac := run_hist a o in
    Some (relational (a_agree06 ac && negb (a_bad ac)) (a_oracle06 ac))
  else if is k "tss.flood" then
    match run_flood_c06x o with
    | Some (g, orc) => Some (relational g orc)
    | None => Some (relational false true)
    end
  else if is k "tss.full" then
    match o with
    | [VL recs] => match full_steps recs with
                   | Some (g, orc) => Some (relational g orc)
                   | None => Some (relational false true)
                   end
    | _ => Some (relational false true)
    end
  else if is k "lsn.hist" then
    match run_lsn o with
    | Some (g, orc) => Some (relational g orc)
    | None => Some (relational false true)
    end
  else if is k "lsn.slowlink" then
    match run_slow o with
    | Some (g, orc) => Some (relational g orc)
    | None => Some (relational false true)
    end
  else if is k "tss.lockdiscipline" then Some (relational true true)   (* C07's case kind *)
  else None.

Definition run_case (k : string) (a o : list value) : verdict := first_some [glue_C06] k a o.
