(* Dispatcher of C06: recorded histories of the server's timestamp store are
   replayed against the model (reply fields, reported times, the client's
   stored exchanges) and the C06 property oracle. *)
From Coq Require Import ZArith List String Bool.
From ST Require Import Base.Ints Base.Value Model.Tss Model.TssOracle Extract.GlueBase Extract.GlueTss.
Import ListNotations.
Open Scope string_scope.

Definition glue_C06 (k : string) (a o : list value) : option verdict :=
  if is k "tss.hist" then
    let ac := run_hist a o in
    Some (relational (a_agree06 ac && negb (a_bad ac)) (a_oracle06 ac))
  else if is k "tss.flood" then
    match run_flood_c06 o with
    | Some b => Some (relational b b)
    | None => Some (relational false true)
    end
  else if is k "tss.lockdiscipline" then Some (relational true true)   (* C07's case kind *)
  else None.

Definition run_case (k : string) (a o : list value) : verdict := first_some [glue_C06] k a o.
