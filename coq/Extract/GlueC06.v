(* Dispatcher of C06: recorded histories of the server's timestamp store are
   replayed against the model (reply fields, reported times, the client's
   stored exchanges) and the C06 property oracle; histories played against the
   real IP / SCION listeners on loopback are checked with the listener-level
   oracle and replayed on the model relationally. *)
From Coq Require Import ZArith List String Bool.
From ST Require Import Base.Ints Base.Value Model.Tss Model.TssOracle Model.TssListenerOracle Extract.GlueBase Extract.GlueTss.
Import ListNotations.
Open Scope string_scope.
Open Scope Z_scope.

(* ---- kinds lsn.hist, lsn.slowlink, lsn.fallback ----
   outs: [[cl sock qorg qrx qtx got rorg rrx rtx rref crx unread fb V W] ...] strict tolerated
   rows in the order the listener handled the requests; got = 0: no reply datagram arrived;
   fb = 1: the request reached the listener without kernel receive stamp, V W = the scripted clock
   readings; strict = 1: every failure report of the listener is attributed to its exchange;
   tolerated: failure reports that could not be attributed *)
Definition parse_wrow (v : value) : option (bool * wobs) :=
  match v with
  | VL [VZ cl; VZ sock; VZ qorg; VZ qrx; VZ qtx; VZ got; VZ rorg; VZ rrx; VZ rtx; VZ rref; VZ crx; VZ unread; VZ fb; VZ fv; VZ fw] =>
      Some (got =? 1,
            {| w_obs := {| l_cl := cl; l_q := {| q_org := qorg; q_rx := qrx; q_tx := qtx |};
                           l_org := rorg; l_rx := rrx; l_tx := rtx |};
               w_ref := rref; w_sock := sock; w_crx := crx; w_unread := unread =? 1;
               w_fb := if fb =? 1 then Some (fv, fw) else None |})
  | _ => None
  end.

Fixpoint parse_wrows (l : list value) : option (bool * list wobs) :=
  match l with
  | [] => Some (true, [])
  | v :: r =>
      match parse_wrow v, parse_wrows r with
      | Some (g, s), Some (ga, ss) => Some (g && ga, if g then s :: ss else ss)
      | _, _ => None
      end
  end.

Definition run_wire (seq : bool) (o : list value) : option (bool * bool) :=
  match o with
  | [VL rowsv; VZ strict; VZ tol] =>
      match parse_wrows rowsv with
      | Some (all_got, rows) =>
          Some (all_got && C06_wire_agree seq (Z.to_nat tol) rows,
                C06_lsn_ok (map w_obs rows) && C06_wire_ok (strict =? 1) rows)
      | None => None
      end
  | _ => None
  end.

(* ---- operations on the store at its real capacity, each with the client's item as it was in
   the real store before and after (kind tss.full, and the probes of tss.flood) ----
   handle: [0 cid org rx tx rxt now pre rorg rrx rtx rref rxt' txt' post]
   report: [1 cid rxt txt pre txt' post]
   An operation only reads and writes the item of its own client (and, for a client without an
   item, the admission decision, which is C07's): the model is run on the store that holds just
   that item. *)
Definition mini_state (cid : Z) (pre : option oitem) : tss :=
  match pre with
  | Some it =>
      {| items := [{| it_key := cid; it_ents := map (fun p => {| e_rx := fst p; e_tx := snd p |}) (oi_ents it);
                      it_qval := oi_qval it |}];
         hq := [(cid, oi_qval it)] |}
  | None => tss_empty
  end.

Definition post_agrees (m : option (Z * list (Z * Z))) (post : option oitem) : bool :=
  let '(ge, gq) := items_agree m post in ge && gq.

Definition full_step (v : value) : option (bool * bool) :=
  match v with
  | VL [VZ 0; VZ cid; VZ org; VZ rx; VZ tx; VZ rxt; VZ now; prev; VZ rorg; VZ rrx; VZ rtx; VZ rref; VZ rxt'; VZ txt'; postv] =>
      match parse_item prev, parse_item postv with
      | Some pre, Some post =>
          let q := {| q_org := org; q_rx := rx; q_tx := tx |} in
          let orc := C06_handle_full_ok (ents_of pre) q rxt now rorg rrx rtx rxt' txt' (option_map oi_ents post) && pairs_ordered (ents_of post)
                     && pairs_ordered (ents_of pre) in
          let agree :=
            match handle real_config (mini_state cid pre) cid q rxt now 0 with
            | Some out =>
                let r := o_reply out in
                (r_org r =? rorg) && (r_rx r =? rrx) && (r_tx r =? rtx) && (r_ref r =? rref) &&
                (o_rxt out =? rxt') && (o_txt out =? txt') &&
                match pre, post with
                | Some _, _ => post_agrees (model_ents (o_state out) cid) post
                | None, None => true                                   (* served without state *)
                | None, Some _ => post_agrees (model_ents (o_state out) cid) post
                end
            | None => false
            end in
          Some (agree, orc)
      | _, _ => None
      end
  | VL [VZ 1; VZ cid; VZ rxt; VZ txt; prev; VZ txt'; postv] =>
      match parse_item prev, parse_item postv with
      | Some pre, Some post =>
          let orc := C06_update_ok (ents_of pre) (ents_of post) rxt txt' && pairs_ordered (ents_of post) && (rxt <? txt') in
          let out := update_tx (mini_state cid pre) cid rxt txt in
          let agree := (t_txt out =? txt') && post_agrees (model_ents (t_state out) cid) post in
          Some (agree, orc)
      | _, _ => None
      end
  | _ => None
  end.

Fixpoint full_steps (l : list value) : option (bool * bool) :=
  match l with
  | [] => Some (true, true)
  | v :: r =>
      match full_step v, full_steps r with
      | Some (g, o), Some (ga, oa) => Some (g && ga, o && oa)
      | _, _ => None
      end
  end.

(* ---- tss.flood for C06: last element of outs = [exst replies probes]
   exst: newcomers that got state hold exactly the exchange of the one reply they received;
   replies: [cid org rx tx rxt now rorg rrx rtx rref rxt' txt'] the reply to every newcomer (never
   seen before: nothing is on record for it, whatever origin it names);
   probes: operations as in tss.full *)
Definition flood_reply_ok (v : value) : option (bool * bool) :=
  match v with
  | VL [VZ cid; VZ org; VZ rx; VZ tx; VZ rxt; VZ now; VZ rorg; VZ rrx; VZ rtx; VZ rref; VZ rxt'; VZ txt'] =>
      let q := {| q_org := org; q_rx := rx; q_tx := tx |} in
      let orc := C06_handle_ok [] q rxt now rorg rrx rtx rxt' txt' && C06_rxt_ok [] rxt rxt' in
      let agree := match handle real_config tss_empty cid q rxt now 0 with
                   | Some out => let r := o_reply out in
                                 (r_org r =? rorg) && (r_rx r =? rrx) && (r_tx r =? rtx) && (r_ref r =? rref) &&
                                 (o_rxt out =? rxt') && (o_txt out =? txt')
                   | None => false
                   end in
      Some (agree, orc)
  | _ => None
  end.

Fixpoint flood_replies (l : list value) : option (bool * bool) :=
  match l with
  | [] => Some (true, true)
  | v :: r =>
      match flood_reply_ok v, flood_replies r with
      | Some (g, o), Some (ga, oa) => Some (g && ga, o && oa)
      | _, _ => None
      end
  end.

Definition run_flood_c06x (o : list value) : option (bool * bool) :=
  match o with
  | [a1; a2; a3; a4; a5; a6; a7; a8; a9; a10; VL [VL exst; VL reps; VL probes; VL _]] =>
      match run_flood_c06 [a1; a2; a3; a4; a5; a6; a7; a8; a9; a10; VL exst], flood_replies reps, full_steps probes with
      | Some b, Some (g1, o1), Some (g2, o2) => Some (b && g1 && g2, b && o1 && o2)
      | _, _, _ => None
      end
  | _ => None
  end.

Definition glue_C06 (k : string) (a o : list value) : option verdict :=
  if is k "tss.hist" then
    let ac := run_hist a o in
    Some (relational (a_agree06 ac && negb (a_bad ac)) (a_oracle06 ac))
  else if is k "tss.flood" then
    match run_flood_c06x o with
    | Some (g, orc) => Some (relational g orc)
    | None => Some (relational false true)
    end
  else if is k "tss.full" then
    match o with
    | [VL recs] => match full_steps recs with
                   | Some (g, orc) => Some (relational g orc)
                   | None => Some (relational false true)
                   end
    | _ => Some (relational false true)
    end
  else if is k "lsn.hist" then
    match run_wire true o with
    | Some (g, orc) => Some (relational g orc)
    | None => Some (relational false true)
    end
  else if is k "lsn.slowlink" || is k "lsn.fallback" then
    match run_wire false o with
    | Some (g, orc) => Some (relational g orc)
    | None => Some (relational false true)
    end
  else if is k "tss.lockdiscipline" then Some (relational true true)   (* C07's case kind *)
  else None.

Definition run_case (k : string) (a o : list value) : verdict := first_some [glue_C06] k a o.
