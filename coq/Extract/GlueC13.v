(* Dispatcher of C13: histories of datagrams sent to the real SCION listener /
   dispatcher and scripted exchanges of the real SCION client are replayed
   against the model (Model/ScionGlue.v) and the property oracle
   (Model/ScionGlueOracle.v).

   Oracle answers supplied by the harness: the projection of every datagram as
   the listener's own parser configuration decodes it, Path.Reverse() of its
   path, the MAC recomputed with spao.ComputeAuthCMAC under the mock key for
   its first authenticator option.  The model's queries are checked against
   what the answers were computed for: [reverse] answers only for the path of
   the request, [mac] only for the MAC inputs of the datagrams the answers
   belong to. *)
From Coq Require Import ZArith List String Bool.
From ST Require Import Base.Ints Base.Value Model.ScionGlue Model.ScionGlueOracle Model.DrkeyCache Model.SvcSpao Extract.GlueBase.
Import ListNotations.
Open Scope list_scope.
Open Scope Z_scope.

Definition dflt_hdr : hdr := mkHdr 0 0 0 0 [] [] 0 [] 0 0 0.
Definition dflt_rx : rx := mkRx false [] dflt_hdr [] NoL4 0 false.

Definition parse_hdr (v : value) : option hdr :=
  match v with
  | VL [VZ di; VZ si; VZ dt; VZ st; VB dr; VB sr; VZ pt; VB p; VZ tc; VZ fl; VZ nx] =>
      Some (mkHdr di si dt st dr sr pt p tc fl nx)
  | VL [] => Some dflt_hdr
  | _ => None
  end.

Fixpoint parse_opts (l : list value) : option (list opt) :=
  match l with
  | [] => Some []
  | VL [VZ t; VB d] :: r =>
      match parse_opts r with
      | Some os => Some (if (t =? 0) || (t =? 1) then os else mkOpt t d :: os)   (* padding is the serialiser's *)
      | None => None
      end
  | _ => None
  end.

Definition parse_l4 (v : value) : option (l4 * bool) :=
  match v with
  | VL [] => Some (NoL4, false)
  | VL [VZ 0; VZ s; VZ d; VZ n; VB p; VZ nok] => Some (Udp s d n p, negb (nok =? 0))
  | VL [VZ 1; VZ t; VZ c; VB p] => Some (Scmp t c p, false)
  | _ => None
  end.

Definition parse_rev (v : value) : option (option (Z * bytes)) :=
  match v with
  | VL [] => Some None
  | VL [VZ t; VB p] => Some (Some (t, p))
  | _ => None
  end.

Record pview := mkPview { pv_rx : rx; pv_rev : option (Z * bytes); pv_mac : bytes }.

Definition parse_view (v : value) : option pview :=
  match v with
  | VL [VZ ok; VL layers; h; VL opts; l; VZ buflen; rev; VB m] =>
      match getZs layers, parse_hdr h, parse_opts opts, parse_l4 l, parse_rev rev with
      | Some ls, Some hd, Some os, Some (l4v, nok), Some rv =>
          Some (mkPview (mkRx (negb (ok =? 0)) ls hd os l4v buflen nok) rv m)
      | _, _, _, _, _ => None
      end
  | _ => None
  end.

Fixpoint parse_obs (l : list value) : option (list (Z * pview)) :=
  match l with
  | [] => Some []
  | VL [VZ s; v] :: r =>
      match parse_view v, parse_obs r with
      | Some p, Some ps => Some ((s, p) :: ps)
      | _, _ => None
      end
  | _ => None
  end.

Fixpoint parse_socks (l : list value) : option (list (bytes * Z)) :=
  match l with
  | [] => Some []
  | VL [VB h; VZ p] :: r => match parse_socks r with Some ss => Some ((h, p) :: ss) | None => None end
  | _ => None
  end.

(* ---- equality on the observables ---- *)
Definition hdr_eqb (a b : hdr) : bool :=
  (h_dst_ia a =? h_dst_ia b) && (h_src_ia a =? h_src_ia b) && (h_dst_type a =? h_dst_type b) && (h_src_type a =? h_src_type b)
  && bytes_eqb (h_dst_raw a) (h_dst_raw b) && bytes_eqb (h_src_raw a) (h_src_raw b)
  && (h_path_type a =? h_path_type b) && bytes_eqb (h_path a) (h_path b)
  && (h_tc a =? h_tc b) && (h_flow a =? h_flow b) && (h_next a =? h_next b).

Fixpoint opts_eqb (a b : list opt) : bool :=
  match a, b with
  | [], [] => true
  | x :: a', y :: b' => (o_type x =? o_type y) && bytes_eqb (o_data x) (o_data y) && opts_eqb a' b'
  | _, _ => false
  end.

Definition macin_eqb (a b : macin) : bool :=
  (mi_spi a =? mi_spi b) && (mi_algo a =? mi_algo b) && bytes_eqb (mi_tssn a) (mi_tssn b)
  && (mi_tc a =? mi_tc b) && (mi_flow a =? mi_flow b) && (mi_path_type a =? mi_path_type b)
  && (mi_dst_type a =? mi_dst_type b) && (mi_src_type a =? mi_src_type b) && bytes_eqb (mi_path a) (mi_path b)
  && (mi_pld_type a =? mi_pld_type b) && (mi_src_port a =? mi_src_port b) && (mi_dst_port a =? mi_dst_port b)
  && (mi_len a =? mi_len b) && bytes_eqb (mi_payload a) (mi_payload b).

Definition has_layer (t : Z) (q : rx) : bool := existsb (fun l => l =? t) (rx_layers q).

(* the datagram [r] is what the serialiser makes of [t] *)
Definition tx_matches (t : tx) (r : rx) : bool :=
  rx_ok r && hdr_eqb (tx_hdr t) (rx_hdr r) &&
  match tx_e2e t with
  | Some os => has_layer LT_E2E r && opts_eqb os (rx_opts r)
  | None => negb (has_layer LT_E2E r)
  end &&
  match tx_l4 t, rx_l4 r with
  | Udp s d n p, Udp s' d' n' p' => (s =? s') && (d =? d') && bytes_eqb p p' && (n' =? 8 + zlen p') && (last_layer (rx_layers r) =? LT_UDP)
  | Scmp ty c p, Scmp ty' c' p' => (ty =? ty') && (c =? c') && bytes_eqb p p' && (last_layer (rx_layers r) =? LT_SCMP)
  | _, _ => false
  end.

(* ---- the oracles' answers ---- *)
Definition zero_key : bytes := repeat 0 16.

Definition mac_entry (p : pview) : list (macin * bytes) :=
  match find_opt OPT_AUTH (rx_opts (pv_rx p)) with
  | Some o => [(macin_rx o (pv_rx p), pv_mac p)]
  | None => []
  end.

Fixpoint mac_lookup (tbl : list (macin * bytes)) (mi : macin) : bytes :=
  match tbl with
  | [] => [-1]          (* a query nobody computed an answer for *)
  | (m, a) :: r => if macin_eqb m mi then a else mac_lookup r mi
  end.

Definition count_ts (os : list opt) : Z := zlen (filter (fun o => o_type o =? OPT_TIMESTAMP) os).

Definition last_ts (os : list opt) : bytes :=
  match rev (filter (fun o => o_type o =? OPT_TIMESTAMP) os) with o :: _ => o_data o | [] => [] end.

Fixpoint parse_kreqs (l : list value) : option (list kreq) :=
  match l with
  | [] => Some []
  | VL [VZ hh; VZ p; VZ f; VZ sl; VB fh; VB sh; VZ ok] :: r =>
      match parse_kreqs r with
      | Some ks => Some (mkKreq (negb (hh =? 0)) p f sl fh sh (negb (ok =? 0)) :: ks)
      | None => None
      end
  | _ => None
  end.

Definition scfg_of (listener lp dscp : Z) : scfg :=
  if listener =? 0 then mkScfg lp lp dscp true
  else if listener =? 1 then mkScfg lp endhost_port dscp true
  else mkScfg endhost_port endhost_port 0 false.

(* keyok: the DRKey daemon hands out a key for this request; epochok: of the current epoch
   (looked at by the strict kind only) *)
Definition srv_step (strict scmpstrict keyok epochok : bool) (kreqs : list kreq) (lp dscp : Z) (socks : list (bytes * Z)) (listener sender : Z) (q : pview) (obs : list (Z * pview)) (nsent : Z)
  : bool * bool :=
  let c := scfg_of listener lp dscp in
  let qr := pv_rx q in
  let tbl := mac_entry q ++ flat_map (fun o => mac_entry (snd o)) obs in
  let macf := fun (_ : bytes) mi => mac_lookup tbl mi in
  let revf := fun (p : Z * bytes) =>
                if (fst p =? h_path_type (rx_hdr qr)) && bytes_eqb (snd p) (h_path (rx_hdr qr)) then pv_rev q else None in
  (* the key source answers the model only if the model asks for what the real listener asked the
     daemon for (a cache hit leaves nothing to compare) *)
  let keyf := fun (kr : keyreq) =>
    if keyok && forallb (fun r => (kq_fast_ia r =? kr_fast_ia kr) && (kq_slow_ia r =? kr_slow_ia kr) &&
                                  bytes_eqb (kq_fast_host r) (kr_fast_host kr)) kreqs
    then Some zero_key else None in
  let first := match obs with (_, p) :: _ => Some (pv_rx p) | [] => None end in
  let ntpf := fun (_ : bytes) => match first with Some r => match rx_l4 r with Udp _ _ _ p => p | _ => [] end | None => [] end in
  (* whether the kernel delivered a receive timestamp (then the forwarded packet
     carries it as an extra option) is free: both possibilities are tried *)
  let oob := match first with Some r => last_ts (rx_opts r) | None => [] end in
  let agree_of := fun act =>
    match act with
    | Drop _ => match obs with [] => true | _ => false end
    | Send ToLastHop t =>
        match obs with [(s, p)] => (s =? sender) && tx_matches t (pv_rx p) | _ => false end
    | Send (ToHostPort h port) t =>
        match sock_index socks h port 0 with
        | Some i => match obs with [(s, p)] => (s =? i) && tx_matches t (pv_rx p) | _ => false end
        | None => match obs with [] => true | _ => false end
        end
    end in
  let agree := (nsent =? 1) &&
    (agree_of (server_step macf revf keyf ntpf c qr oob) || agree_of (server_step macf revf keyf ntpf c qr [])) in
  (* nsent = -1: the answer to the sentinel (a plain request whose SCION source is a harness
     socket) arrived at that socket instead of at the previous hop *)
  let sobs_ := map (fun o => mkSobs (fst o) (pv_rx (snd o)) (pv_mac (snd o))) obs in
  let oracle := negb (nsent =? -1) &&
                (if keyok || negb (s_fetcher c)
                 then C13_srv_ok (s_local_port c) (s_conn_port c) (s_fetcher c) socks sender qr (pv_mac q) (pv_rev q) sobs_
                 else C13_srv_nokey_ok (s_local_port c) (s_conn_port c) socks sender qr (pv_rev q) sobs_) &&
                (if strict && s_fetcher c then C13_srv_strict_ok (s_local_port c) epochok qr sobs_ else true) &&
                forallb (srv_keyreq_ok qr) kreqs && (zlen kreqs <=? 1) &&
                C13_srv_fwdext_ok (s_local_port c) qr sobs_ &&
                C13_srv_maclen_ok (s_fetcher c) (s_local_port c) qr sobs_ &&
                (if scmpstrict then C13_srv_scmpauth_ok (s_fetcher c) qr (pv_mac q) sobs_ else true) in
  (agree, oracle).

Fixpoint srv_steps (strict scmpstrict : bool) (lp dscp : Z) (socks : list (bytes * Z)) (ins outs : list value) : option (bool * bool) :=
  match ins, outs with
  | [], [] => Some (true, true)
  | VL [VZ listener; VZ sender; VB _] :: ins', VL (qv :: VL obsv :: VZ nsent :: flags) :: outs' =>
      match parse_view qv, parse_obs obsv, srv_steps strict scmpstrict lp dscp socks ins' outs',
            match flags with
            | [] => Some (true, true, [])
            | [VZ k; VZ e] => Some (negb (k =? 0), negb (e =? 0), [])
            | [VZ k; VZ e; VL rs] => match parse_kreqs rs with Some l => Some (negb (k =? 0), negb (e =? 0), l) | None => None end
            | _ => None
            end with
      | Some q, Some obs, Some (a, o), Some (keyok, epochok, kreqs) =>
          let '(a1, o1) := srv_step strict scmpstrict keyok epochok kreqs lp dscp socks listener sender q obs nsent in
          Some (a1 && a, o1 && o)
      | _, _, _, _ => None
      end
  | _, _ => None
  end.

Definition srv_case (strict scmpstrict : bool) (a o : list value) : verdict :=
  match a, o with
  | [VL ins], [VZ 0; VL [VZ lp; VZ dscp; VZ _; VL socksv]; VL outs] =>
      match parse_socks socksv with
      | Some socks =>
          match srv_steps strict scmpstrict lp dscp socks ins outs with
          | Some (ag, orc) => relational ag orc
          | None => relational false true
          end
      | None => relational false true
      end
  | _, VZ 1 :: _ => relational false false       (* the process running the listeners died *)
  | _, _ => relational false true
  end.

(* ---- client ---- *)
(* args: [auth_enabled script]; outs: [status [local_ia local_host remote_ia remote_host] exchanges]
   exchange = [request-view [[response-view ntp-class] ...] result]; result = [0 index authenticated] | [1 class] | [2] *)
Fixpoint parse_resps (l : list value) : option (list (pview * Z)) :=
  match l with
  | [] => Some []
  | VL [v; VZ n] :: r =>
      match parse_view v, parse_resps r with
      | Some p, Some ps => Some ((p, n) :: ps)
      | _, _ => None
      end
  | _ => None
  end.

Definition cli_exchange (wanted auth : bool) (lia : Z) (lh : bytes) (ria : Z) (rh : bytes) (v : value) : option (bool * bool) :=
  match v with
  | VL [reqv; VL respsv; VL res] =>
      match parse_view reqv, parse_resps respsv with
      | Some req, Some resps =>
          let tbl := flat_map (fun r => mac_entry (fst r)) resps in
          let macf := fun (_ : bytes) mi => mac_lookup tbl mi in
          let c := mkCcfg (if auth then Some zero_key else None) lia lh ria rh wanted in
          let m := client_run macf c false 0 (map (fun r => (pv_rx (fst r), snd r)) resps) in
          let agree :=
            match m, res with
            | CAccept i a, VZ 0 :: VZ j :: VZ b :: _ => (Z.of_nat i =? j) && Bool.eqb a (negb (b =? 0))
            | CErr _ cls, [VZ 1; VZ c'] => cls =? c'
            | CTimeout, [VZ 2] => true
            | _, _ => false
            end in
          let accepted := match res with VZ 0 :: VZ j :: VZ _ :: _ => Some (Z.to_nat j) | _ => None end in
          let oracle := C13_cli_ok auth (pv_rx req) (pv_mac req) (map (fun r => (pv_rx (fst r), pv_mac (fst r))) resps) accepted
                        && C13_cli_from_queried_ok lia lh ria rh (map (fun r => (pv_rx (fst r), pv_mac (fst r))) resps) accepted in
          Some (agree, oracle)
      | _, _ => None
      end
  | _ => None
  end.

Fixpoint cli_exchanges (wanted auth : bool) (lia : Z) (lh : bytes) (ria : Z) (rh : bytes) (l : list value) : option (bool * bool) :=
  match l with
  | [] => Some (true, true)
  | v :: r =>
      match cli_exchange wanted auth lia lh ria rh v, cli_exchanges wanted auth lia lh ria rh r with
      | Some (a1, o1), Some (a, o) => Some (a1 && a, o1 && o)
      | _, _ => None
      end
  end.

Definition cli_case (a o : list value) : verdict :=
  match a, o with
  | VZ auth :: _, [VZ 0; VL [VZ lia; VB lh; VZ ria; VB rh]; VL exs] =>
      match cli_exchanges (negb (auth =? 0)) (negb (auth =? 0)) lia lh ria rh exs with
      | Some (ag, orc) => relational ag orc
      | None => relational false true
      end
  | _, VZ 1 :: _ => relational false false
  | _, _ => relational false true
  end.

(* keyed client: args = scenario :: auth-enabled :: ..; outs cfg = [lia lh]; every exchange carries
   [ria rh keyok epochok requests]: the server queried in this measurement, whether the daemon
   hands out a key for the pair (of the current epoch), and what the client asked the daemon.
   The client holds a key iff it is configured to authenticate and the daemon hands one out. *)
Fixpoint cli_keyed_exchanges (strict wanted : bool) (lia : Z) (lh : bytes) (l : list value) : option (bool * bool) :=
  match l with
  | [] => Some (true, true)
  | VL [reqv; VL respsv; VL res; VL [VZ ria; VB rh; VZ keyok; VZ epochok; VL rs]] :: r =>
      let keyok := negb (keyok =? 0) in
      match cli_exchange wanted (wanted && keyok) lia lh ria rh (VL [reqv; VL respsv; VL res]), parse_resps respsv, parse_kreqs rs,
            cli_keyed_exchanges strict wanted lia lh r with
      | Some (a1, o1), Some resps, Some kreqs, Some (a, o) =>
          let accepted := match res with VZ 0 :: VZ j :: VZ _ :: _ => Some (Z.to_nat j) | _ => None end in
          let so := if strict then C13_cli_strict_ok wanted keyok (negb (epochok =? 0))
                                     (map (fun r => (pv_rx (fst r), pv_mac (fst r))) resps) accepted else true in
          (* the model's client fetches the key once per measurement when authentication is enabled, never otherwise *)
          let fetch_agree := zlen kreqs =? (if wanted then 1 else 0) in
          (* the timestamps handed to the filter are those of accepted responses (this one's, or in
             interleaved mode the previously accepted one's receive timestamp): decided by the harness *)
          let tsok := match res with [VZ 0; VZ _; VZ _; VZ t] => negb (t =? 0) | [VZ 8] => false | _ => true end in
          let nk := C13_cli_nokey_ok wanted keyok (map (fun r => (pv_rx (fst r), pv_mac (fst r))) resps) accepted in
          Some (a1 && fetch_agree && a, o1 && forallb (cli_keyreq_ok lia lh ria rh) kreqs && so && tsok && nk && o)
      | _, _, _, _ => None
      end
  | _ => None
  end.

Definition cli_keyed_case (strict : bool) (a o : list value) : verdict :=
  match a, o with
  | VZ _ :: VZ auth :: _, [VZ 0; VL [VZ lia; VB lh]; VL exs] =>
      match cli_keyed_exchanges strict (negb (auth =? 0)) lia lh exs with
      | Some (ag, orc) => relational ag orc
      | None => relational false true
      end
  | _, VZ 1 :: _ => relational false false
  | _, _ => relational false true
  end.

(* ---- the key cache: calls [proto srcIA dstIA host time], observations [asked answer result] ---- *)
Definition parse_hak (v : value) : option (option hakey) :=
  match v with
  | VL [] => Some None
  | VL [VZ p; VZ s; VZ d; VB h; VZ nb; VZ na; VB k] => Some (Some (mkHak p s d h nb na k))
  | _ => None
  end.

Definition hak_eqb (a b : option hakey) : bool :=
  match a, b with
  | None, None => true
  | Some x, Some y => (k_proto x =? k_proto y) && (k_src_ia x =? k_src_ia y) && (k_dst_ia x =? k_dst_ia y) &&
                      bytes_eqb (k_src_host x) (k_src_host y) && (k_nb x =? k_nb y) && (k_na x =? k_na y) && bytes_eqb (k_key x) (k_key y)
  | _, _ => false
  end.

(* oracle, from the property: a key that is used is the key of the request (protocol, both ASes,
   server host) for an epoch that contains the time asked for, with the bytes the daemon has for it *)
Definition cache_res_ok (m : hameta) (ans res : option hakey) : bool :=
  match res with
  | None => true
  | Some k => (k_proto k =? m_proto m) && (k_src_ia k =? m_src_ia m) && (k_dst_ia k =? m_dst_ia m) &&
              bytes_eqb (k_src_host k) (m_src_host m) && (k_nb k <=? m_time m) && (m_time m <=? k_na k) &&
              match ans with
              | Some a => if (k_nb a =? k_nb k) then bytes_eqb (k_key a) (k_key k) else (m_time m =? k_na k)
              | None => false     (* the daemon has no key for this request *)
              end
  end.

Fixpoint cache_steps (c : kcache) (ins outs : list value) : option (bool * bool) :=
  match ins, outs with
  | [], [] => Some (true, true)
  | VL [VZ p; VZ s; VZ d; VB h; VZ t] :: ins', VL [VZ asked; ansv; resv] :: outs' =>
      match parse_hak ansv, parse_hak resv with
      | Some ans, Some res =>
          let m := mkMeta p s d h t in
          let '(c', masked, mres) := kfetch (fun _ => ans) c m in
          match cache_steps c' ins' outs' with
          | Some (a, o) => Some (Bool.eqb masked (negb (asked =? 0)) && (asked <=? 1) && hak_eqb mres res && a, cache_res_ok m ans res && o)
          | None => None
          end
      | _, _ => None
      end
  | _, _ => None
  end.

Definition cache_case (a o : list value) : verdict :=
  match a, o with
  | [VL ins], [VZ 0; VL outs] =>
      match cache_steps [] ins outs with
      | Some (ag, orc) => relational ag orc
      | None => relational false true
      end
  | _, _ => relational false true
  end.

(* ---- service wiring: args [modes nrefs npeers]; outs [finished [[peer [[auth drkey fetcher] ...]] ...]] ---- *)
Fixpoint parse_svcclients (l : list value) : option (list svcclient) :=
  match l with
  | [] => Some []
  | VL [VZ a; VZ d; VZ f] :: r =>
      match parse_svcclients r with Some cs => Some (mkSvcclient (negb (a =? 0)) (negb (d =? 0)) f :: cs) | None => None end
  | _ => None
  end.

Fixpoint parse_svcclocks (l : list value) : option (list svcclock) :=
  match l with
  | [] => Some []
  | VL [VZ p; VL cl] :: r =>
      match parse_svcclients cl, parse_svcclocks r with
      | Some cs, Some ks => Some (mkSvcclock (negb (p =? 0)) cs :: ks)
      | _, _ => None
      end
  | _ => None
  end.

Definition svcclient_eqb (a b : svcclient) : bool :=
  Bool.eqb (sc_auth a) (sc_auth b) && Bool.eqb (sc_drkey a) (sc_drkey b) && Bool.eqb (sc_fetcher a =? 0) (sc_fetcher b =? 0).

Fixpoint list_eqb {A} (f : A -> A -> bool) (a b : list A) : bool :=
  match a, b with
  | [], [] => true
  | x :: a', y :: b' => f x y && list_eqb f a' b'
  | _, _ => false
  end.

Definition svc_case (a o : list value) : verdict :=
  match a, o with
  | [VL modesv; VZ nrefs; VZ npeers], [VZ fin; VL clocksv] =>
      match getZs modesv, parse_svcclocks clocksv with
      | Some modes, Some cs =>
          let m := model_clocks modes (Z.to_nat nrefs) (Z.to_nat npeers) in
          relational (negb (fin =? 0) &&
                      list_eqb (fun x y => Bool.eqb (sk_peer x) (sk_peer y) && list_eqb svcclient_eqb (sk_clients x) (sk_clients y)) m cs)
                     (C13_svc_spao_ok modes (Z.to_nat nrefs) (Z.to_nat npeers) (negb (fin =? 0)) cs)
      | _, _ => relational false true
      end
  | _, _ => relational false true
  end.

(* ---- the constants and option accessors of net/scion/auth.go against the model's ---- *)
Definition consts_case (o : list value) : verdict :=
  functional
    [VZ spi_client; VZ spi_server; VZ auth_algorithm; VZ 12; VZ 16; VZ auth_opt_data_len;
     VZ endhost_port; VZ ts_proto; VZ OPT_TIMESTAMP; VZ OPT_AUTH; VZ L4_UDP; VZ L4_SCMP;
     VZ HBH_CLASS; VZ E2E_CLASS; VZ SCMP_ECHO_REQUEST; VZ SCMP_ECHO_REPLY; VZ SCMP_TRACEROUTE_REQUEST;
     VZ SCMP_TRACEROUTE_REPLY; VZ 0; VZ 3] o
    (* the two SPIs differ exactly in the direction bit, the low 16 bits are the protocol number *)
    ((Z.lxor spi_client spi_server =? 65536) && (Z.land spi_server 65535 =? ts_proto) && ip_type 0 && ip_type 3).

Definition authopt_case (a o : list value) : verdict :=
  match a with
  | [VB data; VZ spi; VZ algo] =>
      let op := mkOpt OPT_AUTH data in
      functional [VZ (opt_spi op); VZ (opt_algo op); VB (opt_mac op); VZ OPT_AUTH; VB (meta_bytes spi algo ++ repeat 0 16)] o
                 (zlen (meta_bytes spi algo) =? 12)
  | _ => relational false true
  end.

Open Scope string_scope.
Definition glue_C13 (k : string) (a o : list value) : option verdict :=
  if is k "srv" || is k "srv.probe" || is k "srv.keyed" || is k "srv.par" || is k "srv.dual" || is k "srv.fwdnots" || is k "srv.fwdhbh" || is k "srv.tailmac" || is k "srv.maclen" || is k "srv.nokey" || is k "srv.fwdbig" then Some (srv_case false false a o)
  else if is k "srv.strict" then Some (srv_case true false a o)
  else if is k "srv.scmpauth" then Some (srv_case false true a o)
  else if is k "svc.spao" then Some (svc_case a o)
  else if is k "drkey.cache" then Some (cache_case a o)
  else if is k "scion.consts" then Some (consts_case o)
  else if is k "scion.authopt" then Some (authopt_case a o)
  else if is k "cli.keyed" || is k "cli.nokey" then Some (cli_keyed_case false a o)
  else if is k "cli.strict" then Some (cli_keyed_case true a o)
  else if is k "cli" || is k "cli.probe" || is k "cli.tailmac" then Some (cli_case a o)
  else None.

Definition run_case (k : string) (a o : list value) : verdict := first_some [glue_C13] k a o.
