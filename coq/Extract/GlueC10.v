(* Dispatcher from case kinds to the model functions and the property oracle of
   C10.  The AEAD and the TLS exporter of the model are instantiated with
   lookup tables that the harness computed with miscreant / crypto/tls itself;
   a query of the model that is not in the table yields a poisoned answer and
   (for Open) clears the q flag, so the case does not agree. *)
From Coq Require Import ZArith List String.
From ST Require Import Base.Ints Base.Value Model.NtsAuth Extract.GlueBase.
Import ListNotations.
Open Scope string_scope.
Open Scope Z_scope.

Fixpoint getBs (l : list value) : option (list bytes) :=
  match l with
  | [] => Some []
  | VB b :: r => match getBs r with Some bs => Some (b :: bs) | None => None end
  | _ => None
  end.

(* table entry: [op key nonce adflag ad input ok output]; op 0 = Seal, 1 = Open, 2 = exporter (key = label, nonce = context) *)
Record centry := { c_op : Z; c_key : bytes; c_nonce : bytes; c_adf : Z; c_ad : bytes; c_in : bytes; c_ok : Z; c_out : bytes }.
Definition centry_of (v : value) : option centry :=
  match v with
  | VL [VZ op; VB k; VB n; VZ adf; VB ad; VB i; VZ ok; VB out] =>
      Some {| c_op := op; c_key := k; c_nonce := n; c_adf := adf; c_ad := ad; c_in := i; c_ok := ok; c_out := out |}
  | _ => None
  end.
Fixpoint table_of (l : list value) : option (list centry) :=
  match l with
  | [] => Some []
  | v :: r => match centry_of v, table_of r with Some e, Some es => Some (e :: es) | _, _ => None end
  end.
Definition ad_match (e : centry) (ad : option bytes) : bool :=
  match ad with
  | None => c_adf e =? 0
  | Some x => (c_adf e =? 1) && bytes_eqb (c_ad e) x
  end.
Definition entry_match (op : Z) (k n : bytes) (ad : option bytes) (i : bytes) (e : centry) : bool :=
  (c_op e =? op) && bytes_eqb (c_key e) k && bytes_eqb (c_nonce e) n && ad_match e ad && bytes_eqb (c_in e) i.

Definition poison : bytes := [-1].
Definition seal_tab (t : list centry) (k n : bytes) (ad : option bytes) (p : bytes) : bytes :=
  match find (entry_match 0 k n ad p) t with Some e => c_out e | None => poison end.
Definition open_tab (t : list centry) (k n : bytes) (ad : option bytes) (c : bytes) : option bytes :=
  match find (entry_match 1 k n ad c) t with
  | Some e => if c_ok e =? 0 then None else Some (c_out e)
  | None => Some poison
  end.
Definition open_known (t : list centry) (k n : bytes) (ad : option bytes) (c : bytes) : bool :=
  match find (entry_match 1 k n ad c) t with Some _ => true | None => false end.
Definition export_tab (t : list centry) (label ctx : bytes) : bytes :=
  match find (entry_match 2 label ctx None []) t with Some e => c_out e | None => poison end.

Definition honest_of (v : value) : option honest :=
  match v with
  | VL [VB b; VZ pos; VB n; VB ct; VB k; VZ dir; VB uid] =>
      Some {| h_bytes := b; h_pos := Z.to_nat pos; h_nonce := n; h_ct := ct; h_key := k; h_dir := dir; h_uid := uid |}
  | _ => None
  end.
Fixpoint honests_of (l : list value) : option (list honest) :=
  match l with
  | [] => Some []
  | v :: r => match honest_of v, honests_of r with Some h, Some hs => Some (h :: hs) | _, _ => None end
  end.

Definition code_of {A} (o : outcome A) : Z :=
  match o with Ok _ => 0 | Err e => err_code e | Panic => 100 | OutOfFuel => 101 end.

Definition VBs (l : list bytes) : value := VL (map VB l).

(* observation of a receiver: decode result, then the authentication result *)
Definition recv_values (d : outcome packet) (a : outcome packet) : list value :=
  match d with
  | Ok p =>
      [VZ 0; VB (p_uid p); VBs (p_cookies p); VZ (Z.of_nat (p_nph p)); VB (p_nonce p); VB (p_ct p); VZ (Z.of_nat (p_pos p));
       VZ (code_of a); match a with Ok p' => VBs (p_cookies p') | _ => VL [] end]
  | _ => [VZ (code_of d); VB []; VL []; VZ 0; VB []; VB []; VZ 0; VZ (-1); VL []]
  end.

(* did the implementation accept?  (decode code 0 and authentication code 0) *)
Definition observed_accept (o : list value) : option bool :=
  match o with
  | [VZ dc; _; _; _; _; _; _; VZ ac; _] => Some ((dc =? 0) && (ac =? 0))
  | _ => None
  end.

(* the cookies found in the client's store (last observed value) *)
Definition observed_stored (o : list value) : option (list bytes) :=
  match o with
  | [_; _; _; _; _; _; _; _; VL l] => getBs l
  | _ => None
  end.

Fixpoint list_bytes_eqb (a b : list bytes) : bool :=
  match a, b with
  | [], [] => true
  | x :: a', y :: b' => bytes_eqb x y && list_bytes_eqb a' b'
  | _, _ => false
  end.

Definition glue_recv (dir : Z) (hs : list value) (b key reqid : bytes) (tab : list value) (o : list value)
                     (extra : bool -> bool) : option verdict :=
  match honests_of hs, table_of tab, observed_accept o, observed_stored o with
  | Some hs, Some t, Some acc, Some stored =>
      let d := decode_packet b in
      let a := match d with
               | Ok p => if dir =? 0 then process_request (open_tab t) b key p
                         else process_response (open_tab t) b key p reqid
               | o => o end in
      let known := match d with
                   | Ok p => if key_ok key && (length (p_nonce p) =? 16)%nat
                                && (if dir =? 0 then true else bytes_eqb reqid (p_uid p))
                             then open_known t key (p_nonce p) (Some (firstn (p_pos p) b)) (p_ct p) else true
                   | _ => true end in
      Some (functional (VZ 1 :: recv_values d a) (vbool known :: o)
              (C10_packet_ok hs b key dir reqid acc && (if dir =? 1 then C10_reject_clean acc stored else true) && extra acc))
  | _, _, _, _ => None
  end.

Definition sc_values (o : outcome server_cookie) : list value :=
  match o with
  | Ok c => [VZ 0; VZ (sc_algo c); VB (sc_s2c c); VB (sc_c2s c)]
  | _ => [VZ (code_of o); VZ 0; VB []; VB []]
  end.

Definition glue_C10 (k : string) (a o : list value) : option verdict :=
  if is k "nts.req" || is k "nts.ctrhalf" then
    match a with
    | [VL hs; VB b; VB key; VL tab] => glue_recv 0 hs b key [] tab o (fun _ => true)
    | _ => None end
  else if is k "nts.resp" then
    match a with
    | [VL hs; VB b; VB key; VB reqid; VL tab] => glue_recv 1 hs b key reqid tab o (fun _ => true)
    | _ => None end
  else if is k "nts.trunctag" then
    (* an honest datagram with its last (zero) ciphertext bytes cut off: judged by the strict clause *)
    match a with
    | [VL hs; VB b; VB key; VL tab] =>
        match honests_of hs with
        | Some hl => glue_recv 0 hs b key [] tab o (fun acc => C10_exact_ok hl b key 0 [] acc)
        | None => None end
    | [VL hs; VB b; VB key; VB reqid; VL tab; VZ _] =>
        match honests_of hs with
        | Some hl => glue_recv 1 hs b key reqid tab o (fun acc => C10_exact_ok hl b key 1 reqid acc)
        | None => None end
    | _ => None end
  else if is k "nts.session" then
    (* a long session: the client with request number n outstanding is handed the response to request number k *)
    match a with
    | [VL hs; VB b; VB key; VB reqid; VL tab; VZ n; VZ k'] =>
        glue_recv 1 hs b key reqid tab o (fun acc => C10_session_ok acc n k')
    | _ => None end
  else if is k "ke.real" then
    (* the real NTS-KE server with the real Fetcher: the client's exported keys, the cookies it got,
       the server keys, AEAD answers; observed: algorithm, whether the exchange named the listener,
       and what each cookie opened to (by the harness's own opener) *)
    match a, o with
    | [VB c2s; VB s2c; VL cookies; VL keys; VL tab], [VZ algo; VZ addrok; VL obs] =>
        match getBs cookies, table_of tab with
        | Some cookies, Some t =>
            let getkey := fun id => match find (fun kv => match kv with VL [VZ i; VB _] => i =? id | _ => false end) keys with
                                    | Some (VL [_; VB kb]) => Some kb
                                    | _ => None end in
            let openc := fun cb => match ec_decode cb with
                                   | Ok ec => match getkey (ec_id ec) with
                                              | Some mk => ec_decrypt (open_tab t) ec mk
                                              | None => Err ENoKey end
                                   | Err e => Err e | Panic => Panic | OutOfFuel => OutOfFuel end in
            let exp := map (fun cb => match openc cb with
                                      | Ok c => VL [VZ 0; VZ (sc_algo c); VB (sc_s2c c); VB (sc_c2s c)]
                                      | _ => VL [VZ 1; VZ 0; VB []; VB []] end) cookies in
            let obsl := map (fun v => match v with
                                      | VL [VZ c; VZ al; VB x; VB y] => ((c =? 0), {| sc_algo := al; sc_s2c := x; sc_c2s := y |})
                                      | _ => (false, {| sc_algo := 0; sc_s2c := []; sc_c2s := [] |}) end) obs in
            Some (functional [VZ 15; VZ 1; VL exp] o (C10_realke_ok c2s s2c algo addrok obsl))
        | _, _ => None end
    | _, _ => None end
  else if is k "cl.ip" || is k "cl.scion" then
    (* the real IP client with NTS: honest packets, the datagrams it was sent in order, its S2C key, the
       identifier of its request, AEAD answers, deadline; observed: the datagram its offset was computed
       from (-1: the call failed, -2: it hung), cookies of other datagrams than the genuine one in its store *)
    match a, o with
    | [VL hs; VL ds; VB key; VB reqid; VL tab; VZ dl], [VZ used; VZ leak] =>
        match honests_of hs, getBs ds, table_of tab with
        | Some hs, Some ds, Some t =>
            let r := client_loop (open_tab t) (negb (dl =? 0)) key reqid ds 0 0 in
            let e := match r with Some i => Z.of_nat i | None => -1 end in
            let known := forallb (fun b => match decode_packet b with
                                           | Ok p => if key_ok key && (length (p_nonce p) =? 16)%nat && bytes_eqb reqid (p_uid p)
                                                     then open_known t key (p_nonce p) (Some (firstn (p_pos p) b)) (p_ct p) else true
                                           | _ => true end) ds in
            Some (functional [vbool known; VZ e; VZ 0] (VZ 1 :: o) (C10_client_ok hs ds key reqid used && (leak =? 0)))
        | _, _, _ => None end
    | _, _ => None end
  else if is k "nts.encode" then
    match a with
    (* EncodePacket on the given parts, then the receiver on its output under the same key;
       src: the input of NewRequestPacket / NewResponsePacket that made the parts (or nothing) *)
    | [VB hdr; VB uid; VL cs; VL phs; VB key; VB pt; VB rnd; VL tab; VZ ptkind; VL src] =>
        match getBs cs, getBs phs, table_of tab, o with
        | Some cs, Some phs, Some t, [VZ ocode; VB oout; VZ oacc] =>
            let r := enc_packet (seal_tab t) hdr uid cs phs key pt rnd in
            let acc := match r with
                       | Ok x => match server_accept (open_tab t) x key with Ok _ => 1 | _ => 0 end
                       | _ => -1 end in
            let known := match r with
                         | Ok x => match decode_packet x with
                                   | Ok p => if key_ok key && (length (p_nonce p) =? 16)%nat
                                             then open_known t key (p_nonce p) (Some (firstn (p_pos p) x)) (p_ct p) else true
                                   | _ => true end
                         | _ => true end in
            let srcok := match src with
                         | [] => true
                         | [VL pool] => match getBs pool with
                                        | Some pool => match new_request pool with
                                                       | Ok (c1, p1) => list_bytes_eqb c1 cs && list_bytes_eqb p1 phs
                                                       | _ => false end
                                        | None => false end
                         | [VL cookies; VB u] => match getBs cookies with
                                                 | Some cookies => match new_response cookies u with
                                                                   | Ok x => bytes_eqb x pt && bytes_eqb u uid
                                                                   | _ => false end
                                                 | None => false end
                         | _ => false end in
            Some (functional [vbool known; vbool srcok; VZ (code_of r); VB (match r with Ok x => x | _ => [] end); VZ acc]
                             (VZ 1 :: VZ 1 :: o)
                             (C10_encode_ok hdr uid cs phs key pt rnd ptkind ocode oacc &&
                              match src with
                              | [VL pool] => match getBs pool with
                                             | Some (c :: _) => C10_encode_src_ok 1 (length c) true 0 hdr uid key pt rnd ocode oacc
                                             | _ => true end
                              | [VL cookies; VB u] =>
                                  match getBs cookies with
                                  | Some (c0 :: rest) =>
                                      let shape := forallb (fun c => (length c =? length c0)%nat) rest &&
                                                   (length c0 mod 4 =? 0)%nat && bytes_eqb u uid in
                                      C10_encode_src_ok 2 0 shape (length c0) hdr uid key pt rnd ocode oacc
                                  | _ => true end
                              | _ => true end))
        | _, _, _, _ => None end
    | _ => None end
  else if is k "nts.newresp" then
    match a with
    | [VL cs; VB uid] =>
        match getBs cs with
        | Some cs => let r := new_response cs uid in
                     Some (functional [VZ (code_of r); VB (match r with Ok x => x | _ => [] end)] o true)
        | None => None end
    | _ => None end
  else if is k "nts.newreq" then
    match a with
    | [VL cs] =>
        match getBs cs with
        | Some cs => let r := new_request cs in
                     Some (functional (match r with
                                       | Ok (c, p) => [VZ 0; VBs c; VBs p]
                                       | _ => [VZ (code_of r); VL []; VL []] end) o true)
        | None => None end
    | _ => None end
  else if is k "ck.seal" then
    match a with
    | [VZ algo; VB s2c; VB c2s; VB key; VZ keyid; VB rnd; VL tab] =>
        match table_of tab with
        | Some t =>
            (* EncryptWithNonce + Encode, then the cookie opened again under the key that sealed it *)
            let c0 := {| sc_algo := algo; sc_s2c := s2c; sc_c2s := c2s |} in
            let r := cookie_seal (seal_tab t) c0 key keyid rnd in
            match r, o with
            | Ok cb, [VZ scode; VB ocb; VZ oc; VZ oalgo; VB os2c; VB oc2s] =>
                let ro := cookie_open (open_tab t) cb key in
                let known := match ec_decode cb with
                             | Ok ec => if key_ok key && (length (ec_nonce ec) =? 16)%nat
                                        then open_known t key (ec_nonce ec) None (ec_ct ec) else true
                             | _ => true end in
                let res := if oc =? 0 then Some {| sc_algo := oalgo; sc_s2c := os2c; sc_c2s := oc2s |} else None in
                Some (functional (vbool known :: VZ 0 :: VB cb :: sc_values ro) (VZ 1 :: o)
                        (if scode =? 0 then C10_cookie_ok ocb key c0 ocb key res else true))
            | _, _ => Some (functional [VZ (code_of r); VB []; VZ (-1); VZ 0; VB []; VB []] o true)
            end
        | None => None end
    | _ => None end
  else if is k "ck.open" then
    match a, o with
    | [VB cb0; VB key0; VZ algo; VB s2c; VB c2s; VB cb; VB key; VL tab], [VZ oc; VZ oalgo; VB os2c; VB oc2s] =>
        match table_of tab with
        | Some t =>
            let r := cookie_open (open_tab t) cb key in
            let known := match ec_decode cb with
                         | Ok ec => if key_ok key && (length (ec_nonce ec) =? 16)%nat
                                    then open_known t key (ec_nonce ec) None (ec_ct ec) else true
                         | _ => true end in
            let res := if oc =? 0 then Some {| sc_algo := oalgo; sc_s2c := os2c; sc_c2s := oc2s |} else None in
            Some (functional (VZ 1 :: sc_values r) (vbool known :: o)
                    (C10_cookie_ok cb0 key0 {| sc_algo := algo; sc_s2c := s2c; sc_c2s := c2s |} cb key res))
        | None => None end
    | _, _ => None end
  else if is k "ck.hist" then
    (* several cookies opened one after the other; the results are read after the last
       opening: each must still be what its own opening yields *)
    match a, o with
    | [VL items; VL tab], [VL results] =>
        match table_of tab with
        | Some t =>
            let step := fun (it : value) =>
              match it with
              | VL [VB cb0; VB key0; VZ algo; VB s2c; VB c2s; VB cb; VB key] =>
                  Some (cookie_open (open_tab t) cb key, (cb0, key0, {| sc_algo := algo; sc_s2c := s2c; sc_c2s := c2s |}, cb, key))
              | _ => None end in
            let fix go (its res : list value) : option (list value * bool) :=
              match its, res with
              | [], [] => Some ([], true)
              | it :: its', VL [VZ oc; VZ oalgo; VB os2c; VB oc2s] :: res' =>
                  match step it, go its' res' with
                  | Some (r, (cb0, key0, c0, cb, key)), Some (es, ok) =>
                      let obs := if oc =? 0 then Some {| sc_algo := oalgo; sc_s2c := os2c; sc_c2s := oc2s |} else None in
                      Some (VL (sc_values r) :: es, ok && C10_cookie_ok cb0 key0 c0 cb key obs)
                  | _, _ => None end
              | _, _ => None
              end in
            match go items results with
            | Some (es, ok) => Some (functional [VL es] o ok)
            | None => None end
        | None => None end
    | _, _ => None end
  else if is k "ck.tlv" then
    (* EncryptedServerCookie.Decode alone, and re-encoding of what it decoded *)
    match a, o with
    | [VZ which; VB cb], [VZ ocode; _; _; _; _; VZ osame] =>
        if which =? 0 then
          let r := ec_decode cb in
          Some (functional (match r with
                            | Ok ec => [VZ 0; VZ (ec_id ec); VB (ec_nonce ec); VB (ec_ct ec); VB (ec_encode ec);
                                        VZ (match ec_decode (ec_encode ec) with Ok _ => 1 | _ => 0 end)]
                            | _ => [VZ (code_of r); VZ 0; VB []; VB []; VB []; VZ 0] end) o (C10_tlv_ok ocode osame))
        else
          (* ServerCookie.Decode: the decrypted cookie *)
          let r := sc_decode cb in
          Some (functional (match r with
                            | Ok c => [VZ 0; VZ (sc_algo c); VB (sc_s2c c); VB (sc_c2s c); VB (sc_encode c);
                                       VZ (match sc_decode (sc_encode c) with Ok _ => 1 | _ => 0 end)]
                            | _ => [VZ (code_of r); VZ 0; VB []; VB []; VB []; VZ 0] end) o (C10_tlv_ok ocode osame))
    | _, _ => None end
  else if is k "srv.ip" || is k "srv.scion" || is k "srv.ctrhalf" || is k "srv.trunctag" then
    (* the real IP / SCION listener: args honest packets, datagram (NTP/NTS payload), valid server
       keys [id key], AEAD answers; observed: replied (-1: the listener stopped answering), whether
       the reply verified at the client, whether every re-issued cookie opened to the session's keys *)
    match a, o with
    | [VL hs; VB b; VL keys; VL tab], [VZ replied; VZ verified; VZ cookies] =>
        match honests_of hs, table_of tab with
        | Some hs, Some t =>
            let getkey := fun id => match find (fun kv => match kv with VL [VZ i; VB _] => i =? id | _ => false end) keys with
                                    | Some (VL [_; VB kb]) => Some kb
                                    | _ => None end in
            let rb := negb (replied =? 0) in
            if (length b <=? 48)%nat then
              (* no NTS: a plain, valid 48-byte request is answered without NTS, anything shorter is not *)
              let e := if (length b =? 48)%nat && ntp_req_ok (nthz b 0) then 1 else 0 in
              Some (functional [VZ 1; VZ e; VZ 0; VZ 0] (VZ 1 :: o)
                      (negb (replied <? 0) && (verified =? 0) && (cookies =? 0)))
            else
            let r := server_nts (open_tab t) getkey b in
            let e := match r with Ok _ => 1 | _ => 0 end in
            (* every Open the model asks for must be in the table the harness computed *)
            let known :=
              match decode_packet b with
              | Ok p =>
                  match first_cookie p with
                  | Ok cb =>
                      match ec_decode cb with
                      | Ok ec =>
                          match getkey (ec_id ec) with
                          | Some mk =>
                              (if key_ok mk && (length (ec_nonce ec) =? 16)%nat
                               then open_known t mk (ec_nonce ec) None (ec_ct ec) else true) &&
                              match ec_decrypt (open_tab t) ec mk with
                              | Ok sc => if key_ok (sc_c2s sc) && (length (p_nonce p) =? 16)%nat
                                         then open_known t (sc_c2s sc) (p_nonce p) (Some (firstn (p_pos p) b)) (p_ct p) else true
                              | _ => true end
                          | None => true end
                      | _ => true end
                  | _ => true end
              | _ => true end in
            Some (functional [vbool known; VZ e; VZ e; VZ e] (VZ 1 :: o)
                    (negb (replied <? 0) && C10_listener_ok hs b rb (negb (verified =? 0)) &&
                     C10_reissue_ok rb (negb (cookies =? 0)) &&
                     (if is k "srv.trunctag" then C10_exact_listener_ok hs b rb else true)))
        | _, _ => None end
    | _, _ => None end
  else if is k "ke.export" then
    match a, o with
    | [VL tab], [VB cs2c; VB cc2s; VB ss2c; VB sc2s] =>
        match table_of tab with
        | Some t =>
            let '(s2c, c2s) := export_keys (export_tab t) in
            Some (functional [VB s2c; VB c2s; VB s2c; VB c2s] o (C10_export_ok cs2c cc2s ss2c sc2s))
        | None => None end
    | _, _ => None end
  else None.

Definition run_case (k : string) (a o : list value) : verdict :=
  first_some [glue_C10] k a o.
