(* Dispatcher from case kinds (strings) to the PLL model and the property
   oracle of C19.  Everything the OCaml runner of this property executes goes
   through run_case.

   kinds "pll.history" (general histories), "pll.large" (large-but-legal inputs:
   offsets of hours, gaps of 1 ns and of days, slews at the clamp; judged like
   pll.history) and "pll.longgap" (additionally: every Adjust duration > 0,
   without the 2^32 s bound -- the known finding):
     args  = six integers per update, flat:
             now_ns epoch offset_ns weight_bits dt_bits pow_bits
             (dt_bits/pow_bits: the harness' own dt = now.Sub(previous
             reading).Seconds() and Go's math.Pow(0.999, dt) -- the oracle
             answer for math.Pow; the model checks it was asked with that dt)
     outs  = one list per update with the calls the fake clock received:
             [1 offset] = Step, [2 offset duration freq_bits] = Adjust,
             [9] = Do panicked *)
From Coq Require Import ZArith List String Bool.
From ST Require Import Base.Ints Base.Value Base.F64 Model.Pll Extract.GlueBase.
Import ListNotations.
Open Scope string_scope.
Open Scope Z_scope.

Fixpoint parse_updates (fuel : nat) (a : list value) : option (list (upd * Z)) :=
  match fuel with
  | O => None
  | S fuel' =>
    match a with
    | [] => Some []
    | VZ now :: VZ ep :: VZ off :: VZ w :: VZ dtb :: VZ pw :: r =>
        match parse_updates fuel' r with
        | Some us => Some ((mkUpd now ep off (f_of_bits w) (f_of_bits pw), dtb) :: us)
        | None => None
        end
    | _ => None
    end
  end.

Definition value_of_event (e : event) : value :=
  match e with
  | EStep x => VL [VZ 1; VZ x]
  | EAdjust o d f => VL [VZ 2; VZ o; VZ d; VZ (f_to_bits f)]
  | EPanic => VL [VZ 9]
  end.

Definition event_of_value (v : value) : option event :=
  match v with
  | VL [VZ 1; VZ x] => Some (EStep x)
  | VL [VZ 2; VZ o; VZ d; VZ f] => Some (EAdjust o d (f_of_bits f))
  | VL [VZ 9] => Some EPanic
  | _ => None
  end.

Fixpoint events_of_values (l : list value) : option (list event) :=
  match l with
  | [] => Some []
  | v :: r => match event_of_value v, events_of_values r with
              | Some e, Some es => Some (e :: es)
              | _, _ => None
              end
  end.

Fixpoint observed_trace (us : list upd) (o : list value) : option (list (upd * list event)) :=
  match us, o with
  | [], [] => Some []
  | u :: us', VL evs :: o' =>
      match events_of_values evs, observed_trace us' o' with
      | Some es, Some tr => Some ((u, es) :: tr)
      | _, _ => None
      end
  | _, _ => None
  end.

(* every math.Pow call of the model has the argument the answer was computed
   for, and the answer meets the hypothesis of the theorems (0 <= pow <= 1) *)
Fixpoint queries_ok (qs : list (option f64)) (us : list (upd * Z)) : bool :=
  match qs, us with
  | [], [] => true
  | q :: qs', (u, dtb) :: us' =>
      match q with
      | None => true
      | Some dt => (f_to_bits dt =? f_to_bits (f_of_bits dtb)) && pow_in_unit (u_pow u)
      end && queries_ok qs' us'
  | _, _ => false
  end.

Definition glue_C19 (k : string) (a o : list value) : option verdict :=
  if is k "pll.history" || is k "pll.large" then
    match parse_updates (S (length a)) a with
    | None => None
    | Some uds =>
        let us := map fst uds in
        let expected := map (fun ue => VL (map value_of_event (snd ue))) (pll_run pll_init us) in
        let qok := queries_ok (pll_queries pll_init us) uds in
        match observed_trace us o with
        | None => Some (relational false true)
        | Some tr =>
            Some {| v_known := true; v_agree := values_eqb expected o && qok;
                    v_oracle := C19_ok tr; v_expected := expected |}
        end
    end
  else if is k "pll.longgap" then
    (* the duration clause of the property at full strength (no bound on the gap between updates) *)
    match parse_updates (S (length a)) a with
    | None => None
    | Some uds =>
        let us := map fst uds in
        let expected := map (fun ue => VL (map value_of_event (snd ue))) (pll_run pll_init us) in
        match observed_trace us o with
        | None => Some (relational false true)
        | Some tr =>
            let durations_positive :=
              forallb (fun ue => forallb (fun e => match e with EAdjust _ dur _ => 0 <? dur | _ => true end) (snd ue)) tr in
            Some {| v_known := true; v_agree := values_eqb expected o;
                    v_oracle := C19_ok tr && durations_positive; v_expected := expected |}
        end
    end
  else None.

Definition run_case (k : string) (a o : list value) : verdict :=
  first_some [glue_C19] k a o.
