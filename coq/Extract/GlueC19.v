(* Dispatcher from case kinds (strings) to the PLL model and the property
   oracle of C19.  Everything the OCaml runner of this property executes goes
   through run_case.

   kinds "pll.history" (general histories), "pll.large" (large-but-legal inputs:
   offsets of hours, gaps of 1 ns and of days, slews at the clamp; judged like
   pll.history), "pll.stiffen" (hundreds of updates of the stiffening branch at
   constant spacing; judged like pll.history) and "pll.longgap" (histories whose last gap exceeds the int64
   wrap of 9223372036 s: the known finding; the oracle is the same strict one --
   every duration > 0 -- the suppression is done by KNOWN_FINDINGS.txt):
     args  = six integers per update, flat:
             now_ns epoch offset_ns weight_bits dt_bits pow_bits
             (dt_bits/pow_bits: the harness' own dt = now.Sub(previous
             reading).Seconds() and Go's math.Pow(0.999, dt) -- the oracle
             answer for math.Pow; the model checks it was asked with that dt)
     outs  = one list per update with the calls the fake clock received:
             [1 offset] = Step, [2 offset duration freq_bits] = Adjust,
             [9] = Do panicked *)
From Coq Require Import ZArith List String Bool.
From ST Require Import Base.Ints Base.Value Base.F64 Model.Pll Extract.GlueBase.
Import ListNotations.
Open Scope string_scope.
Open Scope Z_scope.

Fixpoint parse_updates (fuel : nat) (a : list value) : option (list (upd * Z)) :=
  match fuel with
  | O => None
  | S fuel' =>
    match a with
    | [] => Some []
    | VZ now :: VZ ep :: VZ off :: VZ w :: VZ dtb :: VZ pw :: r =>
        match parse_updates fuel' r with
        | Some us => Some ((mkUpd now ep off (f_of_bits w) (f_of_bits pw), dtb) :: us)
        | None => None
        end
    | _ => None
    end
  end.

Definition value_of_event (e : event) : value :=
  match e with
  | EStep x => VL [VZ 1; VZ x]
  | EAdjust o d f => VL [VZ 2; VZ o; VZ d; VZ (f_to_bits f)]
  | EPanic => VL [VZ 9]
  end.

Definition event_of_value (v : value) : option event :=
  match v with
  | VL [VZ 1; VZ x] => Some (EStep x)
  | VL [VZ 2; VZ o; VZ d; VZ f] => Some (EAdjust o d (f_of_bits f))
  | VL [VZ 9] => Some EPanic
  | _ => None
  end.

Fixpoint events_of_values (l : list value) : option (list event) :=
  match l with
  | [] => Some []
  | v :: r => match event_of_value v, events_of_values r with
              | Some e, Some es => Some (e :: es)
              | _, _ => None
              end
  end.

Fixpoint observed_trace (us : list upd) (o : list value) : option (list (upd * list event)) :=
  match us, o with
  | [], [] => Some []
  | u :: us', VL evs :: o' =>
      match events_of_values evs, observed_trace us' o' with
      | Some es, Some tr => Some ((u, es) :: tr)
      | _, _ => None
      end
  | _, _ => None
  end.

(* every math.Pow call of the model has the argument the answer was computed
   for, and the answer meets the hypothesis of the theorems (0 <= pow <= 1) *)
Fixpoint queries_ok (qs : list (option f64)) (us : list (upd * Z)) : bool :=
  match qs, us with
  | [], [] => true
  | q :: qs', (u, dtb) :: us' =>
      match q with
      | None => true
      | Some dt => (f_to_bits dt =? f_to_bits (f_of_bits dtb)) && pow_in_unit (u_pow u)
      end && queries_ok qs' us'
  | _, _ => false
  end.

(* kind "pll.epochsrc": facts read off the source of the real clock driver and of
   pll.go by the harness (go/ast), as integers:
     [epoch++ statements at the top level of SystemClock.Step;
      other writes to the epoch field in Step;
      writes to the epoch field in Adjust; in Sleep; in Now; in Drift; anywhere else in the file;
      pll.go imports golang.org/x/sys/unix; pll.go imports syscall;
      SystemClock.Adjust panics on duration < 0]
   The fake clock of the harness (Step starts a new epoch, nothing else does) and
   the claim that Pll.Do reaches the machine clock only through the interface
   rest on the first nine; the tenth is recorded (it says what the real driver
   does with the negative duration of the known finding). *)
Definition epochsrc_expected : list value :=
  [VZ 1; VZ 0; VZ 0; VZ 0; VZ 0; VZ 0; VZ 0; VZ 0; VZ 0; VZ 1].
Definition epochsrc_ok (o : list value) : bool :=
  values_eqb (firstn 9 o) (firstn 9 epochsrc_expected) && (length o =? 10)%nat.

Definition glue_C19 (k : string) (a o : list value) : option verdict :=
  if is k "pll.history" || is k "pll.large" || is k "pll.longgap" || is k "pll.stiffen" then
    match parse_updates (S (length a)) a with
    | None => None
    | Some uds =>
        let us := map fst uds in
        let expected := map (fun ue => VL (map value_of_event (snd ue))) (pll_run pll_init us) in
        let qok := queries_ok (pll_queries pll_init us) uds in
        match observed_trace us o with
        | None => Some (relational false true)
        | Some tr =>
            Some {| v_known := true; v_agree := values_eqb expected o && qok;
                    v_oracle := C19_ok tr; v_expected := expected |}
        end
    end
  else if is k "pll.epochsrc" then
    Some (functional epochsrc_expected o (epochsrc_ok o))
  else None.

Definition run_case (k : string) (a o : list value) : verdict :=
  first_some [glue_C19] k a o.
