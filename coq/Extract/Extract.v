(* Extraction of the executable model + dispatcher.  ExtrOcamlBasic only:
   Z, N, positive, nat, string and ascii stay inductive datatypes.
   Compiled separately by setup/check with cwd = build/extracted. *)
From Coq Require Import Extraction ExtrOcamlBasic ZArith.
From ST Require Import Base.Value Extract.Glue.
Extraction Language OCaml.
Extraction "model.ml" run_case Z.add Z.mul Z.opp Z.div_eucl.
