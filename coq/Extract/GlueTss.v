(* Shared by the C06 and C07 dispatchers: parsing of recorded histories of the
   server's timestamp store and their replay against the model (Model/Tss.v)
   and the property oracles (Model/TssOracle.v). *)
From Coq Require Import ZArith List String Bool.
From ST Require Import Base.Ints Base.Value Base.Sorting Model.NtpTime Model.Tss Model.TssOracle Extract.GlueBase.
Import ListNotations.
Open Scope Z_scope.

Definition parse_op (v : value) : option op :=
  match v with
  | VL [VZ 0; VZ cid; VZ org; VZ rx; VZ tx; VZ rxt; VZ now] =>
      Some (OpHandle cid {| q_org := org; q_rx := rx; q_tx := tx |} rxt now 0)
  | VL [VZ 1; VZ cid; VZ rxt; VZ txt] => Some (OpUpdateTx cid rxt txt)
  | _ => None
  end.

Fixpoint parse_pairs (l : list value) : option (list (Z * Z)) :=
  match l with
  | [] => Some []
  | VL [VZ a; VZ b] :: r => match parse_pairs r with Some ps => Some ((a, b) :: ps) | None => None end
  | _ => None
  end.

(* Some None: no item; Some (Some it): item; None: malformed *)
Definition parse_item (v : value) : option (option oitem) :=
  match v with
  | VL [] => Some None
  | VL [VZ qval; VZ qidx; VL ents] =>
      match parse_pairs ents with
      | Some ps => Some (Some {| oi_qval := qval; oi_qidx := qidx; oi_ents := ps |})
      | None => None
      end
  | _ => None
  end.

Definition parse_queue (v : value) : option (list (Z * Z)) :=
  match v with VL l => parse_pairs l | _ => None end.

(* what has been observed of each client so far: its item and whether its
   requests have arrived in timestamp order *)
Definition seen := list (Z * (option oitem * bool)).
Fixpoint seen_get (cid : Z) (l : seen) : option oitem * bool :=
  match l with
  | [] => (None, true)
  | (k, v) :: r => if k =? cid then v else seen_get cid r
  end.

(* provenance, rebuilt from the observations alone: the (receive, transmit) pairs that
   replies to a client and transmit-timestamp reports for it have legitimately created *)
Definition legit := list (Z * list (Z * Z)).
Fixpoint legit_get (cid : Z) (l : legit) : list (Z * Z) :=
  match l with
  | [] => []
  | (k, v) :: r => if k =? cid then v else legit_get cid r
  end.
Fixpoint legit_add (cid : Z) (p : Z * Z) (l : legit) : legit :=
  match l with
  | [] => [(cid, [p])]
  | (k, v) :: r => if k =? cid then (k, p :: v) :: r else (k, v) :: legit_add cid p r
  end.
Definition all_legit (cid : Z) (lg : legit) (ents : list (Z * Z)) : bool :=
  forallb (fun e => has_pair (fst e) (snd e) (legit_get cid lg)) ents.

Fixpoint seen_set (cid : Z) (v : option oitem * bool) (l : seen) : seen :=
  match l with
  | [] => [(cid, v)]
  | (k, w) :: r => if k =? cid then (k, v) :: r else (k, w) :: seen_set cid v r
  end.
Definition seen_count (l : seen) : nat :=
  length (filter (fun p => match fst (snd p) with Some _ => true | None => false end) l).

Definition model_ents (s : tss) (cid : Z) : option (Z * list (Z * Z)) :=
  match find_item cid (items s) with
  | Some it => Some (it_qval it, map (fun e => (e_rx e, e_tx e)) (it_ents it))
  | None => None
  end.

Record acc := { a_agree06 : bool; a_oracle06 : bool; a_agree07 : bool; a_oracle07 : bool; a_bad : bool }.
Definition acc_ok : acc := {| a_agree06 := true; a_oracle06 := true; a_agree07 := true; a_oracle07 := true; a_bad := false |}.
Definition acc_and (a : acc) (g6 o6 g7 o7 : bool) : acc :=
  {| a_agree06 := a_agree06 a && g6; a_oracle06 := a_oracle06 a && o6;
     a_agree07 := a_agree07 a && g7; a_oracle07 := a_oracle07 a && o7; a_bad := a_bad a |}.
Definition acc_bad (a : acc) : acc :=
  {| a_agree06 := false; a_oracle06 := a_oracle06 a; a_agree07 := false; a_oracle07 := a_oracle07 a; a_bad := true |}.

Definition items_agree (m : option (Z * list (Z * Z))) (o : option oitem) : bool * bool :=
  match m, o with
  | None, None => (true, true)
  | Some (qv, es), Some it => (same_multiset es (oi_ents it), qv =? oi_qval it)
  | _, _ => (false, false)
  end.

Definition queue_agree (s : tss) (q : list (Z * Z)) : bool :=
  same_multiset (hq s) q.

Definition item_checks (cid : Z) (it : option oitem) (q : list (Z * Z)) (in_order : bool) : bool :=
  match it with
  | Some i => C07_item_ok (icap real_config) cid i q in_order && pairs_ordered (oi_ents i)
  | None => true
  end.

(* one step: model state, observations so far, the operation and what was observed of it *)
Definition replay_step (era : bool) (c : config) (st : option tss) (snl : seen * legit) (o : op) (ob : value) (a : acc)
  : option tss * (seen * legit) * acc :=
  let sn := fst snl in let lg := snd snl in
  match o, ob with
  | OpHandle cid q rxt now _, VL [VZ 0; VZ org; VZ rx; VZ tx; VZ ref; VZ rxt'; VZ txt'; itv; qv] =>
      match parse_item itv, parse_queue qv with
      | Some it, Some queue =>
          let '(pre, ord) := seen_get cid sn in
          let ord' := ord && match pre with Some p => oi_qval p <? rx | None => true end in
          let sn' := seen_set cid (it, ord') sn in
          let lg' := legit_add cid (rx, ref) lg in
          let o6 := (if era
                     then C06_handle_ok_era (ents_of pre) q rxt now org rx tx rxt' txt' && C06_rxt_ok (ents_of pre) rxt rxt'
                          && C06_post_ok (ents_of pre) rx (to64 txt') (option_map oi_ents it) && pairs_ordered_era (ents_of it)
                     else C06_handle_full_ok (ents_of pre) q rxt now org rx tx rxt' txt' (option_map oi_ents it)
                          && pairs_ordered (ents_of it))
                    && all_legit cid lg' (ents_of it) in
          let o7 := item_checks cid it queue ord' && C07_queue_ok (cap real_config) (seen_count sn') queue in
          match st with
          | Some s =>
              match handle c s cid q rxt now 0 with
              | Some out =>
                  let r := o_reply out in
                  let '(ge, gq) := items_agree (model_ents (o_state out) cid) it in
                  let g6 := (r_org r =? org) && (r_rx r =? rx) && (r_tx r =? tx) && (r_ref r =? ref)
                            && (o_rxt out =? rxt') && (o_txt out =? txt') && ge in
                  let g7 := gq && queue_agree (o_state out) queue && ge in
                  (Some (o_state out), (sn', lg'), acc_and a g6 o6 g7 o7)
              | None => (None, (sn', lg'), acc_and a false o6 false o7)
              end
          | None => (None, (sn', lg'), acc_and a false o6 false o7)
          end
      | _, _ => (st, snl, acc_bad a)
      end
  | OpUpdateTx cid rxt txt, VL [VZ 1; VZ txt'; itv; qv] =>
      match parse_item itv, parse_queue qv with
      | Some it, Some queue =>
          let '(pre, ord) := seen_get cid sn in
          let sn' := seen_set cid (it, ord) sn in
          let lg' := legit_add cid (to64 rxt, to64 txt') lg in
          let o6 := C06_update_ok (ents_of pre) (ents_of it) rxt txt' && C06_update_given_ok rxt txt txt'
                    && (if era then pairs_ordered_era (ents_of it) else pairs_ordered (ents_of it)) && (rxt <? txt')
                    && all_legit cid lg' (ents_of it) in
          let o7 := item_checks cid it queue ord && C07_queue_ok (cap real_config) (seen_count sn') queue in
          match st with
          | Some s =>
              let out := update_tx s cid rxt txt in
              let '(ge, gq) := items_agree (model_ents (t_state out) cid) it in
              let g6 := (t_txt out =? txt') && ge in
              let g7 := gq && queue_agree (t_state out) queue && ge in
              (Some (t_state out), (sn', lg'), acc_and a g6 o6 g7 o7)
          | None => (None, (sn', lg'), acc_and a false o6 false o7)
          end
      | _, _ => (st, snl, acc_bad a)
      end
  | _, _ => (st, snl, acc_bad a)
  end.

Fixpoint replay (era : bool) (c : config) (st : option tss) (sn : seen * legit) (ops : list op) (obs : list value) (a : acc)
  : option tss * (seen * legit) * acc :=
  match ops, obs with
  | [], [] => (st, sn, a)
  | o :: ro, ob :: rb => let '(st', sn', a') := replay_step era c st sn o ob a in replay era c st' sn' ro rb a'
  | _, _ => (st, sn, acc_bad a)
  end.

Fixpoint parse_ops (l : list value) : option (list op) :=
  match l with
  | [] => Some []
  | v :: r => match parse_op v, parse_ops r with Some o, Some os => Some (o :: os) | _, _ => None end
  end.

(* the final snapshot: [cid qval qidx ents] for every client, in client order *)
Fixpoint final_agree (s : tss) (sn : seen) (fin : list value) : bool * bool :=
  match fin with
  | [] => (true, true)
  | VL [VZ cid; VZ qval; VZ qidx; VL ents] :: r =>
      match parse_pairs ents with
      | Some ps =>
          let it := {| oi_qval := qval; oi_qidx := qidx; oi_ents := ps |} in
          let '(ge, gq) := items_agree (model_ents s cid) (Some it) in
          let same_as_seen := match fst (seen_get cid sn) with
                              | Some i => same_multiset (oi_ents i) ps && (oi_qval i =? qval)
                              | None => false end in
          let '(re, rq) := final_agree s sn r in
          (ge && same_as_seen && re, gq && rq)
      | None => (false, false)
      end
  | _ => (false, false)
  end.

Definition run_hist (era : bool) (a o : list value) : acc :=
  match a, o with
  | [VL opsv], [VL obs; VL fin] =>
      match parse_ops opsv with
      | Some ops =>
          let '(st, snl, ac) := replay era real_config (Some tss_empty) ([], []) ops obs acc_ok in
          let sn := fst snl in
          match st with
          | Some s =>
              let '(fe, fq) := final_agree s sn fin in
              let count_ok := Nat.eqb (length fin) (length (items s)) && Nat.eqb (length fin) (seen_count sn) in
              acc_and ac (fe && count_ok) true (fq && count_ok) true
          | None => ac
          end
      | None => acc_bad acc_ok
      end
  | _, _ => acc_bad acc_ok
  end.

(* C06 on floods: a newcomer that got state holds exactly the exchange of the one reply it
   received (nothing recorded for the client it displaced).  ex_state: [cid [rx ref] ents] *)
Definition run_flood_c06 (o : list value) : option bool :=
  match o with
  | [_; _; _; _; _; _; _; _; _; _; VL exst] =>
      Some (forallb (fun v =>
        match v with
        | VL [VZ cid; VL [VZ rx; VZ ref]; VL ents] =>
            match parse_pairs ents with
            | Some ps => forallb (fun e => (fst e =? rx) && (snd e =? ref)) ps && pairs_ordered ps
            | None => false
            end
        | _ => false
        end) exst)
  | _ => None
  end.

Definition run_flood (o : list value) : option bool :=
  match o with
  | [VZ capn; VZ _; VZ _; VL [VZ li; VZ lq]; VL exs; VL lens; VL sb; VL se;
     VL [VZ nitems; VZ nqueue; VZ hv; VZ qiv; VZ qvv; VZ _]; VL base; _] =>
      match parse_pairs exs, parse_pairs lens, getZs sb, getZs se, parse_pairs base with
      | Some exs, Some lens, Some sb, Some se, Some base =>
          Some ((capn =? cap real_config) && (li =? capn) && (lq =? capn) &&
                C07_flood_ok capn base exs lens sb se nitems nqueue hv qiv qvv)
      | _, _, _, _, _ => None
      end
  | _ => None
  end.

(* floods with the per-newcomer record: last element of outs = [exst replies probes decisions] *)
Definition run_flood_adm (o : list value) : option bool :=
  match o, run_flood o with
  | [_; _; _; _; VL exs; _; _; _; _; VL base; VL [_; _; _; VL adm]], Some b =>
      match parse_pairs exs, parse_pairs base, parse_pairs adm with
      | Some exs, Some base, Some adm => Some (b && C07_flood_decisions_ok base exs adm)
      | _, _, _ => None
      end
  | _, _ => None
  end.

(* kind lsn.hist, the store after a history played against the real listeners: obs = the keys of
   the items in the store (the key field of every item), exp = the ids of the clients that were
   answered (the listeners' client ids as the harness knows them), both sorted.  One item per client,
   each under its own id: no key twice, no key that is nobody's id; agreement = the two lists are equal *)
Fixpoint keys_nodup (l : list value) : bool :=
  match l with
  | [] => true
  | x :: r => negb (existsb (value_eqb x) r) && keys_nodup r
  end.
Definition run_lsn_keys (obs exp : list value) : bool * bool :=
  (values_eqb obs exp, keys_nodup obs && forallb (fun k => existsb (value_eqb k) exp) obs).

(* ---- operations on the store at its real capacity, each with the client's item as it was in
   the real store before and after (kind tss.full, and the probes of tss.flood) ----
   handle: [0 cid org rx tx rxt now pre rorg rrx rtx rref rxt' txt' post adm]
           adm = [] or [n hk hq gone]: number of clients, key and queue value of the root of the
           priority queue before the call, and whether that client has lost its item after it
   report: [1 cid rxt txt pre txt' post]
   An operation only reads and writes the item of its own client (and, for a client without an
   item, the admission decision): the model is run on the store that holds just that item.
   Result: (agreement with the model, C06 oracle, C07 oracle). *)
Definition mini_state (cid : Z) (pre : option oitem) : tss :=
  match pre with
  | Some it =>
      {| items := [{| it_key := cid; it_ents := map (fun p => {| e_rx := fst p; e_tx := snd p |}) (oi_ents it);
                      it_qval := oi_qval it |}];
         hq := [(cid, oi_qval it)] |}
  | None => tss_empty
  end.

Definition post_agrees (m : option (Z * list (Z * Z))) (post : option oitem) : bool :=
  let '(ge, gq) := items_agree m post in ge && gq.

(* C07 on one item: 1..icap exchanges, distinct receive stamps, ranked not older than any of them *)
Definition item_bounds_ok (it : option oitem) : bool :=
  match it with
  | None => true
  | Some i =>
      let rxs := map fst (oi_ents i) in
      (1 <=? Z.of_nat (length rxs)) && (Z.of_nat (length rxs) <=? icap real_config) && nodup_z rxs &&
      forallb (fun r => r <=? oi_qval i) rxs
  end.

(* the admission rule for a client without an item (C07): a store that is not full takes the newcomer in; a full
   store takes it in exactly when the least recently active client is not more recent than the newcomer,
   and then that client - the root of the queue - loses its item; otherwise nothing changes *)
Definition admission_ok (adm : list value) (rx64 : Z) (post : option oitem) : bool :=
  match adm with
  | [VZ n; VZ _; VZ hq; VZ gone] =>
      if n <? cap real_config then
        match post with Some _ => gone =? 0 | None => false end
      else if hq <=? rx64 then
        match post with Some _ => gone =? 1 | None => false end
      else
        match post with Some _ => false | None => gone =? 0 end
  | _ => true
  end.

Definition full_step (v : value) : option (bool * bool * bool) :=
  match v with
  | VL [VZ 0; VZ cid; VZ org; VZ rx; VZ tx; VZ rxt; VZ now; prev; VZ rorg; VZ rrx; VZ rtx; VZ rref; VZ rxt'; VZ txt'; postv; VL adm] =>
      match parse_item prev, parse_item postv with
      | Some pre, Some post =>
          let q := {| q_org := org; q_rx := rx; q_tx := tx |} in
          let orc := C06_handle_full_ok (ents_of pre) q rxt now rorg rrx rtx rxt' txt' (option_map oi_ents post) && pairs_ordered (ents_of post)
                     && pairs_ordered (ents_of pre) in
          let orc7 := item_bounds_ok post &&
                      match pre with
                      | None => admission_ok adm rrx post &&
                                match post with Some i => (oi_qval i =? rrx) && Nat.eqb (length (oi_ents i)) 1 | None => true end
                      | Some p => match post with
                                  | Some i => (oi_qval i =? oi_qval p) || (oi_qval i =? rrx)   (* ranked as before, or by this exchange *)
                                  | None => false      (* a known client keeps its item *)
                                  end
                      end in
          let agree :=
            match handle real_config (mini_state cid pre) cid q rxt now 0 with
            | Some out =>
                let r := o_reply out in
                (r_org r =? rorg) && (r_rx r =? rrx) && (r_tx r =? rtx) && (r_ref r =? rref) &&
                (o_rxt out =? rxt') && (o_txt out =? txt') &&
                match pre, post with
                | Some _, _ => post_agrees (model_ents (o_state out) cid) post
                | None, None => true                                   (* served without state *)
                | None, Some _ => post_agrees (model_ents (o_state out) cid) post
                end
            | None => false
            end in
          Some (agree, orc, orc7)
      | _, _ => None
      end
  | VL [VZ 1; VZ cid; VZ rxt; VZ txt; prev; VZ txt'; postv] =>
      match parse_item prev, parse_item postv with
      | Some pre, Some post =>
          let orc := C06_update_ok (ents_of pre) (ents_of post) rxt txt' && C06_update_given_ok rxt txt txt' && pairs_ordered (ents_of post) && (rxt <? txt') in
          let out := update_tx (mini_state cid pre) cid rxt txt in
          let agree := (t_txt out =? txt') && post_agrees (model_ents (t_state out) cid) post in
          Some (agree, orc, item_bounds_ok post)
      | _, _ => None
      end
  | _ => None
  end.

Fixpoint full_steps (l : list value) : option (bool * bool * bool) :=
  match l with
  | [] => Some (true, true, true)
  | v :: r =>
      match full_step v, full_steps r with
      | Some (g, o, o7), Some (ga, oa, oa7) => Some (g && ga, o && oa, o7 && oa7)
      | _, _ => None
      end
  end.

(* ---- kinds tss.conc / tss.race: calls issued by several goroutines at once ----
   Every client is driven by ONE goroutine, so the calls of a client are totally ordered by that
   goroutine's program order, which the lock order respects (C07_lock_order_respects_program_order);
   calls of other clients do not touch the client's item (C07_frame), except that newcomers evict
   the least recently active clients - none of which takes part.  Hence, if the execution is
   serialisable (C07_concurrent_calls_serialize), the replies to a client and its final item are
   those of the model run on the client's own calls in program order, started from the item the
   client had before the goroutines were started.
   client: [cid old pre [call ...] final]
     call: [0 org rx tx rxt now rorg rrx rtx rref rxt' txt'] | [1 rxt txt txt']
     old = 1: a client never seen before whose requests are older than everything in the full
     store: it never gets an item (every reply basic, no item at the end) *)
Definition conc_call (cid : Z) (old : bool) (st : option tss * bool) (v : value) : option tss * bool :=
  match st with
  | (None, _) => (None, false)
  | (Some s, ok) =>
      match v with
      | VL [VZ 0; VZ org; VZ rx; VZ tx; VZ rxt; VZ now; VZ rorg; VZ rrx; VZ rtx; VZ rref; VZ rxt'; VZ txt'] =>
          let q := {| q_org := org; q_rx := rx; q_tx := tx |} in
          match handle real_config s cid q rxt now 0 with
          | Some out =>
              let r := o_reply out in
              (Some (if old then s else o_state out),
               ok && (r_org r =? rorg) && (r_rx r =? rrx) && (r_tx r =? rtx) && (r_ref r =? rref) &&
               (o_rxt out =? rxt') && (o_txt out =? txt'))
          | None => (None, false)
          end
      | VL [VZ 1; VZ rxt; VZ txt; VZ txt'] =>
          let out := update_tx s cid rxt txt in
          (Some (t_state out), ok && (t_txt out =? txt'))
      | _ => (None, false)
      end
  end.

Definition conc_client (v : value) : bool :=
  match v with
  | VL [VZ cid; VZ old; prev; VL calls; finv] =>
      match parse_item prev, parse_item finv with
      | Some pre, Some fin =>
          match fold_left (conc_call cid (old =? 1)) calls (Some (mini_state cid pre), true) with
          | (Some s, ok) => ok && post_agrees (model_ents s cid) fin && item_bounds_ok fin && pairs_ordered (ents_of fin)
          | (None, _) => false
          end
      | _, _ => false
      end
  | _ => false
  end.

(* counts: [nitems nqueue heapviol qidxviol qvalviol] of the store afterwards (structure of the real queue array) *)
Definition run_conc (clients counts : list value) : bool :=
  forallb conc_client clients &&
  match counts with
  | [VZ nitems; VZ nqueue; VZ hv; VZ qiv; VZ qvv] =>
      (nitems =? nqueue) && (nitems <=? cap real_config) && (hv =? 0) && (qiv =? 0) && (qvv =? 0)
  | _ => false
  end.
