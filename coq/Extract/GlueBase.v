(* Shared by the per-property dispatchers. *)
From Coq Require Import ZArith List String.
From ST Require Import Base.Value.
Import ListNotations.
Open Scope string_scope.

Definition is (k s : string) : bool := String.eqb k s.

Definition first_some (fs : list (string -> list value -> list value -> option verdict))
  (k : string) (a o : list value) : verdict :=
  (fix go fs := match fs with
     | [] => unknown_case
     | f :: r => match f k a o with Some v => v | None => go r end
     end) fs.
