(* Dispatcher from case kinds (strings) to model functions and the property
   oracle of C18.  Everything the OCaml runner of this property executes goes
   through run_case. *)
From Coq Require Import ZArith List String.
From ST Require Import Base.Ints Base.Value Base.F64 Model.NtpTime Model.Units Model.UnitsOracle Extract.GlueBase.
Import ListNotations.
Open Scope string_scope.
Open Scope Z_scope.

Definition glue_C18 (k : string) (a o : list value) : option verdict :=
  if is k "units.timeval" then
    match a, o with
    | [VZ n], [VZ osec; VZ ousec] =>
        let '(sec, usec) := timeval_from_nsec n in
        Some (functional [VZ sec; VZ usec] o (C18_timeval_ok n osec ousec))
    | _, _ => None end
  else if is k "units.ppm_of_freq" then
    match a, o with
    | [VZ fbits], [VZ r] =>
        Some (functional [VZ (scaled_ppm_from_freq (f_of_bits fbits))] o (C18_ppm_of_freq_ok (f_of_bits fbits) r))
    | _, _ => None end
  else if is k "units.freq_of_ppm" then
    match a, o with
    | [VZ x], [VZ gbits] =>
        Some (functional [VZ (f_to_bits (freq_from_scaled_ppm x))] o (C18_freq_of_ppm_ok x (f_of_bits gbits)))
    | _, _ => None end
  else if is k "units.ppm_roundtrip" then
    match a, o with
    | [VZ x], [VZ back] =>
        Some (functional [VZ (scaled_ppm_from_freq (freq_from_scaled_ppm x))] o (C18_freq_ok x back))
    | _, _ => None end
  else if is k "units.drift" then
    match a, o with
    | [VZ drift_ns; VZ d], [VZ D] =>
        Some (functional [VZ (sysclk_drift drift_ns d)] o (C18_drift_ok drift_ns d D))
    | _, _ => None end
  else if is k "units.drift_add" then
    (* args: drift_ns d1 d2; observed: Drift(d1), Drift(d2), Drift(d1 + d2) *)
    match a, o with
    | [VZ drift_ns; VZ d1; VZ d2], [VZ D1; VZ D2; VZ D12] =>
        Some (functional [VZ (sysclk_drift drift_ns d1); VZ (sysclk_drift drift_ns d2); VZ (sysclk_drift drift_ns (d1 + d2))] o
                (C18_drift_add_ok drift_ns d1 d2 D1 D2 D12))
    | _, _ => None end
  else if is k "csptp.ts_of_time" then
    match a with
    | [VZ sec; VZ nsec] =>
        match csptp_ts_of_time (mk_time sec nsec) with
        | Some (s, ns) => Some (functional [VZ 1; VZ s; VZ ns] o true)
        | None => Some (functional [VZ 0] o true)
        end
    | _ => None end
  else if is k "csptp.time_of_ts" then
    match a with
    | [VZ s; VZ ns] =>
        let t := csptp_time_of_ts s ns in
        Some (functional [VZ (time_sec t); VZ (time_nsec t)] o true)
    | _ => None end
  else if is k "csptp.ts_roundtrip" then
    match a, o with
    | [VZ s; VZ ns], [VZ okk; VZ bs; VZ bns] =>
        Some (functional [VZ 1; VZ s; VZ ns] o ((okk =? 1) && (bs =? s) && (bns =? ns))%bool)
    | _, _ => Some (relational false false) end
  else if is k "csptp.ts_reencode" then
    (* any 32-bit nanoseconds field: wire -> time -> wire; observed: ok flag, seconds, nanoseconds (0 0 0 on panic) *)
    match a, o with
    | [VZ s; VZ ns], [VZ okk; VZ bs; VZ bns] =>
        match csptp_ts_of_time (csptp_time_of_ts s ns) with
        | Some (x, y) => Some (functional [VZ 1; VZ x; VZ y] o (C18_ts_reencode_ok s ns okk bs bns))
        | None => Some (functional [VZ 0; VZ 0; VZ 0] o (C18_ts_reencode_ok s ns okk bs bns))
        end
    | _, _ => None end
  else if is k "units.callsites" then
    (* source check of the adjtimex call sites: entries [category ok] *)
    match o with
    | [VL es] =>
        let ps := map (fun e => match e with VL [VZ c; VZ b] => (c, b) | _ => (0, 0) end) es in
        Some (relational true (C18_callsites_ok ps))
    | _ => None end
  else if is k "csptp.client" then
    (* the real client against the scripted responder.  args: theta f1 f0a f0b utc valid (flags, spacing, order: unused here)
       t1 t2 s2 d1max; observed: ok, returned offset, returned receive time t3, logged offset, mean path delay, C2S, S2C.
       Model: the formulas on the timestamps the client used; its transmit time t0 is not observable and is
       recovered from the logged C2S delay (t0 = t1 - c1 - U - C2S), every other value must then follow. *)
    match a, o with
    | [VZ theta; VZ f1; VZ f0a; VZ f0b; VZ utc; VZ valid; _; _; _; _; _; VZ t1; VZ t2; VZ s2; VZ d1max],
      [VZ okk; VZ retoff; VZ t3; VZ off; VZ mpd; VZ c2s; VZ s2c] =>
        if okk =? 1 then
          let c1 := csptp_dur_of_interval f1 in
          let c3 := d_add (csptp_dur_of_interval f0a) (csptp_dur_of_interval f0b) in
          let U := if valid =? 1 then utc * 1000000000 else 0 in
          let t0 := t1 - c1 - U - c2s in
          let moff := csptp_clock_offset t0 t1 t2 t3 c1 c3 in
          Some (functional [VZ 1; VZ moff; VZ t3; VZ moff; VZ (csptp_mean_path_delay t0 t1 t2 t3 c1 c3);
                            VZ (csptp_c2s_delay t0 t1 c1 U); VZ (csptp_s2c_delay t2 t3 c3 U)] o
                  (C18_client_ok theta U d1max (t3 - s2) retoff mpd c2s s2c))
        else Some (relational false true)    (* an honest responder and no measurement: reported, not a property verdict *)
    | _, _ => None end
  else if is k "csptp.interval" then
    match a, o with
    | [VZ i], [VZ d] => Some (functional [VZ (csptp_dur_of_interval i)] o (C18_interval_ok i d))
    | _, _ => None end
  else if is k "csptp.formulas" then
    match a, o with
    | [VZ t0; VZ t1; VZ t2; VZ t3; VZ c1; VZ c3; VZ utc], [VZ off; VZ mpd; VZ c2s; VZ s2c] =>
        Some (functional [VZ (csptp_clock_offset t0 t1 t2 t3 c1 c3); VZ (csptp_mean_path_delay t0 t1 t2 t3 c1 c3);
                          VZ (csptp_c2s_delay t0 t1 c1 utc); VZ (csptp_s2c_delay t2 t3 c3 utc)] o
                (C18_formulas_ok t0 t1 t2 t3 c1 c3 utc off mpd c2s s2c))
    | _, _ => None end
  else if is k "csptp.recover" then
    (* args: t0 t2 theta delta c1 c3; observed: offset, mean path delay computed by the implementation *)
    match a, o with
    | [VZ t0; VZ t2; VZ theta; VZ delta; VZ c1; VZ c3], [VZ off; VZ mpd] =>
        let t1 := t0 + theta + delta + c1 in let t3 := t2 - theta + delta + c3 in
        Some (functional [VZ (csptp_clock_offset t0 t1 t2 t3 c1 c3); VZ (csptp_mean_path_delay t0 t1 t2 t3 c1 c3)] o
                (C18_recover_ok theta delta c1 c3 off mpd))
    | _, _ => None end
  else if is k "csptp.recover_delays" then
    (* args: t0 t2 theta d1 d2 c1 c3 utc; observed: C2SDelay, S2CDelay computed by the implementation *)
    match a, o with
    | [VZ t0; VZ t2; VZ theta; VZ d1; VZ d2; VZ c1; VZ c3; VZ utc], [VZ c2s; VZ s2c] =>
        let t1 := t0 + theta + d1 + c1 + utc in let t3 := t2 - theta + d2 + c3 - utc in
        Some (functional [VZ (csptp_c2s_delay t0 t1 c1 utc); VZ (csptp_s2c_delay t2 t3 c3 utc)] o
                (C18_delays_ok theta d1 d2 c1 c3 utc c2s s2c))
    | _, _ => None end
  else None.

Definition run_case (k : string) (a o : list value) : verdict :=
  first_some [glue_C18] k a o.
