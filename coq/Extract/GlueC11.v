(* Dispatcher of C11: evaluates the model (Model/CookiePool.v) and the property
   oracle (Model/CookieOracle.v) on what the real code did.
   AES-SIV answers are supplied by the harness (recomputed with miscreant for the
   query the implementation made); the model's own query must be that query,
   otherwise the answer is withheld and the comparison fails. *)
From Coq Require Import ZArith List String Bool.
From ST Require Import Base.Ints Base.Bytes Base.Value Model.CookiePool Model.CookieOracle Extract.GlueBase.
Import ListNotations.
Open Scope Z_scope.

Fixpoint getBs (l : list value) : option (list (list Z)) :=
  match l with
  | [] => Some []
  | VB b :: r => match getBs r with Some bs => Some (b :: bs) | None => None end
  | _ => None
  end.

Definition beq := bytes_eqb.
Fixpoint bseq (a b : list (list Z)) : bool :=
  match a, b with
  | [], [] => true
  | x :: a', y :: b' => beq x y && bseq a' b'
  | _, _ => false
  end.

(* the AES-SIV answer the harness computed for (key, nonce, plain, ad) *)
Definition seal_from (ok : bool) (key nonce plain ad ct : list Z) : list Z -> list Z -> list Z -> list Z -> list Z :=
  fun k n p a =>
    if ok && beq k key && beq n nonce && beq p plain && beq a ad then ct
    else repeat 0 (length p + 16).

Definition zb (z : Z) : bool := negb (z =? 0).

(* the AES-SIV answers of one exchange: (valid, key, nonce, plaintext, associated data, ciphertext) *)
Record aead_q := { q_ok : bool; q_key : list Z; q_nonce : list Z; q_plain : list Z; q_ad : list Z; q_ct : list Z }.
Fixpoint seal_of (qs : list aead_q) (k n p a : list Z) : list Z :=
  match qs with
  | [] => repeat 0 (length p + 16)
  | q :: r => if q_ok q && beq k (q_key q) && beq n (q_nonce q) && beq p (q_plain q) && beq a (q_ad q)
              then q_ct q else seal_of r k n p a
  end.
Fixpoint open_of (qs : list aead_q) (k n c a : list Z) : option (list Z) :=
  match qs with
  | [] => None
  | q :: r => if q_ok q && beq k (q_key q) && beq n (q_nonce q) && beq c (q_ct q) && beq a (q_ad q)
              then Some (q_plain q) else open_of r k n c a
  end.
(* the cookies the server made: the ones observed in the reply, then as many more as it was asked for *)
Definition observed_cookies (cs : list (list Z)) (n : nat) : list (list Z) :=
  (cs ++ repeat (repeat 0 (length (hd [] cs))) (n - length cs))%list.

(* everything EncodePacket writes before the authenticator *)
Definition encode_prefix (hdr : list Z) (p : packet) : outcome (list Z) :=
  if negb (zlen hdr =? ntpPacketLen) then Panic else
  obind (pack_uid hdr (p_uid p)) (fun o1 =>
  obind (pack_fields o1 extCookie (p_cookies p)) (fun o2 =>
  pack_fields o2 extCookiePlaceholder (p_placeholders p))).

Definition issued_shape (bs : list (list Z)) : bool :=
  forallb (fun c => zlen c =? serverCookieLen) bs.

(* ---- c11.req ---- *)
Definition glue_req (a o : list value) : option verdict :=
  match a, o with
  | [VL poolv; VB kc2s; VB hdr], [VZ panicked; VB out; VB uid0; VZ okz; VB nonce0; VB ct] =>
      match getBs poolv with
      | None => None
      | Some pool =>
          let ok := zb okz in
          let uid := match uid0 with [] => repeat 0 32 | _ => uid0 end in
          let nonce := if ok then nonce0 else repeat 0 16 in
          let ad := firstn (length out - 40) out in
          let sl := seal_from ok kc2s nonce [] ad ct in
          let oracle :=
            match pool with
            | c :: _ =>
                if (zlen c =? serverCookieLen) && (zlen kc2s =? 32) && (zlen hdr =? 48) && (zlen pool <=? 8)
                then negb (zb panicked) && request_ok (zlen pool) out &&
                     match request_cookie out with Some c' => beq c c' | None => false end
                else true
            | [] => true
            end in
          let model := obind (new_request pool kc2s uid) (fun pkt =>
                       obind (encode_packet sl hdr pkt nonce) (fun b =>
                       obind (encode_prefix hdr pkt) (fun pre => Ok (b, pre)))) in
          match model with
          | Ok (b, pre) =>
              if ok then Some (functional [VZ 0; VB b] [VZ panicked; VB out] oracle)
              else Some (relational (negb (zb panicked) && (zlen b =? zlen out) &&
                                     beq (firstn (length pre) out) (firstn (length pre) b)) oracle)
          | _ => Some (functional [VZ 1; VB []] [VZ panicked; VB out] oracle)
          end
      end
  | _, _ => None
  end.

(* ---- c11.resp ---- *)
Definition glue_resp (a o : list value) : option verdict :=
  match a, o with
  | [VL cookiesv; VB key; VB uid; VB hdr], [VZ panicked; VB out; VZ okz; VB nonce0; VB plain; VB ct] =>
      match getBs cookiesv with
      | None => None
      | Some cookies =>
          let ok := zb okz in
          let nonce := if ok then nonce0 else repeat 0 16 in
          let ad := firstn (length out - Z.to_nat (24 + pad4 (zlen plain + 16))) out in
          let sl := seal_from ok key nonce plain ad ct in
          let oracle :=
            if issued_shape cookies && (1 <=? zlen cookies) && (zlen key =? 32) && (zlen uid =? 32) && (zlen hdr =? 48)
            then
              negb (zb panicked) && ok && (zlen out <=? o_max_packet) &&
              match fields_of out, ext_fields (S (length plain)) plain with
              | Some fs, Some pf =>
                  (olen fs =? 2) && (count_type t_uid fs =? 1) && (last_type fs =? t_auth) &&
                  match values_of t_uid fs with [u] => beq u uid | _ => false end &&
                  (olen pf =? count_type t_cookie pf) &&
                  let n := olen pf in
                  (1 <=? n) && (n <=? zlen cookies) &&
                  bseq (values_of t_cookie pf) (firstn (Z.to_nat n) cookies) &&
                  ((n =? zlen cookies) ||
                   (o_max_packet <? with_n_cookie_fields uid (hd [] cookies) (n + 1)))
              | _, _ => false
              end
            else true in
          let model := obind (new_response cookies key uid) (fun pkt =>
                       obind (encode_packet sl hdr pkt nonce) (fun b =>
                       obind (encode_prefix hdr pkt) (fun pre => Ok (b, pre)))) in
          match model with
          | Ok (b, pre) =>
              if ok then Some (functional [VZ 0; VB b] [VZ panicked; VB out] oracle)
              else Some (relational (negb (zb panicked) && (zlen b =? zlen out) &&
                                     beq (firstn (length pre) out) (firstn (length pre) b)) oracle)
          | _ => Some (functional [VZ 1; VB []] [VZ panicked; VB out] oracle)
          end
      end
  | _, _ => None
  end.

(* ---- c11.hist ---- *)
Record hstep := {
  h_action : Z;
  h_obs : step_obs;
  h_req_nonce : list Z; h_req_ct : list Z;
  h_nrep : Z;
  h_rep_nonce : list Z; h_rep_ct : list Z; h_rep_plain : list Z;
  h_client_err : bool;
  h_stray : Z              (* further datagrams of the client in the same call: the model makes one request per call *)
}.

Definition parse_cookie_facts (v : value) : option cookie_facts :=
  match v with
  | VL [VB c; VZ kid; VZ okz; VB a; VB b] =>
      Some {| cf_bytes := c; cf_keyid := kid; cf_keys := if zb okz then Some (a, b) else None |}
  | _ => None
  end.
Fixpoint parse_facts (l : list value) : option (list cookie_facts) :=
  match l with
  | [] => Some []
  | v :: r => match parse_cookie_facts v, parse_facts r with
              | Some c, Some cs => Some (c :: cs) | _, _ => None end
  end.

Fixpoint parse_extras (l : list value) : option (list (list Z * bool * list cookie_facts)) :=
  match l with
  | [] => Some []
  | VL [VB r; VZ a; VL cv] :: rest =>
      match parse_facts cv, parse_extras rest with
      | Some cfs, Some es => Some ((r, zb a, cfs) :: es)
      | _, _ => None
      end
  | _ => None
  end.

Definition parse_step (sv ov : value) : option hstep :=
  match sv, ov with
  | VL [VZ _; VZ action; VZ _],
    VL [VZ sent; VB req; VB rnonce; VB rct; VZ openable; VZ fwd; VZ nrep; VB rep; VB pnonce; VB pct;
        VZ authok; VB plain; VL cookiesv; VZ intact; VZ cerr; VZ ked; VL poolv; VB k1; VB k2; VZ curk; VL forgedv; VZ nosend;
        VL extrav; VL seenv; VZ stray; VZ foreign] =>
      match parse_facts cookiesv, getBs poolv, getBs forgedv, parse_extras extrav, getBs seenv with
      | Some cfs, Some pool, Some forged, Some extra, Some seen =>
          Some {| h_action := action;
                  h_obs := {| so_sent := zb sent; so_req := req; so_openable := zb openable;
                              so_forwarded := 0 <? fwd; so_served := 0 <? nrep; so_reply := rep;
                              so_reply_auth := zb authok; so_reply_cookies := cfs; so_intact := zb intact;
                              so_rekeyed := 0 <? ked; so_pool_after := pool; so_c2s := k1; so_s2c := k2;
                              so_cur_key := curk; so_forged := forged;
                              so_nforwarded := fwd; so_nreplies := nrep; so_extra := extra; so_seen_before := seen;
                              so_foreign := zb foreign;
                              so_nosend := nosend |};
                  h_req_nonce := rnonce; h_req_ct := rct; h_nrep := nrep;
                  h_rep_nonce := pnonce; h_rep_ct := pct; h_rep_plain := plain;
                  h_client_err := zb cerr; h_stray := stray |}
      | _, _, _, _, _ => None
      end
  | _, _ => None
  end.

Fixpoint parse_steps (s o : list value) : option (list hstep) :=
  match s, o with
  | [], [] => Some []
  | sv :: sr, ov :: or => match parse_step sv ov, parse_steps sr or with
                          | Some h, Some hs => Some (h :: hs) | _, _ => None end
  | _, _ => None
  end.

Definition act_kefail : Z := 6.

(* does the model accept this observed call, the client being in state pre *)
Definition step_agree (pre : client) (h : hstep) : bool :=
  (h_stray h =? 0) &&
  let o := h_obs h in
  let post_pool := so_pool_after o in
  if so_sent o then
    let req := so_req o in
    let hdr := firstn 48 req in
    let uid := firstn 32 (skipn 52 req) in
    let wire_cookie := match request_cookie req with Some c => c | None => [] end in
    let ke_needed := match pool pre with [] => true | _ => false end in
    (* FetchData; after a key exchange its cookies are the one on the wire and what is in the pool
       apart from the cookies this call's reply brought *)
    let nstored := if so_intact o then length (so_reply_cookies o) else O in
    let ke := if ke_needed
              then KeOk (wire_cookie :: firstn (length post_pool - nstored) post_pool) (so_c2s o) (so_s2c o)
              else KeErr in
    Bool.eqb ke_needed (so_rekeyed o) &&
    match fetch pre ke with
    | None => false
    | Some (d, c1) =>
        beq (c2s d) (so_c2s o) && beq (s2c d) (so_s2c o) &&
        (* the three parts of the exchange, on the observed datagrams *)
        let rep := so_reply o in
        let plain := h_rep_plain h in
        let qs := [ {| q_ok := true; q_key := c2s d; q_nonce := h_req_nonce h; q_plain := [];
                       q_ad := firstn (length req - 40) req; q_ct := h_req_ct h |};
                    {| q_ok := so_reply_auth o; q_key := s2c d; q_nonce := h_rep_nonce h; q_plain := plain;
                       q_ad := firstn (length rep - Z.to_nat (24 + pad4 (zlen plain + 16))) rep; q_ct := h_rep_ct h |} ] in
        let cs_obs := map cf_bytes (so_reply_cookies o) in
        match client_request (seal_of qs) d uid (h_req_nonce h) hdr with
        | Ok b => beq b req
        | _ => false
        end &&
        (* the server answers exactly the requests whose cookie it can open *)
        Bool.eqb (so_served o) (so_forwarded o && so_openable o) &&
        (if so_intact o then so_served o else true) &&
        (if so_served o && negb (so_foreign o) then
           match server_reply (seal_of qs) (open_of qs) req (c2s d) (s2c d) (observed_cookies cs_obs)
                   (h_rep_nonce h) (firstn 48 rep) with
           | Ok (b, sent) =>
               beq b rep && bseq sent cs_obs &&
               (* key := provider.Current(): every new cookie names the current key *)
               forallb (fun c => cf_keyid c =? so_cur_key o) (so_reply_cookies o)
           | _ => false
           end
         else true) &&
        (* the client takes the cookies of an authentic reply, and of nothing else *)
        (if so_intact o then
           match client_process (open_of qs) rep (s2c d) uid c1 with
           | Ok c2 => bseq (pool c2) post_pool
           | _ => false
           end
         else bseq (pool c1) post_pool && h_client_err h)
    end
  else if so_nosend o =? 0 then
    (* exchangeKeys failed (however the peer misbehaved): f.data = Data{} *)
    match pool pre with
    | [] => negb (so_rekeyed o) && h_client_err h &&
            bseq post_pool [] && beq (so_c2s o) [] && beq (so_s2c o) []
    | _ => false
    end
  else
    (* FetchData succeeded and took a cookie, the call returned an error before the request left *)
    let ke_needed := match pool pre with [] => true | _ => false end in
    let ke := if ke_needed then KeOk ([] :: post_pool) (so_c2s o) (so_s2c o) else KeErr in
    Bool.eqb ke_needed (so_rekeyed o) && h_client_err h &&
    match fetch pre ke with
    | None => false
    | Some (d, c1) => bseq (pool c1) post_pool && beq (c2s c1) (so_c2s o) && beq (s2c c1) (so_s2c o)
    end.

Definition client_after (h : hstep) : client :=
  {| pool := so_pool_after (h_obs h); c2s := so_c2s (h_obs h); s2c := so_s2c (h_obs h) |}.

Fixpoint hist_agree (pre : client) (l : list hstep) : bool :=
  match l with
  | [] => true
  | h :: r => step_agree pre h && hist_agree (client_after h) r
  end.

Definition glue_hist (a o : list value) : option verdict :=
  match a, o with
  | [VL _], [VL [VZ 99]] =>
      (* the process running the client and the listeners died during this history *)
      Some (relational false false)
  | [VL script], [VL obs] =>
      match parse_steps script obs with
      | Some hs => Some (relational (hist_agree client0 hs) (C11_ok (map h_obs hs)))
      | None => None
      end
  | _, _ => None
  end.

Definition values_or_nil (req : list Z) : list (list Z) :=
  match fields_of req with Some fs => values_of t_cookie fs | None => [] end.

(* ---- c11.store ---- *)
Definition glue_store (a o : list value) : option verdict :=
  match a, o with
  | [VL cv], [VL pv] =>
      match getBs cv, getBs pv with
      | Some cs, Some p =>
          let m := fold_left (fun c x => store c [x]) cs client0 in
          (* oracle: nothing is invented, and cookies of the issued length are all kept, in order *)
          Some (functional [VL (map VB (pool m))] o
                  ((zlen p <=? 8) && forallb (fun x => mem x cs) p &&
                   (if issued_shape cs then bseq p (firstn 8 cs) else true)))
      | _, _ => None
      end
  | _, _ => None
  end.

(* ---- c11.srv: an authenticated request of any shape, and the listener's reply ---- *)
Definition glue_srv (a o : list value) : option verdict :=
  match o with
  | [VL [VZ 0]] => Some (relational true true)          (* the request could not be encoded: nothing sent *)
  | [VL [VZ 99]] => Some (relational false false)       (* the process died *)
  | [VL [VZ 1; VB req; VZ nrep; VB rep; VB pnonce; VB pct; VZ authok; VB plain; VL cookiesv; VB k1; VB k2; VZ curk; VZ openz; VZ warm; VL seenv]] =>
      match parse_facts cookiesv with
      | None => None
      | Some cfs =>
          let served := 0 <? nrep in
          let oracle := ((warm =? -1) || (warm =? 1)) && (match seenv with [] => true | _ => false end) &&
                        if zb openz
                        then (nrep =? 1) && reply_ok req rep (zb authok) cfs k1 k2 (values_or_nil req) curk
                        else nrep =? 0 (* a cookie under an expired key is refused *) in
          let agree :=
            if negb (zb openz) then negb served else
            match decode_packet req, plain_cookies (S (length plain)) plain 0 [] with
            | Ok dq, Ok cs =>
                match d_uid dq, cs with
                | Some quid, c0 :: _ =>
                    let rad := firstn (length rep - Z.to_nat (24 + pad4 (zlen plain + 16))) rep in
                    let sl2 := seal_from (zb authok) k2 pnonce plain rad pct in
                    served && (zlen cs =? reply_count (server_issue_count dq) (zlen quid) (zlen c0)) &&
                    bseq cs (map cf_bytes cfs) && forallb (fun c => cf_keyid c =? curk) cfs &&
                    match obind (new_response cs k2 quid) (fun rp => encode_packet sl2 (firstn 48 rep) rp pnonce) with
                    | Ok b => beq b rep
                    | _ => false
                    end
                | _, _ => false
                end
            | _, _ => false
            end in
          Some (relational agree oracle)
      end
  | _ => None
  end.

(* ---- c11.conc: FetchData from several goroutines at once ---- *)
Definition subset (a b : list (list Z)) : bool := forallb (fun x => mem x b) a.
Definition conc_round (v : value) : option (bool * bool) :=
  match v with
  | VL [VL bv; VL hv; VL av] =>
      match getBs bv, getBs hv, getBs av with
      | Some before, Some heads, Some after =>
          let g := length heads in
          (* model: the calls take the lock one after the other: each pops the head *)
          let agree := bseq after (skipn g before) && subset heads (firstn g before) && subset (firstn g before) heads in
          (* oracle: no cookie handed to two calls; every one came from the pool and left it *)
          let oracle := distinct heads && subset heads before && forallb (fun x => negb (mem x after)) heads &&
                        (zlen after =? zlen before - Z.of_nat g) && subset after before in
          Some (agree, oracle)
      | _, _, _ => None
      end
  | _ => None
  end.
Fixpoint conc_rounds (l : list value) : option (bool * bool) :=
  match l with
  | [] => Some (true, true)
  | v :: r => match conc_round v, conc_rounds r with
              | Some (a, o), Some (a', o') => Some (a && a', o && o')
              | _, _ => None
              end
  end.
Definition glue_conc (a o : list value) : option verdict :=
  match o with
  | [VL [VZ 99]] => Some (relational false false)
  | [VL rounds] => match conc_rounds rounds with Some (ag, orc) => Some (relational ag orc) | None => None end
  | _ => None
  end.

(* ---- c11.ilv: interleaved mode, several exchanges per call ---- *)
Definition request_ok_any (req : list Z) : bool :=
  existsb (fun l => request_ok l req) [1; 2; 3; 4; 5; 6; 7; 8].
(* state: cookies sent so far; result: still fine *)
Fixpoint ilv_calls (sent : list (list Z)) (l : list value) : option bool :=
  match l with
  | [] => Some true
  | VL [VL reqsv; VL poolv; VZ _] :: rest =>
      match getBs reqsv, getBs poolv with
      | Some reqs, Some pool =>
          let cookies := flat_map (fun r => match request_cookie r with Some c => [c] | None => [] end) reqs in
          let sent' := (cookies ++ sent)%list in
          let ok := (length reqs <=? 3)%nat && (length cookies =? length reqs)%nat &&
                    forallb request_ok_any reqs &&
                    distinct sent' &&                                   (* every exchange of every call its own cookie *)
                    (zlen pool <=? 8) && distinct pool &&
                    forallb (fun x => negb (mem x sent')) pool in       (* a cookie that was sent is gone *)
          match ilv_calls sent' rest with
          | Some b => Some (ok && b)
          | None => None
          end
      | _, _ => None
      end
  | _ => None
  end.
Definition glue_ilv (a o : list value) : option verdict :=
  match o with
  | [VL [VZ 99]] => Some (relational false false)
  | [VL calls] => match ilv_calls [] calls with Some b => Some (relational b b) | None => None end
  | _ => None
  end.

(* ---- c11.conck: two calls on an empty fetcher while the key exchange is slow ---- *)
Definition glue_conck (a o : list value) : option verdict :=
  match o with
  | [VL [VZ 99]] => Some (relational false false)
  | [VL [VZ nke; VL headsv; VZ erra; VZ errb; VL factsv; VB k1; VB k2; VB ka; VB kb]] =>
      match getBs headsv, parse_facts factsv with
      | Some heads, Some facts =>
          let pool := map cf_bytes facts in
          (* oracle: one key exchange for one empty pool; never more than eight; every cookie in the pool
             belongs to the session whose keys the fetcher holds; the two calls got different cookies,
             which are gone from the pool; both calls work with the keys the fetcher holds *)
          let oracle :=
            (nke =? 1) && (zlen pool <=? 8) && distinct pool &&
            forallb (fun f => match cf_keys f with
                              | Some (x, y) => beq x k1 && beq y k2
                              | None => false end) facts &&
            distinct heads && forallb (fun h => negb (mem h pool)) heads &&
            beq ka k1 && beq kb k1 in
          (* model: the calls run one after the other: a key exchange, two cookies taken *)
          let agree := negb (zb erra) && negb (zb errb) && (zlen pool =? 6) &&
                       forallb (fun h => negb (beq h [])) heads in
          Some (relational agree oracle)
      | _, _ => None
      end
  | _ => None
  end.

Definition glue_C11 (k : string) (a o : list value) : option verdict :=
  if is k "c11.const" then
    Some (functional [VZ MaxPacketLen; VZ serverCookieLen; VZ ntpPacketLen] o
            (match o with [VZ m; VZ c; VZ n] => (m =? o_max_packet) && (n =? o_ntp_len) | _ => false end))
  else if is k "c11.req" then glue_req a o
  else if is k "c11.resp" then glue_resp a o
  else if is k "c11.hist" then glue_hist a o
  (* the same histories through the SCION client (packet authentication and NTS both on):
     requests and replies are the NTP/NTS payloads of the SCION/UDP packets *)
  else if is k "c11.shist" then glue_hist a o
  else if is k "c11.store" then glue_store a o
  else if is k "c11.srv" then glue_srv a o
  else if is k "c11.conc" then glue_conc a o
  else if is k "c11.ilv" then glue_ilv a o
  else if is k "c11.conck" then glue_conck a o
  else None.

Definition run_case k a o := first_some [glue_C11] k a o.
