(* Dispatcher from case kinds (strings) to model functions and the property
   oracle of C17.  Everything the OCaml runner of this property executes goes
   through run_case. *)
From Coq Require Import ZArith List String.
From ST Require Import Base.Ints Base.Value Base.Sorting Base.F64 Model.NtpTime Model.Ftm Model.Lucky Model.Ntimed Extract.GlueBase.
Import ListNotations.
Open Scope string_scope.
Open Scope Z_scope.

(* lucky-packet operations: [1 cTx sRx sTx cRx] = Do, [0] = Reset *)
Definition lop_of_value (v : value) : option lop :=
  match v with
  | VL [VZ 1; VZ a; VZ b; VZ c; VZ d] => Some (LDo {| sm_ctx := a; sm_srx := b; sm_stx := c; sm_crx := d |})
  | VL [VZ 0] => Some LReset
  | _ => None end.
Fixpoint lops_of (l : list value) : option (list lop) :=
  match l with
  | [] => Some []
  | v :: r => match lop_of_value v, lops_of r with Some o, Some os => Some (o :: os) | _, _ => None end
  end.

(* Ntimed operations: [1 epoch cTx sRx sTx cRx] = Do, [0 epoch] = Reset *)
Definition nop_of_value (v : value) : option nop :=
  match v with
  | VL [VZ 1; VZ e; VZ a; VZ b; VZ c; VZ d] => Some (NDo e {| sm_ctx := a; sm_srx := b; sm_stx := c; sm_crx := d |})
  | VL [VZ 0; VZ e] => Some (NReset e)
  | _ => None end.
Fixpoint nops_of (l : list value) : option (list nop) :=
  match l with
  | [] => Some []
  | v :: r => match nop_of_value v, nops_of r with Some o, Some os => Some (o :: os) | _, _ => None end
  end.

(* the window after every Do of a configured filter *)
Fixpoint lucky_windows (cap : nat) (st : list lmeas) (ops : list lop) : list (list lmeas) :=
  match ops with
  | [] => []
  | LReset :: r => lucky_windows cap [] r
  | LDo s :: r => let st' := lucky_push cap st (meas_of s) in st' :: lucky_windows cap st' r
  end.

(* a window without ties, or of at most 12 samples (insertion sort, stable): the model's value exactly;
   a longer window with ties (pdqsort proper, modelled by contract): some choice among the tied samples *)
Definition window_accepts (pick : nat) (w : list lmeas) (o : Z) : bool :=
  if lucky_exact_window w then lucky_result (lucky_select pick w) =? o else lucky_accepts pick w o.
Fixpoint accepts_all (pick : nat) (ws : list (list lmeas)) (obs : list Z) : bool :=
  match ws, obs with
  | [], [] => true
  | w :: ws', o :: obs' => window_accepts pick w o && accepts_all pick ws' obs'
  | _, _ => false
  end.

Fixpoint ndo_l (ops : list lop) : nat :=
  match ops with [] => O | LDo _ :: r => S (ndo_l r) | LReset :: r => ndo_l r end.
Fixpoint ndo_n (ops : list nop) : nat :=
  match ops with [] => O | NDo _ _ :: r => S (ndo_n r) | NReset _ :: r => ndo_n r end.
Definition last_epoch (ops : list nop) : Z := fold_left (fun _ op => op_epoch op) ops 0.
(* the suffix starts at a reset point of the filter that ran pre ++ mid *)
Definition starts_fresh (pre mid suf : list nop) : bool :=
  match rev mid with
  | NReset _ :: _ => true
  | _ => match suf with op :: _ => is_reset_point (last_epoch (pre ++ mid)%list) op | [] => true end
  end.

Definition glue_C17 (k : string) (a o : list value) : option verdict :=
  if is k "lucky.new" then
    (* args: cap pick probe; observed: panicked, the outputs of the probe history on the constructed filter
       (the probe makes the effective window size and pick count visible: the oracle is the selection rule
       for capacity cap and pick count pick as given to the constructor) *)
    match a, o with
    | [VZ cap; VZ pick; VL ops], [VZ pan; VL obs] =>
        match lops_of ops, getZs obs with
        | Some ops, Some obs =>
            let should := (cap <=? 0) || (pick <=? 0) in
            match lucky_new cap pick with
            | None => Some (functional [VZ 1; VL []] o (Bool.eqb should (negb (pan =? 0))))
            | Some f =>
                let oracle := Bool.eqb should (negb (pan =? 0)) && C17_lucky_ok (Z.to_nat cap) (Z.to_nat pick) ops obs in
                let ws := lucky_windows (lk_cap f) [] ops in
                if forallb lucky_exact_window ws then
                  match lucky_run f ops with
                  | Some exp => Some (functional [VZ 0; VL (map VZ exp)] o oracle)
                  | None => Some (relational (negb (pan =? 0)) oracle)
                  end
                else Some (relational ((pan =? 0) && accepts_all (lk_pick f) ws obs) oracle)
            end
        | _, _ => None end
    | _, _ => None end
  else if is k "lucky.inter" then
    (* args: [[cap pick ops] ...] schedule; two or three filter instances called in the interleaved order
       of the schedule; observed: the outputs of each instance, panicked.  Each instance against its own
       model run and its own oracle: the schedule must not matter. *)
    match a, o with
    | [VL insts; VL _], [VL obss; VZ pan] =>
        let one (io : value * value) : option (value * bool * bool) :=
          match io with
          | (VL [VZ cap; VZ pick; VL ops], VL obs) =>
              match lops_of ops, getZs obs, lucky_new cap pick with
              | Some ops, Some obs, Some f =>
                  let ws := lucky_windows (lk_cap f) [] ops in
                  let oracle := C17_lucky_ok (Z.to_nat cap) (Z.to_nat pick) ops obs in
                  match lucky_run f ops with
                  | Some exp => Some (VL (map VZ exp), accepts_all (lk_pick f) ws obs, oracle)
                  | None => None
                  end
              | _, _, _ => None
              end
          | _ => None
          end in
        if Nat.eqb (length insts) (length obss) then
          let rs := map one (combine insts obss) in
          if forallb (fun r => match r with Some _ => true | None => false end) rs then
            let get (r : option (value * bool * bool)) := match r with Some x => x | None => (VL [], false, false) end in
            let exp := map (fun r => fst (fst (get r))) rs in
            let agree := forallb (fun r => snd (fst (get r))) rs in
            let oracle := (pan =? 0) && forallb (fun r => snd (get r)) rs in
            if agree then Some (functional [VL exp; VZ 0] o oracle) else Some (relational false oracle)
          else None
        else None
    | _, _ => None end
  else if is k "ntimed.inter" then
    match a, o with
    | [VL streams; VL _], [VL obss; VZ pan] =>
        let one (io : value * value) : option (value * bool) :=
          match io with
          | (VL ops, VL obs) =>
              match nops_of ops, getZs obs with
              | Some ops, Some obs =>
                  let tr := nt_trace (nt_zero 0) ops in
                  let within := map (fun i => negb (ni_fail_lo i) && negb (ni_fail_hi i)) tr in
                  Some (VL (map VZ (map ni_out tr)),
                        C17_ntimed_steps_ok (do_samples ops) (since_counts 0 0 ops) within obs)
              | _, _ => None
              end
          | _ => None
          end in
        if Nat.eqb (length streams) (length obss) then
          let rs := map one (combine streams obss) in
          if forallb (fun r => match r with Some _ => true | None => false end) rs then
            let get (r : option (value * bool)) := match r with Some x => x | None => (VL [], false) end in
            Some (functional [VL (map (fun r => fst (get r)) rs); VZ 0] o
                    ((pan =? 0) && forallb (fun r => snd (get r)) rs))
          else None
        else None
    | _, _ => None end
  else if is k "svc.filters" then
    (* args: kinds of the NTP reference clocks (0 IP, 1 SCION), number of SCION peers, further settings
       (ignored: daemon, auth mode); observed: createClocks completed, clients per clock, per client whether
       the filter is a *client.NtimedFilter, per client the identity of its filter *)
    match a, o with
    | VL kinds :: VZ npeer :: _, [VZ ok; VL counts; VL types; VL ids] =>
        match getZs kinds, getZs counts, getZs types, getZs ids with
        | Some kinds, Some counts, Some types, Some ids =>
            let np := Z.to_nat npeer in
            let '(ec, et, ei) := svc_expected kinds np in
            Some (functional [VZ 1; VL (map VZ ec); VL (map VZ et); VL (map VZ ei)] o
                    (C17_filters_ok kinds np (negb (ok =? 0)) counts types ids))
        | _, _, _, _ => None end
    | _, _ => None end
  else if is k "ntimed.epochsrc" then
    (* the syntactic tie between SystemClock.Step and a new epoch: six entries, all must be 1 *)
    match a, o with
    | [VZ n], [VL flags] =>
        match getZs flags with
        | Some fl => Some (functional [VL (map VZ (repeat 1 6))] o
                             ((n =? 6) && Nat.eqb (length fl) 6 && forallb (fun x => x =? 1) fl))
        | None => None end
    | _, _ => None end
  else if is k "lucky.hist" || is k "lucky.wild" then
    (* args: cap pick ops (cap = 0: the unconfigured filter); observed: the output of every Do, panicked *)
    match a, o with
    | [VZ cap; VZ pick; VL ops], [VL obs; VZ pan] =>
        match lops_of ops, getZs obs with
        | Some ops, Some obs =>
            let f := if cap =? 0 then Some lucky_zero else lucky_new cap pick in
            match f with
            | None => None
            | Some f =>
                let oracle := (pan =? 0) && C17_lucky_ok (Z.to_nat cap) (Z.to_nat pick) ops obs in
                let ws := lucky_windows (lk_cap f) [] ops in
                if (cap =? 0) || forallb lucky_exact_window ws then
                  match lucky_run f ops with
                  | Some exp => Some (functional [VL (map VZ exp); VZ 0] o oracle)
                  | None => Some (relational (negb (pan =? 0)) oracle)
                  end
                else Some (relational ((pan =? 0) && accepts_all (lk_pick f) ws obs) oracle)
            end
        | _, _ => None end
    | _, _ => None end
  else if is k "lucky.reset" then
    (* args: cap pick pre suf; a filter runs pre, Reset, suf; a new filter runs suf; observed: the outputs
       of the suf part of the first, the outputs of the second, panicked *)
    match a, o with
    | [VZ cap; VZ pick; VL pre; VL suf], [VL obsA; VL obsB; VZ pan] =>
        match lops_of pre, lops_of suf, getZs obsA, getZs obsB with
        | Some pre, Some suf, Some obsA, Some obsB =>
            let f := if cap =? 0 then Some lucky_zero else lucky_new cap pick in
            match f with
            | None => None
            | Some f =>
                let full := (pre ++ LReset :: suf)%list in
                let oracle := (pan =? 0) && list_eqb Z.eqb obsA obsB && C17_lucky_ok (Z.to_nat cap) (Z.to_nat pick) suf obsB in
                let wsA := skipn (ndo_l pre) (lucky_windows (lk_cap f) [] full) in
                let wsB := lucky_windows (lk_cap f) [] suf in
                if (cap =? 0) || (forallb lucky_exact_window wsA && forallb lucky_exact_window wsB) then
                  match lucky_run f full, lucky_run f suf with
                  | Some expA, Some expB =>
                      Some (functional [VL (map VZ (skipn (ndo_l pre) expA)); VL (map VZ expB); VZ 0] o oracle)
                  | _, _ => Some (relational (negb (pan =? 0)) oracle)
                  end
                else Some (relational ((pan =? 0) && accepts_all (lk_pick f) wsA obsA && accepts_all (lk_pick f) wsB obsB) oracle)
            end
        | _, _, _, _ => None end
    | _, _ => None end
  else if is k "ntimed.reset" then
    (* args: pre mid suf (mid: Resets, possibly none when suf runs under another epoch); a filter runs
       pre ++ mid ++ suf, a new filter runs suf; observed: the outputs of the suf part of the first,
       the outputs of the second, panicked *)
    match a, o with
    | [VL pre; VL mid; VL suf], [VL obsA; VL obsB; VZ pan] =>
        match nops_of pre, nops_of mid, nops_of suf, getZs obsA, getZs obsB with
        | Some pre, Some mid, Some suf, Some obsA, Some obsB =>
            if starts_fresh pre mid suf then
              let expA := skipn (ndo_n (pre ++ mid)%list) (nt_run (nt_zero 0) (pre ++ mid ++ suf)%list) in
              let expB := nt_run (nt_zero 0) suf in
              Some (functional [VL (map VZ expA); VL (map VZ expB); VZ 0] o
                      ((pan =? 0) && list_eqb Z.eqb obsA obsB))
            else None
        | _, _, _, _, _ => None end
    | _, _ => None end
  else if is k "ntimed.hist" || is k "ntimed.wild" || is k "ntimed.corner" then
    (* args: ops; observed: outputs of the filter, the reset points the harness
       used, outputs of new filters started at every reset point *)
    match a, o with
    | [VL ops], [VL obs; VL starts; VL fresh; VZ pan] =>
        match nops_of ops, getZs obs, getZs starts, getZs fresh with
        | Some ops, Some obs, Some starts, Some fresh =>
            let tr := nt_trace (nt_zero 0) ops in
            let exp := map ni_out tr in
            let within := map (fun i => negb (ni_fail_lo i) && negb (ni_fail_hi i)) tr in
            Some (functional [VL (map VZ exp); VL (map VZ (reset_points 0 0 ops)); VL (map VZ exp); VZ 0] o
                    ((pan =? 0) && C17_ntimed_ok ops within obs starts fresh))
        | _, _, _, _ => None end
    | _, _ => None end
  else None.

Definition run_case (k : string) (a o : list value) : verdict :=
  first_some [glue_C17] k a o.
