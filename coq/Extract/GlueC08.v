(* Dispatcher from case kinds to the C08 models and the C08 oracle.
   Observation classes: 0 returned without error, 1 returned an error, 2 panicked, 3 did not return. *)
From Coq Require Import ZArith List String.
From ST Require Import Base.Ints Base.Value Model.Total Extract.GlueBase.
Import ListNotations.
Open Scope string_scope.
Open Scope Z_scope.

Definition cls_of {A} (o : outcome A) : list value :=
  match o with
  | Ok _ => [VZ 0]
  | Err e => [VZ 1; VZ e]
  | Panic => [VZ 2]
  | OutOfFuel => [VZ 3]
  end.

Definition obs_class (o : list value) : Z := match o with VZ c :: _ => c | _ => 3 end.

Definition vbs (l : list (list Z)) : value := VL (map VB l).

(* the recorded answer of the cipher: [] = Open failed (or was not reached), [x] = plaintext x *)
Definition answer_of (v : value) : list Z -> list Z -> list Z -> list Z -> option (list Z) :=
  fun _ _ _ _ => match v with VL [VB p] => Some p | _ => None end.

Fixpoint getBs (l : list value) : option (list (list Z)) :=
  match l with
  | [] => Some []
  | VB b :: r => match getBs r with Some bs => Some (b :: bs) | None => None end
  | _ => None
  end.

Definition fixed_env : ip_env :=
  {| env_open := fun _ _ _ _ => None; env_key := fun _ => Some (repeat 0 32%nat); env_cookie_len := 124 |}.
Definition fixed_state : loop_state := {| ls_cap := 2048; ls_oobcap := 64 |}.

(* srv.ip: per datagram the observation [replied length-or-0 sentinel]; with a cipher that rejects
   everything the model says Drop d_decrypt exactly for the requests whose fate depends on the
   keys; for those either observation is accepted, for all others the model decides *)
Definition ip_step_agrees (d : list Z) (o : value) : bool :=
  match o with
  | VL [VZ replied; VZ rlen; VZ _] =>
      match ip_server_step fixed_env fixed_state d with
      | Ok (_, Reply l) => (replied =? 1) && (rlen =? l)
      | Ok (_, Drop w) => if (w =? d_decrypt) then true else (replied =? 0)
      | Ok (_, Accept) => false
      | _ => false
      end
  | _ => false
  end.

Fixpoint all2 {A B} (f : A -> B -> bool) (l : list A) (m : list B) : bool :=
  match l, m with
  | [], [] => true
  | x :: l', y :: m' => f x y && all2 f l' m'
  | _, _ => false
  end.

Definition sentinel_of (o : value) : Z :=
  match o with VL [VZ _; VZ _; VZ s] => s | _ => 0 end.

Definition glue_C08 (k : string) (a o : list value) : option verdict :=
  let cok := C08_class_ok (obs_class o) in
  if is k "ntp.dec" then
    match a with
    | [VB b] =>
        let e := match ntp_decode b with
                 | Ok (l, s, f) => [VZ 0; VZ l; VZ s; VZ f]
                 | r => cls_of r end in
        Some (functional e o cok)
    | _ => None end
  else if is k "csptp.msg" then
    match a with
    | [VB b] =>
        let e := match csptp_decode_message b with
                 | Ok (t, l, s) => [VZ 0; VZ t; VZ l; VZ s]
                 | r => cls_of r end in
        Some (functional e o cok)
    | _ => None end
  else if is k "csptp.req" then
    match a with
    | [VB b] =>
        let e := match csptp_decode_request_tlv b with
                 | Ok (t, f) => [VZ 0; VZ t; VZ f]
                 | r => cls_of r end in
        Some (functional e o cok)
    | _ => None end
  else if is k "csptp.resp" then
    match a with
    | [VB b] =>
        let e := match csptp_decode_response_tlv b with
                 | Ok (t, f) => [VZ 0; VZ t; VZ f]
                 | r => cls_of r end in
        Some (functional e o cok)
    | _ => None end
  else if is k "cookie.enc" then
    match a with
    | [VB b] =>
        let e := match encrypted_cookie_decode b with
                 | Ok (i, n, c) => [VZ 0; VZ i; VB n; VB c]
                 | r => cls_of r end in
        Some (functional e o cok)
    | _ => None end
  else if is k "cookie.srv" then
    match a with
    | [VB b] =>
        let e := match server_cookie_decode b with
                 | Ok (i, n, c) => [VZ 0; VZ i; VB n; VB c]
                 | r => cls_of r end in
        Some (functional e o cok)
    | _ => None end
  else if is k "cookie.decrypt" then
    match a with
    | [VB key; VB nonce; VB ct; ans] =>
        let e := match cookie_decrypt (answer_of ans) key nonce ct with
                 | Ok (i, n, c) => [VZ 0; VZ i; VB n; VB c]
                 | r => cls_of r end in
        Some (functional e o cok)
    | _ => None end
  else if is k "nts.dec" then
    match a with
    | [VB b] =>
        let e := match nts_decode b with
                 | Ok p =>
                     match np_uid p, np_auth p with
                     | Some u, Some (n, c, pos) => [VZ 0; VB u; vbs (np_cookies p); VZ (np_placeholders p); VB n; VB c]
                     | _, _ => [VZ 2]
                     end
                 | r => cls_of r end in
        Some (functional e o cok)
    | _ => None end
  else if is k "nts.auth" then
    (* DecodePacket, then ProcessRequest: [class of decode; class of authenticate; error code; cookies] *)
    match a with
    | [VB b; VB key; ans] =>
        let e := match nts_decode b with
                 | Ok p =>
                     match nts_authenticate (answer_of ans) b key p with
                     | Ok cs => [VZ 0; VZ 0; VZ 0; vbs cs]
                     | Err x => [VZ 0; VZ 1; VZ x; VL []]
                     | Panic => [VZ 0; VZ 2; VZ 0; VL []]
                     | OutOfFuel => [VZ 0; VZ 3; VZ 0; VL []]
                     end
                 | Err x => [VZ 1; VZ 0; VZ x; VL []]
                 | Panic => [VZ 2; VZ 0; VZ 0; VL []]
                 | OutOfFuel => [VZ 3; VZ 0; VZ 0; VL []]
                 end in
        let ok := match o with VZ c1 :: VZ c2 :: _ => C08_class_ok c1 && C08_class_ok c2 | _ => false end in
        Some (functional e o ok)
    | _ => None end
  else if is k "nts.resp" then
    match a with
    | [VB b; VB key; VB reqid; ans] =>
        let e := match nts_decode b with
                 | Ok p =>
                     match nts_process_response (answer_of ans) b key reqid p with
                     | Ok cs => [VZ 0; VZ 0; VZ 0; vbs cs]
                     | Err x => [VZ 0; VZ 1; VZ x; VL []]
                     | Panic => [VZ 0; VZ 2; VZ 0; VL []]
                     | OutOfFuel => [VZ 0; VZ 3; VZ 0; VL []]
                     end
                 | Err x => [VZ 1; VZ 0; VZ x; VL []]
                 | Panic => [VZ 2; VZ 0; VZ 0; VL []]
                 | OutOfFuel => [VZ 3; VZ 0; VZ 0; VL []]
                 end in
        let ok := match o with VZ c1 :: VZ c2 :: _ => C08_class_ok c1 && C08_class_ok c2 | _ => false end in
        Some (functional e o ok)
    | _ => None end
  else if is k "nts.enc" then
    (* EncodePacket on arbitrary sizes: the function itself may panic (callers must exclude those
       sizes), so the oracle does not judge this kind; the model must predict the outcome *)
    match a with
    | [VZ hdrlen; VZ idlen; VL cs; VL ps; VZ keylen; VZ ptlen] =>
        match getZs cs, getZs ps with
        | Some cl, Some pl =>
            let e := match nts_encode hdrlen idlen cl pl ((keylen =? 32) || (keylen =? 64)) ptlen with
                     | Ok l => [VZ 0; VZ l]
                     | r => cls_of r end in
            Some (functional e o true)
        | _, _ => None end
    | _ => None end
  else if is k "nts.srvreply" then
    (* the reply a listener builds for a request that decoded: n = cookies + placeholders of the
       request, cookies of clen bytes; judged by the oracle when clen is a listener's cookie length *)
    match a with
    | [VB b; VZ clen] =>
        match nts_decode b with
        | Ok p =>
            let idlen := match np_uid p with Some u => blen u | None => 0 end in
            let n := Z.of_nat (length (np_cookies p)) + np_placeholders p in
            let e := match nts_server_reply idlen n clen with
                     | Ok l => [VZ 0; VZ l]
                     | r => cls_of r end in
            if n =? 0 then Some (functional [VZ 1] o true)
            else Some (functional e o (if clen mod 4 =? 0 then cok else true))
        | _ => Some (functional [VZ 1] o (if clen mod 4 =? 0 then cok else true))
        end
    | _ => None end
  else if is k "nts.clireq" then
    match a with
    | [VZ navail; VZ clen] =>
        let e := match nts_client_request navail clen with
                 | Ok l => [VZ 0; VZ l]
                 | r => cls_of r end in
        Some (functional e o cok)
    | _ => None end
  else if is k "ntske.read" then
    match a with
    | [VB s] =>
        let e := match ntske_read_data s with
                 | Ok d => [VZ 0; VZ (ke_algo d); vbs (ke_cookies d); VB (ke_server d); VZ (ke_port d)]
                 | r => cls_of r end in
        Some (functional e o cok)
    | _ => None end
  else if is k "cmsg" then
    match a with
    | [VB b] =>
        let e := match timestamp_from_oob b with
                 | Ok (s, n) => [VZ 0; VZ s; VZ n]
                 | r => cls_of r end in
        Some (functional e o cok)
    | _ => None end
  else if is k "scion.authopt" then
    (* the two functions on option data of any length: they panic unless it has 28 bytes; the call
       sites are judged through the listener and client kinds *)
    match a with
    | [VB d] =>
        let e := match auth_opt_metadata d, auth_opt_mac d with
                 | Ok (spi, algo), Ok mac => [VZ 0; VZ spi; VZ algo; VB mac]
                 | Panic, _ => [VZ 2]
                 | _, _ => [VZ 2]
                 end in
        Some (functional e o true)
    | _ => None end
  else if is k "srv.ip" then
    (* history of datagrams to the real IP listener, each followed by a sentinel:
       outs = alive, per datagram [replied, reply length, sentinel answered] *)
    match a, o with
    | [VL ds], [VZ alive; VL obs; VZ ntss] =>
        match getBs ds with
        | Some dl =>
            Some (relational (all2 ip_step_agrees dl obs) (C08_alive_ok alive (ntss :: map sentinel_of obs)))
        | None => None end
    | _, _ => None end
  else if is k "srv.csptp" then
    (* one datagram to the real CSPTP listener of the given port: outs = alive, accepted, sentinel *)
    match a, o with
    | [VZ port; VB d], [VZ alive; VZ accepted; VZ sentinel] =>
        let e := match csptp_server_step port d with
                 | Ok Accept => 1
                 | _ => 0 end in
        Some (relational (accepted =? e) (C08_alive_ok alive [sentinel]))
    | _, _ => None end
  else if is k "cli.csptp" then
    (* datagrams sent to the real CSPTP client in answer to its request, then a well-formed answer:
       outs = alive, per datagram [taken], sentinel (the client completed the exchange) *)
    match a, o with
    | _, [VZ alive; VZ sentinel] =>
        Some (relational true (C08_alive_ok alive [sentinel]))
    | _, _ => None end
  else if (is k "srv.scion") || (is k "srv.scionnts") || (is k "srv.scmp") || (is k "srv.scionauth") || (is k "srv.quicke") || (is k "cli.scionnts") || (is k "cli.overlap") || (is k "cli.kestall") || (is k "cli.kefdleak") || (is k "srv.kefd") || (is k "srv.scionpar") || (is k "srv.dispatcher") || (is k "cli.kestallquic") || (is k "srv.ip6") || (is k "cli.ip6") || (is k "srv.scionnodaemon") || (is k "cli.ipopt") || (is k "srv.ntske") || (is k "srv.kestall") || (is k "srv.quic") || (is k "cli.ip") || (is k "cli.scion") || (is k "cli.nts") then
    (* outs = alive, list of sentinel results *)
    match o with
    | [VZ alive; VL ss] =>
        match getZs ss with
        | Some sl => Some (relational true (C08_alive_ok alive sl))
        | None => None end
    | _ => None end
  else None.

Definition run_case (k : string) (a o : list value) : verdict :=
  first_some [glue_C08] k a o.
