(* Dispatcher from case kinds to the model and the property oracle of C16.
   Everything the OCaml runner of this property executes goes through run_case.

   kind "collect": one call of MeasureClockOffsets under virtual time
     args  ctx [ [kind t e ok ts off] ... ] [ [ts off err] ... ] [ probe times ]
     outs  class R [ [ts off err] ... ] [ completion time of every clock ] [ goroutines at every probe ] goroutines-after-teardown late
           (the slice is the copy taken at the return instant; late = 1 if the caller's slice changed afterwards;
            ts = -2^63 stands for the zero time.Time; the 4th field of a clock script is 1 for success, else how it fails)
   kind "collect.raw": collectMeasurements itself through the hook, producers of the harness
     outs  class R j [ms'] [completions] [goroutines] after late
   kind "history": several calls on ONE collector object, one after the other
   kind "race": several calls on ONE collector object made by different goroutines at the same instant
     args  [ [start ctx [clocks] [ms0]] ... ] tend variant
     outs  [ [class R [ms'] [completions] late] ... ] goroutines-at-tend goroutines-after-teardown
   ctx = [hasD D hasC C F]: a context with deadline D (if hasD), cancelled explicitly at C (if
   hasC) and in any case at F (the harness's final cancel, after the last observation); its Done
   channel closes at the earliest of these.
   clock scripts: kind 0/3 complete at t whatever the context does; kind 1 completes at t, or
   when the context is done and then e later, whichever is first; kind 2 waits for the context
   to be done and completes e later; kind 4 never completes (until the case is torn down).
   class: 0 returned, 1 panic (lengths), 2 panic (too many in progress), 3 panic (inconsistent count), 4 other panic. *)
From Coq Require Import ZArith List String Bool.
From ST Require Import Base.Value Base.Sorting Model.Collect Extract.GlueBase.
From ST Require Model.Ftm.
Import ListNotations.
Open Scope string_scope.
Open Scope Z_scope.

Definition meas_of_value (v : value) : option meas :=
  match v with
  | VL [VZ ts; VZ off; VZ e] => Some {| m_ts := ts; m_off := off; m_err := negb (e =? 0) |}
  | _ => None end.
Fixpoint meas_list (l : list value) : option (list meas) :=
  match l with
  | [] => Some []
  | v :: r => match meas_of_value v, meas_list r with Some m, Some ms => Some (m :: ms) | _, _ => None end
  end.

(* completion time of a scripted clock under a context with deadline D *)
Definition script_time (D kind t e : Z) : Z :=
  let D0 := Z.max 0 D in let t0 := Z.max 0 t in let e0 := Z.max 0 e in
  if (kind =? 0) || (kind =? 3) then t0
  else if kind =? 1 then (if t0 <=? D0 then t0 else D0 + e0)
  else D0 + e0.

(* the instant at which the context is done *)
Definition ctx_done (v : value) : option Z :=
  match v with
  | VL [VZ hasD; VZ D; VZ hasC; VZ C; VZ F] =>
      let d1 := if hasD =? 0 then Z.max 0 F else Z.min (Z.max 0 F) (Z.max 0 D) in
      Some (if hasC =? 0 then d1 else Z.min d1 (Z.max 0 C))
  | _ => None end.

Definition clock_of_value (D : Z) (v : value) : option clock :=
  match v with
  | VL [VZ kind; VZ t; VZ e; VZ ok; VZ ts; VZ off] =>
      Some {| c_done := if kind =? 4 then None else Some (script_time D kind t e);
              c_res := {| m_ts := ts; m_off := off; m_err := negb (ok =? 1) |} |}
  | _ => None end.
Fixpoint clock_list (D : Z) (l : list value) : option (list clock) :=
  match l with
  | [] => Some []
  | v :: r => match clock_of_value D v, clock_list D r with Some c, Some cs => Some (c :: cs) | _, _ => None end
  end.

Definition scen_of (ctx : value) (clks ms0 : list value) : option scen :=
  match ctx_done ctx with
  | Some D =>
      match clock_list D clks, meas_list ms0 with
      | Some cs, Some m0 => Some {| s_deadline := D; s_clocks := cs; s_ms0 := m0 |}
      | _, _ => None end
  | None => None end.

Definition fuel_of (sc : scen) : nat := (2 * nclk sc + 6)%nat.

(* is there a schedule of the model that returns at time r with the slice ms'
   (and ends with nothing left to do)?  Returns the receive order found. *)
Definition try_front (sc : scen) (r : Z) (ms' : list meas) (j : nat) : option (list nat) :=
  if meas_list_eqb (skipn j ms') (skipn j (s_ms0 sc)) then
    match match_front sc (firstn j ms') [] with
    | Some g =>
        match guided (fuel_of sc) sc None g (init sc) with
        | Some (s, []) =>
            match coll s with
            | Ret _ t => if (t =? r) && meas_list_eqb (ms s) ms' && stuck sc s then Some g else None
            | Loop _ _ => None
            end
        | _ => None
        end
    | None => None
    end
  else None.

Fixpoint first_front (sc : scen) (r : Z) (ms' : list meas) (js : list nat) : option (list nat) :=
  match js with
  | [] => None
  | j :: rest => match try_front sc r ms' j with Some g => Some g | None => first_front sc r ms' rest end
  end.

Definition find_schedule (sc : scen) (r : Z) (ms' : list meas) : option (list nat) :=
  first_front sc r ms' (seq 0 (S (List.length ms'))).

(* goroutines of the round at time tp, all activity of that instant settled *)
Definition alive_at (sc : scen) (g : list nat) (tp : Z) : option Z :=
  match guided (fuel_of sc) sc (Some tp) g (init sc) with
  | Some (s, _) => Some (Z.of_nat (goroutines s))
  | None => None
  end.

Fixpoint probes_agree (sc : scen) (g : list nat) (tps cnts : list Z) : bool :=
  match tps, cnts with
  | [], [] => true
  | tp :: tps', c :: cnts' =>
      match alive_at sc g tp with Some x => (x =? c) && probes_agree sc g tps' cnts' | None => false end
  | _, _ => false
  end.
Fixpoint probes_oracle (sc : scen) (r : Z) (tps cnts : list Z) : bool :=
  match tps, cnts with
  | [], [] => true
  | tp :: tps', c :: cnts' => C16_leak_ok sc r tp c && C16_alive_ok sc r tp c && probes_oracle sc r tps' cnts'
  | _, _ => false
  end.

(* the calls of the clocks returned when the scenario says (a clock that never completes is
   released when the case is torn down; what is recorded for it then does not matter) *)
Fixpoint comps_from (sc : scen) (k : nat) (comps : list Z) : bool :=
  match comps with
  | [] => Nat.eqb k (nclk sc)
  | c :: r => match ctime sc k with Some t => (t =? c) | None => true end && Nat.ltb k (nclk sc) && comps_from sc (S k) r
  end.
Definition comps_agree (sc : scen) (comps : list Z) : bool := comps_from sc 0 comps.

(* one round that was let in: (agree, oracle) *)
Definition round_verdict (sc : scen) (r : Z) (ms' : list meas) (comps tps cnts : list Z) : bool * bool :=
  let agree :=
    (r =? expected_ret sc) && comps_agree sc comps &&
    match find_schedule sc r ms' with
    | Some g => probes_agree sc g tps cnts
    | None => false
    end in
  (agree, C16_round_ok sc r ms' && probes_oracle sc r tps cnts).

(* ---- histories on one collector ---- *)
Record hobs := { ho_start : Z; ho_sc : scen; ho_cls : Z; ho_ret : Z; ho_ms : list meas; ho_comps : list Z; ho_late : Z }.

Definition hobs_of (a o : value) : option hobs :=
  match a, o with
  | VL [VZ s; ctx; VL clks; VL ms0], VL [VZ cls; VZ r; VL ms'; VL comps; VZ late] =>
      match scen_of ctx clks ms0, meas_list ms', getZs comps with
      | Some sc, Some m', Some cs => Some {| ho_start := s; ho_sc := sc; ho_cls := cls; ho_ret := r; ho_ms := m'; ho_comps := cs; ho_late := late |}
      | _, _, _ => None end
  | _, _ => None end.
Fixpoint hobs_list (a o : list value) : option (list hobs) :=
  match a, o with
  | [], [] => Some []
  | x :: a', y :: o' => match hobs_of x y, hobs_list a' o' with Some h, Some hs => Some (h :: hs) | _, _ => None end
  | _, _ => None
  end.

(* retire the calls whose (model) return time is before t; a call returning exactly at t
   races with the call made at t: the return is taken to come first exactly when the call
   made at t was seen to be let in (a call refused for its lengths does not tell) *)
Fixpoint retire (g : gst) (act : list (nat * Z)) (t : Z) (eq_too : bool) : gst * list (nat * Z) * bool :=
  match act with
  | [] => (g, [], true)
  | (id, r) :: rest =>
      let '(g1, rest1, ok1) := retire g rest t eq_too in
      if (r <? t) || (eq_too && (r =? t)) then
        let '(g2, out) := gstep g1 (GReturn id) in
        (g2, rest1, ok1 && match out with GO_ret => true | _ => false end)
      else (g1, (id, r) :: rest1, ok1)
  end.

Definition class_of (o : gout) : Z :=
  match o with GO_call Started => 0 | GO_call PanicLen => 1 | GO_call PanicBusy => 2 | _ => 4 end.

(* walks the calls in start order; returns (agree, per-round oracle, the rounds let in with their schedules) *)
Fixpoint hist_walk (id : nat) (g : gst) (act : list (nat * Z)) (hs : list hobs)
  : bool * bool * list (Z * scen * list nat) :=
  match hs with
  | [] => (true, true, [])
  | h :: rest =>
      let '(g1, act1, ok1) := retire g act (ho_start h) (ho_cls h =? 0) in
      let sc := ho_sc h in
      let '(g2, out) := gstep g1 (GCall id (List.length (s_ms0 sc)) (nclk sc)) in
      let cls := class_of out in
      if cls =? 0 then
        let sched := find_schedule sc (ho_ret h) (ho_ms h) in
        let a := ok1 && (ho_cls h =? 0) && (ho_late h =? 0) && (ho_ret h =? expected_ret sc) && comps_agree sc (ho_comps h)
                 && match sched with Some _ => true | None => false end in
        let o := if ho_cls h =? 0 then C16_round_ok sc (ho_ret h) (ho_ms h) && (ho_late h =? 0) else true in
        let '(a', o', l) := hist_walk (S id) g2 ((id, ho_start h + expected_ret sc) :: act1) rest in
        (a && a', o && o', match sched with Some gg => (ho_start h, sc, gg) :: l | None => l end)
      else
        let a := ok1 && (ho_cls h =? cls) && meas_list_eqb (ho_ms h) (s_ms0 sc) && match ho_comps h with [] => true | _ => false end in
        let '(a', o', l) := hist_walk (S id) g2 act1 rest in
        (a && a', o', l)
  end.

Fixpoint alive_sum (l : list (Z * scen * list nat)) (tend : Z) : option Z :=
  match l with
  | [] => Some 0
  | (s, sc, g) :: r =>
      match alive_at sc g (tend - s), alive_sum r tend with Some x, Some y => Some (x + y) | _, _ => None end
  end.

(* all orders of a list *)
Fixpoint insert_all {A} (x : A) (l : list A) : list (list A) :=
  match l with
  | [] => [[x]]
  | y :: r => (x :: l) :: map (fun t => y :: t) (insert_all x r)
  end.
Fixpoint perms {A} (l : list A) : list (list A) :=
  match l with
  | [] => [[]]
  | x :: r => flat_map (insert_all x) (perms r)
  end.

Definition gobs_of (h : hobs) : gobs :=
  {| go_start := ho_start h; go_lens := Nat.eqb (List.length (s_ms0 (ho_sc h))) (nclk (ho_sc h));
     go_out := ho_cls h; go_ret := ho_start h + ho_ret h |}.

(* nothing may be left at tend once every call has returned and every started clock has returned *)
Definition hist_leak_ok (hs : list hobs) (tend cnt : Z) : bool :=
  if forallb (fun h => if ho_cls h =? 0 then all_done_by (ho_sc h) (tend - ho_start h) && (ho_start h + ho_ret h <=? tend) else true) hs
  then cnt =? 0
  else cnt <=? fold_right (fun h acc => (if ho_cls h =? 0 then C16_alive_bound (ho_sc h) (ho_ret h) (tend - ho_start h) else 0) + acc) 0 hs.

(* ---- iterations of sync.Run ----
   kind "sync.round": the real sync.Run driven for a few iterations
     args  T I [ [ [ref scripts] [peer scripts] ] ... ]          (SyncTimeout, SyncInterval, one entry per iteration)
     outs  class [ [start do correction sleep sleepdur [ref invoked] [ref completed] [peer invoked] [peer completed]] ... ] leak
   all instants since the start of the bubble.  Each collection is an instance of the collector
   model with deadline T; Run appends its local clock (answers at once) to a non-empty peer list. *)
Definition local_clock : clock := {| c_done := Some 0; c_res := meas_zero |}.
Definition plain_scen (T : Z) (clks : list value) (extra : list clock) : option scen :=
  match clock_list T clks with
  | Some cs => Some {| s_deadline := T; s_clocks := cs ++ extra; s_ms0 := repeat meas_zero (List.length (cs ++ extra)) |}
  | None => None end.

(* the correction Run hands over, when it is determined: no source completes exactly at the
   deadline in this or an earlier iteration (otherwise which results were in time is the
   scheduler's choice), no clamping (the fake clock reports a huge drift), cutoff 0.
   Each slice is reused from iteration to iteration and left sorted by FaultTolerantMidpoint. *)
Definition tie_free (sc : scen) : bool :=
  forallb (fun k => negb (by_dl sc k && negb (before_dl sc k))) (seq 0 (nclk sc)).
Definition early_offsets (sc : scen) : list Z :=
  map (fun k => m_off (cres sc k)) (filter (fun k => cok sc k && before_dl sc k) (seq 0 (nclk sc))).
Definition next_slice (sc : scen) (old : list Z) : list Z :=
  let e := early_offsets sc in zsort (e ++ skipn (List.length e) old).
Definition slice_ftm (l : list Z) : Z := match Ftm.ftm l with Some x => x | None => 0 end.
Definition correction (nref npeer : nat) (rs ps : list Z) : Z :=
  let ro := slice_ftm rs in let po := slice_ftm ps in
  let rok := negb (Nat.eqb nref 0) in
  let pok := negb (Nat.eqb npeer 0) && (0 <? Z.abs po) in
  if rok && negb pok then ro else if negb rok && pok then po else if rok && pok then Ftm.midpoint ro po else 0.

(* vals = the two slices as they are before the iteration, if known *)
Fixpoint sync_rounds (T Iv : Z) (rounds obs : list value) (start : Z) (vals : option (list Z * list Z)) : option (bool * bool) :=
  match rounds, obs with
  | VL [VL refs; VL peers] :: rounds', VL [VZ st; VZ d; VZ darg; VZ sl; VZ dur; VL invr; VL compr; VL invp; VL compp] :: obs' =>
      match plain_scen T refs [], plain_scen T peers [], plain_scen T peers (match peers with [] => [] | _ => [local_clock] end),
            getZs invr, getZs compr, getZs invp, getZs compp with
      | Some sc_r, Some sc_p0, Some sc_p, Some invr, Some compr, Some invp, Some compp =>
          let exp := Z.max (expected_ret sc_r) (expected_ret sc_p) in
          let vals' :=
            match vals with
            | Some (rs, ps) => if tie_free sc_r && tie_free sc_p then Some (next_slice sc_r rs, next_slice sc_p ps) else None
            | None => None end in
          let ag := (st =? start) && (d - st =? exp) && (sl =? d) && (dur =? Iv)
                    && forallb (fun x => x =? st) invr && forallb (fun x => x =? st) invp
                    && comps_agree sc_r (map (fun c => c - st) compr) && comps_agree sc_p0 (map (fun c => c - st) compp)
                    && match vals' with
                       | Some (rs, ps) => darg =? correction (nclk sc_r) (nclk sc_p0) rs ps
                       | None => true end in
          let orc := C16_sync_round_ok sc_r sc_p (d - st) in
          match sync_rounds T Iv rounds' obs' (sl + Iv) vals' with
          | Some (ag', orc') => Some (ag && ag', orc && orc')
          | None => None end
      | _, _, _, _, _, _, _ => None end
  | [], [] => Some (true, true)
  | _, _ => Some (false, false)     (* an iteration without its observation (or the reverse) *)
  end.

(* the slices Run allocates: all zero *)
Definition first_slices (rounds : list value) : option (list Z * list Z) :=
  match rounds with
  | VL [VL refs; VL peers] :: _ =>
      Some (repeat 0 (List.length refs), repeat 0 (match peers with [] => 0%nat | _ => S (List.length peers) end))
  | _ => None end.

Definition glue_C16 (k : string) (a o : list value) : option verdict :=
  if is k "collect" then
    match a, o with
    | [ctx; VL clks; VL ms0; VL tps], [VZ cls; VZ r; VL ms'; VL comps; VL cnts; VZ after; VZ late] =>
        match scen_of ctx clks ms0, meas_list ms', getZs comps, getZs tps, getZs cnts with
        | Some sc, Some m', Some cs, Some tps, Some cnts =>
            if Nat.eqb (List.length (s_ms0 sc)) (nclk sc) then
              let '(ag, orc) := round_verdict sc r m' cs tps cnts in
              let fine := (cls =? 0) && (after =? 0) && (late =? 0) in
              Some (relational (fine && ag) (fine && orc))
            else
              (* lengths differ: refused before anything starts, nothing touched, nothing left *)
              let fine := (cls =? 1) && meas_list_eqb m' (s_ms0 sc) && (after =? 0) && (late =? 0) in
              Some (relational fine fine)
        | _, _, _, _, _ => None end
    | _, _ => None end
  else if is k "collect.raw" then
    (* collectMeasurements itself (through the hook), with the harness's own producers: the count it returns is observed *)
    match a, o with
    | [ctx; VL clks; VL ms0; VL tps], [VZ cls; VZ r; VZ j; VL ms'; VL comps; VL cnts; VZ after; VZ late] =>
        match scen_of ctx clks ms0, meas_list ms', getZs comps, getZs tps, getZs cnts with
        | Some sc, Some m', Some cs, Some tps, Some cnts =>
            if Nat.eqb (List.length (s_ms0 sc)) (nclk sc) && (0 <=? j) then
              let fine := (cls =? 0) && (after =? 0) && (late =? 0) in
              let agree :=
                (r =? expected_ret sc) && comps_agree sc cs &&
                match try_front sc r m' (Z.to_nat j) with
                | Some g => probes_agree sc g tps cnts
                | None => false
                end in
              Some (relational (fine && agree) (fine && C16_raw_ok sc r (Z.to_nat j) m' && probes_oracle sc r tps cnts))
            else None
        | _, _, _, _, _ => None end
    | _, _ => None end
  else if is k "history" then
    match a, o with
    | [VL ops; VZ tend; VZ _], [VL obs; VZ cnt; VZ after] =>
        match hobs_list ops obs with
        | Some hs =>
            let '(ag, orc, l) := hist_walk 0 ginit [] hs in
            let agree := ag && (after =? 0) && match alive_sum l tend with Some x => x =? cnt | None => false end in
            Some (relational agree (orc && C16_guard_ok (map gobs_of hs) && C16_concurrent_ok (map gobs_of hs)
                                    && hist_leak_ok hs tend cnt && (after =? 0)))
        | None => None end
    | _, _ => None end
  else if is k "race" then
    (* the callers reached the guard in SOME order: the observation must be what the model does for one of them *)
    match a, o with
    | [VL ops; VZ tend; VZ _], [VL obs; VZ cnt; VZ after] =>
        match hobs_list ops obs with
        | Some hs =>
            let agree :=
              (after =? 0) &&
              existsb (fun hs' =>
                         let '(ag, _, l) := hist_walk 0 ginit [] hs' in
                         ag && match alive_sum l tend with Some x => x =? cnt | None => false end)
                      (perms hs) in
            let orc := forallb (fun h => if ho_cls h =? 0 then C16_round_ok (ho_sc h) (ho_ret h) (ho_ms h) && (ho_late h =? 0) else true) hs in
            Some (relational agree (orc && C16_concurrent_ok (map gobs_of hs) && hist_leak_ok hs tend cnt && (after =? 0)))
        | None => None end
    | _, _ => None end
  else if is k "sync.round" then
    match a, o with
    | [VZ T; VZ Iv; VL rounds], [VZ cls; VL obs; VZ after] =>
        match sync_rounds T Iv rounds obs 0 (first_slices rounds) with
        | Some (ag, orc) =>
            let fine := (cls =? 0) && (after =? 0) && Nat.eqb (List.length rounds) (List.length obs) in
            Some (relational (fine && ag) (fine && orc))
        | None => None end
    | _, _ => None end
  else None.

Definition run_case (k : string) (a o : list value) : verdict :=
  first_some [glue_C16] k a o.
