(* Dispatcher from case kinds (strings) to the model of sync.Run and the
   property oracle of C01.  Everything the OCaml runner of this property
   executes goes through run_case. *)
From Coq Require Import ZArith List String.
From ST Require Import Base.Ints Base.Value Base.Sorting Base.F64 Model.NtpTime Model.Units Model.Ftm Model.Sync Model.SyncConfig Extract.GlueBase.
Import ListNotations.
Open Scope string_scope.
Open Scope Z_scope.

(* one source in one round: [kind value delay]; kind 0 = answers value after
   delay < timeout, 1 = error after delay, 2 = answers value after delay >
   timeout, 3 = blocks until the round's context ends, then error *)
Definition value_of_event (e : event) : value :=
  match e with
  | EDo c => VL [VZ 0; VZ c]
  | ESleep d => VL [VZ 1; VZ d]
  | EDrift a r => VL [VZ 2; VZ a; VZ r]
  end.

(* Do events carry the virtual time since the beginning of their round: [0 c dt] *)
Fixpoint events_of_values (l : list value) : option (list event * list Z) :=
  match l with
  | [] => Some ([], [])
  | v :: r =>
      match events_of_values r with
      | None => None
      | Some (es, dts) =>
          match v with
          | VL [VZ 0; VZ c; VZ dt] => Some (EDo c :: es, dt :: dts)
          | VL [VZ 1; VZ d] => Some (ESleep d :: es, dts)
          | VL [VZ 2; VZ a; VZ x] => Some (EDrift a x :: es, dts)
          | _ => None
          end
      end
  end.

(* one TOML setting: [] = key omitted, [bits] = float64 value *)
Definition setting_of_value (v : value) : option (option f64) :=
  match v with
  | VL [] => Some None
  | VL [VZ b] => Some (Some (f_of_bits b))
  | _ => None
  end.

(* ---- ties at the deadline: a source whose answer completes exactly when the round's context ends
   (delay = timeout) may or may not be counted; every resolution is a correct behaviour ---- *)
Definition src_alts (timeout : Z) (v : value) : option (list src) :=
  match v with
  | VL [VZ k; VZ x; VZ d] =>
      if k =? 0 then (if (0 <=? d) && (d <? timeout) then Some [Timely x]
                      else if d =? timeout then Some [Timely x; Failed] else None)
      else if k =? 1 then Some [Failed]
      else if k =? 2 then (if timeout <? d then Some [Failed] else None)
      else if k =? 3 then Some [Failed]
      else if k =? 4 then Some [Failed]     (* ignores its context, comes back long after the deadline *)
      else None
  | _ => None
  end.

Fixpoint prod {A : Type} (l : list (list A)) : list (list A) :=
  match l with
  | [] => [[]]
  | xs :: r => flat_map (fun x => map (cons x) (prod r)) xs
  end.

Fixpoint all_some {A : Type} (l : list (option A)) : option (list A) :=
  match l with
  | [] => Some []
  | Some x :: r => match all_some r with Some xs => Some (x :: xs) | None => None end
  | None :: _ => None
  end.

Definition srcs_alts (timeout : Z) (l : list value) : option (list (list src)) :=
  match all_some (map (src_alts timeout) l) with Some a => Some (prod a) | None => None end.

Definition rnd_alts (timeout : Z) (nref npeer : nat) (v : value) : option (list rnd) :=
  match v with
  | VL [VL a; VL b] =>
      if Nat.eqb (length a) nref && Nat.eqb (length b) npeer then
        match srcs_alts timeout a, srcs_alts timeout b with
        | Some ra, Some rb => Some (flat_map (fun x => map (fun y => mkrnd x y) rb) ra)
        | _, _ => None end
      else None
  | _ => None
  end.

(* all resolutions of a history (the harness scripts at most three ties: at most eight) *)
Definition rnds_alts (timeout : Z) (nref npeer : nat) (l : list value) : option (list (list rnd)) :=
  match all_some (map (rnd_alts timeout nref npeer) l) with
  | Some a => let p := prod a in if (length p <=? 64)%nat then Some p else None
  | None => None end.

Definition is_kind0 (v : value) : bool := match v with VL [VZ 0; _; _] => true | _ => false end.
Definition round_has_kind0 (v : value) : bool :=
  match v with VL [VL a; VL b] => existsb is_kind0 a || existsb is_kind0 b | _ => false end.

(* sync.run / sync.extreme.
   args: mode dval refbits peerbits cutoff timeout interval nref npeer rounds
     mode 0: the real clocks.SystemClock with configured drift dval ns/s; mode 1: a scripted clock whose Drift returns dval
   observed: panicked, events in order ([0 c dt] = Do c, dt ns of virtual time after the round began, [1 d] = Sleep d, [2 a r] = Drift(a) = r, [3 _] = any other clock call)
   strict: the bound of the property at full strength - every correction within the peer cap, also when the caps exceed 2^62 ns *)
(* the observation without the time stamps of the Do events *)
Definition strip (o : list value) : list value :=
  match o with
  | [VZ opan; VL oevs] => match events_of_values oevs with Some (es, _) => [VZ opan; VL (map value_of_event es)] | None => o end
  | _ => o
  end.

Definition judge_run (strict : bool) (a o : list value) : option verdict :=
    match a with
    | [VZ mode; VZ dval; VZ rb; VZ pb; VZ cutoff; VZ timeout; VZ interval; VZ nref; VZ npeer; VL rounds] =>
        let nr := Z.to_nat nref in let np := Z.to_nat npeer in
        let cfg := mkcfg (f_of_bits rb) (f_of_bits pb) cutoff timeout interval in
        let D := if mode =? 0 then sysclk_drift dval interval else dval in
        let oracle_of (env : bool) (rs : list rnd) (opan : Z) (esd : list event * list Z) : bool :=
          let '(es, dts) := esd in
          let drift_ok :=
            if mode =? 0 then forallb (fun e => match e with EDrift x r => C01_drift_ok dval x r | _ => true end) es
            else true in
          C01_ok_env env cfg nr np rs (negb (opan =? 0), es) && drift_ok && C01_deadline_ok timeout dts &&
          (if strict then forallb (fun e => match e with EDo c => within c (cap (c_peer cfg) D) | _ => true end) es else true) in
        if (timeout =? 0) && ((0 <? npeer) || existsb round_has_kind0 rounds) then
          (* SyncTimeout = 0: the context of a round is over when it is created; whether an immediately answering
             source, or the local clock among the peers, is still counted is a tie for each of them.  Only the clauses
             that hold whatever values were collected are judged (all sources treated as not timely: start-up refusal,
             one Do and one Sleep per round, the bound; env = false switches the clause about peers within the cutoff off);
             the verdict is relational *)
          let rs := map (fun _ => mkrnd (repeat Failed nr) (repeat Failed np)) rounds in
          match o with
          | [VZ opan; VL oevs] =>
              match events_of_values oevs with
              | Some es => let ok := oracle_of false rs opan es in Some (relational ok ok)
              | None => Some (relational false true)
              end
          | _ => Some (relational false true)
          end
        else
        match rnds_alts timeout nr np rounds with
        | None => None
        | Some [rs] =>
            let '(pan, evs) := run cfg D nr np rs in
            let expected := [vbool pan; VL (map value_of_event evs)] in
            match o with
            | [VZ opan; VL oevs] =>
                match events_of_values oevs with
                | Some es => Some (functional expected [VZ opan; VL (map value_of_event (fst es))] (oracle_of true rs opan es))
                (* an observation that is not a sequence of Do / Sleep / Drift events (the harness writes [3 _] for
                   any other call of the clock, which Run never makes): the oracle cannot be evaluated and is left
                   true; the model comparison fails (the expected sequence has only kinds 0, 1, 2), so the case is
                   reported as broken correspondence, not silently accepted *)
                | None => Some (functional expected o true)
                end
            | _ => Some (functional expected o true)
            end
        | Some rss =>
            (* ties at the deadline: the model agrees if one resolution reproduces the observation, the oracle
               accepts if the observation is correct for one resolution *)
            let agrees (rs : list rnd) :=
              let '(pan, evs) := run cfg D nr np rs in values_eqb [vbool pan; VL (map value_of_event evs)] (strip o) in
            match o with
            | [VZ opan; VL oevs] =>
                match events_of_values oevs with
                | Some es => Some (relational (existsb agrees rss) (existsb (fun rs => oracle_of true rs opan es) rss))
                | None => Some (relational false true)
                end
            | _ => Some (relational false true)
            end
        end
    | _ => None end.

Definition glue_C01 (k : string) (a o : list value) : option verdict :=
  if is k "sync.run" then judge_run false a o
  else if is k "sync.extreme" then judge_run true a o
  else if is k "sync.drift" then
    match a, o with
    | [VZ drift_ns; VZ d], [VZ r] => Some (functional [VZ (sysclk_drift drift_ns d)] o (C01_drift_ok drift_ns d r))
    | _, _ => None end
  else if is k "sync.config" then
    (* the configuration path of the time service: args = the six TOML settings clock_drift, reference_clock_impact,
       peer_clock_impact, peer_clock_cutoff, sync_timeout, sync_interval, each [] (key omitted) or [bits];
       observed: fatal, then what clockDrift and syncConfig returned (zeros after a fatal error) *)
    match a with
    | [d; rf; pf; cu; tm; iv] =>
        match setting_of_value d, setting_of_value rf, setting_of_value pf, setting_of_value cu, setting_of_value tm, setting_of_value iv with
        | Some d, Some rf, Some pf, Some cu, Some tm, Some iv =>
            let cfg := sync_config rf pf cu tm iv in
            let expected :=
              match clock_drift d with
              | None => [VZ 1; VZ 0; VZ 0; VZ 0; VZ 0; VZ 0; VZ 0]
              | Some dn => [VZ 0; VZ dn; VZ (f_to_bits (c_ref cfg)); VZ (f_to_bits (c_peer cfg));
                            VZ (c_cutoff cfg); VZ (c_timeout cfg); VZ (c_interval cfg)]
              end in
            match o with
            | [VZ fatal; VZ od; VZ orf; VZ opf; VZ ocu; VZ otm; VZ oiv] =>
                Some (functional expected o
                        (C01_config_ok d rf pf cu tm iv (negb (fatal =? 0)) od (f_of_bits orf) (f_of_bits opf) ocu otm oiv))
            | _ => Some (functional expected o false)
            end
        | _, _, _, _, _, _ => None
        end
    | _ => None end
  else if is k "sync.wiring" then
    (* source-level tie of timeservice.go (function 0 runServer, 1 runClient, 2 createClocks): the rules that do not hold *)
    match a, o with
    | [VZ fn], [VL viol] => Some (functional [VL []] o (C01_wiring_ok viol))
    | _, _ => Some (functional [VL []] o false)
    end
  else if is k "sync.build" then
    (* the service builds with the verification hooks (otherwise the configuration kinds cannot run): not a
       statement of the property, so a failure is reported as broken correspondence *)
    Some (functional [VZ 1] o true)
  else if is k "sync.sleep" then
    match a, o with
    | [VZ d], [VZ pan; VZ elapsed] => let ok := C01_sleep_ok d (negb (pan =? 0)) elapsed in Some (relational ok ok)
    | _, _ => Some (relational false false)
    end
  else if is k "sync.clocks" then
    match a, o with
    | [VL cr; VL cp], [VZ ok; VL orf; VL opr] =>
        match getZs cr, getZs cp, getZs orf, getZs opr with
        | Some cr, Some cp, Some orf, Some opr =>
            Some (functional [VZ 1; VL (map VZ cr); VL (map VZ cp)] o (C01_clocks_ok cr cp (negb (ok =? 0)) orf opr))
        | _, _, _, _ => None
        end
    | _, _ => None
    end
  else None.

Definition run_case (k : string) (a o : list value) : verdict :=
  first_some [glue_C01] k a o.
