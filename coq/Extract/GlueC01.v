(* Dispatcher from case kinds (strings) to the model of sync.Run and the
   property oracle of C01.  Everything the OCaml runner of this property
   executes goes through run_case. *)
From Coq Require Import ZArith List String.
From ST Require Import Base.Ints Base.Value Base.F64 Model.NtpTime Model.Units Model.Ftm Model.Sync Model.SyncConfig Extract.GlueBase.
Import ListNotations.
Open Scope string_scope.
Open Scope Z_scope.

(* one source in one round: [kind value delay]; kind 0 = answers value after
   delay < timeout, 1 = error after delay, 2 = answers value after delay >
   timeout, 3 = blocks until the round's context ends, then error *)
Definition src_of_value (timeout : Z) (v : value) : option src :=
  match v with
  | VL [VZ k; VZ x; VZ d] =>
      if k =? 0 then (if (0 <=? d) && (d <? timeout) then Some (Timely x) else None)
      else if k =? 1 then Some Failed
      else if k =? 2 then (if timeout <? d then Some Failed else None)
      else if k =? 3 then Some Failed
      else None
  | _ => None
  end.

Fixpoint srcs_of_values (timeout : Z) (l : list value) : option (list src) :=
  match l with
  | [] => Some []
  | v :: r => match src_of_value timeout v, srcs_of_values timeout r with
              | Some s, Some ss => Some (s :: ss) | _, _ => None end
  end.

Definition rnd_of_value (timeout : Z) (nref npeer : nat) (v : value) : option rnd :=
  match v with
  | VL [VL a; VL b] =>
      match srcs_of_values timeout a, srcs_of_values timeout b with
      | Some ra, Some rb =>
          if Nat.eqb (length ra) nref && Nat.eqb (length rb) npeer then Some (mkrnd ra rb) else None
      | _, _ => None end
  | _ => None
  end.

Fixpoint rnds_of_values (timeout : Z) (nref npeer : nat) (l : list value) : option (list rnd) :=
  match l with
  | [] => Some []
  | v :: r => match rnd_of_value timeout nref npeer v, rnds_of_values timeout nref npeer r with
              | Some x, Some xs => Some (x :: xs) | _, _ => None end
  end.

Definition value_of_event (e : event) : value :=
  match e with
  | EDo c => VL [VZ 0; VZ c]
  | ESleep d => VL [VZ 1; VZ d]
  | EDrift a r => VL [VZ 2; VZ a; VZ r]
  end.

Fixpoint events_of_values (l : list value) : option (list event) :=
  match l with
  | [] => Some []
  | v :: r =>
      match events_of_values r with
      | None => None
      | Some es =>
          match v with
          | VL [VZ 0; VZ c] => Some (EDo c :: es)
          | VL [VZ 1; VZ d] => Some (ESleep d :: es)
          | VL [VZ 2; VZ a; VZ x] => Some (EDrift a x :: es)
          | _ => None
          end
      end
  end.

(* one TOML setting: [] = key omitted, [bits] = float64 value *)
Definition setting_of_value (v : value) : option (option f64) :=
  match v with
  | VL [] => Some None
  | VL [VZ b] => Some (Some (f_of_bits b))
  | _ => None
  end.

Definition glue_C01 (k : string) (a o : list value) : option verdict :=
  if is k "sync.run" then
    (* args: mode dval refbits peerbits cutoff timeout interval nref npeer rounds
       mode 0: the real clocks.SystemClock with configured drift dval ns/s; mode 1: a scripted clock whose Drift returns dval
       observed: panicked, events in order ([0 c] = Do c, [1 d] = Sleep d, [2 a r] = Drift(a) = r, [3 _] = any other clock call) *)
    match a with
    | [VZ mode; VZ dval; VZ rb; VZ pb; VZ cutoff; VZ timeout; VZ interval; VZ nref; VZ npeer; VL rounds] =>
        let nr := Z.to_nat nref in let np := Z.to_nat npeer in
        match rnds_of_values timeout nr np rounds with
        | None => None
        | Some rs =>
            let cfg := mkcfg (f_of_bits rb) (f_of_bits pb) cutoff timeout interval in
            let D := if mode =? 0 then sysclk_drift dval interval else dval in
            let '(pan, evs) := run cfg D nr np rs in
            let expected := [vbool pan; VL (map value_of_event evs)] in
            match o with
            | [VZ opan; VL oevs] =>
                match events_of_values oevs with
                | Some es =>
                    let drift_ok :=
                      if mode =? 0 then forallb (fun e => match e with EDrift x r => C01_drift_ok dval x r | _ => true end) es
                      else true in
                    Some (functional expected o (C01_ok cfg nr np rs (negb (opan =? 0), es) && drift_ok))
                (* an observation that is not a sequence of Do / Sleep / Drift events (the harness writes [3 _] for
                   any other call of the clock, which Run never makes): the oracle cannot be evaluated and is left
                   true; the model comparison fails (the expected sequence has only kinds 0, 1, 2), so the case is
                   reported as broken correspondence, not silently accepted *)
                | None => Some (functional expected o true)
                end
            | _ => Some (functional expected o true)
            end
        end
    | _ => None end
  else if is k "sync.extreme" then
    (* as sync.run, with the bound of the property at full strength: every correction within the peer cap,
       also when the caps exceed 2^62 ns *)
    (* args: mode dval refbits peerbits cutoff timeout interval nref npeer rounds
       mode 0: the real clocks.SystemClock with configured drift dval ns/s; mode 1: a scripted clock whose Drift returns dval
       observed: panicked, events in order ([0 c] = Do c, [1 d] = Sleep d, [2 a r] = Drift(a) = r, [3 _] = any other clock call) *)
    match a with
    | [VZ mode; VZ dval; VZ rb; VZ pb; VZ cutoff; VZ timeout; VZ interval; VZ nref; VZ npeer; VL rounds] =>
        let nr := Z.to_nat nref in let np := Z.to_nat npeer in
        match rnds_of_values timeout nr np rounds with
        | None => None
        | Some rs =>
            let cfg := mkcfg (f_of_bits rb) (f_of_bits pb) cutoff timeout interval in
            let D := if mode =? 0 then sysclk_drift dval interval else dval in
            let '(pan, evs) := run cfg D nr np rs in
            let expected := [vbool pan; VL (map value_of_event evs)] in
            match o with
            | [VZ opan; VL oevs] =>
                match events_of_values oevs with
                | Some es =>
                    let drift_ok :=
                      if mode =? 0 then forallb (fun e => match e with EDrift x r => C01_drift_ok dval x r | _ => true end) es
                      else true in
                    Some (functional expected o (C01_ok cfg nr np rs (negb (opan =? 0), es) && drift_ok &&
                            forallb (fun e => match e with EDo c => within c (cap (c_peer cfg) D) | _ => true end) es))
                | None => Some (functional expected o true)
                end
            | _ => Some (functional expected o true)
            end
        end
    | _ => None end
  else if is k "sync.drift" then
    match a, o with
    | [VZ drift_ns; VZ d], [VZ r] => Some (functional [VZ (sysclk_drift drift_ns d)] o (C01_drift_ok drift_ns d r))
    | _, _ => None end
  else if is k "sync.config" then
    (* the configuration path of the time service: args = the six TOML settings clock_drift, reference_clock_impact,
       peer_clock_impact, peer_clock_cutoff, sync_timeout, sync_interval, each [] (key omitted) or [bits];
       observed: fatal, then what clockDrift and syncConfig returned (zeros after a fatal error) *)
    match a with
    | [d; rf; pf; cu; tm; iv] =>
        match setting_of_value d, setting_of_value rf, setting_of_value pf, setting_of_value cu, setting_of_value tm, setting_of_value iv with
        | Some d, Some rf, Some pf, Some cu, Some tm, Some iv =>
            let cfg := sync_config rf pf cu tm iv in
            let expected :=
              match clock_drift d with
              | None => [VZ 1; VZ 0; VZ 0; VZ 0; VZ 0; VZ 0; VZ 0]
              | Some dn => [VZ 0; VZ dn; VZ (f_to_bits (c_ref cfg)); VZ (f_to_bits (c_peer cfg));
                            VZ (c_cutoff cfg); VZ (c_timeout cfg); VZ (c_interval cfg)]
              end in
            match o with
            | [VZ fatal; VZ od; VZ orf; VZ opf; VZ ocu; VZ otm; VZ oiv] =>
                Some (functional expected o
                        (C01_config_ok d rf pf cu tm iv (negb (fatal =? 0)) od (f_of_bits orf) (f_of_bits opf) ocu otm oiv))
            | _ => Some (functional expected o false)
            end
        | _, _, _, _, _, _ => None
        end
    | _ => None end
  else None.

Definition run_case (k : string) (a o : list value) : verdict :=
  first_some [glue_C01] k a o.
