(* Dispatcher of C07: the same recorded histories as C06, compared with the
   model on queue values / queue contents / client sets and checked with the C07
   oracle (bounds, index consistency, heap order, recency), plus floods of
   unknown clients against the full store.  The histories are also replayed on
   the concrete store of Model/TssHeap.v (container/heap on the tssQueue array):
   after every operation the observed queue array must EQUAL the model's array
   slot by slot and the client's qidx must be the model's back-pointer. *)
From Coq Require Import ZArith List String Bool.
From ST Require Import Base.Ints Base.Value Model.Tss Model.TssOracle Model.TssHeap Extract.GlueBase Extract.GlueTss.
Import ListNotations.
Open Scope string_scope.
Open Scope Z_scope.

(* ---- replay on the concrete store: layout of the queue array ---- *)
Definition pair_eqb (p q : Z * Z) : bool := (fst p =? fst q) && (snd p =? snd q).

(* the observed item of the client against the concrete model: present iff the model
   has one, same queue value, qidx = the model's back-pointer *)
Definition item_layout_ok (s : tssh) (cid : Z) (itv : value) : bool :=
  match parse_item itv, find_item cid (hs_items s) with
  | Some (Some oi), Some it =>
      (oi_qval oi =? it_qval it) && (oi_qidx oi =? Z.of_nat (bp_get cid (h_bp (hs_heap s))))
  | Some None, None => true
  | _, _ => false
  end.

Definition layout_ok (s : tssh) (cid : Z) (itv qv : value) : bool :=
  match parse_queue qv with
  | Some queue => list_eqb pair_eqb (h_arr (hs_heap s)) queue && item_layout_ok s cid itv
  | None => false
  end.

Definition layout_step (c : config) (st : option tssh) (o : op) (ob : value) : option tssh * bool :=
  match st with
  | None => (None, false)
  | Some s =>
      match o, ob with
      | OpHandle cid q rxt now _, VL [VZ 0; VZ org; VZ rx; VZ tx; VZ ref; VZ rxt'; VZ txt'; itv; qv] =>
          match handle_h c s cid q rxt now with
          | Some out =>
              let r := ho_reply out in
              (Some (ho_state out),
               (r_org r =? org) && (r_rx r =? rx) && (r_tx r =? tx) && (r_ref r =? ref) &&
               (ho_rxt out =? rxt') && (ho_txt out =? txt') && layout_ok (ho_state out) cid itv qv)
          | None => (None, false)
          end
      | OpUpdateTx cid rxt txt, VL [VZ 1; VZ txt'; itv; qv] =>
          let out := update_tx_h s cid rxt txt in
          (Some (ht_state out), (ht_txt out =? txt') && layout_ok (ht_state out) cid itv qv)
      | _, _ => (None, false)
      end
  end.

Fixpoint layout_replay (c : config) (st : option tssh) (ops : list op) (obs : list value) : bool :=
  match ops, obs with
  | [], [] => true
  | o :: ro, ob :: rb => let '(st', ok) := layout_step c st o ob in ok && layout_replay c st' ro rb
  | _, _ => false
  end.

Definition run_layout (a o : list value) : bool :=
  match a, o with
  | [VL opsv], [VL obs; VL _] =>
      match parse_ops opsv with
      | Some ops => layout_replay real_config (Some tssh_empty) ops obs
      | None => false
      end
  | _, _ => false
  end.

(* ---- kind heap.ops: the real container/heap on a queue with tssQueue's methods ----
   ops: [0 key val] Push, [1] Pop, [2 idx] Remove, [3 idx val] qval := val; Fix(idx);
   observed after every op: the array [[key qval] ...], the qidx of every slot's item,
   and what Pop/Remove returned ([] otherwise) *)
Inductive hop := HPush (k v : Z) | HPop | HRemove (i : Z) | HFix (i v : Z).

Definition parse_hop (v : value) : option hop :=
  match v with
  | VL [VZ 0; VZ k; VZ x] => Some (HPush k x)
  | VL [VZ 1] => Some HPop
  | VL [VZ 2; VZ i] => Some (HRemove i)
  | VL [VZ 3; VZ i; VZ x] => Some (HFix i x)
  | _ => None
  end.

Definition hop_model (h : heap) (o : hop) : heap * option (Z * Z) :=
  match o with
  | HPush k v => (hpush h (k, v), None)
  | HPop => let '(h', x) := hpop h in (h', Some x)
  | HRemove i => let '(h', x) := hremove h (Z.to_nat i) in (h', Some x)
  | HFix i v => (hfix (hset_qval h (fst (nth (Z.to_nat i) (h_arr h) hd0)) v) (Z.to_nat i), None)
  end.

Fixpoint iota_from (i : Z) (n : nat) : list Z :=
  match n with O => [] | S m => i :: iota_from (i + 1) m end.

(* property oracle on the observation alone: valid priority order, one slot per item,
   back-pointers right, and Pop returned a least element *)
Definition hop_oracle (o : hop) (arr : list (Z * Z)) (qidx : list Z) (popped : option (Z * Z)) : bool :=
  heap_ok (map snd arr) && nodup_z (map fst arr) && list_eqb Z.eqb qidx (iota_from 0 (length arr)) &&
  match o, popped with
  | HPop, Some x => forallb (fun y => snd x <=? snd y) arr
  | HPop, None => false
  | _, _ => true
  end.

Fixpoint hops_replay (h : heap) (ops : list value) (obs : list value) : bool * bool :=
  match ops, obs with
  | [], [] => (true, true)
  | ov :: ro, VL [VL arrv; VL qidxv; VL pv] :: rb =>
      match parse_hop ov, parse_pairs arrv, getZs qidxv, parse_pairs [VL pv] with
      | Some o, Some arr, Some qidx, popped =>
          let popped := match pv, popped with [], _ => Some None | _, Some [x] => Some (Some x) | _, _ => None end in
          match popped with
          | Some popped =>
              let '(h', x) := hop_model h o in
              let agree := list_eqb pair_eqb (h_arr h') arr &&
                           list_eqb Z.eqb (map (fun kv => Z.of_nat (bp_get (fst kv) (h_bp h'))) (h_arr h')) qidx &&
                           match x, popped with
                           | Some a, Some b => pair_eqb a b
                           | None, None => true
                           | _, _ => false
                           end in
              let '(g, orc) := hops_replay h' ro rb in
              (agree && g, hop_oracle o arr qidx popped && orc)
          | None => (false, true)
          end
      | _, _, _, _ => (false, true)
      end
  | _, _ => (false, true)
  end.

Definition glue_C07 (k : string) (a o : list value) : option verdict :=
  if is k "tss.hist" then
    let ac := run_hist false a o in
    Some (relational (a_agree07 ac && negb (a_bad ac) && run_layout a o) (a_oracle07 ac))
  else if is k "heap.ops" then
    match a, o with
    | [VL ops], [VL obs] => let '(g, orc) := hops_replay heap_empty ops obs in Some (relational g orc)
    | _, _ => Some (relational false true)
    end
  else if is k "tss.flood" then
    match run_flood_adm o with
    | Some b => Some (relational b b)
    | None => Some (relational false true)
    end
  else if is k "tss.conc" then
    (* concurrent calls without the race detector: serialisable = per client the model's run *)
    match o with
    | [VL clients; VL counts] => let ok := run_conc clients counts in Some (relational ok ok)
    | _ => Some (relational false true)
    end
  else if is k "tss.race" then
    (* the same under the race detector (child process): exit status, whether a data race was reported *)
    match o with
    | [VZ status; VZ race; VL clients; VL counts] =>
        let ok := (status =? 0) && (race =? 0) && run_conc clients counts in Some (relational ok ok)
    | _ => Some (relational false true)
    end
  else if is k "tss.full" then
    (* operations at the real capacity with real before/after items: bounds of every item, the queue
       value of a known client, and the admission decision for every client without an item *)
    match o with
    | [VL recs] => match full_steps recs with
                   | Some (g, _, orc7) => Some (relational g orc7)
                   | None => Some (relational false true)
                   end
    | _ => Some (relational false true)
    end
  else if is k "lsn.hist" then
    (* histories played against the real listeners: C07 looks at the store they leave behind *)
    match o with
    | [_; _; _; VL obs; VL exp] => let '(g, orc) := run_lsn_keys obs exp in Some (relational g orc)
    | _ => Some (relational false true)
    end
  else if is k "tss.lockdiscipline" then
    (* args: functions seen, functions that touch the store; observed: the violations of the lock discipline *)
    match a, o with
    | [VZ nf; VZ ng], [VL viol] =>
        let ok := match viol with [] => true | _ => false end in
        Some (relational (ok && (2 <=? ng)) ok)
    | _, _ => Some (relational false true)
    end
  else None.

Definition run_case (k : string) (a o : list value) : verdict := first_some [glue_C07] k a o.
