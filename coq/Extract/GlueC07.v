(* Dispatcher of C07: the same recorded histories as C06, compared with the
   model on queue values / queue contents / client sets and checked with the C07
   oracle (bounds, index consistency, heap order, recency), plus floods of
   unknown clients against the full store. *)
From Coq Require Import ZArith List String Bool.
From ST Require Import Base.Ints Base.Value Model.Tss Model.TssOracle Extract.GlueBase Extract.GlueTss.
Import ListNotations.
Open Scope string_scope.
Open Scope Z_scope.

Definition glue_C07 (k : string) (a o : list value) : option verdict :=
  if is k "tss.hist" then
    let ac := run_hist a o in
    Some (relational (a_agree07 ac && negb (a_bad ac)) (a_oracle07 ac))
  else if is k "tss.flood" then
    match run_flood o with
    | Some b => Some (relational b b)
    | None => Some (relational false true)
    end
  else if is k "tss.race" then
    (* observed: exit status of the child built with the race detector, whether it reported a
       data race, and the final store: structurally sound as after any sequential history *)
    match o with
    | [VZ status; VZ race; VL its; qv] =>
        match parse_queue qv with
        | Some queue =>
            let items_ok := forallb (fun v =>
              match v with
              | VL [VZ cid; VZ qval; VZ qidx; VL ents] =>
                  match parse_pairs ents with
                  | Some ps => C07_item_ok (icap real_config) cid {| oi_qval := qval; oi_qidx := qidx; oi_ents := ps |} queue false
                               && pairs_ordered ps
                  | None => false
                  end
              | _ => false
              end) its in
            let ok := (status =? 0) && (race =? 0) && items_ok && C07_queue_ok (cap real_config) (length its) queue in
            Some (relational ok ok)
        | None => Some (relational false true)
        end
    | _ => Some (relational false true)
    end
  else if is k "tss.lockdiscipline" then
    (* args: functions seen, functions that touch the store; observed: the violations of the lock discipline *)
    match a, o with
    | [VZ nf; VZ ng], [VL viol] =>
        let ok := match viol with [] => true | _ => false end in
        Some (relational (ok && (2 <=? ng)) ok)
    | _, _ => Some (relational false true)
    end
  else None.

Definition run_case (k : string) (a o : list value) : verdict := first_some [glue_C07] k a o.
