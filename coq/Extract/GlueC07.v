(* Dispatcher of C07: the same recorded histories as C06, compared with the
   model on queue values / queue contents / client sets and checked with the C07
   oracle (bounds, index consistency, heap order, recency), plus floods of
   unknown clients against the full store. *)
From Coq Require Import ZArith List String Bool.
From ST Require Import Base.Ints Base.Value Model.Tss Model.TssOracle Extract.GlueBase Extract.GlueTss.
Import ListNotations.
Open Scope string_scope.
Open Scope Z_scope.

Definition glue_C07 (k : string) (a o : list value) : option verdict :=
  if is k "tss.hist" then
    let ac := run_hist a o in
    Some (relational (a_agree07 ac && negb (a_bad ac)) (a_oracle07 ac))
  else if is k "tss.flood" then
    match run_flood o with
    | Some b => Some (relational b b)
    | None => Some (relational false true)
    end
  else if is k "tss.lockdiscipline" then
    (* args: functions seen, functions that touch the store; observed: the violations of the lock discipline *)
    match a, o with
    | [VZ nf; VZ ng], [VL viol] =>
        let ok := match viol with [] => true | _ => false end in
        Some (relational (ok && (2 <=? ng)) ok)
    | _, _ => Some (relational false true)
    end
  else None.

Definition run_case (k : string) (a o : list value) : verdict := first_some [glue_C07] k a o.
