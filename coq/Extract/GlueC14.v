(* Dispatcher from case kinds to the codec models and the property oracle of C14. *)
From Coq Require Import ZArith List String.
From ST Require Import Base.Ints Base.Value Base.Bytes Model.CodecNtp Model.CodecCsptp Model.CodecNtske Model.CodecCookie Model.CodecNts Extract.GlueBase.
Import ListNotations.
Open Scope string_scope.
Open Scope Z_scope.

Definition vzs (l : list Z) : value := VL (map VZ l).
Definition zb (z : Z) : bool := negb (z =? 0).

(* ---------------- NTP ---------------- *)

Definition ntp_obs (p : ntp_packet) : list value :=
  [VZ (ntp_leap p); VZ (ntp_version p); VZ (ntp_mode p)].

Definition ntp_hist_step (p : ntp_packet) (op : list value) : option (ntp_packet * value) :=
  match op with
  | [VZ 0] => Some (p, VB (ntp_encode p))
  | [VZ 1; VB b] => let d := ntp_decode p b in
                    Some (fst d, VL [vbool (snd d); vzs (ntp_to_list (fst d))])
  | [VZ 5; VL f] => match getZs f with
                    | Some zs => Some (ntp_of_list zs, VL [])
                    | None => None end
  | [VZ k; VZ v] =>
      let r := if k =? 2 then ntp_set_leap p v else if k =? 3 then ntp_set_version p v else ntp_set_mode p v in
      let q := match r with Some q => q | None => p end in
      Some (q, VL (vbool (match r with Some _ => false | None => true end) :: VZ (np_lvm q) :: ntp_obs q))
  | _ => None
  end.

Fixpoint ntp_hist (p : ntp_packet) (ops : list value) : option (list value) :=
  match ops with
  | [] => Some []
  | VL op :: r =>
      match ntp_hist_step p op with
      | Some (q, o) => match ntp_hist q r with Some os => Some (o :: os) | None => None end
      | None => None
      end
  | _ => None
  end.

(* oracle of a history on one Packet and one buffer.  cur = the 48 bytes the packet is known to
   encode to (after a successful decode of b: the first 48 bytes of b; after an encode: its output;
   a setter changes byte 0 only; a failed decode or setter leaves the packet as it was) *)
Fixpoint ntp_hist_ok (cur : option (list Z)) (ops obs : list value) : bool :=
  match ops, obs with
  | [], [] => true
  | VL op :: ops', ob :: obs' =>
      match op, ob with
      | [VZ 0], VB e =>
          (length e =? 48)%nat && bytes_okb e &&
          match cur with Some c => zlist_eqb c e | None => true end && ntp_hist_ok (Some e) ops' obs'
      | [VZ 1; VB b], VL [VZ ok; VL _] =>
          if (length b <? 48)%nat then negb (zb ok) && ntp_hist_ok cur ops' obs'
          else zb ok && ntp_hist_ok (Some (firstn 48 b)) ops' obs'
      | [VZ 5; VL _], _ => ntp_hist_ok None ops' obs'
      | [VZ kk; VZ v], VL [VZ pan; VZ lvm; VZ li; VZ vn; VZ md] =>
          lvm_agree lvm li vn md &&
          match cur with
          | Some (c0 :: t) => C14_ntp_set_ok (kk - 2) c0 v (zb pan) li vn md &&
                              ntp_hist_ok (Some ((if zb pan then c0 else lvm) :: t)) ops' obs'
          | _ => ntp_hist_ok None ops' obs'
          end
      | _, _ => false
      end
  | _, _ => false
  end.

Definition glue_ntp (k : string) (a o : list value) : option verdict :=
  if is k "ntp.enc" then
    match a with
    | [VL f; VZ _] =>
        match getZs f with
        | Some zs =>
            let p := ntp_of_list zs in
            let e := ntp_encode p in
            let d := ntp_decode (ntp_of_list []) e in
            let oracle := match o with
              | [VB enc; VZ ok; VL df; VZ li; VZ vn; VZ md] =>
                  match getZs df with
                  | Some dz => C14_ntp_enc_ok zs enc (zb ok) dz li vn md
                  | None => false end
              | _ => false end in
            Some (functional ([VB e; vbool (snd d); vzs (ntp_to_list (fst d))] ++ ntp_obs (fst d)) o oracle)
        | None => None end
    | _ => None end
  else if is k "ntp.dec" then
    match a with
    | [VB b; VL f0] =>
        match getZs f0 with
        | Some z0 =>
            let d := ntp_decode (ntp_of_list z0) b in
            let oracle := match o with
              | [VZ ok; VL df; VB re; VZ li; VZ vn; VZ md] =>
                  C14_ntp_dec_ok b (zb ok) re li vn md &&
                  (* on error the packet decoded into is left as it was *)
                  (if zb ok then true else match getZs df with Some dz => zlist_eqb dz z0 | None => false end)
              | _ => false end in
            Some (functional ([vbool (snd d); vzs (ntp_to_list (fst d)); VB (ntp_encode (fst d))] ++ ntp_obs (fst d)) o oracle)
        | None => None end
    | _ => None end
  else if is k "ntp.set" then
    match a with
    | [VZ which; VZ lvm; VZ v] =>
        let p := with_lvm (ntp_of_list []) lvm in
        let r := if which =? 0 then ntp_set_leap p v else if which =? 1 then ntp_set_version p v else ntp_set_mode p v in
        let q := match r with Some q => q | None => p end in
        let oracle := match o with
          | [VZ pan; VZ _; VZ li; VZ vn; VZ md] => C14_ntp_set_ok which lvm v (zb pan) li vn md
          | _ => false end in
        Some (functional (vbool (match r with Some _ => false | None => true end) :: VZ (np_lvm q) :: ntp_obs q) o oracle)
    | _ => None end
  else if is k "ntp.hist" then
    match a with
    | [VL f; VL ops] =>
        match getZs f with
        | Some zs => match ntp_hist (ntp_of_list zs) ops with
                     | Some os => Some (functional [VL os] o
                                          (match o with [VL obs] => ntp_hist_ok None ops obs | _ => false end))
                     | None => None end
        | None => None end
    | _ => None end
  else None.

(* ---------------- CSPTP ---------------- *)

Definition ok_of {A} (o : outcome A) (d : A) : A := match o with Ok a => a | _ => d end.
Definition is_panic {A} (o : outcome A) : bool := match o with Panic => true | _ => false end.

(* k: 0 message, 1 request TLV, 2 response TLV *)
Definition cs_encode (k : Z) := if k =? 0 then csptp_encode_msg else if k =? 1 then csptp_encode_req else csptp_encode_resp.
Definition cs_decode (k : Z) := if k =? 0 then csptp_decode_msg else if k =? 1 then csptp_decode_req else csptp_decode_resp.
Definition cs_declared (k : Z) (v : list Z) : nat := if k =? 0 then msg_len else tlv_len v.
Definition cs_nfields (k : Z) : nat := if k =? 0 then 15%nat else if k =? 1 then 5%nat else 19%nat.

(* the declared length read off the property text: 44; 14 + 22 bytes, + 18 when bit 0 of the flag field is set *)
Definition spec_len (k : Z) (flags : Z) : nat :=
  if k =? 0 then 44%nat else if Z.odd flags then 54%nat else 36%nat.

Definition cs_enc_case (k : Z) (a o : list value) : option verdict :=
  match a with
  | [VL f; VB buf] =>
      match getZs f with
      | Some v =>
          let r := cs_encode k buf v in
          let e := ok_of r buf in
          let n := cs_declared k v in
          let zero := repeat 0 (cs_nfields k) in
          let expected :=
            if is_panic r then [vbool true; VB buf; VZ (Z.of_nat n); vbool false; VL []; vbool false]
            else let d := cs_decode k zero e in
                 [vbool false; VB e; VZ (Z.of_nat n); vbool (snd d); vzs (fst d);
                  vbool (snd (cs_decode k v (firstn (n - 1) e)))] in
          let oracle := match o with
            | [VZ pan; VB enc; VZ n'; VZ dok; VL df; VZ sok] =>
                let ns := spec_len k (nth 4 v 0) in
                (* without the flag no ServerStateDS is on the wire: it decodes as zero *)
                let v' := if (k =? 2) && negb (Z.odd (nth 4 v 0)) then (firstn 10 v ++ repeat 0 9)%list else v in
                (n' =? Z.of_nat ns) &&
                match getZs df with
                | Some dz => C14_fixed_enc_ok ns v' buf (zb pan) enc (zb dok) dz (zb sok)
                             (* the padding of a request TLV is written as zeros *)
                             && (negb (k =? 1) || zb pan || forallb (Z.eqb 0) (slice enc 14 (ns - 14)))
                | None => false end
            | _ => false end in
          Some (functional expected o oracle)
      | None => None end
  | _ => None end.

Definition cs_dec_case (k : Z) (a o : list value) : option verdict :=
  match a with
  | [VB b; VL f0] =>
      match getZs f0 with
      | Some t0 =>
          let d := cs_decode k t0 b in
          let n := cs_declared k (fst d) in
          let re := if snd d then ok_of (cs_encode k (repeat 0 n) (fst d)) [] else [] in
          let oracle := match o with
            | [VZ ok; VL df; VZ n'; VB re'] =>
                match getZs df with
                | Some dz =>
                    let nb := if (length b <? 14)%nat then (if k =? 0 then 44%nat else 14%nat)
                              else spec_len k (nth 13 b 0) in
                    let want := if k =? 1 then (firstn 14 b ++ repeat 0 (nb - 14))%list else firstn nb b in
                    (if (length b <? nb)%nat then negb (zb ok)
                     else zb ok && zl_eqb re' want && (n' =? Z.of_nat nb)
                          && ((k <? 2) || Z.odd (nth 13 b 0) || forallb (Z.eqb 0) (skipn 10 dz)))
                    (* a failed decode of fewer than 14 (44) bytes leaves the value as it was *)
                    && (zb ok || negb (Nat.ltb (length b) (if k =? 0 then 44%nat else 14%nat)) || zl_eqb dz t0)
                | None => false end
            | _ => false end in
          Some (functional [vbool (snd d); vzs (fst d); VZ (Z.of_nat n); VB re] o oracle)
      | None => None end
  | _ => None end.

Definition cs_hist_step (k : Z) (st : list Z * list Z) (op : list value) : option (list Z * list Z * value) :=
  let '(v, buf) := st in
  match op with
  | [VZ 0] => let r := cs_encode k buf v in
              let e := ok_of r buf in Some (v, e, VL [vbool (is_panic r); VB e])
  | [VZ 1; VB b] => let d := cs_decode k v b in Some (fst d, buf, VL [vbool (snd d); vzs (fst d)])
  | [VZ 2; VB nb] => Some (v, nb, VL [])
  | [VZ 3; VL f] => match getZs f with Some zs => Some (zs, buf, VL []) | None => None end
  | _ => None
  end.

Fixpoint cs_hist (k : Z) (st : list Z * list Z) (ops : list value) : option (list value) :=
  match ops with
  | [] => Some []
  | VL op :: r =>
      match cs_hist_step k st op with
      | Some (v, buf, o) => match cs_hist k (v, buf) r with Some os => Some (o :: os) | None => None end
      | None => None
      end
  | _ => None
  end.

(* oracle of a history on one value v and one buffer buf.  cur = the bytes v is known to encode to
   (after a successful decode of b: the declared-length prefix of b, padding of a request TLV as zeros) *)
Fixpoint cs_hist_ok (k : Z) (v buf : list Z) (cur : option (list Z)) (ops obs : list value) : bool :=
  match ops, obs with
  | [], [] => true
  | VL op :: ops', ob :: obs' =>
      match op, ob with
      | [VZ 0], VL [VZ pan; VB e] =>
          let n := spec_len k (nth 4 v 0) in
          if (length buf <? n)%nat then zb pan && zl_eqb e buf && cs_hist_ok k v buf cur ops' obs'
          else negb (zb pan) && (length e =? length buf)%nat && zl_eqb (skipn n e) (skipn n buf) &&
               match cur with Some c => zl_eqb (firstn n e) c | None => true end &&
               cs_hist_ok k v e (Some (firstn n e)) ops' obs'
      | [VZ 1; VB b], VL [VZ ok; VL f] =>
          match getZs f with
          | Some v' =>
              let nb := if (length b <? 14)%nat then (if k =? 0 then 44%nat else 14%nat) else spec_len k (nth 13 b 0) in
              if (length b <? nb)%nat then negb (zb ok) && cs_hist_ok k v' buf None ops' obs'
              else zb ok &&
                   cs_hist_ok k v' buf (Some (if k =? 1 then (firstn 14 b ++ repeat 0 (nb - 14))%list else firstn nb b)) ops' obs'
          | None => false end
      | [VZ 2; VB nb], _ => cs_hist_ok k v nb cur ops' obs'
      | [VZ 3; VL f], _ => match getZs f with Some v' => cs_hist_ok k v' buf None ops' obs' | None => false end
      | _, _ => false
      end
  | _, _ => false
  end.

Definition glue_csptp (k : string) (a o : list value) : option verdict :=
  if is k "csptp.msg.enc" then cs_enc_case 0 a o
  else if is k "csptp.req.enc" then cs_enc_case 1 a o
  else if is k "csptp.resp.enc" then cs_enc_case 2 a o
  else if is k "csptp.msg.dec" then cs_dec_case 0 a o
  else if is k "csptp.req.dec" then cs_dec_case 1 a o
  else if is k "csptp.resp.dec" then cs_dec_case 2 a o
  else if is k "csptp.hist" then
    match a with
    | [VZ kk; VL f; VB buf; VL ops] =>
        match getZs f with
        | Some v => match cs_hist kk (v, buf) ops with
                    | Some os => Some (functional [VL os] o
                                         (match o with [VL obs] => cs_hist_ok kk v buf None ops obs | _ => false end))
                    | None => None end
        | None => None end
    | _ => None end
  else None.

(* ---------------- NTS-KE ---------------- *)

Definition ke_record_of (v : value) : option ke_record :=
  match v with
  | VL [VZ 1; VZ x] => Some (RNextProto x)
  | VL [VZ 0] => Some REnd
  | VL [VZ 6; VB a; VZ c] => Some (RServer a (zb c))
  | VL [VZ 7; VZ p; VZ c] => Some (RPort p (zb c))
  | VL [VZ 5; VB c] => Some (RCookie c)
  | VL [VZ 3; VZ x] => Some (RWarning x)
  | VL [VZ 2; VZ x] => Some (RError x)
  | VL [VZ 4; VL l] => match getZs l with Some zs => Some (RAlgorithm zs) | None => None end
  | VL [VZ 8; VZ t; VB b] => Some (RUnknown t b)
  | _ => None
  end.

Fixpoint ke_records_of (l : list value) : option (list ke_record) :=
  match l with
  | [] => Some []
  | v :: r => match ke_record_of v, ke_records_of r with
              | Some x, Some xs => Some (x :: xs) | _, _ => None end
  end.

Fixpoint getBs (l : list value) : option (list (list Z)) :=
  match l with
  | [] => Some []
  | VB b :: r => match getBs r with Some bs => Some (b :: bs) | None => None end
  | _ => None
  end.

Definition ke_data_of (v : value) : option ke_data :=
  match v with
  | VL [VZ a; VB s; VZ p; VL cs] =>
      match getBs cs with
      | Some l => Some {| kd_algo := a; kd_server := s; kd_port := p; kd_cookies := l |}
      | None => None end
  | _ => None
  end.

Definition ke_data_val (d : ke_data) : value :=
  VL [VZ (kd_algo d); VB (kd_server d); VZ (kd_port d); VL (map VB (kd_cookies d))].

(* `calls` ReadData calls on one stream and one Data, stopping at the first error *)
Fixpoint ke_calls (calls : nat) (s : list Z) (d : ke_data) : list value * list Z * bool :=
  match calls with
  | O => ([], s, true)
  | S c => let '(d', e, s') := read_data_flat s d in
           let o := VL [ke_data_val d'; VZ e] in
           if e =? 0 then let '(os, s'', ok) := ke_calls c s' d' in (o :: os, s'', ok)
           else ([o], s', false)
  end.

Definition ke_expected (calls : Z) (s : list Z) (d : ke_data) : value :=
  let '(os, rest, _) := ke_calls (Z.to_nat calls) s d in VL [VL os; VB rest].

(* every segmentation produced the same observation as the first one *)
Fixpoint all_same (first : value) (l : list value) : bool :=
  match l with [] => true | v :: r => value_eqb first v && all_same first r end.
Definition ke_same (results : list value) : bool :=
  match results with [] => true | f :: r => all_same f r end.

Fixpoint split_last {A} (l : list A) : option (list A * A) :=
  match l with
  | [] => None
  | [x] => Some ([], x)
  | x :: r => match split_last r with Some (i, z) => Some (x :: i, z) | None => None end
  end.

(* the record-level meaning of `calls` calls (no bytes): None = no claim *)
Fixpoint ke_spec_run (calls : nat) (rs : list ke_record) (d : ke_data) (trailing : bool) : option (list value) :=
  match calls with
  | O => Some []
  | S c =>
      match rs, trailing with
      | [], true => None   (* bytes that are not records follow: no claim *)
      | _, _ =>
          match ke_spec rs d with
          | Some (d', e, lft) =>
              let o := VL [ke_data_val d'; VZ e] in
              if e =? 0 then match ke_spec_run c lft d' trailing with Some os => Some (o :: os) | None => None end
              else Some [o]
          | None => None
          end
      end
  end.

Definition glue_ntske (k : string) (a o : list value) : option verdict :=
  if is k "ke.records" then
    match a with
    | [VL rv; VB rest; d0v; VZ calls; VL specs] =>
        match ke_records_of rv, ke_data_of d0v with
        | Some rs, Some d0 =>
            let packed := pack_msg rs in
            let res := ke_expected calls (packed ++ rest)%list d0 in
            let oracle := match o with
              | [VB _; VL results] =>
                  ke_same results &&
                  (* what the records mean, record by record and call by call (End, Error, Warning,
                     end of stream included), whatever the segmentation *)
                  match ke_spec_run (Z.to_nat calls) rs d0 (negb (length rest =? 0)%nat), results with
                  | Some want, VL [VL got; VB _] :: _ => value_eqb (VL want) (VL got)
                  | Some _, _ => false
                  | None, _ => true
                  end &&
                  (* canonical records closed by End, read by one call: the data they spell *)
                  match split_last rs with
                  | Some (body, REnd) =>
                      if forallb canonical body && (calls =? 1) then
                        match results with
                        | VL [VL [VL [dv; VZ e]]; VB rest'] :: _ =>
                            match ke_data_of dv with
                            | Some d => C14_records_ok body d0 d e && list_eqb_z rest' rest
                            | None => false end
                        | _ => false end
                      else true
                  | _ => true end
              | _ => false end in
            Some (functional [VB packed; VL (map (fun _ => res) specs)] o oracle)
        | _, _ => None end
    | _ => None end
  else if is k "ke.stream" then
    match a with
    | [VB s; d0v; VZ calls; VL specs] =>
        match ke_data_of d0v with
        | Some d0 =>
            let res := ke_expected calls s d0 in
            let oracle := match o with [VL results] => ke_same results | _ => false end in
            Some (functional [VL (map (fun _ => res) specs)] o oracle)
        | None => None end
    | _ => None end
  else None.

(* ---------------- server cookies ---------------- *)

Definition ck_types_of (which : Z) : ck_types := if which =? 0 then server_cookie_types else encrypted_cookie_types.
Definition ck_val_of (v : value) : option ck_val :=
  match v with VL [VZ x; VB a; VB b] => Some (x, a, b) | _ => None end.
Definition ck_val_val (c : ck_val) : value := let '(x, a, b) := c in VL [VZ x; VB a; VB b].

Definition glue_cookie (k : string) (a o : list value) : option verdict :=
  if is k "ck.enc" then
    match a with
    | [VZ which; VZ v; VB x; VB y; c0v] =>
        match ck_val_of c0v with
        | Some c0 =>
            let ty := ck_types_of which in
            let e := ck_encode ty (v, x, y) in
            let d := ck_decode ty c0 e in
            let oracle := match o with
              | [VB enc; VZ ok; dv] =>
                  (* lengths a 16-bit length field cannot express are outside the property *)
                  if (Z.of_nat (length x) <? 65536) && (Z.of_nat (length y) <? 65536) then
                    match ck_val_of dv with
                    | Some dd => C14_cookie_ok (v, x, y) enc (zb ok) dd
                    | None => false end
                  else true
              | _ => false end in
            Some (functional [VB e; vbool (snd d); ck_val_val (fst d)] o oracle)
        | None => None end
    | _ => None end
  else if is k "ck.dec" then
    match a with
    | [VZ which; VB b; c0v] =>
        match ck_val_of c0v with
        | Some c0 =>
            let ty := ck_types_of which in
            let d := ck_decode ty c0 b in
            let re := if snd d then ck_encode ty (fst d) else [] in
            let d2 := ck_decode ty (0, [], []) re in
            (* decoding is total; what it returns, encoded and decoded again, is the same cookie *)
            let oracle := match o with
              | [VZ ok; dv; VB _; VZ ok2; dv2] => if zb ok then zb ok2 && value_eqb dv dv2 else true
              | _ => false end in
            Some (functional ([vbool (snd d); ck_val_val (fst d); VB re] ++
                              (if snd d then [vbool (snd d2); ck_val_val (fst d2)] else [vbool false; VL []]))%list o oracle)
        | None => None end
    | _ => None end
  else if is k "ck.crypt" then
    match a, o with
    | [VZ algo; VB s2c; VB c2s; VB key; VZ keyid; VB wrong],
      [VZ refused; VZ ok; VZ algo'; VB s2c'; VB c2s'; VZ id; VZ again; VZ reenc; VZ intact] =>
        (* AES-CMAC-SIV keys are 32 or 64 bytes.  One encoded cookie, decoded and decrypted from the
           same bytes under a wrong key, the right key and the right key again: the wrong key is
           refused, the right key gives the cookie back both times (the key id carried as uint16),
           the decoded value encodes to the bytes it came from, and those bytes are never modified *)
        let good := negb ((length key =? 32)%nat || (length key =? 64)%nat) ||
                    (zb refused || bl_eqb key wrong) && zb ok && (algo =? algo') && bl_eqb s2c s2c' && bl_eqb c2s c2s'
                    && (id =? u16 keyid) && zb again && zb reenc && zb intact in
        Some (relational good good)
    | _, _ => None end
  else if is k "dec.input" then
    (* no decoder of the project modifies the bytes it is given *)
    match a, o with
    | [VZ _; VB input; VB _], [VB after] => Some (functional [VB input] o (bl_eqb input after))
    | _, _ => None end
  else None.

(* ---------------- NTS extension fields ---------------- *)

Definition ext_val_val (e : ext_val) : value := let '(t, l, v) := e in VL [VZ t; VZ l; VB v].
Definition nts_pkt_val (p : nts_pkt) : value :=
  VL [ext_val_val (np_uid p); VL (map ext_val_val (np_cookies p));
      VL (map (fun c => VL [VZ (fst c); VZ (snd c)]) (np_placeholders p));
      (let '(t, l, n, c) := np_auth p in VL [VZ t; VZ l; VB n; VB c])].

Definition ext_val_of (v : value) : option ext_val :=
  match v with VL [VZ t; VZ l; VB x] => Some (t, l, x) | _ => None end.
Fixpoint ext_vals_of (l : list value) : option (list ext_val) :=
  match l with
  | [] => Some []
  | v :: r => match ext_val_of v, ext_vals_of r with Some x, Some xs => Some (x :: xs) | _, _ => None end
  end.
Fixpoint pairs_of (l : list value) : option (list (Z * Z)) :=
  match l with
  | [] => Some []
  | VL [VZ t; VZ n] :: r => match pairs_of r with Some xs => Some ((t, n) :: xs) | None => None end
  | _ => None
  end.
Definition nts_pkt_of (v : value) : option nts_pkt :=
  match v with
  | VL [u; VL cs; VL ps; VL [VZ t; VZ l; VB n; VB c]] =>
      match ext_val_of u, ext_vals_of cs, pairs_of ps with
      | Some u', Some cs', Some ps' =>
          Some {| np_uid := u'; np_cookies := cs'; np_placeholders := ps'; np_auth := (t, l, n, c) |}
      | _, _, _ => None end
  | _ => None
  end.

Definition field_len (v : list Z) : nat := (4 + pad4len (length v))%nat.
Definition sum_field_lens (l : list (list Z)) : nat := fold_right (fun v s => (field_len v + s)%nat) 0%nat l.

Fixpoint nts_dec_hist (p : nts_pkt) (bs : list value) : option (list value) :=
  match bs with
  | [] => Some []
  | VB b :: r => let d := nts_decode p b in
                 match nts_dec_hist (fst d) r with
                 | Some os => Some (VL [VZ (snd d); nts_pkt_val (fst d)] :: os)
                 | None => None end
  | _ => None
  end.

Fixpoint forallb2_eq (a b : list (list Z)) : bool :=
  match a, b with
  | [], [] => true
  | x :: a', y :: b' => zs_eqb x y && forallb2_eq a' b'
  | _, _ => false
  end.

Definition cookie_vals (l : list ext_val) : value := VL (map ext_val_val l).
Definition ext_value (e : ext_val) : list Z := snd e.

Definition glue_nts (k : string) (a o : list value) : option verdict :=
  if is k "nts.enc" then
    match a, o with
    | [VB hdr; VB tail; VB id; VL cs; VL ps; VB _; VB pt; VB tape; VL bodiesv; VZ structured],
      [VZ pan; VB enc; VZ derr; dv; VZ authok; VL afterv; VB truect; VL [VZ fcok; VB fc]] =>
        match getBs cs, getBs ps, getBs bodiesv with
        | Some cookies, Some phs, Some bodies =>
            let p := {| ni_id := id; ni_cookies := cookies; ni_placeholders := phs |} in
            let nonce := firstn 16 tape in
            (* the ciphertext is the AEAD's business: the harness seals the same plaintext over the
               bytes before the authenticator with an AEAD of its own *)
            let ct := truect in
            let authpos := (48 + field_len id + sum_field_lens cookies + sum_field_lens phs)%nat in
            let ctlen := (length pt + 16)%nat in
            let wire_len := (authpos + 8 + 16 + pad4len ctlen)%nat in
            let fits := (wire_len <=? 1024)%nat in
            let expected :=
              match nts_encode hdr tail p nonce ct with
              | Ok e => let d := nts_decode nts_pkt_empty e in
                        let '(_, _, n', c') := np_auth (fst d) in
                        (* accepted iff the authenticator is found where it is and carries the nonce
                           and the complete ciphertext (a packet cut at the size limit does not) *)
                        let found := match nts_auth_pos (length e) e 48 with
                                     | Some q => (q =? authpos)%nat && zs_eqb n' nonce && zs_eqb c' ct
                                     | None => false end in
                        let w := nts_auth_walk (length pt) pt 0 (np_cookies (fst d)) in
                        [VZ 0; VB e; VZ (snd d); nts_pkt_val (fst d);
                         vbool ((snd d =? 0) && found && (snd w =? 0));
                         (if snd d =? 0 then cookie_vals (if found then fst w else np_cookies (fst d)) else VL []);
                         VB truect;
                         match np_cookies (fst d) with
                         | [] => VL [VZ 0; VB []]
                         | c :: _ => VL [VZ 1; VB (ext_value c)] end]
              | _ => [VZ 1; VB []; VZ 0; VL []; VZ 0; VL []; VB []; VL [VZ 0; VB []]]
              end in
            let oracle :=
              if negb (length hdr =? 48)%nat then true
              else if (32 <=? length id)%nat && fits then
                (* the property speaks about packets that have a wire form: identifier of at
                   least 32 bytes, everything within the maximum packet length *)
                negb (zb pan) && (length truect =? ctlen)%nat &&
                match nts_pkt_of dv with
                | Some d => C14_nts_ok hdr p nonce ct enc derr d
                | None => false end &&
                (* FirstCookie is the first cookie that was encoded *)
                match cookies with
                | c0 :: _ => zb fcok && zs_eqb (firstn (length c0) fc) c0
                | [] => negb (zb fcok) end &&
                (* cookie fields inside the encrypted part come back as cookies, after the clear ones *)
                (if zb structured then
                   zb authok && match ext_vals_of afterv with
                                | Some after => C14_resp_cookies_ok (cookies ++ bodies)%list after
                                | None => false end
                 else true)
              else if negb (zb pan) && negb fits then
                (* a packet that did not fit was cut: it must not be accepted as if complete *)
                negb (zb authok) ||
                match nts_pkt_of dv with
                | Some d => let '(_, _, _, c') := np_auth d in zs_eqb c' truect
                | None => false end
              else true in
            Some (functional expected o oracle)
        | _, _, _ => None end
    | _, _ => None end
  else if is k "nts.redec" then
    match a, o with
    | [VB b; VB _; VB tape], [VZ derr; dv; VZ pan2; VB enc2; VZ derr2; dv2; VB truect] =>
        let d := nts_decode nts_pkt_empty b in
        let p := {| ni_id := ext_value (np_uid (fst d)); ni_cookies := map ext_value (np_cookies (fst d));
                    ni_placeholders := map (fun c => repeat 0 (Z.to_nat (snd c - 4))) (np_placeholders (fst d)) |} in
        let expected :=
          if negb (snd d =? 0) || (length b <? 48)%nat then [VZ (snd d); nts_pkt_val (fst d); VZ 0; VB []; VZ 0; VL []; VB []]
          else match nts_encode (firstn 48 b) [] p (firstn 16 tape) truect with
               | Ok e2 => let d2 := nts_decode nts_pkt_empty e2 in
                          [VZ 0; nts_pkt_val (fst d); VZ 0; VB e2; VZ (snd d2); nts_pkt_val (fst d2); VB truect]
               | _ => [VZ 0; nts_pkt_val (fst d); VZ 1; VB []; VZ 0; VL []; VB []]
               end in
        (* idempotence, on the implementation's own observations: what the decoder returned, encoded
           (if it fits) and decoded again, is the same identifier, cookies and placeholders *)
        let oracle :=
          (derr <=? 5) &&
          if derr =? 0 then
            match nts_pkt_of dv with
            | Some d1 =>
                let id := ext_value (np_uid d1) in
                let cookies := map ext_value (np_cookies d1) in
                let phs := map (fun c => repeat 0 (Z.to_nat (snd c - 4))) (np_placeholders d1) in
                let wl := (48 + field_len id + sum_field_lens cookies + sum_field_lens phs + 40)%nat in
                if (wl <=? 1024)%nat then
                  negb (zb pan2) && (derr2 =? 0) &&
                  match nts_pkt_of dv2 with
                  | Some d2 => field_ok ext_unique_id id (np_uid d2) && fields_ok ext_cookie cookies (np_cookies d2)
                               && placeholders_ok phs (np_placeholders d2)
                  | None => false end
                else true
            | None => false end
          else true in
        Some (functional expected o oracle)
    | _, _ => None end
  else if is k "nts.fmt" then
    match a, o with
    | [VB prefix; VB nonce; VB ct; VZ wf], [VB b; VZ derr; dv] =>
        let e := (prefix ++ auth_field nonce ct)%list in
        let d := nts_decode nts_pkt_empty e in
        (* a nonce whose length is a multiple of 4 (the project's own: 16) comes back with its
           ciphertext; for other lengths the decoder misreads the ciphertext (theorem
           C14_nts_nonce_padding_refuted): no claim, the model says what happens *)
        let oracle :=
          if zb wf && (length nonce mod 4 =? 0)%nat && (28 <=? 8 + length nonce + pad4len (length ct))%nat
             && (length e <=? 1024)%nat then
            (derr =? 0) &&
            match nts_pkt_of dv with
            | Some dd => let '(t, _, n', c') := np_auth dd in (t =? ext_authenticator) && zs_eqb n' nonce && zs_eqb c' ct
            | None => false end
          else true in
        Some (functional [VB e; VZ (snd d); nts_pkt_val (fst d)] o oracle)
    | _, _ => None end
  else if is k "nts.resp" then
    match a, o with
    | [VB hdr; VB tail; VB uid; VL cs; VB _; VB tape], [VZ pan; VB enc; VZ derr; dv; VZ aerr; VL afterv; VL storedv] =>
        match getBs cs with
        | Some cookies =>
            let panic_row := [VZ 1; VB []; VZ 0; VL []; VZ 0; VL []; VL []] in
            let nonce := firstn 16 tape in
            let expected :=
              match nts_response_plain cookies (length uid) with
              | Ok plain =>
                  let p := {| ni_id := uid; ni_cookies := []; ni_placeholders := [] |} in
                  let authpos := (48 + field_len uid)%nat in
                  let ctlen := (length plain + 16)%nat in
                  let ct := zpad ctlen (skipn (authpos + 24) enc) in
                  let fits := (authpos + 8 + 16 + pad4len ctlen <=? 1024)%nat in
                  match nts_encode hdr tail p nonce ct with
                  | Ok e =>
                      let d := nts_decode nts_pkt_empty e in
                      if fits then
                        let idok := zs_eqb (ext_value (np_uid (fst d))) uid in
                        let w := nts_auth_walk (length plain) plain 0 (np_cookies (fst d)) in
                        let ae := if negb (snd d =? 0) then 9 else if negb idok then 1
                                  else if negb (snd w =? 0) then 2 else 0 in
                        let after := if snd d =? 0 then (if idok then fst w else np_cookies (fst d)) else [] in
                        (* Fetcher.StoreCookie (fetcher empty before): cookies longer than MaxCookieLen are
                           skipped, and so is everything beyond a pool of MaxStoredCookies = 8 *)
                        let stored := if ae =? 0 then firstn 8 (filter (fun c => (length c <=? 896)%nat) (map ext_value after)) else [] in
                        [VZ 0; VB e; VZ (snd d); nts_pkt_val (fst d); VZ ae; cookie_vals after; VL (map VB stored)]
                      else [VZ 0; VB e; VZ (snd d); nts_pkt_val (fst d); VZ aerr; VL afterv; VL storedv]
                  | _ => panic_row
                  end
              | _ => panic_row
              end in
            (* what a server issues: >= 1 cookies of one length (a multiple of 4, at least 24 bytes),
               answering a request id of >= 32 bytes (a multiple of 4): the first min(n, what fits)
               cookies come back as cookies and are stored *)
            let oracle :=
              match cookies with
              | c0 :: _ =>
                  let l := length c0 in
                  let maxfit := ((1024 - 48 - (4 + length uid) - 40) / (4 + l))%nat in
                  if (32 <=? length uid)%nat && (length uid mod 4 =? 0)%nat && (l mod 4 =? 0)%nat && (24 <=? l)%nat
                     && (1 <=? maxfit)%nat && (l <=? 896)%nat && forallb (fun c => (length c =? l)%nat) cookies then
                    let sent := firstn (Nat.min (length cookies) maxfit) cookies in
                    negb (zb pan) && (derr =? 0) && (aerr =? 0) &&
                    (* the packet the constructor built is complete: nothing was cut at the size limit *)
                    (length enc <=? 1024)%nat &&
                    match nts_pkt_of dv with
                    | Some dd => let '(_, alen, _, _) := np_auth dd in
                                 Z.of_nat (length enc) =? 48 + snd (fst (np_uid dd)) + sum_lens (np_cookies dd)
                                                         + sum_plens (np_placeholders dd) + alen
                    | None => false end &&
                    match ext_vals_of afterv, getBs storedv with
                    | Some after, Some stored =>
                        C14_resp_cookies_ok sent after &&
                        (* the packet round trip is about `after`; the pool keeps at most eight of them (C11) *)
                        (if (l <=? 896)%nat then (length stored =? Nat.min 8 (length sent))%nat && forallb2_eq stored (firstn 8 sent) else true)
                    | _, _ => false end
                  else true
              | [] => true
              end in
            Some (functional expected o oracle)
        | None => None end
    | _, _ => None end
  else if is k "nts.req" then
    match a, o with
    | [VB hdr; VB tail; VL heldv; VB _; VB tape], [VZ pan; VB enc; VZ derr; dv; VZ authok; VL afterv; VB idv] =>
        match getBs heldv with
        | Some held =>
            let id := firstn 32 tape in
            let nonce := firstn 16 (skipn 32 tape) in
            let panic_row := [VZ 1; VB []; VZ 0; VL []; VZ 0; VL []; VB []] in
            let expected :=
              match nts_request_in id held with
              | Some p =>
                  let authpos := (48 + field_len id + sum_field_lens (ni_cookies p) + sum_field_lens (ni_placeholders p))%nat in
                  let ct := zpad 16 (skipn (authpos + 24) enc) in
                  let fits := (authpos + 8 + 16 + 16 <=? 1024)%nat in
                  match nts_encode hdr tail p nonce ct with
                  | Ok e => let d := nts_decode nts_pkt_empty e in
                            if fits then [VZ 0; VB e; VZ (snd d); nts_pkt_val (fst d); vbool (snd d =? 0);
                                          (if snd d =? 0 then cookie_vals (np_cookies (fst d)) else VL []); VB id]
                            else [VZ 0; VB e; VZ (snd d); nts_pkt_val (fst d); VZ authok; VL afterv; VB id]
                  | _ => panic_row
                  end
              | None => panic_row
              end in
            (* a client holding 1..8 cookies of a length the fetcher accepts (<= 896): the request
               NewRequestPacket builds is complete (not cut at the size limit), decodes to the
               identifier drawn, the first held cookie and at most 8 - held placeholders of the
               cookie's length, and is accepted under the key *)
            let oracle :=
              match held with
              | c0 :: _ =>
                  if (length held <=? 8)%nat && (length c0 <=? 896)%nat then
                    negb (zb pan) && (derr =? 0) && zb authok && zs_eqb idv id && (length enc <=? 1024)%nat &&
                    match nts_pkt_of dv with
                    | Some d =>
                        let k := length (np_placeholders d) in
                        (k <=? 8 - length held)%nat &&
                        C14_nts_ok hdr {| ni_id := id; ni_cookies := [c0]; ni_placeholders := repeat (repeat 0 (length c0)) k |}
                                   nonce (zpad 16 (skipn (length enc - 16) enc)) enc derr d
                    | None => false end
                  else true
              | [] => true
              end in
            Some (functional expected o oracle)
        | None => None end
    | _, _ => None end
  else if is k "nts.pos" then
    match a, o with
    | [VB prefix; VB _; VB pt; VB nonce; VL bodiesv; VZ wf; VZ structured], [VB b; VZ derr; dv; VZ aerr; VL afterv] =>
        match getBs bodiesv with
        | Some bodies =>
            let ctlen := (length pt + 16)%nat in
            let ct := zpad ctlen (skipn (length prefix + 24) b) in
            let e := (prefix ++ auth_field nonce ct)%list in
            let d := nts_decode nts_pkt_empty e in
            let '(_, _, n', c') := np_auth (fst d) in
            (* accepted iff the authenticator was found where it is: the associated data are
               exactly the bytes before it *)
            let found := match nts_auth_pos (length e) e 48 with
                         | Some q => (q =? length prefix)%nat && zs_eqb n' nonce && zs_eqb c' ct
                         | None => false end in
            let w := nts_auth_walk (length pt) pt 0 (np_cookies (fst d)) in
            let ae := if negb (snd d =? 0) then 9 else if negb found then 4 else if negb (snd w =? 0) then 2 else 0 in
            let after := if snd d =? 0 then (if found then fst w else np_cookies (fst d)) else [] in
            let oracle :=
              if zb wf then
                (derr =? 0) && (if zb structured then aerr =? 0 else (aerr =? 0) || (aerr =? 2)) &&
                match nts_pkt_of dv, ext_vals_of afterv with
                | Some dd, Some aft =>
                    let nclear := length (np_cookies dd) in
                    list_eqb value_eqb (map ext_val_val (firstn nclear aft)) (map ext_val_val (np_cookies dd)) &&
                    (if zb structured then C14_resp_cookies_ok bodies (skipn nclear aft) else true)
                | _, _ => false end
              else true in
            Some (functional [VB e; VZ (snd d); nts_pkt_val (fst d); VZ ae; cookie_vals after] o oracle)
        | None => None end
    | _, _ => None end
  else if is k "nts.dec" then
    match a with
    | [VL bs] => match nts_dec_hist nts_pkt_empty bs with
                 | Some os =>
                     (* the decoder is total: every input ends in success or one of its five error
                        classes (idempotence of its output: kind nts.redec) *)
                     let oracle := match o with
                       | [VL obs] => forallb (fun ob => match ob with VL [VZ e; _] => (0 <=? e) && (e <=? 5) | _ => false end) obs
                       | _ => false end in
                     Some (functional [VL os] o oracle)
                 | None => None end
    | _ => None end
  else None.

Definition glue_C14 (k : string) (a o : list value) : option verdict :=
  match glue_ntp k a o with Some v => Some v | None =>
  match glue_csptp k a o with Some v => Some v | None =>
  match glue_ntske k a o with Some v => Some v | None =>
  match glue_cookie k a o with Some v => Some v | None => glue_nts k a o end end end end.

Definition run_case (k : string) (a o : list value) : verdict :=
  first_some [glue_C14] k a o.
