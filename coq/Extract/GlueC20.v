(* Dispatcher of C20: histories of FetchData/StoreCookie calls on one real Fetcher against
   scripted TLS peers (ke.hist) or, with QUIC.Enabled, against scripted QUIC/SCION peers
   (ke.quic: same case format, compared with the model of the QUIC branch), NTP requests of the
   real client after a key exchange (ke.target) and exchanges with the project's own
   key-exchange server (ke.own). *)
From Coq Require Import ZArith List String Bool.
From ST Require Import Base.Ints Base.Value Model.Ntske Model.NtskeOracle Model.NtskeRun Extract.GlueBase.
Import ListNotations.
Open Scope string_scope.
Open Scope Z_scope.

(* ---------- decoding ---------- *)

Fixpoint getBs (l : list value) : option (list bytes) :=
  match l with
  | [] => Some []
  | VB b :: r => match getBs r with Some bs => Some (b :: bs) | None => None end
  | _ => None
  end.

Definition dec_rec (v : value) : option krec :=
  match v with
  | VL [VZ t; VZ c; VB b] => Some {| r_type := t; r_crit := negb (c =? 0); r_body := b |}
  | _ => None
  end.

Fixpoint dec_recs (l : list value) : option (list krec) :=
  match l with
  | [] => Some []
  | v :: r => match dec_rec v, dec_recs r with Some x, Some xs => Some (x :: xs) | _, _ => None end
  end.

(* an operation and, for a FetchData, the bytes the harness says it sent *)
Definition dec_op (v : value) : option (op * bytes) :=
  match v with
  | VL [VZ 0; VZ mode; VL alpn; VL recs; VB tail; VZ cut; VB host; VB sent; VL _] =>
    match getBs alpn, dec_recs recs with
    | Some al, Some rs =>
      Some (OpFetch {| sc_mode := mode; sc_alpn := al; sc_recs := rs; sc_tail := tail;
                       sc_cut := Z.to_nat cut; sc_host := host |}, sent)
    | _, _ => None
    end
  | VL [VZ 1; VB c] => Some (OpStore c, [])
  | _ => None
  end.

Fixpoint dec_ops (l : list value) : option (list (op * bytes)) :=
  match l with
  | [] => Some []
  | v :: r => match dec_op v, dec_ops r with Some x, Some xs => Some (x :: xs) | _, _ => None end
  end.

Definition dec_obs (v : value) : option fobs :=
  match v with
  | VL [VZ conns; VZ hs; VB neg; VB pc2s; VB ps2c; VZ err; VB c2s; VB s2c; VB server; VZ port; VZ algo; VL cookies] =>
    match getBs cookies with
    | Some cs =>
      Some {| o_conns := conns; o_hs_ok := negb (hs =? 0); o_negotiated := neg; o_peer_c2s := pc2s; o_peer_s2c := ps2c;
              o_err := err;
              o_data := {| k_c2s := c2s; k_s2c := s2c; k_server := server; k_port := port; k_cookies := cs; k_algo := algo |} |}
    | None => None
    end
  | _ => None
  end.

Fixpoint dec_obss (l : list value) : option (list fobs) :=
  match l with
  | [] => Some []
  | v :: r => match dec_obs v, dec_obss r with Some x, Some xs => Some (x :: xs) | _, _ => None end
  end.

(* ---------- encoding of what the model predicts ---------- *)

(* the harness reports every I/O error of the record reader as one class *)
Definition cls (e : Z) : Z := if e =? e_unexp then e_eof else e.

Definition enc_obs (o : fobs) : value :=
  let d := o_data o in
  VL [VZ (o_conns o); vbool (o_hs_ok o); VB (o_negotiated o); VB (o_peer_c2s o); VB (o_peer_s2c o);
      VZ (cls (o_err o)); VB (k_c2s d); VB (k_s2c d); VB (k_server d); VZ (k_port d); VZ (k_algo d);
      VL (map VB (k_cookies d))].

(* the exporter of the session as the peer reported it: answers only the two RFC 8915 queries *)
Definition exporter_of (o : fobs) : exporter :=
  fun label ctx n =>
    if bytes_eqb label rfc_label && (n =? 32) then
      if bytes_eqb ctx [0; 0; 0; 15; 0] then Some (o_peer_c2s o)
      else if bytes_eqb ctx [0; 0; 0; 15; 1] then Some (o_peer_s2c o)
      else None
    else None.

Definition no_exporter : exporter := fun _ _ _ => None.

(* pair every FetchData with the exporter answers recorded for it *)
Fixpoint mops_of (ops : list (op * bytes)) (obs : list fobs) : list mop :=
  match ops with
  | [] => []
  | (OpStore c, _) :: r => MStore c :: mops_of r obs
  | (OpFetch sc, _) :: r =>
    match obs with
    | o :: obs' => MFetch sc (exporter_of o) :: mops_of r obs'
    | [] => MFetch sc no_exporter :: mops_of r []
    end
  end.

(* the bytes the harness sent are the encoding of the script *)
Fixpoint sent_ok (ops : list (op * bytes)) : bool :=
  match ops with
  | [] => true
  | (OpFetch sc, sent) :: r => bytes_eqb sent (script_stream sc) && sent_ok r
  | _ :: r => sent_ok r
  end.

(* quic: the Fetcher of the history has QUIC.Enabled *)
Definition run_hist_with (oracle : bool -> list op -> list fobs -> bool) (quic : bool) (a o : list value) : option verdict :=
  match a, o with
  | [VL ops], [VL obs] =>
    match dec_ops ops, dec_obss obs with
    | Some ops', Some obs' =>
      let expected := map enc_obs (model_run quic kzero (mops_of ops' obs')) in
      let v := functional [VL expected] o (oracle quic (map fst ops') obs') in
      Some (if sent_ok ops' then v
            else {| v_known := true; v_agree := false; v_oracle := v_oracle v; v_expected := [VZ (-1)] |})
    | _, _ => None
    end
  | _, _ => None
  end.

Definition run_hist := run_hist_with C20_ok.

(* ke.bodylen: fixed-size records with bodies of other lengths than 2; the model follows the code
   (two bytes are read), the oracle reads the message by the record framing of RFC 8915 *)
Definition run_bodylen (a o : list value) : option verdict :=
  match a with
  | [ops; VZ q] => run_hist_with C20_framed_ok (negb (q =? 0)) [ops] o
  | _ => None
  end.

(* ---------- ke.target: where the client's NTP request goes after a key exchange ---------- *)

Definition dummy_exporter : exporter := fun _ ctx _ => Some ctx.

Definition sink_index (hostA hostB : bytes) (port2 : Z) (server : bytes) (port : Z) : Z :=
  let si := if bytes_eqb server hostA then 0 else if bytes_eqb server hostB then 1 else -100 in
  let pi := if port =? 123 then 0 else if port =? port2 then 2 else -100 in
  if (si + pi) <? 0 then -1 else si + pi.

Fixpoint run_target (hostA hostB : bytes) (port2 : Z) (st : kdata) (steps obs : list value)
  : option (list value * bool) :=
  match steps, obs with
  | [], [] => Some ([], true)
  | VL [VZ s; VZ p; VL recs] :: steps', VL [VZ conns; VZ sink; VZ same] :: obs' =>
    match dec_recs recs with
    | Some rs =>
      let sc := {| sc_mode := 0; sc_alpn := [ntske1]; sc_recs := rs; sc_tail := [];
                   sc_cut := length (wire rs); sc_host := hostA |} in
      let '(st', o) := model_fetch false dummy_exporter st sc in
      let d := o_data o in
      let exp_sink := if o_err o =? 0 then sink_index hostA hostB port2 (k_server d) (k_port d) else -1 in
      (* property: the server named (else the key-exchange host), the port named (else 123),
         after a new exchange, carrying the cookie just issued *)
      let want := (if s =? 2 then 1 else 0) + (if p =? 2 then 2 else 0) in
      let ok := (conns =? 1) && (sink =? want) && (same =? 1) in
      match run_target hostA hostB port2 st' steps' obs' with
      | Some (e, okr) => Some (VL [VZ (o_conns o); VZ exp_sink; VZ 1] :: e, ok && okr)
      | None => None
      end
    | None => None
    end
  | _, _ => None
  end.

Definition glue_target (a o : list value) : option verdict :=
  match a, o with
  | [VB hostA; VB hostB; VZ port2; VL steps], [VL obs] =>
    match run_target hostA hostB port2 kzero steps obs with
    | Some (e, ok) => Some (functional [VL e] o ok)
    | None => None
    end
  | _, _ => None
  end.

(* ---------- ke.starget: the SCION client (own AS, empty path) after a key exchange over TLS or
   QUIC: underlay destination of the datagram and destination of its SCION/UDP header ---------- *)

Fixpoint run_starget (quic : bool) (hostA : bytes) (st : kdata) (steps obs : list value)
  : option (list value * bool) :=
  match steps, obs with
  | [], [] => Some ([], true)
  | VL [VZ _; VZ _; VL recs] :: steps', VL [VZ conns; VB uh; VZ up; VB ih; VZ ip; VZ same] :: obs' =>
    match dec_recs recs with
    | Some rs =>
      let sc := {| sc_mode := 0; sc_alpn := [ntske1]; sc_recs := rs; sc_tail := [];
                   sc_cut := length (wire rs); sc_host := hostA |} in
      let '(st', o) := model_fetch quic dummy_exporter st sc in
      let d := o_data o in
      let e := if o_err o =? 0
               then VL [VZ (o_conns o); VB (k_server d); VZ (k_port d); VB (k_server d); VZ (k_port d); VZ 1]
               else VL [VZ (o_conns o); VB []; VZ (-1); VB []; VZ (-1); VZ 0] in
      (* property: a new exchange; the datagram reaches the server and port named (else the
         key-exchange host, the standard port of the transport), its SCION/UDP header says the
         same, and it carries the cookie just issued *)
      let a := scanned rs (length (wire rs)) in
      let wh := opt_bytes (a_server a) hostA in
      let wp := opt_z (a_port a) (std_ntp_port quic) in
      let ok := (conns =? 1) && bytes_eqb uh wh && (up =? wp) && bytes_eqb ih wh && (ip =? wp) && (same =? 1) in
      match run_starget quic hostA st' steps' obs' with
      | Some (es, okr) => Some (e :: es, ok && okr)
      | None => None
      end
    | None => None
    end
  | _, _ => None
  end.

Definition glue_starget (a o : list value) : option verdict :=
  match a, o with
  | [VZ q; VB hostA; VB _; VL steps], [VL obs] =>
    match run_starget (negb (q =? 0)) hostA kzero steps obs with
    | Some (e, ok) => Some (functional [VL e] o ok)
    | None => None
    end
  | _, _ => None
  end.

(* ---------- ke.overlap: two or three FetchData calls on one Fetcher that overlap in time; the
   peer holds the first connection in the middle of its message until the other calls have
   been issued.  args: the scripts in the order in which connections reach the peer, where the
   first message pauses, the number of calls; outs: the calls' results, what the peer saw of
   each connection (arrival order), the fetcher's data afterwards.  The model serialises the
   calls (lock); which call gets the lock first is free, so every order is tried ---------- *)

Record callobs := { c_err : Z; c_data : kdata }.
Record connobs := { cn_hs : bool; cn_neg : bytes; cn_c2s : bytes; cn_s2c : bytes }.

Definition dec_data (l : list value) : option kdata :=
  match l with
  | [VB c2s; VB s2c; VB server; VZ port; VZ algo; VL cookies] =>
    match getBs cookies with
    | Some cs => Some {| k_c2s := c2s; k_s2c := s2c; k_server := server; k_port := port; k_cookies := cs; k_algo := algo |}
    | None => None
    end
  | _ => None
  end.

Definition dec_call (v : value) : option callobs :=
  match v with
  | VL (VZ e :: rest) => match dec_data rest with Some d => Some {| c_err := e; c_data := d |} | None => None end
  | _ => None
  end.

Definition dec_conn (v : value) : option connobs :=
  match v with
  | VL [VZ hs; VB neg; VB c2s; VB s2c] => Some {| cn_hs := negb (hs =? 0); cn_neg := neg; cn_c2s := c2s; cn_s2c := s2c |}
  | _ => None
  end.

Fixpoint dec_all {A} (f : value -> option A) (l : list value) : option (list A) :=
  match l with
  | [] => Some []
  | v :: r => match f v, dec_all f r with Some x, Some xs => Some (x :: xs) | _, _ => None end
  end.

Definition dummy_script : script :=
  {| sc_mode := 1; sc_alpn := []; sc_recs := []; sc_tail := []; sc_cut := 0; sc_host := [] |}.

Definition mk_fobs (conns : Z) (cn : option connobs) (c : callobs) : fobs :=
  match cn with
  | Some x => {| o_conns := conns; o_hs_ok := cn_hs x; o_negotiated := cn_neg x; o_peer_c2s := cn_c2s x;
                 o_peer_s2c := cn_s2c x; o_err := c_err c; o_data := c_data c |}
  | None => {| o_conns := conns; o_hs_ok := false; o_negotiated := []; o_peer_c2s := []; o_peer_s2c := [];
               o_err := c_err c; o_data := c_data c |}
  end.

(* the calls in one order: a call made while the previous result left cookies is taken to be
   answered from the pool, any other call to have caused the next connection *)
Fixpoint attribute (pool_left : bool) (calls : list callobs) (scs : list script) (conns : list connobs)
  : option (list op * list fobs) :=
  match calls with
  | [] => match conns with [] => Some ([], []) | _ => None end
  | c :: rest =>
    let next_pool := if c_err c =? 0 then match tl (k_cookies (c_data c)) with [] => false | _ => true end else false in
    if pool_left then
      match attribute next_pool rest scs conns with
      | Some (ops, obs) => Some (OpFetch dummy_script :: ops, mk_fobs 0 None c :: obs)
      | None => None
      end
    else
      match scs with
      | [] => None
      | sc :: scs' =>
        match conns with
        | cn :: conns' =>
          match attribute next_pool rest scs' conns' with
          | Some (ops, obs) => Some (OpFetch sc :: ops, mk_fobs 1 (Some cn) c :: obs)
          | None => None
          end
        | [] =>
          match attribute next_pool rest scs' [] with
          | Some (ops, obs) => Some (OpFetch sc :: ops, mk_fobs 0 None c :: obs)
          | None => None
          end
        end
      end
  end.

Fixpoint insert_all {A} (x : A) (l : list A) : list (list A) :=
  match l with
  | [] => [[x]]
  | y :: r => (x :: l) :: map (cons y) (insert_all x r)
  end.

Fixpoint perms {A} (l : list A) : list (list A) :=
  match l with
  | [] => [[]]
  | x :: r => flat_map (insert_all x) (perms r)
  end.

Fixpoint somes {A} (l : list (option A)) : list A :=
  match l with [] => [] | Some x :: r => x :: somes r | None :: r => somes r end.

Definition enc_data (d : kdata) : value :=
  VL [VB (k_c2s d); VB (k_s2c d); VB (k_server d); VZ (k_port d); VZ (k_algo d); VL (map VB (k_cookies d))].

(* does the model, run over the calls in this order, produce these results and this final state? *)
Definition cand_model (final : kdata) (c : list op * list fobs) : bool :=
  let ms := mops_of (map (fun o => (o, [])) (fst c)) (snd c) in
  values_eqb (map enc_obs (model_run false kzero ms)) (map enc_obs (snd c))
  && value_eqb (enc_data (model_final false kzero ms)) (enc_data final).

Definition glue_overlap (a o : list value) : option verdict :=
  match a, o with
  | [VL ops; VZ _; VZ _], [VL calls; VL conns; VL final] =>
    match dec_ops ops, dec_all dec_call calls, dec_all dec_conn conns, dec_data final with
    | Some ops', Some calls', Some conns', Some final' =>
      let scs := flat_map (fun x => match fst x with OpFetch sc => [sc] | OpStore _ => [] end) ops' in
      let cands := somes (map (fun p => attribute false p scs conns') (perms calls')) in
      Some (relational (existsb (cand_model final') cands) (C20_overlap_ok false cands final'))
    | _, _, _, _ => None
    end
  | _, _ => None
  end.

(* ---------- ke.own: the project's own key-exchange server ---------- *)

(* quic: ke.ownq, the QUIC/SCION key-exchange server (StartNTSKEServerSCION) and a Fetcher with
   QUIC.Enabled *)
Definition glue_own (quic : bool) (a o : list value) : option verdict :=
  match a, o with
  | [VB ip; VZ port], [VZ cls'; VB server; VZ oport; VZ algo; VZ n; VZ distinct; VZ keys_ok; VZ measured] =>
    let p := {| p_up := true; p_alpn := [alpn_ntske]; p_host := ip;
                p_stream := server_msg (fun i => [Z.of_nat i]) ip port |} in
    let '(d, e) := exchange_keys_of quic dummy_exporter kzero p in
    let expected := [VZ (cls e); VB (k_server d); VZ (k_port d); VZ (k_algo d); VZ (Z.of_nat (length (k_cookies d))); VZ 1; VZ 1; VZ 1] in
    let ok := (cls' =? 0) && bytes_eqb server ip && (oport =? port) && (algo =? 15) && (1 <=? n)
              && (distinct =? 1) && (keys_ok =? 1) && (measured =? 1) in
    Some (functional expected o ok)
  | _, _ => None
  end.

Definition glue_C20 (k : string) (a o : list value) : option verdict :=
  if is k "ke.hist" then
    match run_hist false a o with Some v => Some v | None => Some (relational false true) end
  else if is k "ke.target" then
    match glue_target a o with Some v => Some v | None => Some (relational false true) end
  else if is k "ke.starget" then
    match glue_starget a o with Some v => Some v | None => Some (relational false true) end
  else if is k "ke.bodylen" then
    match run_bodylen a o with Some v => Some v | None => Some (relational false true) end
  else if is k "ke.overlap" then
    match glue_overlap a o with Some v => Some v | None => Some (relational false true) end
  else if is k "ke.own" then
    match glue_own false a o with Some v => Some v | None => Some (relational false true) end
  else if is k "ke.ownq" then
    match glue_own true a o with Some v => Some v | None => Some (relational false true) end
  else if is k "ke.quic" then
    match run_hist true a o with Some v => Some v | None => Some (relational false true) end
  else None.

Definition run_case (k : string) (a o : list value) : verdict := first_some [glue_C20] k a o.
