(* Dispatcher from case kinds (strings) to model functions and the property
   oracle of C09.  Everything the OCaml runner of this property executes goes
   through run_case. *)
From Coq Require Import ZArith List String Bool.
From ST Require Import Base.Ints Base.Value Model.ServerDecision Extract.GlueBase.
Import ListNotations.
Open Scope string_scope.
Open Scope Z_scope.

Definition zt64 : time64 := {| t64_sec := 0; t64_frac := 0 |}.

(* The environment of one datagram, rebuilt from what was observed: the stamps
   and the NTS extension bytes are taken from the observed reply (the model is
   an acceptance predicate in them), everything else must then match exactly. *)
Definition env_from_obs (ntsok : bool) (payload r : list Z) (rev : option (Z * list Z)) : env :=
  match decode_packet payload, decode_packet r with
  | Some req, Some rp =>
      let hit := negb (time64_eqb (origin_time rp) (transmit_time req)) in
      {| e_nts_ok := ntsok; e_nts_ext := skipn 48 r; e_nts_cookie_added := true;
         e_rx := receive_time rp; e_tx := reference_time rp;
         e_store_hit := if hit then Some (transmit_time rp) else None;
         e_spao_fail := false; e_path_rev := rev |}
  | _, _ =>
      {| e_nts_ok := ntsok; e_nts_ext := []; e_nts_cookie_added := true;
         e_rx := zt64; e_tx := zt64; e_store_hit := None; e_spao_fail := false; e_path_rev := rev |}
  end.

(* replies as observed: [[receiver from bytes] ...]; from = 1: the datagram came from the
   address and port the request was sent to *)
Fixpoint ip_replies_of (l : list value) : option (list (Z * list Z)) :=
  match l with
  | [] => Some []
  | VL [VZ rcv; VZ _; VB r] :: t =>
      match ip_replies_of t with Some rs => Some ((rcv, r) :: rs) | None => None end
  | _ => None
  end.

(* "reply source = request destination", for IP and SCION observations alike (second field) *)
Definition from_ok (l : list value) : bool :=
  forallb (fun v => match v with VL (_ :: VZ f :: _) => negb (f =? 0) | _ => false end) l.

Definition ip_agree (sender : Z) (payload : list Z) (ntsok : bool) (replies : list (Z * list Z)) : bool :=
  match replies with
  | [] => match ip_decision payload (env_from_obs ntsok payload [] None) with Reply _ => false | _ => true end
  | [(rcv, r)] =>
      match ip_decision payload (env_from_obs ntsok payload r None) with
      | Reply out => (rcv =? sender) && list_eqb out r
      | _ => false
      end
  | _ => false
  end.

(* What an observation says about the NTS side of a payload: f = 2*label + computed.
   label (0 no, 1 yes, 2 undecided) is what the harness knows by construction: it built the
   request with a real cookie under a valid key and the right C2S key and left it intact
   (yes), or it damaged a protected part / used a wrong or expired key / sent bytes that
   carry no cookie of this server (no).  computed is the verdict of the six exported calls
   the listeners make, recomputed by the harness.  The property oracle judges by the label,
   so NTS code that rejects intact requests (or accepts damaged ones) is a violation even
   though listener and harness would agree with each other; the model takes computed as its
   NTS input; and the two must agree. *)
Definition nts_label (f : Z) : Z := f / 2.
Definition nts_computed (f : Z) : bool := Z.odd f.
Definition nts_for_oracle (f : Z) : bool := if nts_label f =? 2 then nts_computed f else nts_label f =? 1.
Definition nts_consistent (f : Z) : bool := (nts_label f =? 2) || Bool.eqb (nts_label f =? 1) (nts_computed f).

(* one step of an IP history, as observed:
   [sender payload ntsok [replies before the sentinel's] sentinel [replies to the sentinel]]
   Two exchanges: the probe and the sentinel (a plain well-formed 48-byte request from the same
   socket).  The oracle is the history oracle of the property over both; a sentinel that goes
   unanswered is a well-formed request without a reply, i.e. a violation, whatever the probe
   was (for instance a valid NTS request after which the listener stops serving plain ones). *)
Definition mk_obs (sender : Z) (payload : list Z) (ntsok : bool) (reps : list (Z * list Z)) : ip_obs :=
  {| o_src := sender; o_payload := payload; o_nts := ntsok; o_replies := reps |}.

Definition ip_step_verdict (v : value) : option (bool * bool) :=
  match v with
  | VL [VZ sender; VB payload; VZ nts; VL reps; VB sentinel; VL sreps] =>
      match ip_replies_of reps, ip_replies_of sreps with
      | Some reps', Some sreps' =>
          Some (ip_agree sender payload (nts_computed nts) reps' && ip_agree sender sentinel false sreps',
                nts_consistent nts && from_ok reps && from_ok sreps &&
                C09_hist_ok [mk_obs sender payload (nts_for_oracle nts) reps'; mk_obs sender sentinel false sreps'] &&
                C09_pairs_ok payload reps' && C09_pairs_ok sentinel sreps')
      | _, _ => None
      end
  | _ => None
  end.

(* a burst: several datagrams sent back to back from one socket, then the sentinel;
   the replies come back in the order of the requests (one listener goroutine, one
   receiving socket), so they are matched first to first (oracle: C09_burst_ok of the model file) *)
Fixpoint burst_of (l : list value) : option (list (list Z * Z)) :=
  match l with
  | [] => Some []
  | VL [VB p; VZ n] :: t =>
      match burst_of t with Some ps => Some ((p, n) :: ps) | None => None end
  | _ => None
  end.

Fixpoint burst_agree (sender : Z) (ps : list (list Z * bool)) (reps : list (Z * list Z)) : bool :=
  match ps with
  | [] => match reps with [] => true | _ => false end
  | (p, n) :: ps' =>
      match ip_decision p (env_from_obs n p [] None) with
      | Reply _ =>
          match reps with
          | r :: reps' => ip_agree sender p n [r] && burst_agree sender ps' reps'
          | [] => false
          end
      | _ => burst_agree sender ps' reps
      end
  end.

Definition ip_burst_verdict (v : value) : option (bool * bool) :=
  match v with
  | VL [VZ sender; VL ps; VL reps; VB sentinel; VL sreps] =>
      match burst_of ps, ip_replies_of reps, ip_replies_of sreps with
      | Some ps, Some reps', Some sreps' =>
          let fromok := from_ok reps && from_ok sreps in
          let reps := reps' in let sreps := sreps' in
          Some (burst_agree sender (map (fun pn => (fst pn, nts_computed (snd pn))) ps) reps &&
                ip_agree sender sentinel false sreps,
                forallb (fun pn => nts_consistent (snd pn)) ps &&
                fromok &&
                C09_burst_ok sender (map (fun pn => (fst pn, nts_for_oracle (snd pn))) ps) reps &&
                C09_burst_pairs_ok (map (fun pn => (fst pn, nts_for_oracle (snd pn))) ps) reps &&
                C09_hist_ok [mk_obs sender sentinel false sreps] && C09_pairs_ok sentinel sreps)
      | _, _, _ => None
      end
  | _ => None
  end.

Definition ip_any_step_verdict (v : value) : option (bool * bool) :=
  match v with
  | VL [_; VL _; _; _; _] => ip_burst_verdict v
  | _ => ip_step_verdict v
  end.

Fixpoint steps_verdict (f : value -> option (bool * bool)) (l : list value) : option (bool * bool) :=
  match l with
  | [] => Some (true, true)
  | v :: t =>
      match f v, steps_verdict f t with
      | Some (a1, o1), Some (a2, o2) => Some (a1 && a2, o1 && o2)
      | _, _ => None
      end
  end.

(* SCION *)
Definition hdr_of (v : value) : option scion_hdr :=
  match v with
  | VL [VZ dia; VZ sia; VZ dt; VZ st; VB draw; VB sraw; VZ pt; VB praw; VZ us; VZ ud] =>
      Some {| h_dst_ia := dia; h_src_ia := sia; h_dst_type := dt; h_src_type := st;
              h_dst_raw := draw; h_src_raw := sraw; h_path_type := pt; h_path_raw := praw;
              h_udp_src := us; h_udp_dst := ud |}
  | _ => None
  end.

Definition rev_of (v : value) : option (option (Z * list Z)) :=
  match v with
  | VL [] => Some None
  | VL [VZ pt; VB praw] => Some (Some (pt, praw))
  | _ => None
  end.

(* a datagram seen: [receiver from class ext hdr payload]; from as above; ext 0 = no extension
   header, 1 = E2E with exactly a server's packet authenticator whose MAC verifies, 2 = other;
   class 1 = SCION [HBH] [E2E] UDP, fully parsed
   (next-header chain, UDP length and checksum valid); 0 = not parseable; 2 = SCION/SCMP;
   3 = SCION/UDP with a wrong length or checksum *)
Fixpoint scion_seen_of (l : list value) : option (list (Z * Z * scion_hdr * list Z)) :=
  match l with
  | [] => Some []
  | VL [VZ rcv; VZ _; VZ cls; VZ _; h; VB r] :: t =>
      match hdr_of h, scion_seen_of t with
      | Some rh, Some rs => Some ((rcv, cls, rh, r) :: rs)
      | _, _ => None
      end
  | _ => None
  end.

Definition strip_cls (l : list (Z * Z * scion_hdr * list Z)) : list (Z * scion_hdr * list Z) :=
  map (fun x => match x with (rcv, _, rh, r) => (rcv, rh, r) end) l.
(* everything that came back is a well-formed SCION/UDP datagram *)
Definition all_udp (l : list (Z * Z * scion_hdr * list Z)) : bool :=
  forallb (fun x => match x with (_, cls, _, _) => cls =? 1 end) l.
(* replies to a packet addressed to the listener: each belongs to its request (origin
   timestamp, plain/NTS form) and carries an authenticator exactly when the request carried a
   valid one *)
Definition scion_details_ok (cp lp : Z) (h : scion_hdr) (payload : list Z) (spao : Z) (l : list value) : bool :=
  if scion_addressed cp lp h then
    forallb (fun v => match v with
                      | VL [_; _; _; VZ ext; _; VB r] => reply_pairs_ok payload r && (ext =? (if spao =? 1 then 1 else 0))
                      | _ => false end) l
  else true.

(* nothing that came back carries a UDP payload: no NTP reply *)
Definition none_udp (l : list (Z * Z * scion_hdr * list Z)) : bool :=
  forallb (fun x => match x with (_, cls, _, _) => negb (cls =? 1) && negb (cls =? 3) end) l.

Definition hdr_eqb (a b : scion_hdr) : bool :=
  (h_dst_ia a =? h_dst_ia b) && (h_src_ia a =? h_src_ia b) &&
  (h_dst_type a =? h_dst_type b) && (h_src_type a =? h_src_type b) &&
  list_eqb (h_dst_raw a) (h_dst_raw b) && list_eqb (h_src_raw a) (h_src_raw b) &&
  (h_path_type a =? h_path_type b) && list_eqb (h_path_raw a) (h_path_raw b) &&
  (h_udp_src a =? h_udp_src b) && (h_udp_dst a =? h_udp_dst b).

Definition with_spao (bad : bool) (e : env) : env :=
  {| e_nts_ok := e_nts_ok e; e_nts_ext := e_nts_ext e; e_nts_cookie_added := e_nts_cookie_added e;
     e_rx := e_rx e; e_tx := e_tx e; e_store_hit := e_store_hit e; e_spao_fail := bad; e_path_rev := e_path_rev e |}.

Definition scion_agree (cp lp sender : Z) (h : scion_hdr) (payload : list Z) (ntsok bad : bool)
  (rev : option (Z * list Z)) (replies : list (Z * scion_hdr * list Z)) : bool :=
  match replies with
  | [] => match scion_decision_of cp lp h payload (with_spao bad (env_from_obs ntsok payload [] rev)) with
          | SNoReply => true | _ => false end
  | [(rcv, rh, r)] =>
      match scion_decision_of cp lp h payload (with_spao bad (env_from_obs ntsok payload r rev)) with
      | SReply mh out => (rcv =? sender) && hdr_eqb mh rh && list_eqb out r
      | SForward => list_eqb r payload     (* relayed: the packet's own payload, on its way to another port *)
      | _ => false
      end
  | _ => false
  end.

(* the property oracle for any packet a listener socket receives (Model: C09_scion_any_ok):
   addressed to the listener => C09_scion_ok; dispatcher rule => at most the relayed payload;
   otherwise nothing at all *)
Definition scion_oracle (cp lp sender : Z) (h : scion_hdr) (payload : list Z) (ntsok : bool)
  (rev : option (Z * list Z)) (replies : list (Z * scion_hdr * list Z)) : bool :=
  C09_scion_any_ok sender cp lp h payload ntsok rev replies.

(* [conn_port local_port sender hdr after_hdr ulen dlen nts spao rev [seen] sentinel_hdr sentinel sentinel_rev [seen after the sentinel]]
   after_hdr = the bytes sent after the 8-byte UDP header, ulen = the UDP length field as sent,
   dlen = length of the whole datagram; nts (label and verdict) refers to the payload the field delimits;
   spao (by construction): 0 no client authenticator, 1 a valid one, 2 one whose MAC does not verify.
   Correspondence: the model's UDP layer (scion_udp_payload) gives the payload the model decides on;
   property: the payload the length field delimits by the definition of UDP (udp_payload_spec). *)
Definition scion_step_verdict (v : value) : option (bool * bool) :=
  match v with
  | VL [VZ cp; VZ lp; VZ sender; h; VB after_hdr; VZ ulen; VZ dlen; VZ nts; VZ spao; rev; VL reps; sh; VB sentinel; srev; VL sreps] =>
      match hdr_of h, rev_of rev, scion_seen_of reps, hdr_of sh, rev_of srev, scion_seen_of sreps with
      | Some h, Some rev, Some reps', Some sh, Some srev, Some sreps' =>
          Some ((match scion_udp_payload dlen ulen after_hdr with
                 | Some payload => scion_agree cp lp sender h payload (nts_computed nts) (spao =? 2) rev (strip_cls reps')
                 | None => match reps' with [] => true | _ => false end
                 end) &&
                scion_agree cp lp sender sh sentinel false false srev (strip_cls sreps'),
                all_udp reps' && all_udp sreps' && from_ok reps && from_ok sreps && nts_consistent nts &&
                (match udp_payload_spec ulen after_hdr with
                 | Some payload =>
                     C09_scion_auth_ok (spao =? 2) sender cp lp h payload (nts_for_oracle nts) rev (strip_cls reps') &&
                     scion_details_ok cp lp h payload spao reps
                 | None => match reps' with [] => true | _ => false end
                 end) &&
                scion_oracle cp lp sender sh sentinel false srev (strip_cls sreps') &&
                scion_details_ok cp lp sh sentinel 0 sreps)
      | _, _, _, _, _, _ => None
      end
  (* a datagram that is no SCION/UDP packet (garbage, SCMP), then the sentinel from the same socket:
     [raw what conn_port local_port sender [seen] sentinel_hdr sentinel sentinel_rev [seen after the sentinel]]
     what (by construction): 0 garbage, 1 SCMP echo/traceroute request over a reversible path, 2 other SCMP.
     Property: no NTP reply (nothing with a UDP payload comes back), and the listener goes on serving:
     the sentinel is answered.  Correspondence: nothing comes back, except one SCMP message to the
     sender for an SCMP request. *)
  | VL [VB raw; VZ what; VZ cp; VZ lp; VZ sender; VL rawreps; sh; VB sentinel; srev; VL rawsreps] =>
      match scion_seen_of rawreps, hdr_of sh, rev_of srev, scion_seen_of rawsreps with
      | Some reps, Some sh, Some srev, Some sreps =>
          Some ((if what =? 1
                 then match reps with [(rcv, cls, _, _)] => (rcv =? sender) && (cls =? 2) | _ => false end
                 else match reps with [] => true | _ => false end) &&
                scion_agree cp lp sender sh sentinel false false srev (strip_cls sreps),
                none_udp reps && all_udp sreps && from_ok rawreps && from_ok rawsreps &&
                scion_oracle cp lp sender sh sentinel false srev (strip_cls sreps) &&
                scion_details_ok cp lp sh sentinel 0 rawsreps)
      | _, _, _, _ => None
      end
  | _ => None
  end.

Definition vt64 (t : time64) : list value := [VZ (t64_sec t); VZ (t64_frac t)].

Definition glue_C09 (k : string) (a o : list value) : option verdict :=
  if is k "mixed" then
    (* one datagram from each of many sockets at the same time, to the IP listener and to the
       SCION listener: outs = [crashed [steps]], each step in the IP or in the SCION shape *)
    match o with
    | [VZ crashed; VL steps] =>
        match steps_verdict (fun v => match ip_any_step_verdict v with Some x => Some x | None => scion_step_verdict v end) steps with
        | Some (ag, orc) => Some (relational ((crashed =? 0) && ag) ((crashed =? 0) && orc))
        | None => None
        end
    | _ => None end
  else if is k "srv.race" then
    (* outs: number of reports of the Go race detector while all listener goroutines were busy *)
    match o with
    | [VZ n] => Some (functional [VZ 0] o (n =? 0))
    | _ => None end
  else if is k "harness.skipped" then
    (* args: how many steps may fail to build; outs: how many did *)
    match a, o with
    | [VZ lim], [VZ n] => Some (relational (n <=? lim) true)
    | _, _ => None end
  else if is k "ip" || is k "ip.hwts" then
    (* args: the scripted history (symbolic); outs: [crashed [steps as observed]] *)
    match o with
    | [VZ crashed; VL steps] =>
        match steps_verdict ip_any_step_verdict steps with
        | Some (ag, orc) => Some (relational ((crashed =? 0) && ag) ((crashed =? 0) && orc))
        | None => None
        end
    | _ => None end
  else if is k "scion" || is k "scion.onehop" then
    match o with
    | [VZ crashed; VL steps] =>
        match steps_verdict scion_step_verdict steps with
        | Some (ag, orc) => Some (relational ((crashed =? 0) && ag) ((crashed =? 0) && orc))
        | None => None
        end
    | _ => None end
  else if is k "ntp.validate" then
    (* args: payload; outs: DecodePacket ok, ValidateRequest ok, LeapIndicator, Version, Mode *)
    match a, o with
    | [VB b], [VZ dec; VZ val; _; _; _] =>
        match decode_packet b with
        | None => Some (functional [VZ 0; VZ 0; VZ 0; VZ 0; VZ 0] o
                          ((dec =? 0) && negb (wellformed_request b true)))
        | Some req =>
            Some (functional [VZ 1; vbool (validate_request req); VZ (leap_of (lvm req));
                              VZ (version_of (lvm req)); VZ (mode_of (lvm req))] o
                    ((dec =? 1) && Bool.eqb (negb (val =? 0)) (wellformed_request (firstn 48 b) false)))
        end
    | _, _ => None end
  else if is k "ntp.codec" then
    (* args: 48+ bytes; outs: EncodePacket(DecodePacket(b)), and the decoded time stamps *)
    match a with
    | [VB b] =>
        match decode_packet b with
        | Some p => Some (functional [VB (encode_packet p); VL (vt64 (origin_time p)); VL (vt64 (receive_time p));
                                      VL (vt64 (transmit_time p)); VZ (poll p); VZ (stratum p)] o true)
        | None => None
        end
    | _ => None end
  else if is k "srv.handle" then
    (* args: request bytes; outs: the encoded response of handleRequest (through the hook) *)
    match a, o with
    | [VB b], [VB r] =>
        match decode_packet b with
        | Some req =>
            match handle_request req (env_from_obs false b r None) with
            | Some resp => Some (relational (list_eqb (encode_packet resp) r)
                                   (reply_shape_ok r && negb (wf_first_byte (hd 0 r))))
            | None => Some (relational false false)
            end
        | None => None
        end
    | _, _ => None end
  else if is k "consts" then
    Some (functional [VZ packet_len; VZ version_min; VZ version_max; VZ mode_reserved0; VZ mode_client; VZ mode_server;
                      VZ leap_no_warning; VZ leap_unknown; VZ endhost_port; VZ scion_buf_cap; VZ nts_max_packet_len] o true)
  else None.

Definition run_case (k : string) (a o : list value) : verdict :=
  first_some [glue_C09] k a o.
