(* Dispatcher from case kinds (strings) to model functions and the property
   oracle of C04.  Everything the OCaml runner of this property executes goes
   through run_case. *)
From Coq Require Import ZArith List String.
From ST Require Import Base.Ints Base.Value Model.NtpTime Extract.GlueBase.
Import ListNotations.
Open Scope string_scope.
Open Scope Z_scope.

Definition glue_C04 (k : string) (a o : list value) : option verdict :=
  if is k "ntp.to64" then
    match a with
    | [VZ sec; VZ nsec] =>
        let x := time64_of_time (mk_time sec nsec) in
        Some (functional [VZ (t64_sec x); VZ (t64_frac x)] o true)
    | _ => None end
  else if is k "ntp.from64" then
    match a, o with
    | [VZ s; VZ f; VZ rsec; VZ rnsec], [VZ bsec; VZ bnsec] =>
        let t := time_of_time64 {| t64_sec := s; t64_frac := f |} (mk_time rsec rnsec) in
        Some (functional [VZ (time_sec t); VZ (time_nsec t)] o
                (C04_decode_ok s f (mk_time rsec rnsec) (mk_time bsec bnsec)))
    | _, _ => None end
  else if is k "ntp.roundtrip" then
    match a, o with
    | [VZ sec; VZ nsec; VZ rsec; VZ rnsec], [VZ bsec; VZ bnsec] =>
        let t := mk_time sec nsec in let r := mk_time rsec rnsec in
        let b := time_of_time64 (time64_of_time t) r in
        Some (functional [VZ (time_sec b); VZ (time_nsec b)] o
                (C04_roundtrip_ok t r (mk_time bsec bnsec)))
    | _, _ => None end
  else if is k "ntp.edge" then
    (* the window edges judged with the property's literal (nanosecond) window; the fifth
       argument is the difference of the whole seconds (an echo of the input, for the record) *)
    match a, o with
    | [VZ sec; VZ nsec; VZ rsec; VZ rnsec; VZ _], [VZ bsec; VZ bnsec] =>
        let t := mk_time sec nsec in let r := mk_time rsec rnsec in
        let b := time_of_time64 (time64_of_time t) r in
        Some (functional [VZ (time_sec b); VZ (time_nsec b)] o
                (C04_roundtrip_ns_ok t r (mk_time bsec bnsec)))
    | _, _ => None end
  else if is k "ntp.order" then
    match a, o with
    | [VZ s1; VZ n1; VZ s2; VZ n2; VZ rsec; VZ rnsec], [VZ b1s; VZ b1n; VZ b2s; VZ b2n] =>
        let t1 := mk_time s1 n1 in let t2 := mk_time s2 n2 in let r := mk_time rsec rnsec in
        let b1 := time_of_time64 (time64_of_time t1) r in
        let b2 := time_of_time64 (time64_of_time t2) r in
        Some (functional [VZ (time_sec b1); VZ (time_nsec b1); VZ (time_sec b2); VZ (time_nsec b2)] o
                (C04_order_ok t1 t2 r (mk_time b1s b1n) (mk_time b2s b2n)))
    | _, _ => None end
  else if is k "ntp.cmp" then
    match a with
    | [VZ s1; VZ f1; VZ s2; VZ f2] =>
        let x := {| t64_sec := s1; t64_frac := f1 |} in let y := {| t64_sec := s2; t64_frac := f2 |} in
        Some (functional [vbool (t64_before x y); vbool (t64_after x y)] o true)
    | _ => None end
  else None.

Definition run_case (k : string) (a o : list value) : verdict :=
  first_some [glue_C04] k a o.
