(* Dispatcher of C03: replays a recorded history of one client (calls of
   MeasureClockOffsetIP / the SCION client loop, each with its exchange
   attempts) on the model (Model/Exchange.v) and evaluates the property oracle
   (Model/ExchangeOracle.v) on what the implementation reported.

   case "c03.hist", "c03.window" (same format; c03.window: scripted histories at the edge of the unfolding window):
     args = scion im [call ...] [xdesc ...] oracle_on scriptseed
       call    = [reset [attempt ...]]
       attempt = [now0 ctx1 ref [dgram ...]]
       dgram   = [0] | [1 lvm stratum org.s org.f rx.s rx.f tx.s tx.f crx]
       xdesc   = [lo0 srx stx theta hi3 fallback]
     outs = [call_out ...]
       call_out    = [[attempt_out ...] ok ts off err prev]
       attempt_out = [dst rxok lvm org.s org.f rx.s rx.f tx.s tx.f result]   (the server the request went to; whether the receive time the client used is not earlier than the departure of the first datagram sent to it; the request as seen on the wire)
       result      = [0 errclass] | [1 inter t0 t1 t2 t3 off rtd at prev]
       prev        = [ref inter ctx.s ctx.f crx.s crx.f srx.s srx.f]
   case "c03.fallback", "c03.multi", "c03.nofilter", "c03.kstamps": see below *)
From Coq Require Import ZArith List String Bool.
From ST Require Import Base.Ints Base.Value Model.NtpTime Model.Exchange Model.ExchangeOracle Extract.GlueBase.
Import ListNotations.
Open Scope string_scope.
Open Scope Z_scope.

Definition mk64 (s f : Z) : time64 := {| t64_sec := s; t64_frac := f |}.

Definition parse_dgram (v : value) : option dgram :=
  match v with
  | VL [VZ 0] => Some DgJunk
  | VL [VZ 1; VZ lvm; VZ st; VZ os; VZ of; VZ rs; VZ rf; VZ ts; VZ tf; VZ crx] =>
      Some (DgResp {| k_lvm := lvm; k_stratum := st; k_org := mk64 os of; k_rx := mk64 rs rf; k_tx := mk64 ts tf |} crx)
  | _ => None
  end.

Fixpoint parse_all {A} (f : value -> option A) (l : list value) : option (list A) :=
  match l with
  | [] => Some []
  | v :: r => match f v, parse_all f r with Some a, Some r' => Some (a :: r') | _, _ => None end
  end.

Definition parse_attempt (v : value) : option attempt_in :=
  match v with
  | VL [VZ now0; VZ ctx1; VZ ref; VL ds] =>
      match parse_all parse_dgram ds with
      | Some ds' => Some {| ai_now0 := now0; ai_ctx1 := ctx1; ai_ref := ref; ai_dgrams := ds' |}
      | None => None
      end
  | _ => None
  end.

Definition parse_call (v : value) : option (bool * list attempt_in) :=
  match v with
  | VL [VZ reset; VL atts] =>
      match parse_all parse_attempt atts with
      | Some a => Some (negb (reset =? 0), a)
      | None => None
      end
  | _ => None
  end.

Definition parse_xdesc (v : value) : option xdesc :=
  match v with
  | VL [VZ lo0; VZ srx; VZ stx; VZ theta; VZ hi3; VZ fb] =>
      Some {| x_lo0 := lo0; x_srx := srx; x_stx := stx; x_theta := theta; x_hi3 := hi3; x_fb := negb (fb =? 0) |}
  | _ => None
  end.

Definition prev_val (p : prev_t) : value :=
  VL [VZ (p_ref p); vbool (p_inter p);
      VZ (t64_sec (p_ctx p)); VZ (t64_frac (p_ctx p));
      VZ (t64_sec (p_crx p)); VZ (t64_frac (p_crx p));
      VZ (t64_sec (p_srx p)); VZ (t64_frac (p_srx p))].

Definition result_val (r : ares) : value :=
  match r with
  | AErr e => VL [VZ 0; VZ e]
  | AAccept a => VL [VZ 1; vbool (a_inter a); VZ (a_t0 a); VZ (a_t1 a); VZ (a_t2 a); VZ (a_t3 a);
                     VZ (a_off a); VZ (a_rtd a); VZ (a_ts a); prev_val (a_prev a)]
  end.

Definition attempt_val (ref : Z) (x : bool * pkt * ares) : value :=
  let '(_, q, r) := x in
  VL [VZ ref; VZ 1; VZ (k_lvm q);
      VZ (t64_sec (k_org q)); VZ (t64_frac (k_org q));
      VZ (t64_sec (k_rx q)); VZ (t64_frac (k_rx q));
      VZ (t64_sec (k_tx q)); VZ (t64_frac (k_tx q)); result_val r].

Fixpoint attempt_vals (refs : list Z) (l : list (bool * pkt * ares)) : list value :=
  match l, refs with
  | x :: l', r :: refs' => attempt_val r x :: attempt_vals refs' l'
  | x :: l', [] => attempt_val 0 x :: attempt_vals [] l'
  | [], _ => []
  end.

Definition call_val (c : cfg) (refs : list Z) (o : call_out) : value :=
  VL ([VL (attempt_vals refs (co_attempts o)); vbool (co_ok o);
       VZ (if co_ok o then co_ts o else 0); VZ (if co_ok o then co_off o else 0);
       VZ (if co_ok o || c_scion c then 0 else co_err o); prev_val (co_prev o)]
      ++ (if co_starved o then [VZ 99] else [])).

(* the model over a history, threading prev *)
Fixpoint run_history (c : cfg) (p : prev_t) (calls : list (bool * list attempt_in)) : list value :=
  match calls with
  | [] => []
  | (reset, atts) :: r =>
      let p0 := call_start c reset p in
      let o := measure_call c p0 atts in
      call_val c (map ai_ref atts) o :: run_history c (co_prev o) r
  end.

(* ---- the oracle on the implementation's observations ---- *)
Definition obs_accept (v : value) : option (Z * Z * Z * Z * Z) :=
  match v with
  | VL [_; _; _; _; _; _; _; _; _; VL (VZ 1 :: _ :: VZ t0 :: VZ t1 :: VZ t2 :: VZ t3 :: VZ off :: _)] =>
      Some (off, t0, t1, t2, t3)
  | _ => None
  end.

(* all accepted attempts satisfy the oracle; returns also the stamps of the last one *)
Fixpoint obs_attempts (xs : list xdesc) (l : list value) (last : option (Z * Z * Z * Z)) : bool * option (Z * Z * Z * Z) :=
  match l with
  | [] => (true, last)
  | v :: r =>
      match obs_accept v with
      | Some (off, t0, t1, t2, t3) =>
          let '(b, last') := obs_attempts xs r (Some (t0, t1, t2, t3)) in
          (C03_ok off t0 t1 t2 t3 xs && b, last')
      | None => obs_attempts xs r last
      end
  end.

Definition obs_call_ok (xs : list xdesc) (v : value) : bool :=
  match v with
  | VL (VL atts :: VZ ok :: VZ _ :: VZ off :: _) =>
      let '(b, last) := obs_attempts xs atts None in
      b && (if ok =? 0 then true
            else match last with
                 | Some (t0, t1, t2, t3) => C03_ok off t0 t1 t2 t3 xs
                 | None => false          (* an offset was reported without any accepted exchange *)
                 end)
  | _ => false
  end.

Definition glue_C03 (k : string) (a o : list value) : option verdict :=
  if is k "c03.hist" || is k "c03.window" then
    match a with
    | [VZ scion; VZ im; VL calls; VL xds; VZ oracle_on; VZ _] =>
        match parse_all parse_call calls, parse_all parse_xdesc xds with
        | Some cs, Some xs =>
            let c := {| c_scion := negb (scion =? 0); c_im := negb (im =? 0) |} in
            Some (functional (run_history c prev_init cs) o
                    (if oracle_on =? 0 then true else forallb (obs_call_ok xs) o))
        | _, _ => None
        end
    | _ => None
    end
  else if is k "c03.fallback" then
    (* one basic exchange of a client whose transmit (and receive) stamps are clock
       readings taken after the fact (kernel timestamps unavailable); the oracle is
       the same: stamps in the bracket of the scripted exchange, half-RTT bound.
       args = scion now0 ctx1 dgram lo0 srx stx theta hi3
       outs = t0 t1 t2 t3 offset (t0 - lo0) |offset - theta| *)
    match a, o with
    | [VZ scion; VZ now0; VZ ctx1; dg; VZ lo0; VZ srx; VZ stx; VZ theta; VZ hi3],
      [VZ ot0; VZ ot1; VZ ot2; VZ ot3; VZ ooff; VZ _; VZ _] =>
        match parse_dgram dg with
        | Some d =>
            let c := {| c_scion := negb (scion =? 0); c_im := false |} in
            let x := {| x_lo0 := lo0; x_srx := srx; x_stx := stx; x_theta := theta; x_hi3 := hi3; x_fb := false |} in
            let expected :=
              match attempt c prev_init {| ai_now0 := now0; ai_ctx1 := ctx1; ai_ref := 1; ai_dgrams := [d] |} with
              | (_, _, AAccept r) =>
                  [VZ (a_t0 r); VZ (a_t1 r); VZ (a_t2 r); VZ (a_t3 r); VZ (a_off r);
                   VZ (a_t0 r - lo0); VZ (Z.abs (a_off r - theta))]
              | _ => [VZ 0]
              end in
            Some (functional expected o (C03_ok ooff ot0 ot1 ot2 ot3 [x]))
        | None => None
        end
    | _, _ => None
    end
  else if is k "c03.multi" then
    (* a round of MeasureClockOffsetSCION with two clients in which exactly one
       measurement was completed before the round returned: the round reports it.
       args = round t0 t1 t2 t3 (the stamps the successful client combined) [xdesc ...]
       outs = ok offset timestamp *)
    match a, o with
    | [VZ _; VZ t0; VZ t1; VZ t2; VZ t3; VL xds], [VZ ok; VZ off; VZ ts] =>
        match parse_all parse_xdesc xds with
        | Some xs =>
            Some (functional [VZ 1; VZ (clock_offset t0 t1 t2 t3); VZ ts] o
                    (negb (ok =? 0) && C03_ok off t0 t1 t2 t3 xs))
        | None => None
        end
    | _, _ => None
    end
  else if is k "c03.nofilter" then
    (* one basic exchange of a client without a measurement filter: only the offset
       and the receive time come back.  The transmit stamp t0 is not observable; it
       is the one that explains the offset (off = ((t1-t0)+(t2-t3))/2, so t0 is
       t1+t2-t3-2*off up to the rounding), and it has to lie in the bracket of the
       scripted exchange; the histogram then holds the delay of these four stamps.
       args = scion now0 dgram lo0 srx stx theta hi3    outs = offset timestamp hist.count hist.max *)
    match a, o with
    | [VZ scion; VZ now0; dg; VZ lo0; VZ srx; VZ stx; VZ theta; VZ hi3], [VZ off; VZ ts; VZ hc; VZ hm] =>
        match parse_dgram dg with
        | Some (DgResp r _) =>
            let x := {| x_lo0 := lo0; x_srx := srx; x_stx := stx; x_theta := theta; x_hi3 := hi3; x_fb := false |} in
            let t1 := time_of_time64 (k_rx r) now0 in
            let t2 := time_of_time64 (k_tx r) now0 in
            let t3 := ts in
            let cand d := t1 + t2 - t3 - 2 * off + d in
            let explains d := clock_offset (cand d) t1 t2 t3 =? off in
            let hist_ok d :=
              let us := go_div (round_trip_delay (cand d) t1 t2 t3) 1000 in
              (hc =? 1) && (us - 1 - us / 1000 <=? hm) && (hm <=? us + 1 + us / 1000) in
            let model d :=
              explains d && t64_eqb (k_org r) (time64_of_time now0) && metadata_ok r && hist_ok d in
            Some (relational (existsb model [0; 1; -1])
                    (existsb (fun d => explains d && C03_ok off (cand d) t1 t2 t3 [x]) [0; 1; -1]))
        | _ => None
        end
    | _, _ => None
    end
  else if is k "c03.kstamps" then
    (* what a worker process reports about its run:
       args = attempts fallback_tx fallback_rx histories dropped port_pairs same_ports n4 f4 n6 f6 ns fs
       - the client combines kernel timestamps: the clock fallback is the exception
         (the exchanges concerned are judged by the relaxed clause of the oracle);
         a client that uses it for half of its exchanges violates the bound as a rule;
       - fresh_socket_per_request: consecutive requests of one call come from
         different source ports, also when the caller configured a local port (equal
         ports by chance: about 1 in 10^4; at most 5 % tolerated);
       - the harness recorded (almost) every history it scripted *)
    match a with
    | [VZ n; VZ fbtx; VZ fbrx; VZ hist; VZ dropped; VZ pairs; VZ same; VZ n4; VZ f4; VZ n6; VZ f6; VZ ns; VZ fs] =>
        (* n4 f4 n6 f6 ns fs: attempts and transmit-stamp fallbacks per family (IPv4, IPv6,
           SCION) outside the calls that ask for the fallback: at most half in each *)
        Some (relational (dropped * 20 <=? hist + 20)
                ((fbtx * 2 <=? n) && (fbrx * 2 <=? n) && (same * 20 <=? pairs + 20) &&
                 (f4 * 2 <=? n4) && (f6 * 2 <=? n6) && (fs * 2 <=? ns)))
    | _ => None
    end
  else None.

Definition run_case (k : string) (a o : list value) : verdict :=
  first_some [glue_C03] k a o.
