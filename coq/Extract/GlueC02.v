(* Dispatcher from case kinds (strings) to model functions and the property
   oracle of C02.  Everything the OCaml runner of this property executes goes
   through run_case. *)
From Coq Require Import ZArith List String.
From ST Require Import Base.Ints Base.Value Base.Sorting Model.NtpTime Model.Ftm Extract.GlueBase.
Import ListNotations.
Open Scope string_scope.
Open Scope Z_scope.

(* ---- C02 ---- *)
Fixpoint zip_tags (vs : list Z) (ts : list Z) : list (Z * bool) :=
  match vs, ts with
  | v :: vs', t :: ts' => (v, negb (t =? 0)) :: zip_tags vs' ts'
  | v :: vs', [] => (v, true) :: zip_tags vs' []
  | [], _ => []
  end.
Definition meas_of_value (v : value) : option meas :=
  match v with
  | VL [VZ ts; VZ off; VZ e] => Some {| m_ts := ts; m_off := off; m_err := negb (e =? 0) |}
  | _ => None end.
Fixpoint meas_list (l : list value) : option (list meas) :=
  match l with
  | [] => Some []
  | v :: r => match meas_of_value v, meas_list r with Some m, Some ms => Some (m :: ms) | _, _ => None end
  end.
Definition value_of_meas (m : meas) : list value := [VZ (m_ts m); VZ (m_off m); vbool (m_err m)].

Definition glue_C02 (k : string) (a o : list value) : option verdict :=
  if is k "ftm.midpoint" then
    match a with [VZ x; VZ y] => Some (functional [VZ (midpoint x y)] o true) | _ => None end
  else if is k "ftm.sgninv" then
    match a with [VZ x] => Some (functional [VZ (sgn x); VZ (inv x)] o true) | _ => None end
  else if is k "ftm.dur" || is k "median.dur" then
    (* args: values, tags (1 = correct); observed: panicked, result, slice afterwards *)
    match a, o with
    | [VL vs; VL ts], [VZ pan; VZ res; VL after] =>
        match getZs vs, getZs ts, getZs after with
        | Some vs, Some ts, Some after =>
            let r := if is k "ftm.dur" then ftm vs else median vs in
            let oracle :=
              match vs with
              | [] => negb (pan =? 0)
              | _ => (pan =? 0) && list_eqb Z.eqb after (zsort vs)
                     && (if is k "ftm.dur" then C02_ftm_ok (zip_tags vs ts) res else C02_median_ok vs res)
              end in
            match r with
            | Some x => Some (functional [VZ 0; VZ x; VL (map VZ (zsort vs))] o oracle)
            | None => Some (functional [VZ 1; VZ 0; VL []] o oracle)
            end
        | _, _, _ => None end
    | _, _ => None end
  else if is k "ftm.perm" then
    (* args: values, a permutation of them; observed: ftm and median of each *)
    match a, o with
    | [VL l1; VL l2], [VZ f1; VZ m1; VZ f2; VZ m2] =>
        match getZs l1, getZs l2 with
        | Some l1, Some l2 =>
            match ftm l1, median l1, ftm l2, median l2 with
            | Some a1, Some b1, Some a2, Some b2 =>
                Some (functional [VZ a1; VZ b1; VZ a2; VZ b2] o ((f1 =? f2) && (m1 =? m2)))
            | _, _, _, _ => None end
        | _, _ => None end
    | _, _ => None end
  else if is k "ftm.meas" || is k "median.meas" then
    (* args: measurements [ts off err], tags; observed: panicked, result [ts off err], slice afterwards *)
    match a, o with
    | [VL ms; VL ts], [VZ pan; VL [VZ rts; VZ roff; VZ rerr]; VL after] =>
        match meas_list ms, getZs ts, meas_list after with
        | Some ms, Some ts, Some after =>
            match ms with
            | [] => Some (relational (negb (pan =? 0)) (negb (pan =? 0)))
            | _ =>
                let r := if is k "ftm.meas" then ftm_m_sorted after else median_m_sorted after in
                let agree := (pan =? 0) && sorted_permb ms after && (rts =? m_ts r) && (roff =? m_off r) && (rerr =? 0) in
                let n := length after in
                let '(x, y) := if is k "ftm.meas" then (nth ((n - 1) / 3) after meas_zero, nth (n - 1 - (n - 1) / 3) after meas_zero)
                               else if Nat.eqb (n mod 2) 0 then (nth (n / 2 - 1) after meas_zero, nth (n / 2) after meas_zero)
                               else (nth (n / 2) after meas_zero, nth (n / 2) after meas_zero) in
                let oracle := (pan =? 0) && sorted_permb ms after && (rerr =? 0)
                              && (Z.min (m_ts x) (m_ts y) <=? rts) && (rts <=? Z.max (m_ts x) (m_ts y))
                              && (if is k "ftm.meas" then C02_ftm_ok (zip_tags (map m_off ms) ts) roff
                                  else C02_median_ok (map m_off ms) roff) in
                Some (relational agree oracle)
            end
        | _, _, _ => None end
    | _, _ => None end
  else None.

Definition run_case (k : string) (a o : list value) : verdict :=
  first_some [glue_C02] k a o.
