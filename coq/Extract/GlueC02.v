(* Dispatcher from case kinds (strings) to model functions and the property
   oracle of C02.  Everything the OCaml runner of this property executes goes
   through run_case. *)
From Coq Require Import ZArith List String.
From ST Require Import Base.Ints Base.Value Base.Sorting Model.NtpTime Model.Ftm Model.FtmMeas Extract.GlueBase.
Import ListNotations.
Open Scope string_scope.
Open Scope Z_scope.

(* ---- C02 ---- *)
Fixpoint zip_tags (vs : list Z) (ts : list Z) : list (Z * bool) :=
  match vs, ts with
  | v :: vs', t :: ts' => (v, negb (t =? 0)) :: zip_tags vs' ts'
  | v :: vs', [] => (v, true) :: zip_tags vs' []
  | [], _ => []
  end.
(* a measurement crosses the boundary as [sec nsec off err]: sec = seconds since January 1, year 1
   (time.Time's ext field, any int64), nsec = Time.Nanosecond(), off = Offset in ns, err = (Error != nil) *)
Definition meas_of_value (v : value) : option tmeas :=
  match v with
  | VL [VZ sec; VZ nsec; VZ off; VZ e] =>
      let t := {| gt_sec := sec; gt_nsec := nsec |} in
      if gt_wfb t && in_i64b off then Some {| tm_ts := t; tm_off := off; tm_err := negb (e =? 0) |} else None
  | _ => None end.
Fixpoint meas_list (l : list value) : option (list tmeas) :=
  match l with
  | [] => Some []
  | v :: r => match meas_of_value v, meas_list r with Some m, Some ms => Some (m :: ms) | _, _ => None end
  end.

(* kinds come in families: "ftm.dur", "ftm.dur.big", "ftm.meas.far", ... are evaluated alike; the suffix
   only names the generator (and has its own coverage floor) *)
Definition fam (k base : string) : bool :=
  is k base || is k (base ++ ".big") || is k (base ++ ".far") || is k (base ++ ".beyond").

Definition glue_C02 (k : string) (a o : list value) : option verdict :=
  if fam k "ftm.midpoint" then
    (* oracle (containment below 2^62, nothing claimed beyond) on the observed value; model equality everywhere *)
    match a, o with
    | [VZ x; VZ y], [VZ r] => Some (functional [VZ (midpoint x y)] o (C02_mid_ok x y r))
    | _, _ => None end
  else if is k "ftm.sgninv" then
    match a with [VZ x] => Some (functional [VZ (sgn x); VZ (inv x)] o true) | _ => None end
  else if fam k "ftm.dur" || fam k "median.dur" then
    (* args: values, tags (1 = correct); observed: panicked, result, slice afterwards *)
    match a, o with
    | [VL vs; VL ts], [VZ pan; VZ res; VL after] =>
        match getZs vs, getZs ts, getZs after with
        | Some vs, Some ts, Some after =>
            let isf := fam k "ftm.dur" in
            let r := if isf then ftm vs else median vs in
            let oracle :=
              match vs with
              | [] => negb (pan =? 0)
              | _ => (pan =? 0) && C02_reorder_ok vs after
                     && (if isf then C02_ftm_ok (zip_tags vs ts) res else C02_median_ok vs res)
              end in
            match r with
            | Some x => Some (functional [VZ 0; VZ x; VL (map VZ (zsort vs))] o oracle)
            | None => Some (functional [VZ 1; VZ 0; VL []] o oracle)
            end
        | _, _, _ => None end
    | _, _ => None end
  else if is k "ftm.perm" then
    (* args: values, a permutation of them; observed: ftm and median of each *)
    match a, o with
    | [VL l1; VL l2], [VZ f1; VZ m1; VZ f2; VZ m2] =>
        match getZs l1, getZs l2 with
        | Some l1, Some l2 =>
            if multiset_eqb Z.eqb l1 l2 then
              match ftm l1, median l1, ftm l2, median l2 with
              | Some a1, Some b1, Some a2, Some b2 =>
                  Some (functional [VZ a1; VZ b1; VZ a2; VZ b2] o ((f1 =? f2) && (m1 =? m2)))
              | _, _, _, _ => None end
            else None   (* not a permuted copy: not a case of this kind *)
        | _, _ => None end
    | _, _ => None end
  else if fam k "ftm.meas" || fam k "median.meas" then
    (* args: measurements [sec nsec off err], tags; observed: panicked, result [sec nsec off err], slice afterwards *)
    match a, o with
    | [VL ms; VL ts], [VZ pan; VL [VZ rsec; VZ rnsec; VZ roff; VZ rerr]; VL after] =>
        match meas_list ms, getZs ts, meas_list after with
        | Some ms, Some ts, Some after =>
            match ms with
            | [] => Some (relational (negb (pan =? 0)) (negb (pan =? 0)))
            | _ =>
                let isf := fam k "ftm.meas" in
                let res := {| tm_ts := {| gt_sec := rsec; gt_nsec := rnsec |}; tm_off := roff; tm_err := negb (rerr =? 0) |} in
                (* model: any sorted permutation may be left behind; the result is the function of that slice *)
                let agree := (pan =? 0) && C02_reorder_m_ok ms after
                             && tm_eqb res (if isf then tftm_sorted after else tmedian_sorted after) in
                let oracle := (pan =? 0)
                              && (if isf then C02_meas_ftm_ok (zip_tags (map tm_off ms) ts) ms res after
                                  else C02_meas_median_ok ms res after) in
                Some (relational agree oracle)
            end
        | _, _, _ => None end
    | _, _ => None end
  else None.

Definition run_case (k : string) (a o : list value) : verdict :=
  first_some [glue_C02] k a o.
