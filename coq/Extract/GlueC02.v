(* Dispatcher from case kinds (strings) to model functions and the property
   oracle of C02.  Everything the OCaml runner of this property executes goes
   through run_case. *)
From Coq Require Import ZArith List String.
From ST Require Import Base.Ints Base.Value Base.Sorting Model.NtpTime Model.Ftm Model.FtmMeas Extract.GlueBase.
Import ListNotations.
Open Scope string_scope.
Open Scope Z_scope.

(* ---- C02 ---- *)
Fixpoint zip_tags (vs : list Z) (ts : list Z) : list (Z * bool) :=
  match vs, ts with
  | v :: vs', t :: ts' => (v, negb (t =? 0)) :: zip_tags vs' ts'
  | v :: vs', [] => (v, true) :: zip_tags vs' []
  | [], _ => []
  end.
(* a measurement crosses the boundary as [sec nsec off err]: sec = seconds since January 1, year 1
   (time.Time's ext field, any int64), nsec = Time.Nanosecond(), off = Offset in ns, err = (Error != nil) *)
Definition meas_of_value (v : value) : option tmeas :=
  match v with
  | VL [VZ sec; VZ nsec; VZ off; VZ e] =>
      let t := {| gt_sec := sec; gt_nsec := nsec |} in
      if gt_wfb t && in_i64b off then Some {| tm_ts := t; tm_off := off; tm_err := negb (e =? 0) |} else None
  | _ => None end.
Fixpoint meas_list (l : list value) : option (list tmeas) :=
  match l with
  | [] => Some []
  | v :: r => match meas_of_value v, meas_list r with Some m, Some ms => Some (m :: ms) | _, _ => None end
  end.

(* kinds come in families: "ftm.dur", "ftm.dur.big", "ftm.dur.huge", "ftm.meas.far", "ftm.dur.conc" (called
   concurrently from several goroutines), ... are evaluated alike; the suffix
   only names the generator (and has its own coverage floor) *)
Definition fam (k base : string) : bool :=
  is k base || is k (base ++ ".big") || is k (base ++ ".huge") || is k (base ++ ".far") || is k (base ++ ".beyond")
  || is k (base ++ ".conc").

Definition glue_C02 (k : string) (a o : list value) : option verdict :=
  if fam k "ftm.midpoint" then
    (* oracle (containment below 2^62, nothing claimed beyond) on the observed value; model equality everywhere *)
    match a, o with
    | [VZ x; VZ y], [VZ r] => Some (functional [VZ (midpoint x y)] o (C02_mid_ok x y r))
    | _, _ => None end
  else if is k "ftm.sgninv" then
    (* Sgn and Inv are helpers of the anchored file the property says nothing about: agreement with the model only *)
    match a with [VZ x] => Some (functional [VZ (sgn x); VZ (inv x)] o true) | _ => None end
  else if fam k "ftm.dur" || fam k "median.dur" then
    (* args: values, tags (1 = correct; the generator's designated arbitrary set, not used by the oracle);
       observed: panicked, result, slice afterwards, tail (1 = the elements of the backing array between len
       and cap of the slice passed in are untouched) *)
    match a, o with
    | [VL vs; VL ts], [VZ pan; VZ res; VL after; VZ tail] =>
        match getZs vs, getZs ts, getZs after with
        | Some vs, Some ts, Some after =>
            let isf := fam k "ftm.dur" in
            let r := if isf then ftm vs else median vs in
            let oracle :=
              match vs with
              | [] => negb (pan =? 0) && (tail =? 1)
              | _ => (pan =? 0) && C02_reorder_ok vs after && (tail =? 1)
                     && (if isf then C02_ftm_strong_ok vs res else C02_median_ok vs res)
              end in
            match r with
            | Some x => Some (functional [VZ 0; VZ x; VL (map VZ (zsort vs)); VZ 1] o oracle)
            | None => Some (functional [VZ 1; VZ 0; VL []; VZ 1] o oracle)
            end
        | _, _, _ => None end
    | _, _ => None end
  else if is k "ftm.perm" then
    (* args: values, a permutation of them; observed: ftm and median of each *)
    match a, o with
    | [VL l1; VL l2], [VZ f1; VZ m1; VZ f2; VZ m2] =>
        match getZs l1, getZs l2 with
        | Some l1, Some l2 =>
            if multiset_eqb Z.eqb l1 l2 then
              match ftm l1, median l1, ftm l2, median l2 with
              | Some a1, Some b1, Some a2, Some b2 =>
                  Some (functional [VZ a1; VZ b1; VZ a2; VZ b2] o ((f1 =? f2) && (m1 =? m2)))
              | _, _, _, _ => None end
            else None   (* not a permuted copy: not a case of this kind *)
        | _, _ => None end
    | _, _ => None end
  else if fam k "ftm.meas" || fam k "median.meas" then
    (* args: measurements [sec nsec off err], tags; observed: panicked, result [sec nsec off err], slice afterwards, tail *)
    match a, o with
    | [VL ms; VL ts], [VZ pan; VL [VZ rsec; VZ rnsec; VZ roff; VZ rerr]; VL after; VZ tail] =>
        match meas_list ms, getZs ts, meas_list after with
        | Some ms, Some ts, Some after =>
            match ms with
            | [] => Some (relational (negb (pan =? 0) && (tail =? 1)) (negb (pan =? 0) && (tail =? 1)))
            | _ =>
                let isf := fam k "ftm.meas" in
                let res := {| tm_ts := {| gt_sec := rsec; gt_nsec := rnsec |}; tm_off := roff; tm_err := negb (rerr =? 0) |} in
                (* model: any sorted permutation may be left behind; the result is the function of that slice *)
                let agree := (pan =? 0) && (tail =? 1) && C02_reorder_m_ok ms after
                             && tm_eqb res (if isf then tftm_sorted after else tmedian_sorted after) in
                let oracle := (pan =? 0) && (tail =? 1)
                              && (if isf then C02_meas_ftm_ok ms res after else C02_meas_median_ok ms res after) in
                Some (relational agree oracle)
            end
        | _, _, _ => None end
    | _, _ => None end
  else if is k "ftm.meas.perm" || is k "ftm.meas.tieorder" then
    (* args: measurements, a permuted copy; observed: FaultTolerantMidpoint of each, Median of each.
       ftm.meas.perm: offset and nil error always equal, timestamps equal when the offsets are pairwise distinct;
       ftm.meas.tieorder: the property text taken literally - the whole results equal *)
    match a, o with
    | [VL ms1; VL ms2], [VL [VZ s1; VZ n1; VZ o1; VZ e1]; VL [VZ s2; VZ n2; VZ o2; VZ e2];
                         VL [VZ s3; VZ n3; VZ o3; VZ e3]; VL [VZ s4; VZ n4; VZ o4; VZ e4]] =>
        match meas_list ms1, meas_list ms2 with
        | Some ((_ :: _) as ms1), Some ms2 =>
            if multiset_eqb tm_eqb ms1 ms2 then
              let mk s n o e := {| tm_ts := {| gt_sec := s; gt_nsec := n |}; tm_off := o; tm_err := negb (e =? 0) |} in
              let f1 := mk s1 n1 o1 e1 in let f2 := mk s2 n2 o2 e2 in
              let m1 := mk s3 n3 o3 e3 in let m2 := mk s4 n4 o4 e4 in
              (* model: offsets are those of the plain functions; with pairwise distinct offsets the sorted slice,
                 hence the whole result, is unique *)
              let srt := isort tm_off ms1 in
              let agree :=
                match ftm (map tm_off ms1), median (map tm_off ms1) with
                | Some fo, Some mo =>
                    (o1 =? fo) && (o2 =? fo) && (o3 =? mo) && (o4 =? mo) && (e1 =? 0) && (e2 =? 0) && (e3 =? 0) && (e4 =? 0)
                    && (if nodupb (map tm_off ms1)
                        then tm_eqb f1 (tftm_sorted srt) && tm_eqb f2 (tftm_sorted srt)
                             && tm_eqb m1 (tmedian_sorted srt) && tm_eqb m2 (tmedian_sorted srt)
                        else true)
                | _, _ => false end in
              let oracle :=
                if is k "ftm.meas.perm" then C02_meas_perm_ok ms1 f1 f2 && C02_meas_perm_ok ms1 m1 m2
                else C02_meas_perm_strict_ok f1 f2 && C02_meas_perm_strict_ok m1 m2 in
              Some (relational agree oracle)
            else None
        | _, _ => None end
    | _, _ => None end
  else if is k "ftm.meas.utc" then
    (* the assumption of the time model, checked on the running toolchain: time.Now().UTC() carries no monotonic reading *)
    match o with [VZ _] => Some (functional [VZ 0] o true) | _ => None end
  else None.

Definition run_case (k : string) (a o : list value) : verdict :=
  first_some [glue_C02] k a o.
