(* Dispatcher from case kinds to the model of net/ntske/provider.go and the
   property oracle of C12.  Everything the OCaml runner of this property
   executes goes through run_case.

   prov.valid  args: nb_sec nb_nsec na_sec na_nsec t_sec t_nsec      outs: valid
   prov.hist   args: t0 [ [0 t] | [1 t id] ... ]                     outs: [ [id vid nb na] | [1 id vid nb na] | [0] ... ]
               one goroutine: NewProvider at t0, then Current / Get(id) at the absolute virtual times t (ns)
   prov.conc   args: t0 [ [t [ [g 0] | [g 1 id] ... ]] ... ]          outs: [ [obs ...] ... ]  (same shape as the groups)
               several goroutines; a group = the calls made at one virtual instant, each goroutine one or
               more calls, listed in the order they completed (a goroutine's own calls in program order)
   prov.long   as prov.hist, > 65536 rotations; oracle = the one-pass C12_long_ok
   prov.lsn    args: [ [0 T] | [1 T lsn c] ... ]   outs: [ [tlo thi answered [ids]] ... ]   the real NTS-KE server and
               the real IP / SCION listeners with one provider, virtual time = real time + ageing (Provider.VerifAge)
   prov.lock   args: (none)   outs: [ [name locked] ... ]  source check: every method of *Provider that the servers
               call takes p.mu first and releases it by defer *)
From Coq Require Import ZArith List String.
From ST Require Import Base.Ints Base.Value Model.Provider Extract.GlueBase.
Import ListNotations.
Open Scope string_scope.
Open Scope Z_scope.

Definition ns (sec nsec : Z) : Z := sec * 1000000000 + nsec.

(* the fifth field: do the key's validity times still carry a monotonic clock reading (1)?  The model's
   times are readings of one clock; the implementation must judge validity on the monotonic clock. *)
Definition value_of_key (k : key) : list value := [VZ (k_id k); VZ (k_val k); VZ (k_nb k); VZ (k_na k); VZ 1].

Definition value_of_obs (b : obs) : value :=
  match b with
  | BCur _ _ k => VL (value_of_key k)
  | BGet _ _ _ (Some k) => VL (VZ 1 :: value_of_key k)
  | BGet _ _ _ None => VL [VZ 0]
  end.

(* sequential history: every op is by goroutine 0 *)
Definition op_of_value (v : value) : option op :=
  match v with
  | VL [VZ 0; VZ t] => Some (OCur 0 t t)
  | VL [VZ 1; VZ t; VZ id] => Some (OGet 0 id t)
  | _ => None end.
Definition gop_of_value (t : Z) (v : value) : option op :=
  match v with
  | VL [VZ g; VZ 0] => Some (OCur g t t)
  | VL [VZ g; VZ 1; VZ id] => Some (OGet g id t)
  | _ => None end.

Fixpoint all_some {A B} (f : A -> option B) (l : list A) : option (list B) :=
  match l with
  | [] => Some []
  | x :: r => match f x, all_some f r with Some y, Some ys => Some (y :: ys) | _, _ => None end
  end.

(* what the implementation did on op o, read from the case file *)
Definition obs_of_value (o : op) (v : value) : option obs :=
  match o, v with
  | OCur g _ t, VL [VZ id; VZ vid; VZ nb; VZ na; VZ _] =>
      Some (BCur g t {| k_id := id; k_val := vid; k_nb := nb; k_na := na |})
  | OGet g id t, VL [VZ 1; VZ id'; VZ vid; VZ nb; VZ na; VZ _] =>
      Some (BGet g t id (Some {| k_id := id'; k_val := vid; k_nb := nb; k_na := na |}))
  | OGet g id t, VL [VZ 0] => Some (BGet g t id None)
  | _, _ => None end.

Definition out_mono (v : value) : bool :=
  match v with
  | VL [VZ _; VZ _; VZ _; VZ _; VZ m] => m =? 1
  | VL [VZ 1; VZ _; VZ _; VZ _; VZ _; VZ m] => m =? 1
  | _ => true end.

Fixpoint obs_list (ops : list op) (vs : list value) : option (list obs) :=
  match ops, vs with
  | [], [] => Some []
  | o :: r, v :: vr =>
      match obs_of_value o v, obs_list r vr with Some b, Some bs => Some (b :: bs) | _, _ => None end
  | _, _ => None end.

Definition group_of_value (ga go : value) : option (Z * list op * list obs) :=
  match ga, go with
  | VL [VZ t; VL ops], VL outs =>
      match all_some (gop_of_value t) ops with
      | Some ops' => match obs_list ops' outs with Some bs => Some (t, ops', bs) | None => None end
      | None => None end
  | _, _ => None end.

Fixpoint groups_of_values (a o : list value) : option (list (Z * list op * list obs)) :=
  match a, o with
  | [], [] => Some []
  | x :: a', y :: o' =>
      match group_of_value x y, groups_of_values a' o' with
      | Some g, Some gs => Some (g :: gs) | _, _ => None end
  | _, _ => None end.

(* prov.lsn: steps [0 T kind delay] (key exchange; kind 2/3: a client that sends its request only delay after the handshake;
   the observation is the answer) / [0 T] (key exchange) | [1 T lsn c] (request over listener lsn with the c-th cookie
   ever handed out); observed per step [tlo thi answered [key ids of the cookies handed out]].
   The clock reading of a step is thi. *)
Fixpoint lsn_build (handed : list Z) (steps outs : list value) : option (list lstep * list lobs) :=
  match steps, outs with
  | [], [] => Some ([], [])
  | st :: steps', VL [VZ tlo; VZ thi; VZ ans; VL idsv] :: outs' =>
      match getZs idsv with
      | None => None
      | Some ids =>
          let mk := match st with
                    | VL [VZ 0; VZ _] | VL [VZ 0; VZ _; VZ _] | VL [VZ 0; VZ _; VZ _; VZ _] => Some (LKe thi, LObs thi None (negb (ans =? 0)) ids)
                    | VL [VZ 2; VZ _; VZ _; VZ kid] =>
                        (* a request whose cookie names key id kid directly (an id not issued yet) *)
                        Some (LReq thi kid, LObs thi (Some kid) (negb (ans =? 0)) ids)
                    | VL [VZ 1; VZ _; VZ _; VZ c] =>
                        let kid := nth (Z.to_nat c) handed (-1) in
                        Some (LReq thi kid, LObs thi (Some kid) (negb (ans =? 0)) ids)
                    | _ => None end in
          match mk, lsn_build (handed ++ ids) steps' outs' with
          | Some (a, b), Some (la, lb) => Some (a :: la, b :: lb)
          | _, _ => None end
      end
  | _, _ => None end.

Definition lobs_agree (e o : lobs) : bool :=
  match e, o with
  | LObs _ _ ea eids, LObs _ _ oa oids =>
      Bool.eqb ea oa &&
      match eids with
      | [id] => negb (Nat.eqb (length oids) 0) && forallb (Z.eqb id) oids
      | _ => Nat.eqb (length oids) 0
      end
  end.
Fixpoint lobs_all_agree (e o : list lobs) : bool :=
  match e, o with
  | [], [] => true
  | x :: e', y :: o' => lobs_agree x y && lobs_all_agree e' o'
  | _, _ => false end.

Definition lock_entry_ok (v : value) : bool :=
  match v with VL [VB _; VZ 1] => true | _ => false end.
Fixpoint bytes_of_string (s : string) : list Z :=
  match s with
  | EmptyString => []
  | String c r => Z.of_nat (Ascii.nat_of_ascii c) :: bytes_of_string r
  end.
(* the rules and methods that the source check must have reported on (a rule that is no
   longer evaluated is a failure, not a pass) *)
Definition lock_required : list string :=
  ["Current"; "Get"; "generateNext"; "state-touched-only-by-Provider"; "no-other-lock-operations";
   "no-closures-over-state"; "monotonic-reading-preserved"].
Definition lock_has (entries : list value) (name : string) : bool :=
  existsb (fun v => match v with VL [VB b; VZ _] => list_eqb Z.eqb b (bytes_of_string name) | _ => false end) entries.

Definition glue_C12 (k : string) (a o : list value) : option verdict :=
  if is k "prov.valid" then
    match a with
    | [VZ nbs; VZ nbn; VZ nas; VZ nan; VZ ts; VZ tn] =>
        let kk := {| k_id := 0; k_val := 0; k_nb := ns nbs nbn; k_na := ns nas nan |} in
        (* oracle: "within its validity period" = NotBefore <= t <= NotAfter *)
        Some (functional [vbool (is_valid_at kk (ns ts tn))] o
                (match o with
                 | [VZ v] => Bool.eqb (negb (v =? 0)) ((ns nbs nbn <=? ns ts tn) && (ns ts tn <=? ns nas nan))
                 | _ => false end))
    | _ => None end
  else if is k "prov.hist" then
    match a, o with
    | [VZ t0; VL opsv], [VL outs] =>
        match all_some op_of_value opsv with
        | Some ops =>
            match obs_list ops outs with
            | Some bs =>
                if monob t0 ops then
                  match history t0 ops with
                  | Some (_, exp) => Some (functional [VL (map value_of_obs exp)] o (C12_ok (BCur 0 t0 (key_one t0) :: bs) && forallb out_mono outs))
                  | None => Some (functional [VZ (-1)] o (C12_ok (BCur 0 t0 (key_one t0) :: bs) && forallb out_mono outs))
                  end
                else None
            | None =>
                (* output not of the shape of the input: no model output can equal it *)
                Some (relational false true)
            end
        | None => None end
    | _, _ => None end
  else if is k "prov.long" then
    (* same shape as prov.hist; tens of thousands of calls, judged by the one-pass oracle *)
    match a, o with
    | [VZ t0; VL opsv], [VL outs] =>
        match all_some op_of_value opsv with
        | Some ops =>
            match obs_list ops outs with
            | Some bs =>
                if monob t0 ops then
                  match history t0 ops with
                  | Some (_, exp) => Some (functional [VL (map value_of_obs exp)] o (C12_long_ok bs && forallb out_mono outs))
                  | None => Some (functional [VZ (-1)] o (C12_long_ok bs && forallb out_mono outs))
                  end
                else None
            | None => Some (relational false true)
            end
        | None => None end
    | _, _ => None end
  else if is k "prov.conc" then
    match a, o with
    | [VZ t0; VL gsa], [VL gso] =>
        match groups_of_values gsa gso with
        | Some gs =>
            let bs := groups_obs gs in
            match new_provider t0 with
            | Some s => Some (relational (groups_ok s t0 gs)
                                (C12_ok bs && forallb (fun g => match g with VL l => forallb out_mono l | _ => true end) gso))
            | None => None end
        | None => Some (relational false true)
        end
    | _, _ => None end
  else if is k "prov.lsn" then
    match a, o with
    | [VL steps], [VL outs] =>
        match lsn_build [] steps outs with
        | Some (ls, lo) =>
            let agree := lmonob 0 ls &&
                         match lsn_history 0 ls with Some (_, e) => lobs_all_agree e lo | None => false end in
            Some (relational agree (C12_lsn_ok 0 lo))
        | None => Some (relational false true)
        end
    | _, _ => None end
  else if is k "prov.lock" then
    match o with
    | [VL entries] =>
        let ok := forallb lock_entry_ok entries && forallb (lock_has entries) lock_required in
        Some (relational ok ok)
    | _ => None end
  else None.

Definition run_case (k : string) (a o : list value) : verdict :=
  first_some [glue_C12] k a o.
