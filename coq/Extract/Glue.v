(* Dispatcher from case kinds (strings) to model functions and property
   oracles.  Everything the OCaml runner executes goes through run_case. *)
From Coq Require Import ZArith List String.
From ST Require Import Base.Ints Base.Value Base.F64 Model.NtpTime Model.Units Base.Sorting Model.Ftm.
Import ListNotations.
Open Scope string_scope.
Open Scope Z_scope.

Definition is (k s : string) : bool := String.eqb k s.

Definition glue_C04 (k : string) (a o : list value) : option verdict :=
  if is k "ntp.to64" then
    match a with
    | [VZ sec; VZ nsec] =>
        let x := time64_of_time (mk_time sec nsec) in
        Some (functional [VZ (t64_sec x); VZ (t64_frac x)] o true)
    | _ => None end
  else if is k "ntp.from64" then
    match a with
    | [VZ s; VZ f; VZ rsec; VZ rnsec] =>
        let t := time_of_time64 {| t64_sec := s; t64_frac := f |} (mk_time rsec rnsec) in
        Some (functional [VZ (time_sec t); VZ (time_nsec t)] o true)
    | _ => None end
  else if is k "ntp.roundtrip" then
    match a, o with
    | [VZ sec; VZ nsec; VZ rsec; VZ rnsec], [VZ bsec; VZ bnsec] =>
        let t := mk_time sec nsec in let r := mk_time rsec rnsec in
        let b := time_of_time64 (time64_of_time t) r in
        Some (functional [VZ (time_sec b); VZ (time_nsec b)] o
                (C04_roundtrip_ok t r (mk_time bsec bnsec)))
    | _, _ => None end
  else if is k "ntp.order" then
    match a, o with
    | [VZ s1; VZ n1; VZ s2; VZ n2; VZ rsec; VZ rnsec], [VZ b1s; VZ b1n; VZ b2s; VZ b2n] =>
        let t1 := mk_time s1 n1 in let t2 := mk_time s2 n2 in let r := mk_time rsec rnsec in
        let b1 := time_of_time64 (time64_of_time t1) r in
        let b2 := time_of_time64 (time64_of_time t2) r in
        Some (functional [VZ (time_sec b1); VZ (time_nsec b1); VZ (time_sec b2); VZ (time_nsec b2)] o
                (C04_order_ok t1 t2 r (mk_time b1s b1n) (mk_time b2s b2n)))
    | _, _ => None end
  else if is k "ntp.cmp" then
    match a with
    | [VZ s1; VZ f1; VZ s2; VZ f2] =>
        let x := {| t64_sec := s1; t64_frac := f1 |} in let y := {| t64_sec := s2; t64_frac := f2 |} in
        Some (functional [vbool (t64_before x y); vbool (t64_after x y)] o true)
    | _ => None end
  else None.

Definition glue_C18 (k : string) (a o : list value) : option verdict :=
  if is k "units.timeval" then
    match a, o with
    | [VZ n], [VZ osec; VZ ousec] =>
        let '(sec, usec) := timeval_from_nsec n in
        Some (functional [VZ sec; VZ usec] o (C18_timeval_ok n osec ousec))
    | _, _ => None end
  else if is k "units.ppm_of_freq" then
    match a with
    | [VZ fbits] => Some (functional [VZ (scaled_ppm_from_freq (f_of_bits fbits))] o true)
    | _ => None end
  else if is k "units.freq_of_ppm" then
    match a with
    | [VZ x] => Some (functional [VZ (f_to_bits (freq_from_scaled_ppm x))] o true)
    | _ => None end
  else if is k "units.ppm_roundtrip" then
    match a, o with
    | [VZ x], [VZ back] =>
        Some (functional [VZ (scaled_ppm_from_freq (freq_from_scaled_ppm x))] o (C18_freq_ok x back))
    | _, _ => None end
  else if is k "units.drift" then
    match a with
    | [VZ drift_ns; VZ d] => Some (functional [VZ (sysclk_drift drift_ns d)] o true)
    | _ => None end
  else if is k "csptp.ts_of_time" then
    match a with
    | [VZ sec; VZ nsec] =>
        match csptp_ts_of_time (mk_time sec nsec) with
        | Some (s, ns) => Some (functional [VZ 1; VZ s; VZ ns] o true)
        | None => Some (functional [VZ 0] o true)
        end
    | _ => None end
  else if is k "csptp.time_of_ts" then
    match a with
    | [VZ s; VZ ns] =>
        let t := csptp_time_of_ts s ns in
        Some (functional [VZ (time_sec t); VZ (time_nsec t)] o true)
    | _ => None end
  else if is k "csptp.ts_roundtrip" then
    match a, o with
    | [VZ s; VZ ns], [VZ okk; VZ bs; VZ bns] =>
        Some (functional [VZ 1; VZ s; VZ ns] o ((okk =? 1) && (bs =? s) && (bns =? ns))%bool)
    | _, _ => Some (relational false false) end
  else if is k "csptp.interval" then
    match a, o with
    | [VZ i], [VZ d] => Some (functional [VZ (csptp_dur_of_interval i)] o (C18_interval_ok i d))
    | _, _ => None end
  else if is k "csptp.formulas" then
    match a with
    | [VZ t0; VZ t1; VZ t2; VZ t3; VZ c1; VZ c3; VZ utc] =>
        Some (functional [VZ (csptp_clock_offset t0 t1 t2 t3 c1 c3); VZ (csptp_mean_path_delay t0 t1 t2 t3 c1 c3);
                          VZ (csptp_c2s_delay t0 t1 c1 utc); VZ (csptp_s2c_delay t2 t3 c3 utc)] o true)
    | _ => None end
  else if is k "csptp.recover" then
    (* args: t0 t2 theta delta c1 c3; observed: offset, mean path delay computed by the implementation *)
    match a, o with
    | [VZ t0; VZ t2; VZ theta; VZ delta; VZ c1; VZ c3], [VZ off; VZ mpd] =>
        let t1 := t0 + theta + delta + c1 in let t3 := t2 - theta + delta + c3 in
        Some (functional [VZ (csptp_clock_offset t0 t1 t2 t3 c1 c3); VZ (csptp_mean_path_delay t0 t1 t2 t3 c1 c3)] o
                ((off =? theta) && (mpd =? delta))%bool)
    | _, _ => None end
  else None.

(* ---- C02 ---- *)
Fixpoint zip_tags (vs : list Z) (ts : list Z) : list (Z * bool) :=
  match vs, ts with
  | v :: vs', t :: ts' => (v, negb (t =? 0)) :: zip_tags vs' ts'
  | v :: vs', [] => (v, true) :: zip_tags vs' []
  | [], _ => []
  end.
Definition meas_of_value (v : value) : option meas :=
  match v with
  | VL [VZ ts; VZ off; VZ e] => Some {| m_ts := ts; m_off := off; m_err := negb (e =? 0) |}
  | _ => None end.
Fixpoint meas_list (l : list value) : option (list meas) :=
  match l with
  | [] => Some []
  | v :: r => match meas_of_value v, meas_list r with Some m, Some ms => Some (m :: ms) | _, _ => None end
  end.
Definition value_of_meas (m : meas) : list value := [VZ (m_ts m); VZ (m_off m); vbool (m_err m)].

Definition glue_C02 (k : string) (a o : list value) : option verdict :=
  if is k "ftm.midpoint" then
    match a with [VZ x; VZ y] => Some (functional [VZ (midpoint x y)] o true) | _ => None end
  else if is k "ftm.sgninv" then
    match a with [VZ x] => Some (functional [VZ (sgn x); VZ (inv x)] o true) | _ => None end
  else if is k "ftm.dur" || is k "median.dur" then
    (* args: values, tags (1 = correct); observed: panicked, result, slice afterwards *)
    match a, o with
    | [VL vs; VL ts], [VZ pan; VZ res; VL after] =>
        match getZs vs, getZs ts, getZs after with
        | Some vs, Some ts, Some after =>
            let r := if is k "ftm.dur" then ftm vs else median vs in
            let oracle :=
              match vs with
              | [] => negb (pan =? 0)
              | _ => (pan =? 0) && list_eqb Z.eqb after (zsort vs)
                     && (if is k "ftm.dur" then C02_ftm_ok (zip_tags vs ts) res else C02_median_ok vs res)
              end in
            match r with
            | Some x => Some (functional [VZ 0; VZ x; VL (map VZ (zsort vs))] o oracle)
            | None => Some (functional [VZ 1; VZ 0; VL []] o oracle)
            end
        | _, _, _ => None end
    | _, _ => None end
  else if is k "ftm.perm" then
    (* args: values, a permutation of them; observed: ftm and median of each *)
    match a, o with
    | [VL l1; VL l2], [VZ f1; VZ m1; VZ f2; VZ m2] =>
        match getZs l1, getZs l2 with
        | Some l1, Some l2 =>
            match ftm l1, median l1, ftm l2, median l2 with
            | Some a1, Some b1, Some a2, Some b2 =>
                Some (functional [VZ a1; VZ b1; VZ a2; VZ b2] o ((f1 =? f2) && (m1 =? m2)))
            | _, _, _, _ => None end
        | _, _ => None end
    | _, _ => None end
  else if is k "ftm.meas" || is k "median.meas" then
    (* args: measurements [ts off err], tags; observed: panicked, result [ts off err], slice afterwards *)
    match a, o with
    | [VL ms; VL ts], [VZ pan; VL [VZ rts; VZ roff; VZ rerr]; VL after] =>
        match meas_list ms, getZs ts, meas_list after with
        | Some ms, Some ts, Some after =>
            match ms with
            | [] => Some (relational (negb (pan =? 0)) (negb (pan =? 0)))
            | _ =>
                let r := if is k "ftm.meas" then ftm_m_sorted after else median_m_sorted after in
                let agree := (pan =? 0) && sorted_permb ms after && (rts =? m_ts r) && (roff =? m_off r) && (rerr =? 0) in
                let n := length after in
                let '(x, y) := if is k "ftm.meas" then (nth ((n - 1) / 3) after meas_zero, nth (n - 1 - (n - 1) / 3) after meas_zero)
                               else if Nat.eqb (n mod 2) 0 then (nth (n / 2 - 1) after meas_zero, nth (n / 2) after meas_zero)
                               else (nth (n / 2) after meas_zero, nth (n / 2) after meas_zero) in
                let oracle := (pan =? 0) && sorted_permb ms after && (rerr =? 0)
                              && (Z.min (m_ts x) (m_ts y) <=? rts) && (rts <=? Z.max (m_ts x) (m_ts y))
                              && (if is k "ftm.meas" then C02_ftm_ok (zip_tags (map m_off ms) ts) roff
                                  else C02_median_ok (map m_off ms) roff) in
                Some (relational agree oracle)
            end
        | _, _, _ => None end
    | _, _ => None end
  else None.

Definition first_some (fs : list (string -> list value -> list value -> option verdict))
  (k : string) (a o : list value) : verdict :=
  (fix go fs := match fs with
     | [] => unknown_case
     | f :: r => match f k a o with Some v => v | None => go r end
     end) fs.

Definition run_case (k : string) (a o : list value) : verdict :=
  first_some [glue_C04; glue_C18; glue_C02] k a o.
