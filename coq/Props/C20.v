(* C20 - NTS key exchange: agreeing keys, bad offers refused, failures leave no state.

   Model: Model/Ntske.v (ReadData, ExportKeys, dialTLS, dialQUIC, both branches of exchangeKeys,
   FetchData, StoreCookie of net/ntske as they are in /repo now).  [quic] is the transport flag
   Fetcher.QUIC.Enabled: false = key exchange over TLS/TCP (exchange_keys, NTP over IP, default
   port 123), true = over QUIC/SCION (exchange_keys_quic, NTP over SCION, default port 10123);
   exchange_keys_of quic is exchangeKeys of such a Fetcher.  A key-exchange peer is a script (Model/NtskeOracle.v):
   whether anything listens, its ALPN list, the records it sends (any types, critical bits and
   bodies), raw bytes after them, after how many bytes the connection ends, its address.  A
   script is "strict" when its records are encoded the way a conforming server encodes them
   (15-bit type, 2-byte bodies of next-protocol/error/algorithm/port records, empty end
   record) and no raw bytes follow; the record SEQUENCE is arbitrary (any order, any number of
   error/warning/unknown records anywhere, truncation at any byte).  The TLS exporter is an
   uninterpreted function of (label, context, length); [exporter_ok] says the session answers
   the two RFC 8915 queries (TLS 1.3 always does).  crypto/tls' ALPN negotiation is modelled
   by [tls_negotiate], the one inside QUIC (application protocol mandatory) by [quic_negotiate]. *)
From ST Require Import Base.Ints Model.Ntske Model.NtskeOracle Model.NtskeRun Proofs.NtskeProofs.
From Coq Require Import ZArith List Bool.
Import ListNotations.
Open Scope Z_scope.

(* MAIN: the property oracle accepts what the model does on EVERY history of FetchData and
   StoreCookie calls on one Fetcher of either transport (a Fetcher never changes its transport)
   against any scripts (conforming or not) - success exactly when the ALPN
   is ntske/1 and the records end properly with AES-SIV-CMAC-256 and a cookie, keys equal to
   the peer's exporter values, pool = cookies issued, target = named server/port or the
   defaults, no exchange while cookies are left, a complete new exchange after a failure *)
Theorem C20_oracle_holds_on_model : forall quic ms,
  Forall mop_ok ms -> C20_ok quic (map op_of ms) (model_run quic kzero ms) = true.
Proof. exact oracle_holds_on_model. Qed.
Print Assumptions C20_oracle_holds_on_model.

(* the two instances spelled out: a TLS fetcher (default port 123), a QUIC/SCION fetcher (10123) *)
Theorem C20_oracle_holds_on_model_tls : forall ms,
  Forall mop_ok ms -> C20_ok false (map op_of ms) (model_run false kzero ms) = true.
Proof. exact (oracle_holds_on_model false). Qed.
Print Assumptions C20_oracle_holds_on_model_tls.

Theorem C20_oracle_holds_on_model_quic : forall ms,
  Forall mop_ok ms -> C20_ok true (map op_of ms) (model_run true kzero ms) = true.
Proof. exact (oracle_holds_on_model true). Qed.
Print Assumptions C20_oracle_holds_on_model_quic.

(* calls that overlap in time on one Fetcher (FetchData holds the Fetcher's lock for the whole
   exchange, fix commit 1f1f6e3, so the calls take effect one after the other in the order in
   which they get the lock): the oracle for overlapping calls - "some order of the calls, with
   the connections in the order they reached the peer, is a history the sequential oracle
   accepts, and the fetcher ends up holding what that history leaves" - accepts the results and
   the final state of the model whenever the order the lock chose is among the candidates *)
Theorem C20_overlap_oracle_holds_on_model : forall quic ms cands, Forall mop_ok ms ->
  In (map op_of ms, model_run quic kzero ms) cands ->
  C20_overlap_ok quic cands (model_final quic kzero ms) = true.
Proof. exact overlap_oracle_holds_on_model. Qed.
Print Assumptions C20_overlap_oracle_holds_on_model.

(* an exchange with a conforming-encoding peer succeeds iff the peer negotiated ntske/1 and,
   among the records that arrived completely, an end-of-message record is reached before any
   error record or unrecognised critical record, the (last) algorithm is 15 and there is at
   least one cookie, none longer than 896 bytes (stream_accepted) *)
Theorem C20_success_iff : forall ex sc, sc_strict sc = true -> exporter_ok ex ->
  (snd (exchange_keys ex (peer_of_script sc)) = 0 <->
   alpn_agreed sc = true /\ stream_accepted (sc_recs sc) (sc_cut sc) = true).
Proof. exact success_iff. Qed.
Print Assumptions C20_success_iff.

(* on success the keys are the two exporter values, the pool is exactly the cookies issued
   (in order), server and port are the ones named (last record of each kind) or else the
   key-exchange host and 123 *)
Theorem C20_success_data : forall ex sc, sc_strict sc = true -> exporter_ok ex ->
  snd (exchange_keys ex (peer_of_script sc)) = 0 ->
  fst (exchange_keys ex (peer_of_script sc)) = expected_data ex sc.
Proof. exact success_data. Qed.
Print Assumptions C20_success_data.

(* a stream truncated at any byte before the end-of-message record has arrived completely
   fails, whatever arrived before *)
Theorem C20_truncated_fails : forall ex sc, sc_strict sc = true -> exporter_ok ex ->
  (forall r, In r (delivered (sc_recs sc) (sc_cut sc)) -> r_type r <> 0) ->
  snd (exchange_keys ex (peer_of_script sc)) <> 0.
Proof. exact no_end_fails. Qed.
Print Assumptions C20_truncated_fails.

(* ---------- the same over QUIC/SCION (exchangeKeys with QUIC.Enabled); st = what the fetcher
   held before the call ---------- *)

(* success iff the QUIC handshake completed with ntske/1 (it cannot complete with anything else,
   C20_quic_handshake_only_ntske) and the records delivered are acceptable *)
Theorem C20_success_iff_quic : forall ex st sc, sc_strict sc = true -> exporter_ok ex ->
  (snd (exchange_keys_quic ex st (peer_of_script sc)) = 0 <->
   alpn_agreed_quic sc = true /\ stream_accepted (sc_recs sc) (sc_cut sc) = true).
Proof. exact success_iff_quic. Qed.
Print Assumptions C20_success_iff_quic.

(* on success: keys = exporter values, pool = cookies issued, server/port = the ones named or
   else the host of the configured remote address and 10123 (expected_data_quic) *)
Theorem C20_success_data_quic : forall ex st sc, sc_strict sc = true -> exporter_ok ex ->
  snd (exchange_keys_quic ex st (peer_of_script sc)) = 0 ->
  fst (exchange_keys_quic ex st (peer_of_script sc)) = expected_data_quic ex sc.
Proof. exact success_data_quic. Qed.
Print Assumptions C20_success_data_quic.

(* the default target spelled out: a peer that names neither server nor port *)
Theorem C20_quic_default_target : forall ex st sc, sc_strict sc = true -> exporter_ok ex ->
  snd (exchange_keys_quic ex st (peer_of_script sc)) = 0 ->
  (forall r, In r (sc_recs sc) -> r_type r <> 6 /\ r_type r <> 7) ->
  k_server (fst (exchange_keys_quic ex st (peer_of_script sc))) = sc_host sc /\
  k_port (fst (exchange_keys_quic ex st (peer_of_script sc))) = 10123.
Proof. exact quic_default_target. Qed.
Print Assumptions C20_quic_default_target.

Theorem C20_truncated_fails_quic : forall ex st sc, sc_strict sc = true -> exporter_ok ex ->
  (forall r, In r (delivered (sc_recs sc) (sc_cut sc)) -> r_type r <> 0) ->
  snd (exchange_keys_quic ex st (peer_of_script sc)) <> 0.
Proof. exact no_end_fails_quic. Qed.
Print Assumptions C20_truncated_fails_quic.

(* dialQUIC has no ALPN check of its own and needs none: a QUIC handshake in which the client
   offers only ntske/1 completes with ntske/1 or not at all *)
Theorem C20_quic_handshake_only_ntske : forall srv p,
  quic_negotiate [alpn_ntske] srv = HsOk p -> bytes_eqb p alpn_ntske = true.
Proof. exact quic_negotiate_ntske. Qed.
Print Assumptions C20_quic_handshake_only_ntske.

(* for ANY peer and byte stream: what a successful exchange over QUIC implies *)
Theorem C20_success_implies_quic : forall ex st p d, exchange_keys_quic ex st p = (d, 0) ->
  p_up p = true /\
  (exists proto, quic_negotiate [alpn_ntske] (p_alpn p) = HsOk proto /\ bytes_eqb proto alpn_ntske = true) /\
  k_cookies d <> [] /\ k_algo d = 15 /\
  ex exporter_label ctx_c2s key_len = Some (k_c2s d) /\ ex exporter_label ctx_s2c key_len = Some (k_s2c d) /\
  forallb cookie_fits (k_cookies d) = true.
Proof. exact exchange_success_facts_quic. Qed.
Print Assumptions C20_success_implies_quic.

(* every exchange over QUIC starts from the defaults returned by dialQUIC (fix commit 38f59d0,
   D-C20b): whatever the fetcher held before - server, port, keys of an earlier exchange - has
   no influence on the result; a failed dial leaves f.data as it was (FetchData then clears it) *)
Theorem C20_quic_exchange_ignores_previous_state : forall ex st st' p,
  exchange_keys_quic ex st p = exchange_keys_quic ex st' p \/
  (exchange_keys_quic ex st p = (st, e_dial) /\ exchange_keys_quic ex st' p = (st', e_dial)).
Proof. exact exchange_quic_ignores_state. Qed.
Print Assumptions C20_quic_exchange_ignores_previous_state.

Theorem C20_keys_agree_quic : forall ex st p dC dS dS',
  exchange_keys_quic ex st p = (dC, 0) -> export_keys ex dS = (dS', 0) ->
  k_c2s dC = k_c2s dS' /\ k_s2c dC = k_s2c dS' /\
  ex exporter_label ctx_c2s key_len = Some (k_c2s dC) /\ ex exporter_label ctx_s2c key_len = Some (k_s2c dC) /\
  ctx_c2s <> ctx_s2c.
Proof. exact keys_agree_quic. Qed.
Print Assumptions C20_keys_agree_quic.

(* the project's own key-exchange server over SCION (core/server/ntske_scion.go sends the same
   message of newNTSKEMsg) *)
Theorem C20_own_server_exchange_quic : forall ex st mk ip port host, exporter_ok ex ->
  body_ok ip -> (forall i, body_ok (mk i)) -> (forall i, Z.of_nat (length (mk i)) <= 896) -> 0 <= port < 65536 ->
  exists c2s s2c,
    ex exporter_label ctx_c2s key_len = Some c2s /\ ex exporter_label ctx_s2c key_len = Some s2c /\
    exchange_keys_quic ex st {| p_up := true; p_alpn := [alpn_ntske]; p_host := host; p_stream := server_msg mk ip port |}
    = ({| k_c2s := c2s; k_s2c := s2c; k_server := ip; k_port := port;
          k_cookies := map mk (seq 0 8); k_algo := 15 |}, 0).
Proof. exact own_server_exchange_quic. Qed.
Print Assumptions C20_own_server_exchange_quic.

(* ---------- either transport ---------- *)

(* for ANY peer and byte stream (conforming or not): success implies ALPN ntske/1 was
   negotiated, at least one cookie, algorithm 15, keys = exporter values of the session, and
   every cookie fits into an NTS packet (at most 896 bytes, fix commit df23410) *)
Theorem C20_success_implies : forall ex p d, exchange_keys ex p = (d, 0) ->
  p_up p = true /\
  (exists proto, tls_negotiate [alpn_ntske] (p_alpn p) = HsOk proto /\ bytes_eqb proto alpn_ntske = true) /\
  k_cookies d <> [] /\ k_algo d = 15 /\
  ex exporter_label ctx_c2s key_len = Some (k_c2s d) /\ ex exporter_label ctx_s2c key_len = Some (k_s2c d) /\
  forallb cookie_fits (k_cookies d) = true.
Proof. exact exchange_success_facts. Qed.
Print Assumptions C20_success_implies.

(* for ANY peer and byte stream, either transport: what a successful exchange leaves in the
   fetcher comes from the bytes this peer sent on this connection - every cookie of the pool is a
   piece of the stream, the server is the key-exchange host or a piece of the stream, the port is
   the standard port or two adjacent bytes of it (the clause the oracle applies to scripts that
   are not strict; nothing invented, nothing left over from an earlier exchange) *)
Theorem C20_data_come_from_the_stream : forall quic ex st p d, exchange_keys_of quic ex st p = (d, 0) ->
  (forall c, In c (k_cookies d) -> infix c (p_stream p)) /\
  (k_server d = p_host p \/ infix (k_server d) (p_stream p)) /\
  (k_port d = std_ntp_port quic \/ exists a b, infix [a; b] (p_stream p) /\ k_port d = a * 256 + b).
Proof. exact exchange_from_stream_of. Qed.
Print Assumptions C20_data_come_from_the_stream.

(* ---------- KNOWN FINDING (net/ntske ReadData, not repaired): read by the record framing of
   RFC 8915 - every body as long as its length field says - a message may hold a critical error
   record (or select another algorithm, or hold no cookie) and the exchange succeeds all the same,
   because ReadData reads exactly two bytes of a next-protocol, algorithm, port or error record
   whatever its length field says.  The clause "succeeds only if the peer ... terminates the
   record stream properly without an error record" is therefore FALSE of the code for framed
   scripts in general (witness sc_hidden: algorithm record listing 15 and 1, then a critical
   error record; harness kind ke.bodylen) ... *)
Theorem C20_error_record_hidden_refuted :
  ~ (forall quic ex st sc, sc_framed sc = true -> exporter_ok ex ->
       snd (exchange_keys_of quic ex st (peer_of_script sc)) = 0 ->
       stream_accepted (sc_recs sc) (sc_cut sc) = true).
Proof. exact error_record_hidden_refuted. Qed.
Print Assumptions C20_error_record_hidden_refuted.

(* the witness spelled out: framed, a critical error record among the records delivered, not
   acceptable - and both branches of exchangeKeys succeed with algorithm 15 and one cookie *)
Theorem C20_error_record_hidden_witness :
  sc_framed sc_hidden = true /\
  (exists r, In r (delivered (sc_recs sc_hidden) (sc_cut sc_hidden)) /\ r_type r = 2 /\ r_crit r = true) /\
  stream_accepted (sc_recs sc_hidden) (sc_cut sc_hidden) = false /\
  exchange_keys ex_ctx (peer_of_script sc_hidden)
  = ({| k_c2s := ctx_c2s; k_s2c := ctx_s2c; k_server := [49]; k_port := 123; k_cookies := [[7; 7; 7; 7]]; k_algo := 15 |}, 0) /\
  exchange_keys_quic ex_ctx kzero (peer_of_script sc_hidden)
  = ({| k_c2s := ctx_c2s; k_s2c := ctx_s2c; k_server := [49]; k_port := 10123; k_cookies := [[7; 7; 7; 7]]; k_algo := 15 |}, 0).
Proof. exact hidden_witness. Qed.
Print Assumptions C20_error_record_hidden_witness.

(* ... and TRUE when the fixed-size records have 2-byte bodies (strict scripts): then the code's
   parse is the framed parse - the record loop returns exactly what the oracle's scan of the
   records delivered says - *)
Theorem C20_code_parse_is_framed_parse_when_canonical : forall sc d0, sc_strict sc = true ->
  match scan (delivered (sc_recs sc) (sc_cut sc)) acc0 with
  | (Accepted, a) => read_stream (script_stream sc) d0 = (apply_acc d0 a, 0)
  | (_, _) => snd (read_stream (script_stream sc) d0) <> 0
  end.
Proof. exact read_script. Qed.
Print Assumptions C20_code_parse_is_framed_parse_when_canonical.

(* - and the framed oracle (C20_ok and: a successful exchange with a framed script has an
   acceptable framed message) accepts every history of the model against strict scripts *)
Theorem C20_framed_oracle_holds_when_canonical : forall quic ms, Forall mop_ok ms -> Forall mop_strict ms ->
  C20_framed_ok quic (map op_of ms) (model_run quic kzero ms) = true.
Proof. exact framed_oracle_holds_strict. Qed.
Print Assumptions C20_framed_oracle_holds_when_canonical.

(* unrecognised non-critical records can be deleted from (or inserted into) a stream without
   changing data or result *)
Theorem C20_noncritical_ignored : forall rs s d, Forall (fun r => rec_canonical r = true) rs ->
  read_stream (wire (filter (fun r => negb (ignorable r)) rs) ++ s) d = read_stream (wire rs ++ s) d.
Proof. exact noncritical_ignored. Qed.
Print Assumptions C20_noncritical_ignored.

(* the result does not depend on how the transport cuts the stream into pieces *)
Theorem C20_chunking_irrelevant : forall cs d, read_stream_chunks cs d = read_stream (concat cs) d.
Proof. exact chunking_irrelevant. Qed.
Print Assumptions C20_chunking_irrelevant.

(* the record loop terminates: the fuel given is never exhausted *)
Theorem C20_read_fuel_sufficient : forall s d, snd (read_stream s d) <> e_fuel.
Proof. exact read_stream_fuel_sufficient. Qed.
Print Assumptions C20_read_fuel_sufficient.

(* client and server apply ExportKeys to the same session: identical C2S and S2C keys, which
   are the RFC 8915 exporter values; the two contexts differ *)
Theorem C20_keys_agree : forall ex p dC dS dS',
  exchange_keys ex p = (dC, 0) -> export_keys ex dS = (dS', 0) ->
  k_c2s dC = k_c2s dS' /\ k_s2c dC = k_s2c dS' /\
  ex exporter_label ctx_c2s key_len = Some (k_c2s dC) /\ ex exporter_label ctx_s2c key_len = Some (k_s2c dC) /\
  ctx_c2s <> ctx_s2c.
Proof. exact keys_agree. Qed.
Print Assumptions C20_keys_agree.

(* the project's own key-exchange server (message of newNTSKEMsg: next protocol, algorithm 15,
   server = its IP, port, eight cookies, end) against the client: the exchange succeeds, the
   client's keys are the exporter values of the session - the values the server sealed into
   the cookies, see C20_keys_agree -, the pool is exactly the eight cookies issued, the target
   is the address and port the server named *)
Theorem C20_own_server_exchange : forall ex mk ip port host, exporter_ok ex ->
  body_ok ip -> (forall i, body_ok (mk i)) -> (forall i, Z.of_nat (length (mk i)) <= 896) -> 0 <= port < 65536 ->
  exists c2s s2c,
    ex exporter_label ctx_c2s key_len = Some c2s /\ ex exporter_label ctx_s2c key_len = Some s2c /\
    exchange_keys ex {| p_up := true; p_alpn := [alpn_ntske]; p_host := host; p_stream := server_msg mk ip port |}
    = ({| k_c2s := c2s; k_s2c := s2c; k_server := ip; k_port := port;
          k_cookies := map mk (seq 0 8); k_algo := 15 |}, 0).
Proof. exact own_server_exchange. Qed.
Print Assumptions C20_own_server_exchange.

(* a failed FetchData leaves the zero state, and it was an exchange attempt (either transport) *)
Theorem C20_failure_leaves_nothing : forall quic ex st p st' fo,
  fetch_data quic ex st p = (st', fo) -> fo_err fo <> 0 -> st' = kzero /\ fo_exchanged fo = true.
Proof. exact fetch_failure_clears. Qed.
Print Assumptions C20_failure_leaves_nothing.

(* with an empty pool (in particular after a failure) FetchData is a complete exchange whose
   outcome depends on nothing the fetcher held before (either transport; over QUIC this rests
   on C20_quic_exchange_ignores_previous_state) *)
Theorem C20_next_attempt_is_complete_exchange : forall quic ex st p, k_cookies st = [] ->
  fetch_data quic ex st p = fetch_data quic ex kzero p /\
  fo_exchanged (snd (fetch_data quic ex st p)) = true /\
  fo_err (snd (fetch_data quic ex st p)) = snd (exchange_keys_of quic ex st p) /\
  (snd (exchange_keys_of quic ex st p) = 0 ->
     fo_data (snd (fetch_data quic ex st p)) = fst (exchange_keys_of quic ex st p) /\
     fst (fetch_data quic ex st p) = set_cookies (fst (exchange_keys_of quic ex st p)) (tl (k_cookies (fst (exchange_keys_of quic ex st p))))).
Proof. intros quic ex st p H. split; [apply fetch_fresh_independent; exact H|apply fetch_exchange_result; exact H]. Qed.
Print Assumptions C20_next_attempt_is_complete_exchange.

(* while cookies are left there is no exchange: the cached data is returned and one cookie used *)
Theorem C20_rekey_only_when_pool_empty : forall quic ex st p c rest, k_cookies st = c :: rest ->
  fetch_data quic ex st p = (set_cookies st rest, {| fo_err := 0; fo_data := st; fo_exchanged := false |}).
Proof. exact fetch_cached. Qed.
Print Assumptions C20_rekey_only_when_pool_empty.

(* StoreCookie keeps at most MaxStoredCookies = 8 unused cookies (fix for the pool cap): a pool of
   at most 8 cookies stays at most 8 through any number of StoreCookie calls, and a pool that holds
   8 or more is not changed by StoreCookie at all *)
Theorem C20_store_cookie_cap : forall st cs, Z.of_nat (length (k_cookies st)) <= 8 ->
  Z.of_nat (length (k_cookies (stores st cs))) <= 8.
Proof. intros st cs. exact (stores_cap cs st). Qed.
Print Assumptions C20_store_cookie_cap.

Theorem C20_store_cookie_full_pool_unchanged : forall st c,
  8 <= Z.of_nat (length (k_cookies st)) -> store_cookie st c = st.
Proof. exact store_cookie_no_growth_above. Qed.
Print Assumptions C20_store_cookie_full_pool_unchanged.

(* FetchData is not capped: answered from the pool it removes one cookie; after an exchange the
   pool is empty (failure) or the cookies the exchange returned minus the one handed out,
   however many the key-exchange message held (C20_success_data: exactly the cookies issued) *)
Theorem C20_fetch_pool_after : forall quic ex st p,
  k_cookies (fst (fetch_data quic ex st p)) = tl (k_cookies st) \/
  (k_cookies st = [] /\ (k_cookies (fst (fetch_data quic ex st p)) = [] \/
     exists d, exchange_keys_of quic ex st p = (d, 0) /\ k_cookies (fst (fetch_data quic ex st p)) = tl (k_cookies d))).
Proof. exact fetch_pool_after. Qed.
Print Assumptions C20_fetch_pool_after.

(* ---------- the hypotheses are satisfiable; concrete runs of the model ---------- *)

Definition ex_demo : exporter := fun _ ctx _ => Some ctx.
Definition rec_np := {| r_type := 1; r_crit := true; r_body := [0; 0] |}.
Definition rec_alg := {| r_type := 4; r_crit := true; r_body := [0; 15] |}.
Definition rec_ck (b : Z) := {| r_type := 5; r_crit := false; r_body := [b; b] |}.
Definition rec_end := {| r_type := 0; r_crit := true; r_body := [] |}.
Definition rec_err := {| r_type := 2; r_crit := true; r_body := [0; 1] |}.
Definition sc_good := {| sc_mode := 0; sc_alpn := [ntske1]; sc_recs := [rec_np; rec_alg; rec_ck 7; rec_ck 8; rec_end];
                         sc_tail := []; sc_cut := 100; sc_host := [49] |}.
(* the history of the defect fixed by 233a8d6: two cookies, then an error record *)
Definition sc_bad := {| sc_mode := 0; sc_alpn := [ntske1]; sc_recs := [rec_np; rec_alg; rec_ck 7; rec_ck 8; rec_err];
                        sc_tail := []; sc_cut := 100; sc_host := [49] |}.
Definition sc_none := {| sc_mode := 1; sc_alpn := []; sc_recs := []; sc_tail := []; sc_cut := 0; sc_host := [50] |}.

Example C20_nonvacuous :
  exporter_ok ex_demo /\ sc_strict sc_good = true /\ sc_strict sc_bad = true /\
  snd (exchange_keys ex_demo (peer_of_script sc_good)) = 0 /\
  k_cookies (fst (exchange_keys ex_demo (peer_of_script sc_good))) = [[7; 7]; [8; 8]] /\
  map o_err (model_run false kzero [MFetch sc_bad ex_demo; MFetch sc_none ex_demo; MFetch sc_good ex_demo;
                                    MFetch sc_none ex_demo; MFetch sc_none ex_demo]) = [5; 11; 0; 0; 11].
Proof.
  split; [exists ctx_c2s, ctx_s2c; split; reflexivity|]. repeat split; vm_compute; reflexivity.
Qed.

(* over QUIC: the history of D-C20b - a peer names 10.1.1.1:4123 and issues one cookie, the next
   exchange names nothing: its target is the key-exchange host and 10123, not the stale one; a
   peer without ntske/1 in its ALPN list gives a dial error *)
Definition rec_srv := {| r_type := 6; r_crit := false; r_body := [49; 48; 46; 49; 46; 49; 46; 49] |}.
Definition rec_prt := {| r_type := 7; r_crit := false; r_body := [16; 27] |}.
Definition sc_named := {| sc_mode := 0; sc_alpn := [ntske1]; sc_recs := [rec_np; rec_alg; rec_srv; rec_prt; rec_ck 7; rec_end];
                          sc_tail := []; sc_cut := 100; sc_host := [49] |}.
Definition sc_plain := {| sc_mode := 0; sc_alpn := [ntske1]; sc_recs := [rec_np; rec_alg; rec_ck 9; rec_end];
                          sc_tail := []; sc_cut := 100; sc_host := [49] |}.
Definition sc_h2 := {| sc_mode := 0; sc_alpn := [[104; 50]]; sc_recs := [rec_np; rec_alg; rec_ck 9; rec_end];
                       sc_tail := []; sc_cut := 100; sc_host := [49] |}.

Example C20_nonvacuous_quic :
  sc_strict sc_named = true /\ sc_strict sc_plain = true /\
  alpn_agreed_quic sc_plain = true /\ alpn_agreed_quic sc_h2 = false /\
  map (fun o => (o_err o, k_server (o_data o), k_port (o_data o)))
      (model_run true kzero [MFetch sc_named ex_demo; MFetch sc_plain ex_demo; MFetch sc_bad ex_demo; MFetch sc_h2 ex_demo])
  = [(0, [49; 48; 46; 49; 46; 49; 46; 49], 4123); (0, [49], 10123); (5, [], 0); (11, [], 0)].
Proof. repeat split; vm_compute; reflexivity. Qed.
