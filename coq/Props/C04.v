(* C04 — NTP timestamp conversion is exact to 1 ns within +-2^31 s, across eras.
   Statements only; proofs live in Proofs/NtpTimeProofs.v. *)
From ST Require Import Base.Ints Model.NtpTime Proofs.NtpTimeProofs Proofs.NtpTimeDecodeProofs.
Open Scope Z_scope.

(* for every reference time from 1970 on (Unix seconds below 2^60) and every time
   whose whole-second distance from the reference lies in [-2^31, 2^31):
   to Time64 and back gives a time not later than the original, at most 1 ns earlier *)
Theorem C04_roundtrip : forall t tref,
  0 <= time_sec tref < 2^60 -> in_window t tref ->
  t - 1 <= time_of_time64 (time64_of_time t) tref <= t.
Proof. exact roundtrip. Qed.
Print Assumptions C04_roundtrip.

Theorem C04_roundtrip_same_second : forall t tref,
  0 <= time_sec tref < 2^60 -> in_window t tref ->
  time_sec (time_of_time64 (time64_of_time t) tref) = time_sec t.
Proof. exact roundtrip_same_second. Qed.
Print Assumptions C04_roundtrip_same_second.

Theorem C04_order_preserved : forall t1 t2 tref,
  0 <= time_sec tref < 2^60 -> in_window t1 tref -> in_window t2 tref -> t1 <= t2 ->
  time_of_time64 (time64_of_time t1) tref <= time_of_time64 (time64_of_time t2) tref.
Proof. exact order_preserved. Qed.
Print Assumptions C04_order_preserved.

(* the executable oracle evaluated on implementation observations accepts the model *)
Theorem C04_model_meets_oracle : forall t tref, time_sec tref < 2^60 ->
  C04_roundtrip_ok t tref (time_of_time64 (time64_of_time t) tref) = true.
Proof. exact model_meets_oracle. Qed.
Print Assumptions C04_model_meets_oracle.

(* regression lemma about the pinned (pre-fix) definition: D-C04 *)
Theorem C04_roundtrip_refuted_pinned :
  exists t tref, (0 <= time_sec tref < 2^60) /\ in_window t tref /\
    time_of_time64_pinned (time64_of_time t) tref = t + 4294967296 * 1000000000.
Proof. exact roundtrip_refuted_pinned. Qed.
Print Assumptions C04_roundtrip_refuted_pinned.

(* The property's window read literally (nanosecond granularity, -2^31 s <= t - tref < 2^31 s):
   the round trip holds everywhere in it except in the one-second band at the upper edge where
   the whole seconds differ by exactly 2^31 (and t's sub-second part is smaller than the
   reference's) ... *)
Theorem C04_roundtrip_ns_window : forall t tref,
  0 <= time_sec tref < 2^60 -> in_window_ns t tref -> time_sec t - time_sec tref <> 2147483648 ->
  t - 1 <= time_of_time64 (time64_of_time t) tref <= t.
Proof. exact roundtrip_ns. Qed.
Print Assumptions C04_roundtrip_ns_window.

(* ... and in that band the code, which compares whole seconds, unfolds into the previous era:
   reference 2023-11-14T22:13:20.999999999Z, time 2^31 s later at .000000000 (t - tref =
   2^31 s - 999999999 ns, inside the window) comes back 2^32 s early.  Recorded finding
   (KNOWN_FINDINGS.txt, case kind ntp.edge). *)
Theorem C04_roundtrip_ns_window_refuted :
  let tref := mk_time 1700000000 999999999 in
  let t := mk_time (1700000000 + 2147483648) 0 in
  in_window_ns t tref /\ time_of_time64 (time64_of_time t) tref = t - 4294967296 * 1000000000.
Proof. cbv zeta. split; [unfold in_window_ns, mk_time, nanos_per_sec; lia|vm_compute; reflexivity]. Qed.
Print Assumptions C04_roundtrip_ns_window_refuted.

(* The decoding direction, for all 2^32 seconds fields and all 2^32 fractions: whatever the
   timestamp, the decoded time lies in the reference's window, encodes back to the same seconds
   field, and to a fraction at most 5 units (1.2 ns) below the original and never above it. *)
Theorem C04_decode_encode : forall s f tref,
  0 <= time_sec tref < 2^60 -> 0 <= s < 4294967296 -> 0 <= f < 4294967296 ->
  let t := time_of_time64 {| t64_sec := s; t64_frac := f |} tref in
  in_window t tref /\ t64_sec (time64_of_time t) = s /\
  f - 5 <= t64_frac (time64_of_time t) <= f.
Proof. exact decode_encode. Qed.
Print Assumptions C04_decode_encode.

(* the decoded nanosecond is the fraction truncated to whole nanoseconds *)
Theorem C04_decode_nsec : forall s f tref, 0 <= f < 4294967296 ->
  let t := time_of_time64 {| t64_sec := s; t64_frac := f |} tref in
  time_nsec t * 4294967296 <= f * 1000000000 < (time_nsec t + 1) * 4294967296.
Proof. exact decode_nsec. Qed.
Print Assumptions C04_decode_nsec.

(* the oracle evaluated on the implementation's decoded times (case kind ntp.from64) accepts the model *)
Theorem C04_decode_meets_oracle : forall s f tref, 0 <= s < 4294967296 -> 0 <= f < 4294967296 ->
  C04_decode_ok s f tref (time_of_time64 {| t64_sec := s; t64_frac := f |} tref) = true.
Proof. exact decode_meets_oracle. Qed.
Print Assumptions C04_decode_meets_oracle.

(* order is reflected as well as preserved, and strictly preserved from 2 ns apart *)
Theorem C04_order_reflected : forall t1 t2 tref,
  0 <= time_sec tref < 2^60 -> in_window t1 tref -> in_window t2 tref ->
  time_of_time64 (time64_of_time t1) tref < time_of_time64 (time64_of_time t2) tref -> t1 < t2.
Proof. exact order_reflected. Qed.
Print Assumptions C04_order_reflected.

Theorem C04_order_strict : forall t1 t2 tref,
  0 <= time_sec tref < 2^60 -> in_window t1 tref -> in_window t2 tref -> t1 + 2 <= t2 ->
  time_of_time64 (time64_of_time t1) tref < time_of_time64 (time64_of_time t2) tref.
Proof. exact order_strict. Qed.
Print Assumptions C04_order_strict.

(* the hypotheses are met across the era boundary of February 2036 *)
Theorem C04_era_crossing_witness :
  let tref := mk_time 2085978500 5 in
  let t := mk_time 2085978490 123456789 in
  time_sec tref = 2085978500 /\ time_sec t - time_sec tref = -10 /\
  t64_sec (time64_of_time t) = 4294967290 /\
  time_of_time64 (time64_of_time t) tref = t - 1.
Proof. exact era_crossing. Qed.
Print Assumptions C04_era_crossing_witness.
