(* C14 - wire codecs are exact inverses and preserve field kinds.
   Statements only; proofs live in Proofs/Codec*Proofs.v. *)
From ST Require Import Base.Ints Base.Bytes Model.CodecNtp Proofs.CodecNtpProofs.
Open Scope Z_scope.

(* ---------------- NTP header ---------------- *)

(* for every packet whose fields lie in the ranges of their Go types: decoding the
   encoding (followed by any trailing bytes, into any packet) returns the packet *)
Theorem C14_ntp_dec_enc : forall p p0 rest,
  ntp_wf p -> ntp_decode p0 (ntp_encode p ++ rest) = (p, true).
Proof. exact ntp_dec_enc. Qed.
Print Assumptions C14_ntp_dec_enc.

(* for every byte string of at least 48 bytes: decoding succeeds and re-encoding the
   decoded packet reproduces its first 48 bytes *)
Theorem C14_ntp_enc_dec : forall p0 b,
  bytes_ok b -> (48 <= length b)%nat ->
  exists p, ntp_decode p0 b = (p, true) /\ ntp_encode p = firstn 48 b /\ ntp_wf p.
Proof. exact ntp_enc_dec. Qed.
Print Assumptions C14_ntp_enc_dec.

Theorem C14_ntp_short : forall p0 b, (length b < 48)%nat -> ntp_decode p0 b = (p0, false).
Proof. exact ntp_decode_short. Qed.
Print Assumptions C14_ntp_short.

(* leap / version / mode are the bit fields 7..6, 5..3, 2..0 of the first byte *)
Theorem C14_ntp_lvm : forall p, 0 <= np_lvm p < 256 ->
  ntp_leap p = np_lvm p / 64 /\ ntp_version p = np_lvm p / 8 mod 8 /\ ntp_mode p = np_lvm p mod 8.
Proof. exact ntp_lvm_fields. Qed.
Print Assumptions C14_ntp_lvm.

(* a setter changes its own field only and panics exactly when the value does not fit *)
Theorem C14_ntp_setters : forall which p a,
  0 <= which < 3 -> 0 <= np_lvm p < 256 -> 0 <= a < 256 ->
  match apply_set which p a with
  | Some q => 0 <= np_lvm q < 256 /\ q = with_lvm p (np_lvm q) /\
              C14_ntp_set_ok which (np_lvm p) a false (ntp_leap q) (ntp_version q) (ntp_mode q) = true
  | None => C14_ntp_set_ok which (np_lvm p) a true (ntp_leap p) (ntp_version p) (ntp_mode p) = true
  end.
Proof. exact ntp_setters. Qed.
Print Assumptions C14_ntp_setters.

(* the property oracle accepts what the model does, for all packets / all byte strings *)
Theorem C14_ntp_enc_meets_oracle : forall p p0, ntp_wf p ->
  let e := ntp_encode p in let d := ntp_decode p0 e in
  C14_ntp_enc_ok (ntp_to_list p) e (snd d) (ntp_to_list (fst d))
    (ntp_leap (fst d)) (ntp_version (fst d)) (ntp_mode (fst d)) = true.
Proof. exact ntp_enc_meets_oracle. Qed.
Print Assumptions C14_ntp_enc_meets_oracle.

Theorem C14_ntp_dec_meets_oracle : forall p0 b, bytes_ok b ->
  let d := ntp_decode p0 b in
  C14_ntp_dec_ok b (snd d) (ntp_encode (fst d)) (ntp_leap (fst d)) (ntp_version (fst d)) (ntp_mode (fst d)) = true.
Proof. exact ntp_dec_meets_oracle. Qed.
Print Assumptions C14_ntp_dec_meets_oracle.
