(* C14 - wire codecs are exact inverses and preserve field kinds.
   Statements only; proofs live in Proofs/Codec*Proofs.v. *)
From ST Require Import Base.Ints Base.Bytes Model.CodecNtp Proofs.CodecNtpProofs
  Model.CodecCsptp Proofs.CodecCsptpProofs Model.CodecNtske Proofs.CodecNtskeProofs
  Model.CodecCookie Proofs.CodecCookieProofs Model.CodecNts Proofs.CodecNtsProofs.
Open Scope Z_scope.

(* ---------------- NTP header ---------------- *)

(* for every packet whose fields lie in the ranges of their Go types: decoding the
   encoding (followed by any trailing bytes, into any packet) returns the packet *)
Theorem C14_ntp_dec_enc : forall p p0 rest,
  ntp_wf p -> ntp_decode p0 (ntp_encode p ++ rest) = (p, true).
Proof. exact ntp_dec_enc. Qed.
Print Assumptions C14_ntp_dec_enc.

(* for every byte string of at least 48 bytes: decoding succeeds and re-encoding the
   decoded packet reproduces its first 48 bytes *)
Theorem C14_ntp_enc_dec : forall p0 b,
  bytes_ok b -> (48 <= length b)%nat ->
  exists p, ntp_decode p0 b = (p, true) /\ ntp_encode p = firstn 48 b /\ ntp_wf p.
Proof. exact ntp_enc_dec. Qed.
Print Assumptions C14_ntp_enc_dec.

Theorem C14_ntp_short : forall p0 b, (length b < 48)%nat -> ntp_decode p0 b = (p0, false).
Proof. exact ntp_decode_short. Qed.
Print Assumptions C14_ntp_short.

(* leap / version / mode are the bit fields 7..6, 5..3, 2..0 of the first byte *)
Theorem C14_ntp_lvm : forall p, 0 <= np_lvm p < 256 ->
  ntp_leap p = np_lvm p / 64 /\ ntp_version p = np_lvm p / 8 mod 8 /\ ntp_mode p = np_lvm p mod 8.
Proof. exact ntp_lvm_fields. Qed.
Print Assumptions C14_ntp_lvm.

(* a setter changes its own field only and panics exactly when the value does not fit *)
Theorem C14_ntp_setters : forall which p a,
  0 <= which < 3 -> 0 <= np_lvm p < 256 -> 0 <= a < 256 ->
  match apply_set which p a with
  | Some q => 0 <= np_lvm q < 256 /\ q = with_lvm p (np_lvm q) /\
              C14_ntp_set_ok which (np_lvm p) a false (ntp_leap q) (ntp_version q) (ntp_mode q) = true
  | None => C14_ntp_set_ok which (np_lvm p) a true (ntp_leap p) (ntp_version p) (ntp_mode p) = true
  end.
Proof. exact ntp_setters. Qed.
Print Assumptions C14_ntp_setters.

(* the property oracle accepts what the model does, for all packets / all byte strings *)
Theorem C14_ntp_enc_meets_oracle : forall p p0, ntp_wf p ->
  let e := ntp_encode p in let d := ntp_decode p0 e in
  C14_ntp_enc_ok (ntp_to_list p) e (snd d) (ntp_to_list (fst d))
    (ntp_leap (fst d)) (ntp_version (fst d)) (ntp_mode (fst d)) = true.
Proof. exact ntp_enc_meets_oracle. Qed.
Print Assumptions C14_ntp_enc_meets_oracle.

Theorem C14_ntp_dec_meets_oracle : forall p0 b, bytes_ok b ->
  let d := ntp_decode p0 b in
  C14_ntp_dec_ok b (snd d) (ntp_encode (fst d)) (ntp_leap (fst d)) (ntp_version (fst d)) (ntp_mode (fst d)) = true.
Proof. exact ntp_dec_meets_oracle. Qed.
Print Assumptions C14_ntp_dec_meets_oracle.

(* ---------------- CSPTP message and TLVs ---------------- *)

(* Message: for every well-formed value and every buffer of at least 44 bytes the encoder
   writes exactly bytes 0..43 (the rest of the buffer keeps its content), decoding the
   buffer returns the value, and decoding one byte fewer than the 44 written fails *)
Theorem C14_csptp_msg_dec_enc : forall m b,
  msg_wf m -> (44 <= length b)%nat ->
  exists e, csptp_encode_msg b m = Ok e /\ length e = length b /\ skipn 44 e = skipn 44 b /\ bytes_ok (firstn 44 e) /\
            forall m0, csptp_decode_msg m0 e = (m, true) /\ csptp_decode_msg m0 (firstn 43 e) = (m0, false).
Proof. exact csptp_msg_dec_enc. Qed.
Print Assumptions C14_csptp_msg_dec_enc.

(* re-encoding a decoded header reproduces its 44 bytes *)
Theorem C14_csptp_msg_enc_dec : forall m0 b b',
  bytes_ok b -> (44 <= length b)%nat -> (44 <= length b')%nat ->
  exists m, csptp_decode_msg m0 b = (m, true) /\ msg_wf m /\
            csptp_encode_msg b' m = Ok (firstn 44 b ++ skipn 44 b').
Proof. exact csptp_msg_enc_dec. Qed.
Print Assumptions C14_csptp_msg_enc_dec.

Theorem C14_csptp_msg_short : forall m m0 b, (length b < 44)%nat ->
  csptp_encode_msg b m = Panic /\ csptp_decode_msg m0 b = (m0, false).
Proof. intros m m0 b H. split; [apply csptp_msg_short_panics | apply csptp_msg_decode_short]; exact H. Qed.
Print Assumptions C14_csptp_msg_short.

(* request TLV at its declared length tlv_len (36, or 54 with the ServerStateDS flag) *)
Theorem C14_csptp_req_dec_enc : forall t b,
  req_wf t -> (tlv_len t <= length b)%nat ->
  exists e, csptp_encode_req b t = Ok e /\ length e = length b /\ skipn (tlv_len t) e = skipn (tlv_len t) b /\
            bytes_ok (firstn (tlv_len t) e) /\
            forall t0, csptp_decode_req t0 e = (t, true) /\
                       snd (csptp_decode_req t0 (firstn (tlv_len t - 1) e)) = false.
Proof. exact csptp_req_dec_enc. Qed.
Print Assumptions C14_csptp_req_dec_enc.

Theorem C14_csptp_req_short : forall t b, (length b < tlv_len t)%nat -> csptp_encode_req b t = Panic.
Proof. exact csptp_req_short_panics. Qed.
Print Assumptions C14_csptp_req_short.

(* decode then re-encode: the 14 meaningful bytes come back, the padding as zeros *)
Theorem C14_csptp_req_enc_dec : forall t0 b b',
  bytes_ok b -> (14 <= length b)%nat ->
  let t := fst (csptp_decode_req t0 b) in
  req_wf t /\ (snd (csptp_decode_req t0 b) = true <-> (tlv_len t <= length b)%nat) /\
  ((tlv_len t <= length b')%nat ->
   csptp_encode_req b' t = Ok (firstn 14 b ++ repeat 0 (tlv_len t - 14) ++ skipn (tlv_len t) b')).
Proof. exact csptp_req_enc_dec. Qed.
Print Assumptions C14_csptp_req_enc_dec.

(* response TLV; well-formed = fields in range and ServerStateDS zero unless the flag is set *)
Theorem C14_csptp_resp_dec_enc : forall t b,
  resp_wf t -> (tlv_len t <= length b)%nat ->
  exists e, csptp_encode_resp b t = Ok e /\ length e = length b /\ skipn (tlv_len t) e = skipn (tlv_len t) b /\
            bytes_ok (firstn (tlv_len t) e) /\
            forall t0, csptp_decode_resp t0 e = (t, true) /\
                       snd (csptp_decode_resp t0 (firstn (tlv_len t - 1) e)) = false.
Proof. exact csptp_resp_dec_enc. Qed.
Print Assumptions C14_csptp_resp_dec_enc.

Theorem C14_csptp_resp_short : forall t b, (length b < tlv_len t)%nat -> csptp_encode_resp b t = Panic.
Proof. exact csptp_resp_short_panics. Qed.
Print Assumptions C14_csptp_resp_short.

(* every byte string of at least 14 bytes: either it is shorter than the length its own flag
   field declares and decoding fails, or it decodes to a well-formed value whose
   re-encoding reproduces the declared number of bytes *)
Theorem C14_csptp_resp_enc_dec : forall t0 b b',
  bytes_ok b -> (14 <= length b)%nat ->
  let h := dec_fields tlv_head_layout b in
  (length b < tlv_len h)%nat /\ snd (csptp_decode_resp t0 b) = false \/
  (tlv_len h <= length b)%nat /\
  exists t, csptp_decode_resp t0 b = (t, true) /\ resp_wf t /\ tlv_len t = tlv_len h /\
            ((tlv_len t <= length b')%nat ->
             csptp_encode_resp b' t = Ok (firstn (tlv_len t) b ++ skipn (tlv_len t) b')).
Proof. exact csptp_resp_enc_dec. Qed.
Print Assumptions C14_csptp_resp_enc_dec.

Theorem C14_csptp_msg_meets_oracle : forall m b m0, msg_wf m -> bytes_ok b ->
  let o := csptp_encode_msg b m in let e := ok_of o b in
  C14_fixed_enc_ok 44 m b (panicked o) e (snd (csptp_decode_msg m0 e)) (fst (csptp_decode_msg m0 e))
     (snd (csptp_decode_msg m0 (firstn 43 e))) = true.
Proof. exact msg_meets_oracle. Qed.
Print Assumptions C14_csptp_msg_meets_oracle.

Theorem C14_csptp_req_meets_oracle : forall t b t0, req_wf t -> bytes_ok b ->
  let o := csptp_encode_req b t in let e := ok_of o b in
  C14_fixed_enc_ok (tlv_len t) t b (panicked o) e (snd (csptp_decode_req t0 e)) (fst (csptp_decode_req t0 e))
     (snd (csptp_decode_req t0 (firstn (tlv_len t - 1) e))) = true.
Proof. exact req_meets_oracle. Qed.
Print Assumptions C14_csptp_req_meets_oracle.

Theorem C14_csptp_resp_meets_oracle : forall t b t0, resp_wf t -> bytes_ok b ->
  let o := csptp_encode_resp b t in let e := ok_of o b in
  C14_fixed_enc_ok (tlv_len t) t b (panicked o) e (snd (csptp_decode_resp t0 e)) (fst (csptp_decode_resp t0 e))
     (snd (csptp_decode_resp t0 (firstn (tlv_len t - 1) e))) = true.
Proof. exact resp_meets_oracle. Qed.
Print Assumptions C14_csptp_resp_meets_oracle.

(* ---------------- server cookies ---------------- *)

(* ServerCookie (Algo, S2C, C2S) and EncryptedServerCookie (ID, Nonce, Ciphertext): for every
   value whose byte strings are shorter than 2^16, decoding the encoding into any cookie
   struct returns the value *)
Theorem C14_cookie_tlv_server : forall c c0, ck_wf c ->
  ck_decode server_cookie_types c0 (ck_encode server_cookie_types c) = (c, true).
Proof. exact server_cookie_dec_enc. Qed.
Print Assumptions C14_cookie_tlv_server.

Theorem C14_cookie_tlv_encrypted : forall c c0, ck_wf c ->
  ck_decode encrypted_cookie_types c0 (ck_encode encrypted_cookie_types c) = (c, true).
Proof. exact encrypted_cookie_dec_enc. Qed.
Print Assumptions C14_cookie_tlv_encrypted.

(* the decoder's loop never runs out of the fuel it is given, whatever the input *)
Theorem C14_cookie_decode_total : forall ty c0 b,
  snd (ck_decode_loop (length b) ty b c0 false false false) = true.
Proof. exact ck_decode_total. Qed.
Print Assumptions C14_cookie_decode_total.

Theorem C14_cookie_meets_oracle : forall c c0, ck_wf c ->
  (let e := ck_encode server_cookie_types c in
   C14_cookie_ok c e (snd (ck_decode server_cookie_types c0 e)) (fst (ck_decode server_cookie_types c0 e)) = true) /\
  (let e := ck_encode encrypted_cookie_types c in
   C14_cookie_ok c e (snd (ck_decode encrypted_cookie_types c0 e)) (fst (ck_decode encrypted_cookie_types c0 e)) = true).
Proof. intros c c0 H. split; [apply server_cookie_meets_oracle | apply encrypted_cookie_meets_oracle]; exact H. Qed.
Print Assumptions C14_cookie_meets_oracle.

(* ---------------- NTS-KE records and ReadData ---------------- *)

(* a message of canonical records (NextProto, one-algorithm Algorithm, Server, Port, Cookie with
   16-bit lengths) closed by End, followed by anything: ReadData returns without error the
   data the records spell (cookies appended in order) and leaves what follows End unread *)
Theorem C14_ntske_records : forall rs rest d,
  forallb canonical rs = true ->
  read_data_flat (pack_msg (rs ++ [REnd]) ++ rest) d = (fold_left apply_record rs d, 0, rest).
Proof. exact records_roundtrip. Qed.
Print Assumptions C14_ntske_records.

(* for EVERY segmentation of the byte stream into reads (the reader answers each Read with
   any non-empty prefix of what is left), every stream (valid or not) and every initial Data:
   same Data, same error class, same unread rest as reading the stream in one piece *)
Theorem C14_ntske_segmentation : forall s sch d,
  let '(d1, e1, r1) := read_data_chunked {| rd_rest := s; rd_sched := sch |} d in
  let '(d2, e2, s2) := read_data_flat s d in
  d1 = d2 /\ e1 = e2 /\ rd_rest r1 = s2.
Proof. exact read_data_segmentation. Qed.
Print Assumptions C14_ntske_segmentation.

Theorem C14_ntske_records_segmented : forall rs rest d sch,
  forallb canonical rs = true ->
  let '(d1, e1, r1) := read_data_chunked {| rd_rest := pack_msg (rs ++ [REnd]) ++ rest; rd_sched := sch |} d in
  d1 = fold_left apply_record rs d /\ e1 = 0 /\ rd_rest r1 = rest.
Proof. exact records_roundtrip_chunked. Qed.
Print Assumptions C14_ntske_records_segmented.

(* io.ReadFull over any schedule of partial reads = cutting n bytes off the stream *)
Theorem C14_ntske_readfull : forall n r,
  match rf_flat n (rd_rest r) with
  | Ok (b, s') => exists sch, rf_chunked n r = Ok (b, {| rd_rest := s'; rd_sched := sch |})
  | Err e => rf_chunked n r = Err e
  | _ => False
  end.
Proof. exact rf_chunked_spec. Qed.
Print Assumptions C14_ntske_readfull.

(* the loops of the model never run out of fuel *)
Theorem C14_ntske_total : forall s sch d,
  snd (fst (read_data_flat s d)) <> e_fuel /\
  snd (fst (read_data_chunked {| rd_rest := s; rd_sched := sch |} d)) <> e_fuel.
Proof. exact read_data_no_fuel_exhaustion. Qed.
Print Assumptions C14_ntske_total.

(* an Error record ends the exchange with the class of its code *)
Theorem C14_ntske_error_record : forall x fuel rest d, 0 <= x < 65536 ->
  read_data (list Z) rf_flat rf_flat (fun _ => []) (S fuel) (pack_record (RError x) ++ rest) d =
  (d, (if x =? 0 then e_msg_critical else if x =? 1 then e_msg_badreq
       else if x =? 2 then e_msg_internal else e_msg_unknown), rest).
Proof. exact read_step_error. Qed.
Print Assumptions C14_ntske_error_record.

(* RECORDS OUTSIDE `canonical`, and what the decoder discards.
   An Algorithm record with n >= 1 entries: ReadData takes the first entry and does not skip the
   rest: the bytes of the other entries are read as the next record header (so only one-entry
   lists round-trip; an empty list makes it read 2 bytes of the next record) *)
Theorem C14_ntske_algorithms : forall a l fuel rest d,
  0 <= a < 65536 -> Z.of_nat (2 + 2 * length l) < 65536 ->
  read_data (list Z) rf_flat rf_flat (fun _ => []) (S fuel) (pack_record (RAlgorithm (a :: l)) ++ rest) d =
  read_data (list Z) rf_flat rf_flat (fun _ => []) fuel (flat_map (be_enc 2) l ++ rest) (kd_set_algo d a).
Proof. exact read_step_algorithms. Qed.
Print Assumptions C14_ntske_algorithms.

(* a Warning record (type 3, always packed critical) is a type ReadData does not know: error,
   nothing assigned, its body left unread *)
Theorem C14_ntske_warning_record : forall x fuel rest d,
  read_data (list Z) rf_flat rf_flat (fun _ => []) (S fuel) (pack_record (RWarning x) ++ rest) d =
  (d, e_unknown_critical, be_enc 2 x ++ rest).
Proof. exact read_step_warning_full. Qed.
Print Assumptions C14_ntske_warning_record.

(* the byte-level decoder meets the record-level meaning ke_spec of every message built from
   canonical records, End, Error and Warning records or just ending (End: data, no error, the
   records behind it unread; Error: class of its code; Warning: error; nothing left: io.EOF) *)
Theorem C14_ntske_meets_spec : forall rs d d' e left,
  ke_spec rs d = Some (d', e, left) ->
  exists rest', read_data_flat (pack_msg rs) d = (d', e, rest') /\ (e = 0 -> rest' = pack_msg left).
Proof. exact read_data_meets_spec. Qed.
Print Assumptions C14_ntske_meets_spec.

(* decode after encode is the identity up to this projection: record lists that agree on info_of
   (which forgets the NextProto value, the critical bits of Server and Port, Warning/Error/End and
   unknown records) give the same Data ... *)
Theorem C14_ntske_projection : forall rs rs' d,
  map info_of rs = map info_of rs' -> fold_left apply_record rs d = fold_left apply_record rs' d.
Proof. exact records_projection. Qed.
Print Assumptions C14_ntske_projection.

(* ... and ReadData is a left inverse of spelling a Data value as records *)
Theorem C14_ntske_data_roundtrip : forall d d0 rest, kd_wf d -> kd_cookies d0 = [] ->
  read_data_flat (pack_msg (data_records d ++ [REnd]) ++ rest) d0 = (d, 0, rest).
Proof. exact data_roundtrip. Qed.
Print Assumptions C14_ntske_data_roundtrip.

Theorem C14_ntske_meets_oracle : forall s d schs rs rest sch,
  C14_same_results (fst (read_data_flat s d)) (map (run_sched s d) schs) = true /\
  (forallb canonical rs = true ->
   let res := run_sched (pack_msg (rs ++ [REnd]) ++ rest) d sch in
   C14_records_ok rs d (fst res) (snd res) = true).
Proof. intros. split; [apply same_results_model | apply records_model_meets_oracle]. Qed.
Print Assumptions C14_ntske_meets_oracle.

(* regression: with the single Read of the cookie body that the code had before commit
   0924366 the result depended on the segmentation *)
Theorem C14_ntske_segmentation_refuted_pinned :
  exists s sch d, fst (read_data_chunked_pinned {| rd_rest := s; rd_sched := sch |} d) <> fst (read_data_flat s d).
Proof. exact segmentation_refuted_pinned. Qed.
Print Assumptions C14_ntske_segmentation_refuted_pinned.

(* ---------------- NTS extension fields ---------------- *)

(* EncodePacket writes exactly the wire format (header, unique identifier, cookies, cookie
   placeholders, authenticator; every value zero-padded to a multiple of 4), whatever the
   caller's buffer held before, for every packet that fits the maximum packet length;
   nonce = the 16 bytes drawn, ct = the sealed ciphertext, both arbitrary here *)
Theorem C14_nts_encode_wire : forall hdr tail p nonce ct,
  length hdr = 48%nat ->
  (32 <= length (ni_id p))%nat -> length nonce = 16%nat ->
  (nts_wire_len p ct <= 1024)%nat ->
  nts_encode hdr tail p nonce ct = Ok (nts_wire hdr p nonce ct).
Proof. exact nts_encode_wire. Qed.
Print Assumptions C14_nts_encode_wire.

(* kind preservation: DecodePacket of that encoding yields the unique identifier as a unique
   identifier (0x104), n cookies as n cookies (0x204), m placeholders as m placeholders (0x304)
   and the authenticator (0x404) with the same nonce and ciphertext; values come back
   zero-padded to a multiple of 4 (decode (encode v) = pad4 v), lengths are 4 + |pad4 v| *)
Theorem C14_nts_fields : forall hdr tail p nonce ct p0,
  length hdr = 48%nat ->
  (32 <= length (ni_id p))%nat -> length nonce = 16%nat -> (16 <= length ct)%nat ->
  (nts_wire_len p ct <= 1024)%nat ->
  exists e, nts_encode hdr tail p nonce ct = Ok e /\ e = nts_wire hdr p nonce ct /\
            (length e mod 4 = 0)%nat /\
            nts_decode p0 e = (nts_decoded p0 p nonce ct, d_ok).
Proof. exact nts_dec_enc. Qed.
Print Assumptions C14_nts_fields.

(* the cookie fields INSIDE the encrypted part of a response: for a server's cookies (one length,
   a multiple of 4, at least 24 bytes, at least one fitting a packet next to an identifier of
   idlen bytes) NewResponsePacket's plaintext is the extension fields of the first
   min(n, maxCookies) cookies, and the walk authenticate makes over the decrypted plaintext
   appends exactly these cookies, in order, each as kind 0x204 *)
Theorem C14_nts_response_cookies : forall c0 cs idlen acc,
  let cookies := c0 :: cs in
  let l := length c0 in
  Forall (fun c => length c = l) cookies -> (l mod 4 = 0)%nat -> (24 <= l)%nat ->
  (1 <= max_cookies idlen l)%nat ->
  let sent := firstn (Nat.min (length cookies) (max_cookies idlen l)) cookies in
  exists plain, nts_response_plain cookies idlen = Ok plain /\
    plain = flat_map (ext_field ext_cookie) sent /\
    nts_auth_walk (length plain) plain 0 acc = (acc ++ map (ext_of ext_cookie) sent, d_ok).
Proof. exact nts_response_roundtrip. Qed.
Print Assumptions C14_nts_response_cookies.

Theorem C14_nts_response_meets_oracle : forall cs,
  C14_resp_cookies_ok cs (map (ext_of ext_cookie) cs) = true.
Proof. exact (fields_ok_map ext_cookie). Qed.
Print Assumptions C14_nts_response_meets_oracle.

(* THE DOMAIN OF THE NONCE.  nonce = 16 bytes in the theorems above is not a restriction of the
   encoder's inputs: Authenticator.pack draws the nonce itself (16 bytes from rand.Read) and
   overwrites whatever Auth.Nonce the caller left (observed on every nts.enc case, where the caller
   sets a 17-byte Auth.Nonce).  It is a restriction of the DECODER: DecodePacket is not an inverse of
   the wire format for a nonce whose length is not a multiple of 4 (Authenticator.unpack advances by
   the nonce length, not the padded length): witness with a 17-byte nonce: the packet decodes
   without error and the ciphertext comes back as three padding zeros followed by its first 13
   bytes.  Such packets are not produced by this project and are refused by authenticate (nonce
   length != 16); kind nts.fmt shows the real decoder doing exactly this. *)
Theorem C14_nts_nonce_padding_refuted :
  length nonce17_nonce = 17%nat /\
  let d := nts_decode nts_pkt_empty (nts_wire nonce17_hdr nonce17_in nonce17_nonce nonce17_ct) in
  snd d = d_ok /\
  np_auth (fst d) = (ext_authenticator, 44, nonce17_nonce, [0; 0; 0] ++ repeat 2 13) /\
  np_auth (fst d) <> np_auth (nts_decoded nts_pkt_empty nonce17_in nonce17_nonce nonce17_ct).
Proof. exact nts_nonce_padding_refuted. Qed.
Print Assumptions C14_nts_nonce_padding_refuted.

(* THE DOMAIN OF ENCRYPTED COOKIES.  C14_nts_response_cookies needs cookies of at least 24 bytes:
   the walk of authenticate stops when fewer than 28 bytes are left, so a plaintext shorter than 28
   bytes yields nothing ... *)
Theorem C14_nts_walk_short : forall fuel pt acc,
  (length pt < 28)%nat -> nts_auth_walk fuel pt 0 acc = (acc, d_ok).
Proof. exact walk_short. Qed.
Print Assumptions C14_nts_walk_short.

(* ... and a response with one cookie shorter than 24 bytes is built and sent, and the client drops
   the cookie without an error.  This project's servers issue 124-byte cookies only
   (C11_issued_cookie_length). *)
Theorem C14_nts_response_short_cookie_dropped : forall c idlen acc,
  (length c < 24)%nat -> (length c mod 4 = 0)%nat -> (1 <= max_cookies idlen (length c))%nat ->
  exists plain, nts_response_plain [c] idlen = Ok plain /\ plain = ext_field ext_cookie c /\
                nts_auth_walk (length plain) plain 0 acc = (acc, d_ok).
Proof. exact response_short_cookie_dropped. Qed.
Print Assumptions C14_nts_response_short_cookie_dropped.

Theorem C14_nts_pad4 : forall v, (length v <= length (pad4 v) < length v + 4)%nat /\ (length (pad4 v) mod 4 = 0)%nat /\
  firstn (length v) (pad4 v) = v.
Proof.
  intros v. rewrite pad4_length. destruct (pad4len_ge (length v)) as [H1 H2].
  split; [exact H1|]. split; [exact H2|]. unfold pad4. apply firstn_app_exact. reflexivity.
Qed.
Print Assumptions C14_nts_pad4.

(* the decoder loop terminates within its fuel for every input *)
Theorem C14_nts_decode_total : forall p0 b, snd (nts_decode p0 b) <> d_fuel.
Proof. exact nts_decode_total. Qed.
Print Assumptions C14_nts_decode_total.

Theorem C14_nts_meets_oracle : forall hdr p nonce ct,
  length hdr = 48%nat -> (32 <= length (ni_id p))%nat -> length nonce = 16%nat -> (16 <= length ct)%nat ->
  (nts_wire_len p ct <= 1024)%nat ->
  bytes_ok hdr -> bytes_ok (ni_id p) -> Forall bytes_ok (ni_cookies p) -> Forall bytes_ok (ni_placeholders p) ->
  bytes_ok nonce -> bytes_ok ct ->
  let e := nts_wire hdr p nonce ct in
  let d := nts_decode nts_pkt_empty e in
  C14_nts_ok hdr p nonce ct e (snd d) (fst d) = true.
Proof. exact nts_meets_oracle. Qed.
Print Assumptions C14_nts_meets_oracle.

(* the hypotheses are satisfiable *)
Example C14_ex_canonical :
  forallb canonical [RNextProto 0; RAlgorithm [15]; RServer [49; 50] true; RPort 123 false; RCookie [1; 2; 3]] = true.
Proof. reflexivity. Qed.
Example C14_ex_resp_wf : resp_wf [3; 50; 15484528; 5399923; 0; 0; 1; 2; -3; 37; 0; 0; 0; 0; 0; 0; 0; 0; 0].
Proof. split; [simpl; lia | reflexivity]. Qed.
Example C14_ex_ck_wf : ck_wf (15, [1; 2], [3]).
Proof. simpl. repeat split; try lia; repeat constructor; lia. Qed.
Example C14_ex_nts : (nts_wire_len {| ni_id := repeat 7%Z 32; ni_cookies := [repeat 1%Z 100]; ni_placeholders := [repeat 0%Z 100; repeat 0%Z 100] |} (repeat 9%Z 16) <= 1024)%nat.
Proof. vm_compute. repeat constructor. Qed.
Example C14_ex_kd_wf : kd_wf {| kd_algo := 15; kd_server := [49; 50]; kd_port := 123; kd_cookies := [[1; 2; 3]; []] |}.
Proof. unfold kd_wf. simpl. repeat split; try lia; repeat constructor; simpl; lia. Qed.
Example C14_ex_short_cookie : (1 <= max_cookies 32 20)%nat /\ (20 mod 4 = 0)%nat.
Proof. vm_compute. split; [repeat constructor | reflexivity]. Qed.
