(* C12 - NTS server keys: the key handed out is always valid and fresh, keys are
   looked up only while valid, identifiers never repeat, cookies live between
   two and three days - for every history of Current/Get calls at non-decreasing
   clock readings, from any number of goroutines.
   Statements only; proofs are in Proofs/ProviderProofs.v.

   history t0 ops = NewProvider() at clock reading t0 followed by the calls ops
   (OCur g t1 t2: Current by goroutine g, t1 = the reading taken in Current, t2 = the
   reading generateNext takes if a key is generated; OGet g id t: Get(id)); mono t0 ops:
   the readings never go back (the monotone clock the property names).  The
   observation of a call is BCur g t k (t = its last reading) or BGet g t id r.
   glog s is the (ghost) list of all keys generated so far, newest first. *)
From Coq Require Import Sorted.
From ST Require Import Base.Ints Model.Provider Proofs.ProviderProofs.
Open Scope Z_scope.

(* clause 1: the key handed out for sealing new cookies is within its validity
   period, was generated at most 24 h before, and lives 3 days *)
Theorem C12_current_valid_fresh : forall t0 ops s bs g t k,
  mono t0 ops -> history t0 ops = Some (s, bs) -> In (BCur g t k) bs ->
  k_nb k <= t <= k_na k /\ t - k_nb k <= key_renewal /\ k_na k = k_nb k + key_validity.
Proof. exact current_valid_fresh. Qed.
Print Assumptions C12_current_valid_fresh.

(* clause 2: a key looked up by identifier is returned only while it is within its
   validity period (never later than 3 days after it was generated), it carries the
   identifier asked for and it is one of the keys that were generated *)
Theorem C12_get_only_valid : forall t0 ops s bs g t id k,
  mono t0 ops -> history t0 ops = Some (s, bs) -> In (BGet g t id (Some k)) bs ->
  k_id k = id /\ k_nb k <= t <= k_na k /\ k_na k = k_nb k + key_validity /\
  t <= k_nb k + key_validity /\ In k (glog s).
Proof. exact get_only_valid. Qed.
Print Assumptions C12_get_only_valid.

(* clause 3: identifiers never repeat: along the generation log ids strictly
   increase (newer a b: id b < id a and b was generated more than 24 h before a);
   every key any call returned is in the log; equal ids mean the same key *)
Theorem C12_ids_unique : forall t0 ops s bs,
  mono t0 ops -> history t0 ops = Some (s, bs) ->
  StronglySorted newer (glog s) /\
  (forall b k, In b bs -> obs_key b = Some k -> In k (glog s)) /\
  (forall x y, In x (glog s) -> In y (glog s) -> k_id x = k_id y -> x = y) /\
  (forall x y, In x (glog s) -> In y (glog s) -> k_nb x < k_nb y -> k_id x < k_id y).
Proof. exact ids_unique. Qed.
Print Assumptions C12_ids_unique.

(* clause 4: a cookie sealed with the key that Current returned at t (after any
   history ops1) is usable - Get returns that very key - at every later instant up
   to t + 2 days, whatever calls ops2 happen in between, and no Get returns it later
   than 3 days after the key was generated *)
Theorem C12_cookie_lifetime : forall t0 ops1 s1 bs1 t1 t2 k s2 ops2 s3 bs2 t',
  mono t0 ops1 -> history t0 ops1 = Some (s1, bs1) ->
  last_time t0 ops1 <= t1 -> t1 <= t2 -> current s1 t1 t2 = Some (k, s2) ->
  mono t2 ops2 -> run s2 ops2 = Some (s3, bs2) -> last_time t2 ops2 <= t' ->
  let t := cur_time s1 t1 t2 in
  (t' <= t + two_days -> get s3 (k_id k) t' = Some k) /\
  (k_nb k + key_validity < t' -> get s3 (k_id k) t' = None).
Proof. exact cookie_lifetime. Qed.
Print Assumptions C12_cookie_lifetime.

(* the executable oracle that is evaluated on the implementation's observations
   accepts every history of the model *)
Theorem C12_model_meets_oracle : forall t0 ops s bs,
  mono t0 ops -> history t0 ops = Some (s, bs) -> C12_ok bs = true.
Proof. exact model_meets_oracle. Qed.
Print Assumptions C12_model_meets_oracle.

(* rotation happens at most once per renewal interval: after a history that spans
   d nanoseconds the current id is at most 1 + d / (24 h + 1 ns).  (The cookie format
   carries the id in 16 bits - core/server passes int(uint16) to Get; ids stay below
   2^16 for 65535 days.) *)
Theorem C12_rotation_rate : forall t0 ops s bs,
  mono t0 ops -> history t0 ops = Some (s, bs) ->
  1 <= cur s /\ (cur s - 1) * (key_renewal + 1) <= last_time t0 ops - t0.
Proof. exact rotation_rate. Qed.
Print Assumptions C12_rotation_rate.

(* panic("ID overflow") is unreachable in any history spanning less than
   2^63 - 2 days: history never returns None *)
Theorem C12_no_panic : forall t0 ops,
  mono t0 ops -> last_time t0 ops - t0 < (max_int - 1) * key_renewal -> history t0 ops <> None.
Proof. exact no_panic. Qed.
Print Assumptions C12_no_panic.

(* concurrency 1 - the lock.  lock_run executes any interleaving of the micro-steps
   of any number of goroutines (start a call, acquire Provider.mu, read the clock,
   run the body - Current reads the clock a second time in generateNext -, release)
   with clock ticks anywhere.  The calls, in the order their critical sections ran,
   have non-decreasing clock readings ("lock order is time order", because time.Now()
   is read inside the critical section), and their sequential execution by the model
   gives exactly the state reached.  Premise checked on the source on every run
   (case prov.lock): every method takes the lock first and releases it by defer. *)
Theorem C12_serializable : forall T0 s0 es w,
  lock_run (world0 T0 s0) es = Some w ->
  mono T0 (rev (w_trace w)) /\
  (w_panicked w = false -> exists bs, run s0 (rev (w_trace w)) = Some (w_state w, bs)).
Proof. exact lock_serializable. Qed.
Print Assumptions C12_serializable.

(* hence every interleaved execution satisfies the whole property *)
Theorem C12_interleavings_meet_oracle : forall t0 s0 es w bs,
  new_provider t0 = Some s0 -> lock_run (world0 t0 s0) es = Some w -> w_panicked w = false ->
  run s0 (rev (w_trace w)) = Some (w_state w, bs) -> C12_ok bs = true.
Proof. exact lock_history_ok. Qed.
Print Assumptions C12_interleavings_meet_oracle.

(* concurrency 2 - what the harness can see.  Calls made by several goroutines at one
   virtual instant (each goroutine any number of calls, in its program order) are
   ordered by the lock alone.  Whatever that order was, the group check used on
   concurrent histories accepts the observations and computes the state reached (no
   false alarm) ... *)
Theorem C12_same_instant_any_order : forall ops s t s' bs,
  Forall (at_instant t) ops -> run s ops = Some (s', bs) -> group_step s t ops bs = Some s'.
Proof. exact group_sound. Qed.
Print Assumptions C12_same_instant_any_order.

(* ... and every chain of accepted groups satisfies the property oracle *)
Theorem C12_accepted_groups_meet_oracle : forall t0 s gs,
  new_provider t0 = Some s -> groups_ok s t0 gs = true -> C12_ok (groups_obs gs) = true.
Proof. exact conc_sound. Qed.
Print Assumptions C12_accepted_groups_meet_oracle.

(* histories with tens of thousands of rotations (ids beyond 2^16) are judged by the
   one-pass oracle C12_long_ok: the model always satisfies it, and it decides "identifiers
   never repeat" for all Current results at once: over the whole sequence of keys handed
   out, ids never go down and equal ids mean the very same key *)
Theorem C12_model_meets_long_oracle : forall t0 ops s bs,
  mono t0 ops -> history t0 ops = Some (s, bs) -> C12_long_ok bs = true.
Proof. exact model_meets_long_oracle. Qed.
Print Assumptions C12_model_meets_long_oracle.

Theorem C12_long_unique : forall l,
  C12_long_ok l = true -> StronglySorted same_or_later (curs l).
Proof. exact long_unique. Qed.
Print Assumptions C12_long_unique.

(* the consequence clause at the listeners (core/server/ntske.go, server_ip.go,
   server_scion.go): in every history of key exchanges and NTS requests (any times that
   do not go back, any presented key ids), judged only by what an outside observer sees -
   answered or not, and the key id on every cookie handed out, the generation time of a
   key being the moment its id first appears -: every cookie handed out is sealed under a
   key generated at most 24 h before, a request is answered only under a key generated at
   most 72 h before, a key handed out at t is honoured until t + 48 h, ids never repeat *)
Theorem C12_listeners_meet_oracle : forall t0 steps s lo,
  lmono t0 steps -> lsn_history t0 steps = Some (s, lo) -> C12_lsn_ok t0 lo = true.
Proof. exact lsn_model_meets_oracle. Qed.
Print Assumptions C12_listeners_meet_oracle.

(* the consequence clause itself on listener histories of the model: a cookie handed out
   at t (by a key exchange or in a response) under key id K - generated at some g with
   g <= t <= g + 24 h - is honoured by every request up to t + 48 h, whatever happens in
   between, and refused by every request later than g + 72 h *)
Theorem C12_listeners_cookie_lifetime : forall t0 steps1 s1 lo1 st s2 t req ids K steps2 s3 lo2 t',
  lmono t0 steps1 -> lsn_history t0 steps1 = Some (s1, lo1) -> llast t0 steps1 <= lstep_time st ->
  lsn_step s1 st = Some (s2, LObs t req true ids) -> In K ids ->
  lmono t steps2 -> lsn_run s2 steps2 = Some (s3, lo2) -> llast t steps2 <= t' ->
  exists g, g <= t <= g + key_renewal /\
    (t' <= t + two_days ->
       forall s' tt rq ans ids', lsn_step s3 (LReq t' K) = Some (s', LObs tt rq ans ids') -> ans = true) /\
    (g + key_validity < t' -> lsn_step s3 (LReq t' K) = Some (s3, LObs t' (Some K) false [])).
Proof. exact lsn_cookie_lifetime. Qed.
Print Assumptions C12_listeners_cookie_lifetime.

(* soundness of the listener oracle, about the observations alone (no model): if C12_lsn_ok
   accepts a history in which a cookie under key id K was handed out at t, then with
   g = the first sighting of K: g <= t <= g + 24 h, every later request under K up to
   t + 48 h was answered and every request under K later than g + 72 h was refused.
   First sighting is the latest instant at which K can have been generated: any key table
   consistent with the observations (every key generated no later than its id is first
   seen) has generation times <= g, so the oracle never demands a refusal earlier, nor
   freshness stricter, than the truth; with lazy rotation g is the generation time. *)
Theorem C12_listener_oracle_sound : forall t0 l1 t req ids l2 K,
  C12_lsn_ok t0 (l1 ++ LObs t req true ids :: l2) = true -> In K ids ->
  exists g, g <= t <= g + key_renewal /\
    forall t' ans ids', In (LObs t' (Some K) ans ids') l2 ->
      (t' <= t + two_days -> ans = true) /\ (g + key_validity < t' -> ans = false).
Proof. exact lsn_oracle_sound. Qed.
Print Assumptions C12_listener_oracle_sound.

(* the oracle of sequential histories also knows key 1 (made by NewProvider at t0), so that
   a Get is never judged by the validity the returned key reports about itself alone: ids
   >= 2 are first seen in a Current result, id 1 in this ghost observation *)
Theorem C12_model_meets_oracle_with_key_one : forall t0 ops s bs,
  mono t0 ops -> history t0 ops = Some (s, bs) -> C12_ok (BCur 0 t0 (key_one t0) :: bs) = true.
Proof. exact model_meets_oracle_ghost. Qed.
Print Assumptions C12_model_meets_oracle_with_key_one.

(* the long-history oracle and Get: a key returned by any Get is the very key any Current
   returned under that id (C12_long_unique covers the Current results among themselves) *)
Theorem C12_long_get_unique : forall l g t id k' g' t' c, C12_long_ok l = true ->
  In (BGet g t id (Some k')) l -> In (BCur g' t' c) l -> k_id c = k_id k' -> c = k'.
Proof. exact long_get_unique. Qed.
Print Assumptions C12_long_get_unique.

(* recorded observation: the cookie carries the key id in 16 bits and the listeners call
   Get(int(uint16 id)) (server_ip.go, server_scion.go): a cookie under key 65536 or later
   would not be usable.  Unreachable: in every history shorter than 65535 days all ids
   ever generated are below 2^16 *)
Theorem C12_ids_fit_16_bits : forall t0 ops s bs,
  mono t0 ops -> history t0 ops = Some (s, bs) ->
  last_time t0 ops - t0 < 65535 * (key_renewal + 1) ->
  forall k, In k (glog s) -> 1 <= k_id k < 65536.
Proof. exact ids_fit_16. Qed.
Print Assumptions C12_ids_fit_16_bits.

(* the hypotheses are satisfiable and the statements not vacuous: a history with
   a rotation, an expiry and a late lookup *)
Example C12_example :
  let d := key_renewal in
  let ops := [OCur 0 5 5; OCur 1 (d + 5) (d + 5); OCur 0 (d + 6) (d + 7); OGet 2 1 (3 * d); OGet 2 1 (3 * d + 1); OGet 0 2 (3 * d + 1)] in
  mono 0 ops /\
  option_map snd (history 0 ops) =
    Some [BCur 0 5 {| k_id := 1; k_val := 1; k_nb := 0; k_na := 3 * d |};
          BCur 1 (d + 5) {| k_id := 2; k_val := 2; k_nb := d + 5; k_na := 4 * d + 5 |};
          BCur 0 (d + 6) {| k_id := 2; k_val := 2; k_nb := d + 5; k_na := 4 * d + 5 |};
          BGet 2 (3 * d) 1 (Some {| k_id := 1; k_val := 1; k_nb := 0; k_na := 3 * d |});
          BGet 2 (3 * d + 1) 1 None;
          BGet 0 (3 * d + 1) 2 (Some {| k_id := 2; k_val := 2; k_nb := d + 5; k_na := 4 * d + 5 |})].
Proof. split; [vm_compute; intuition discriminate | vm_compute; reflexivity]. Qed.

(* the interleaving semantics is not empty, and the lock excludes: goroutine 2's Get
   and goroutine 1's Current, with clock ticks inside both critical sections *)
Example C12_lock_example :
  let d := key_renewal in
  match new_provider 0 with
  | Some s0 =>
      option_map (fun w => (rev (w_trace w), w_panicked w, cur (w_state w)))
        (lock_run (world0 0 s0)
           [ECall 1 true 0; ECall 2 false 1; EAcquire 2; ETick 5; ERead 2; ETick 3; EBody 2; ERelease 2;
            EAcquire 1; ERead 1; ETick (d + 10); EBody 1; ERelease 1])
      = Some ([OGet 2 1 5; OCur 1 8 (d + 18)], false, 1)
      /\ lock_run (world0 0 s0) [ECall 1 true 0; ECall 2 false 1; EAcquire 2; EAcquire 1] = None
      /\ option_map (fun w => (rev (w_trace w), cur (w_state w)))
           (lock_run (world0 0 s0) [ETick (d + 1); ECall 1 true 0; EAcquire 1; ERead 1; ETick 2; EBody 1; ERelease 1])
         = Some ([OCur 1 (d + 1) (d + 3)], 2)
  | None => False
  end.
Proof. vm_compute. repeat split; reflexivity. Qed.
