(* C15: multipath SCION measurement probes pairwise distinct paths, combined by FTM.

   Models: Model/Sample.v (base/crypto RandIntn, Sample), Model/PathAssign.v
   (client.MeasureClockOffsetSCION and the interleaved-mode state of a SCION
   client), oracle Model/PathOracle.v.  Paths are identified by their index in
   the offered slice; `fps` gives the fingerprint of each (ids; equal
   fingerprints allowed); `cs` are the clients' states; the random generator is
   a tape of 32-bit words followed by the default word `d` (every eventually
   constant stream), `c` = the context is already cancelled.
   `somes asg` lists the paths of the participating clients. *)
From ST Require Import Base.Ints Base.Sorting Model.NtpTime Model.Ftm Model.Sample Model.PathAssign Model.PathOracle Model.Pather
  Proofs.SampleProofs Proofs.PathAssignProofs Proofs.PathOracleProofs Proofs.ReservoirProofs Proofs.ReservoirSetProofs Proofs.C15Main Proofs.PatherProofs
  Proofs.AssignReservoirProofs Proofs.ReservoirBoundProofs Proofs.RoundCutProofs.
From Coq Require Import Sorting.Permutation Sorting.Sorted.
Open Scope Z_scope.

(* Clause 1: every participating client probes over a different, offered path - for every tape. *)
Theorem C15_distinct : forall fps cs c d tape,
  Z.of_nat (length fps) <= max_i64 -> words tape -> word d ->
  forall asg resets rest, assign fps cs c d tape = AOk asg resets rest ->
  NoDup (somes asg) /\ (forall p, In p (somes asg) -> (p < length fps)%nat) /\ length asg = length cs.
Proof. exact distinct. Qed.
Print Assumptions C15_distinct.

(* Clause 2: exactly min(clients, paths) clients take part (so never more than there are paths) ... *)
Theorem C15_count : forall fps cs c d tape,
  Z.of_nat (length fps) <= max_i64 -> words tape -> word d ->
  forall asg resets rest, assign fps cs c d tape = AOk asg resets rest ->
  length (somes asg) = Nat.min (length cs) (length fps) /\ (0 < Nat.min (length cs) (length fps))%nat.
Proof. exact count. Qed.
Print Assumptions C15_count.

(* ... the round reports errNoPath only when nobody can take part, everybody is reset then ... *)
Theorem C15_error_only_without_participants : forall fps cs c d tape resets rest,
  assign fps cs c d tape = ANoPath resets rest ->
  Nat.min (length cs) (length fps) = O /\ resets = map (fun _ => true) cs.
Proof. exact assign_nopath. Qed.
Print Assumptions C15_error_only_without_participants.

(* ... and it does report it when no path is offered, for every client state and tape. *)
Theorem C15_no_path_error : forall cs c d tape,
  assign [] cs c d tape = ANoPath (map (fun _ => true) cs) tape.
Proof. exact no_paths_error. Qed.
Print Assumptions C15_no_path_error.

Theorem C15_assign_never_panics : forall fps cs c d tape, assign fps cs c d tape <> APanic.
Proof. exact assign_no_panic. Qed.
Print Assumptions C15_assign_never_panics.

(* Clause 3 (sticky / reset): a client that is not reset is in interleaved mode and keeps a path with the
   fingerprint of its previous exchange; a client is reset (together with its filter: `resets` stands for
   ResetInterleavedMode + Filter.Reset) only if it is not in interleaved mode or every offered path with
   that fingerprint is kept by an earlier client. *)
Theorem C15_sticky : forall fps cs c d tape,
  Z.of_nat (length fps) <= max_i64 -> words tape -> word d ->
  forall asg resets rest, assign fps cs c d tape = AOk asg resets rest ->
  forall i s, nth_error cs i = Some s ->
    (nth i resets false = false ->
       in_ilv s = true /\ exists p, nth_error asg i = Some (Some p) /\ fp_of fps p = cs_fp s)
    /\ (nth i resets false = true ->
       in_ilv s = false \/
       forall p, (p < length fps)%nat -> fp_of fps p = cs_fp s ->
         exists j, (j < i)%nat /\ nth_error asg j = Some (Some p) /\ nth j resets false = false).
Proof. exact sticky_clause. Qed.
Print Assumptions C15_sticky.

(* Clause 4: the reported offset is the fault-tolerant midpoint over one value per participating client that
   produced a measurement (`measured` drops the failed ones), for every completion order of the measurements;
   the round reports errNoMeasurement exactly when no participant produced one. *)
Theorem C15_ftm_over_participants : forall arrived, round_offset arrived = ftm (measured arrived).
Proof. exact round_offset_values. Qed.
Print Assumptions C15_ftm_over_participants.

Theorem C15_ftm_order_free : forall a a', Permutation a a' -> round_offset a = round_offset a'.
Proof. exact round_offset_order_free. Qed.
Print Assumptions C15_ftm_order_free.

Theorem C15_no_measurement_error : forall arrived, round_offset arrived = None <-> measured arrived = [].
Proof. exact round_offset_none. Qed.
Print Assumptions C15_no_measurement_error.

(* The property oracle holds for the model on ALL inputs: every round the model can produce, for all client
   states (incl. clients whose previous exchange is 3 s old or older), offered paths, tapes, peer behaviours
   (conformant, basic-mode, rejected reply, no reply at all) and filter values, with a live or an already
   cancelled context (c), is accepted by C15_round_ok. *)
Theorem C15_oracle_holds_for_model : forall c fps cs hasfs d tape mss vss obs off rest,
  length hasfs = length cs -> Z.of_nat (length fps) <= max_i64 -> words tape -> word d ->
  run_round_c c fps cs d tape mss vss = ROk obs off rest ->
  C15_round_ok fps (to_cobs_list hasfs cs obs) 0 off = true.
Proof. exact model_round_ok. Qed.
Print Assumptions C15_oracle_holds_for_model.

Theorem C15_oracle_holds_for_model_nomeas : forall c fps cs hasfs d tape mss vss obs rest,
  length hasfs = length cs -> Z.of_nat (length fps) <= max_i64 -> words tape -> word d ->
  run_round_c c fps cs d tape mss vss = RNoMeas obs rest ->
  C15_round_ok fps (to_cobs_list hasfs cs obs) 4 0 = true
  /\ Forall (fun o => co_vals o = []) (participants obs).
Proof. exact model_nomeas_ok. Qed.
Print Assumptions C15_oracle_holds_for_model_nomeas.

Theorem C15_oracle_holds_for_model_nopath : forall c fps cs hasfs d tape mss vss post resets rest,
  length hasfs = length cs ->
  run_round_c c fps cs d tape mss vss = RNoPath post resets rest ->
  C15_round_ok fps (map (fun hs : bool * cstate => idle_cobs (fst hs) (snd hs)) (combine hasfs cs)) 1 0 = true
  /\ resets = map (fun _ => true) cs.
Proof. exact model_nopath_ok. Qed.
Print Assumptions C15_oracle_holds_for_model_nopath.

(* Clause 5a (rejection sampling): a draw below n is in [0, n) for every tape, it is the residue of the first
   accepted word, and RandIntn panics exactly for n <= 0. *)
Theorem C15_randintn_range : forall n c d tape v rest,
  0 < n <= max_i64 -> words tape -> word d ->
  rand_intn n c d tape = Ok (v, rest) -> 0 <= v < n /\ words rest.
Proof. exact rand_intn_range. Qed.
Print Assumptions C15_randintn_range.

Theorem C15_randint_first_accepted : forall n t c d tape v rest,
  loop31 n t c d tape = Ok (v, rest) ->
  exists pre x,
    ((tape = pre ++ x :: rest) \/ (tape = pre /\ rest = [] /\ x = d))
    /\ Forall (fun y => y <= t) pre /\ t < x /\ v = Z.rem x (u32 n)
    /\ (c = true -> pre = []).
Proof. exact loop31_spec. Qed.
Print Assumptions C15_randint_first_accepted.

Theorem C15_randintn_panic_iff : forall n c d tape, rand_intn n c d tape = Panic <-> n <= 0.
Proof. exact rand_intn_panic_iff. Qed.
Print Assumptions C15_randintn_panic_iff.

(* near-uniformity: for 2 <= n < 2^31 the accepted 32-bit words with residue v are exactly m*n + v for
   acc_lo n v <= m < acc_hi n v; there are Q = 2^32 / n of them, Q - 1 for the one residue v = 2^32 mod n;
   the number of accepted words n*Q - 1 is at least 2^31: under uniform words the probabilities of any two
   results differ by 1/(n*Q - 1) <= 2^-31. *)
Theorem C15_randint_near_uniform : forall n v x,
  2 <= n <= max_i32 -> 0 <= v < n ->
  (word x /\ thresh31 n < x /\ x mod n = v) <-> (exists m, x = m * n + v /\ acc_lo n v <= m < acc_hi n v).
Proof. exact randint_residue_classes. Qed.
Print Assumptions C15_randint_near_uniform.

Theorem C15_randint_class_sizes : forall n v,
  2 <= n <= max_i32 -> 0 <= v < n ->
  acc_hi n v - acc_lo n v = (if v =? two32 mod n then two32 / n - 1 else two32 / n)
  /\ n * (two32 / n) - 1 >= 2147483648.
Proof. exact randint_class_sizes. Qed.
Print Assumptions C15_randint_class_sizes.

(* Clause 5b (reservoir): Sample fills min(k, n) slots; its pick calls are pick(i, i) for i < k' followed by
   picks with destination in the reservoir and strictly increasing sources k' <= src < n; it panics exactly
   for a negative argument.  (Distinctness of the sampled paths is part of C15_distinct.) *)
Theorem C15_sample_picks : forall k n c d tape k' ps rest,
  n <= max_i64 -> words tape -> word d ->
  sample k n c d tape = Ok (k', ps, rest) ->
  exists ps2, ps = init_picks k' ++ ps2
    /\ Forall (pick_ok k' k' n) ps2
    /\ StronglySorted (fun p q : Z * Z => snd p < snd q) ps2
    /\ words rest.
Proof. exact sample_picks. Qed.
Print Assumptions C15_sample_picks.

Theorem C15_sample_count : forall k n c d tape k' ps rest,
  sample k n c d tape = Ok (k', ps, rest) -> k' = Z.min k n /\ 0 <= k /\ 0 <= n.
Proof. exact sample_count. Qed.
Print Assumptions C15_sample_count.

Theorem C15_sample_panic_iff : forall k n c d tape, sample k n c d tape = Panic <-> k < 0 \/ n < 0.
Proof. exact sample_panic_iff. Qed.
Print Assumptions C15_sample_panic_iff.

(* Uniformity of the reservoir with exactly uniform draws.
   A draw vector is the sequence of the RandIntn results of the loop of Sample(k, n): js = [j_k; ...; j_(n-1)]
   with 0 <= j_i <= i; `vectors k (n-k)` lists all of them, each once (C15_reservoir_vectors_spec); there are
   (k+1)(k+2)...n = n!/k! (C15_reservoir_total).  `run k (seq 0 k) k js` is the content of the k array slots
   after carrying out the pick calls of these draws on the candidate indices (C15_reservoir_model_draws,
   C15_reservoir_run_picks); it always holds k distinct candidates below n (C15_reservoir_output_k_subset).
   Which slot holds which selected candidate is not uniform (for k = n the slots are always 0..k-1 in order),
   so the statement is about the SET of selected candidates (same_set, C15_reservoir_same_set_spec):
   every k-subset T of the n candidates is selected by exactly (n-k)! draw vectors - independent of T -
   i.e. with probability (n-k)! k!/n! = 1/C(n,k), for all k <= n. *)
Theorem C15_reservoir_uniform : forall (k n : nat) (T : list nat),
  (k <= n)%nat -> NoDup T -> length T = k -> (forall x, In x T -> (x < n)%nat) ->
  length (filter (fun js => same_set T (run k (seq 0 k) k js)) (vectors k (n - k))) = fact (n - k).
Proof. exact reservoir_subset_uniform. Qed.
Print Assumptions C15_reservoir_uniform.

Theorem C15_reservoir_same_set_spec : forall a b, same_set a b = true <-> (forall x, In x a <-> In x b).
Proof. exact same_set_spec. Qed.
Print Assumptions C15_reservoir_same_set_spec.

(* vectors i m = all [j_i; ...; j_(i+m-1)] with j_t <= t, without repetition *)
Theorem C15_reservoir_vectors_spec : forall i m,
  (forall js, In js (vectors i m) <-> length js = m /\ vec_ok i js) /\ NoDup (vectors i m).
Proof. intros. split; [intros; apply vectors_spec|apply vectors_NoDup]. Qed.
Print Assumptions C15_reservoir_vectors_spec.

Theorem C15_reservoir_total : forall k n : nat, (k <= n)%nat -> (length (vectors k (n - k)) * fact k = fact n)%nat.
Proof. exact reservoir_total. Qed.
Print Assumptions C15_reservoir_total.

Theorem C15_reservoir_output_k_subset : forall (k n : nat) js, (k <= n)%nat -> length js = (n - k)%nat ->
  length (run k (seq 0 k) k js) = k /\ NoDup (run k (seq 0 k) k js)
  /\ (forall x, In x (run k (seq 0 k) k js) -> (x < n)%nat).
Proof. exact reservoir_output_k_subset. Qed.
Print Assumptions C15_reservoir_output_k_subset.

(* the draws of the model's loop (C15_reservoir_model_draws) are one of the enumerated vectors *)
Theorem C15_reservoir_draws_enumerated : forall js i,
  draws_ok (Z.of_nat i) js -> In (map Z.to_nat js) (vectors i (length js)).
Proof. exact draws_in_vectors. Qed.
Print Assumptions C15_reservoir_draws_enumerated.

(* Per candidate (a consequence proved on its own): every candidate e < n is in the final reservoir for the
   same number of draw vectors, namely the fraction k/n of all (k+1)(k+2)...n of them - for all k <= n.
   cnt is a count of draw vectors (C15_reservoir_cnt_counts). *)
Theorem C15_reservoir_inclusion_uniform : forall k n e : nat,
  (k <= n)%nat -> (e < n)%nat -> (cnt k e (seq 0 k) k (n - k) * n = k * total_range k (n - k))%nat.
Proof. exact reservoir_inclusion_uniform. Qed.
Print Assumptions C15_reservoir_inclusion_uniform.

Theorem C15_reservoir_cnt_counts : forall k e res i m,
  cnt k e res i m = length (filter (fun js => memb e (run k res i js)) (vectors i m))
  /\ length (vectors i m) = total_range i m.
Proof. intros. split; [apply cnt_counts|apply vectors_length]. Qed.
Print Assumptions C15_reservoir_cnt_counts.

Theorem C15_reservoir_model_draws : forall fuel k i c d tape ps rest,
  0 <= i -> i + Z.of_nat fuel <= max_i64 -> words tape -> word d ->
  sample_loop fuel k i c d tape = Ok (ps, rest) ->
  exists js, length js = fuel /\ draws_ok i js /\ ps = draws_picks k i js.
Proof. exact sample_loop_draws. Qed.
Print Assumptions C15_reservoir_model_draws.

Theorem C15_reservoir_run_picks : forall k js i res, draws_ok (Z.of_nat i) js ->
  fold_left idx_pick (draws_picks (Z.of_nat k) (Z.of_nat i) js) res = run k res i (map Z.to_nat js).
Proof. exact run_picks. Qed.
Print Assumptions C15_reservoir_run_picks.

(* ---- the assignment IS the reservoir: kept paths stay, the clients without a path get, in slot order, the
   paths ps1[r_0], ps1[r_1], ... where ps1 is what the sticky loop left of the offered paths and
   r = run k (seq 0 k) k js is the reservoir over candidate indices after the draws js of this round
   (k = min(free clients, |ps1|); j_i in [0, i] for i = k .. |ps1|-1).  C15_reservoir_uniform and
   C15_reservoir_words_bound therefore speak about the assignment. *)
Theorem C15_assign_is_reservoir : forall fps cs c d tape asg resets rest,
  Z.of_nat (length fps) <= max_i64 -> words tape -> word d ->
  assign fps cs c d tape = AOk asg resets rest ->
  exists js,
    let sps := fst (sticky fps cs (seq 0 (length fps))) in
    let ps1 := snd (sticky fps cs (seq 0 (length fps))) in
    let k := Nat.min (length sps - count_some sps) (length ps1) in
    length js = (length ps1 - k)%nat /\ draws_ok (Z.of_nat k) js
    /\ asg = fill sps (map (fun t => nth t ps1 O) (run k (seq 0 k) k (map Z.to_nat js))).
Proof. exact assign_is_reservoir. Qed.
Print Assumptions C15_assign_is_reservoir.

Theorem C15_sample_is_reservoir : forall kz arr c d tape k' picks rest,
  Z.of_nat (length arr) <= max_i64 -> words tape -> word d ->
  sample kz (Z.of_nat (length arr)) c d tape = Ok (k', picks, rest) ->
  exists js, let k := Z.to_nat k' in
    length js = (length arr - k)%nat /\ draws_ok k' js /\ picks = init_picks k' ++ draws_picks k' k' js
    /\ k = Nat.min (Z.to_nat kz) (length arr)
    /\ firstn k (fold_left apply_pick picks arr)
       = map (fun t => nth t arr O) (run k (seq 0 k) k (map Z.to_nat js)).
Proof. exact sample_is_reservoir. Qed.
Print Assumptions C15_sample_is_reservoir.

(* The composed deviation from uniform with the real draws.  An accepted-word vector [x_k; ...; x_(n-1)] (x_i a
   32-bit word accepted by the draw below i+1; `wvectors`, characterised by C15_reservoir_wvectors_spec) gives
   the draws x_i mod (i+1).  Under uniform words, the probability of a k-subset is proportional to the number of
   accepted-word vectors that select it.  For any two k-subsets S, T of n <= MaxInt32 candidates these numbers
   differ at most by the factor prod_{i=k}^{n-1} Q_i / (Q_i - 1), Q_i = 2^32 / (i+1): the product of the per-draw
   ratios of C15_randint_class_sizes (NOT a single 2^-31); for n <= 65536 it is at most (65536/65535)^(n-k). *)
Theorem C15_reservoir_words_bound : forall (k n : nat) (S T : list nat),
  (1 <= k <= n)%nat -> Z.of_nat n <= max_i32 ->
  NoDup S -> length S = k -> (forall x, In x S -> (x < n)%nat) ->
  NoDup T -> length T = k -> (forall x, In x T -> (x < n)%nat) ->
  let count U := length (filter (fun xs => same_set U (run k (seq 0 k) k (draws_of k xs))) (wvectors k (n - k))) in
  (count S * prod_f qlo k (n - k) <= count T * prod_f qhi k (n - k))%nat.
Proof. exact reservoir_words_bound. Qed.
Print Assumptions C15_reservoir_words_bound.

Theorem C15_reservoir_words_bound_small : forall (k n : nat) (S T : list nat),
  (1 <= k <= n)%nat -> Z.of_nat n <= 65536 ->
  NoDup S -> length S = k -> (forall x, In x S -> (x < n)%nat) ->
  NoDup T -> length T = k -> (forall x, In x T -> (x < n)%nat) ->
  let count U := length (filter (fun xs => same_set U (run k (seq 0 k) k (draws_of k xs))) (wvectors k (n - k))) in
  Z.of_nat (count S) * 65535 ^ Z.of_nat (n - k) <= Z.of_nat (count T) * 65536 ^ Z.of_nat (n - k).
Proof. exact reservoir_words_bound_small. Qed.
Print Assumptions C15_reservoir_words_bound_small.

(* wvectors i m = the vectors of m words, the t-th accepted by the draw below i+t+1; words_for m j = the accepted
   words of the draw below m with residue j, each once *)
Theorem C15_reservoir_wvectors_spec : forall m i xs, (1 <= i)%nat -> Z.of_nat (i + m) <= max_i32 ->
  In xs (wvectors i m) <-> length xs = m /\ accepted i xs.
Proof. exact wvectors_spec. Qed.
Print Assumptions C15_reservoir_wvectors_spec.

Theorem C15_words_for_spec : forall m j x, 2 <= m <= max_i32 -> 0 <= j < m ->
  (In x (words_for m j) <-> (word x /\ thresh31 m < x /\ x mod m = j)) /\ NoDup (words_for m j).
Proof. intros. split; [apply words_for_spec; assumption|apply words_for_NoDup; lia]. Qed.
Print Assumptions C15_words_for_spec.

(* the 64-bit branch of RandIntn (randInt63) is not used for bounds up to MaxInt32: a round with at most
   MaxInt32 - 1 offered paths draws through randInt31 only (a slice of 2^31 paths does not fit any machine) *)
Theorem C15_branch31 : forall fuel k i c d tape,
  0 <= i -> i + Z.of_nat fuel <= max_i32 -> sample_loop fuel k i c d tape = sample_loop31 fuel k i c d tape.
Proof. exact sample_loop_branch31. Qed.
Print Assumptions C15_branch31.

(* ---- the context ends during the collection (ctx.Done in collectMeasurements) ----
   `arrived`: what the participants deliver, in arrival order; the collection is cut after `cut` deliveries. *)
Theorem C15_ftm_cut : forall arrived cut,
  round_offset_cut arrived cut = ftm (measured (firstn cut arrived))
  /\ (round_offset_cut arrived cut = None <-> measured (firstn cut arrived) = [])
  /\ (length (measured (firstn cut arrived)) <= length arrived)%nat
  /\ ((length arrived <= cut)%nat -> round_offset_cut arrived cut = round_offset arrived).
Proof.
  intros. split; [reflexivity|]. split; [apply round_offset_cut_none|]. split; [apply measured_fits|apply round_offset_cut_all].
Qed.
Print Assumptions C15_ftm_cut.

Theorem C15_ftm_cut_order_free : forall a a' cut cut',
  Permutation (firstn cut a) (firstn cut' a') -> round_offset_cut a cut = round_offset_cut a' cut'.
Proof. exact round_offset_cut_order_free. Qed.
Print Assumptions C15_ftm_cut_order_free.

(* those that are cut off have no measurement (a path that never answers: its client waits for the context that
   ends the collection): the result is that of the complete collection - the rounds with silent paths *)
Theorem C15_ftm_cut_silent : forall arrived cut,
  Forall (fun o => o = None) (skipn cut arrived) -> round_offset_cut arrived cut = round_offset arrived.
Proof. exact round_offset_cut_silent. Qed.
Print Assumptions C15_ftm_cut_silent.

(* the error of the random generator is the context's error: it needs a context that is already cancelled; then
   nobody has probed and the clients without a kept path have been reset *)
Theorem C15_error_needs_cancelled_context : forall c fps cs d tape mss vss post resets,
  Z.of_nat (length fps) <= max_i32 ->
  run_round_c c fps cs d tape mss vss = RErr post resets ->
  c = true /\ post = post_reset cs resets.
Proof. exact round_err_cancelled. Qed.
Print Assumptions C15_error_needs_cancelled_context.

(* ---- where the offered paths come from: the Pather (net/scion/pather.go, Model/Pather.v) ----
   A path is (identity, fingerprint); `answers` describes the daemon at a refresh, dstIAs the destinations the
   Pather was started with (timeservice.go: one entry per configured SCION server and peer).
   After a refresh that gets the local IA, Paths(q) is the daemon's answer for q - once, however often q is
   listed (each destination AS is looked up once) - or nothing if q is not a destination; a refresh that does not
   get the local IA changes nothing. *)
Theorem C15_pather_paths : forall st dstIAs answers q,
  pather_paths (pather_update st true dstIAs answers) q = (if zmemb q dstIAs then daemon_paths answers q else [])
  /\ pather_update st false dstIAs answers = st.
Proof. intros. split; [apply pather_paths_update|reflexivity]. Qed.
Print Assumptions C15_pather_paths.

(* After any sequence of refreshes Paths(q) is exactly what the daemon last reported for q (truth_update: the
   answer for q of the last refresh that got the local IA, nothing if the lookup failed or q is not a
   destination), for every list of destinations. *)
Theorem C15_pather_offers_daemon_paths : forall dstIAs q l,
  pather_paths (refreshes [] dstIAs l) q = truths [] dstIAs q l.
Proof. intros dstIAs q l. apply pather_offers_daemon_paths. reflexivity. Qed.
Print Assumptions C15_pather_offers_daemon_paths.

(* Then the participating clients of a round probe over pairwise distinct paths of the daemon (identities), each
   one a path the daemon reported, and no more clients take part than the daemon reported paths. *)
Theorem C15_pather_distinct : forall st q truth cs c d tape asg resets rest,
  pather_paths st q = truth -> NoDup (map fst truth) ->
  Z.of_nat (length truth) <= max_i64 -> words tape -> word d ->
  assign (map snd (pather_paths st q)) cs c d tape = AOk asg resets rest ->
  NoDup (map (fun p => nth p (map fst truth) (-1)) (somes asg))
  /\ (forall p, In p (somes asg) -> In (nth p truth (-1, -1)) truth)
  /\ (length (somes asg) <= length truth)%nat.
Proof.
  intros st q truth cs c d tape asg resets rest Ho Hn Hm Hw Hd Ha. rewrite Ho in Ha.
  exact (pather_distinct st q truth Ho Hn cs [] d tape Hm Hw Hd c asg resets rest Ha).
Qed.
Print Assumptions C15_pather_distinct.

(* The Pather-level oracle (next hops observed, judged against the paths the daemon last reported) accepts
   whatever the plain oracle accepts for positions in the offered slice ... *)
Theorem C15_pather_oracle_of_round_oracle : forall truth L cls off, NoDup (map fst truth) ->
  C15_round_ok (map snd truth) L cls off = true ->
  C15_pather_round_ok truth (map (hops_out (map fst truth)) L) cls off = true.
Proof. exact pather_oracle_of_round_oracle. Qed.
Print Assumptions C15_pather_oracle_of_round_oracle.

(* ... hence every round of the model behind a Pather, for all states, tapes, peers and filter values. *)
Theorem C15_pather_oracle_holds_for_model : forall c st q truth cs hasfs d tape mss vss,
  pather_paths st q = truth -> NoDup (map fst truth) ->
  length hasfs = length cs -> Z.of_nat (length truth) <= max_i64 -> words tape -> word d ->
  (forall obs off rest, pather_round c st q cs d tape mss vss = ROk obs off rest ->
     C15_pather_round_ok truth (map (hops_out (map fst truth)) (to_cobs_list hasfs cs obs)) 0 off = true)
  /\ (forall obs rest, pather_round c st q cs d tape mss vss = RNoMeas obs rest ->
     C15_pather_round_ok truth (map (hops_out (map fst truth)) (to_cobs_list hasfs cs obs)) 4 0 = true)
  /\ (forall post resets rest, pather_round c st q cs d tape mss vss = RNoPath post resets rest ->
     C15_pather_round_ok truth (map (hops_out (map fst truth))
        (map (fun hs : bool * cstate => idle_cobs (fst hs) (snd hs)) (combine hasfs cs))) 1 0 = true).
Proof.
  intros c st q truth cs hasfs d tape mss vss Ho Hn Hh Hm Hw Hd. repeat split; intros.
  - eapply pather_round_ok; eauto.
  - eapply pather_round_nomeas_ok; eauto.
  - eapply pather_round_nopath_ok; eauto.
Qed.
Print Assumptions C15_pather_oracle_holds_for_model.

(* "the round reports an error when no path is available": a reference clock in another AS that was built
   without a SCION daemon address has no Pather; its round offers no path and reports errNoPath (every client
   reset), for all client states, tapes and contexts - it does not touch the absent Pather (repair of
   timeservice.go MeasureClockOffset: the Pather is asked only if there is one). *)
Theorem C15_no_pather_no_path_error : forall c q cs d tape mss vss,
  clock_round c None q cs d tape mss vss = RNoPath (map reset_client cs) (map (fun _ => true) cs) tape
  /\ forall st, clock_round c (Some st) q cs d tape mss vss = pather_round c st q cs d tape mss vss.
Proof. intros. split; [apply clock_round_no_pather|reflexivity]. Qed.
Print Assumptions C15_no_pather_no_path_error.

(* ---- the hypotheses are satisfiable; the functions compute ---- *)
Definition ex_client (il : bool) (fp : Z) : cstate := {| cs_en := true; cs_ref := il; cs_il := il; cs_fp := fp; cs_old := false |}.

(* three clients: the first two in interleaved mode on fingerprint 7 / 0 (the empty fingerprint), the third
   fresh; offered: fingerprints [5; 0; 7; 7]; tape [0; 8]: the word 0 is rejected for the draw below 2, the word 8
   puts the second remaining path into the reservoir *)
Example C15_example_assign :
  assign [5; 0; 7; 7] [ex_client true 7; ex_client true 0; ex_client false 0] false 4294967295 [0; 8]
  = AOk [Some 2%nat; Some 1%nat; Some 3%nat] [false; false; true] [].
Proof. vm_compute. reflexivity. Qed.

(* the path is withdrawn: the client is reset; one path for two clients *)
Example C15_example_withdrawn :
  assign [5] [ex_client true 7; ex_client true 5] false 4294967295 []
  = AOk [None; Some 0%nat] [true; false] [].
Proof. vm_compute. reflexivity. Qed.

Example C15_example_offset : round_offset [Some 30; None; Some (-5); Some 12] = Some 12 /\ round_offset [None; None] = None.
Proof. vm_compute. split; reflexivity. Qed.

Example C15_example_threshold : (* 2^32 mod 6 = 4: the word 4 is rejected, 5 accepted *)
  rand_intn 6 false 4294967295 [4; 5] = Ok (5, []) /\ rand_intn 6 true 4294967295 [4; 5] = Err
  /\ rand_intn 6 false 3 [4] = Hang.
Proof. vm_compute. repeat split. Qed.

Example C15_example_inclusion : (cnt 2 3 (seq 0 2) 2 3 * 5 = 2 * total_range 2 3)%nat /\ total_range 2 3 = 60%nat.
Proof. vm_compute. split; reflexivity. Qed.

(* Sample(2, 5): each of the C(5,2) = 10 subsets is selected by (5-2)! = 6 of the 3*4*5 = 60 draw vectors;
   as an ordered pair of slots the outcome is not uniform: [1; 0] is never produced *)
Example C15_example_subsets :
  map (fun T => length (filter (fun js => same_set T (run 2 (seq 0 2) 2 js)) (vectors 2 3)))
      [[0;1]; [0;2]; [0;3]; [0;4]; [1;2]; [1;3]; [1;4]; [2;3]; [2;4]; [4;3]]%nat
  = [6; 6; 6; 6; 6; 6; 6; 6; 6; 6]%nat
  /\ fact (5 - 2) = 6%nat /\ length (vectors 2 3) = 60%nat
  /\ filter (fun js => if list_eq_dec Nat.eq_dec (run 2 (seq 0 2) 2 js) [1; 0]%nat then true else false) (vectors 2 3) = [].
Proof. vm_compute. repeat split; reflexivity. Qed.

(* k = 1 and k = n *)
Example C15_example_subsets_edge :
  map (fun T => length (filter (fun js => same_set T (run 1 (seq 0 1) 1 js)) (vectors 1 3))) [[0]; [1]; [2]; [3]]%nat
  = [6; 6; 6; 6]%nat
  /\ length (filter (fun js => same_set [2; 0; 1]%nat (run 3 (seq 0 3) 3 js)) (vectors 3 0)) = 1%nat.
Proof. vm_compute. split; reflexivity. Qed.


(* the Pather: destinations [7; 8], the daemon knows two paths to 7 and fails for 8 *)
Example C15_example_pather :
  let ans := [{| an_ia := 8; an_ok := false; an_paths := [(0, 9)] |}; {| an_ia := 7; an_ok := true; an_paths := [(0, 5); (1, 6)] |}] in
  let st := pather_update [] true [7; 8] ans in
  pather_paths st 7 = [(0, 5); (1, 6)] /\ pather_paths st 8 = [] /\ pather_paths st 9 = []
  /\ pather_update st false [7; 8] [] = st /\ truth_update [(3, 3)] true [7; 8] ans 7 = [(0, 5); (1, 6)].
Proof. vm_compute. repeat split; reflexivity. Qed.

(* the server's IA listed twice - two configured servers in the same AS: the one path the daemon reports is
   offered once, one of the three clients probes over it (before 6f9a1f9 of /repo it was offered twice and two
   clients shared it) *)
Example C15_example_pather_dup :
  let ans := [{| an_ia := 7; an_ok := true; an_paths := [(0, 5)] |}] in
  let st := pather_update [] true [7; 7] ans in
  let cs := [fresh_client false; fresh_client false; fresh_client true] in
  pather_paths st 7 = [(0, 5)]
  /\ match pather_round false st 7 cs 4294967295 [] [] [[11]; [22]; [33]] with
     | ROk obs off _ =>
         map co_path obs = [Some 0%nat; None; None] /\ off = 11
         /\ C15_pather_round_ok (daemon_paths ans 7)
              (map (hops_out (map fst (pather_paths st 7))) (to_cobs_list [true; true; true] cs obs)) 0 off = true
     | _ => False
     end
  (* the oracle rejects the same path handed to two clients *)
  /\ C15_pather_round_ok [(0, 5)]
       [ {| ob_ilv := false; ob_fp := 0; ob_filter := true; ob_hops := [0]; ob_resets := 1; ob_first := 0; ob_vals := [11]; ob_old := false |};
         {| ob_ilv := false; ob_fp := 0; ob_filter := true; ob_hops := [0]; ob_resets := 1; ob_first := 0; ob_vals := [22]; ob_old := false |} ] 0 16 = false.
Proof. vm_compute. repeat split; reflexivity. Qed.

(* after 3 s without an exchange a client in interleaved mode keeps its path without a reset and starts with a
   basic-mode request; a path that never answers ends its client's round after one request *)
Example C15_example_old_and_silent :
  let s := age_client (ex_client true 7) in
  run_round [7] [s] 4294967295 [] [[PN; PN; PN]] [[5; 6; 7]]
  = ROk [{| co_path := Some 0%nat; co_reset := false; co_reqs := [false; true]; co_vals := [5; 6];
            co_post := ex_client true 7 |}] 6 []
  /\ run_round [7] [ex_client true 7] 4294967295 [] [[PS; PN; PN]] [[5; 6; 7]]
  = RNoMeas [{| co_path := Some 0%nat; co_reset := false; co_reqs := [true]; co_vals := []; co_post := ex_client true 7 |}] []
  /\ run_round_c true [7; 8] [fresh_client true] 4294967295 [0] [] [] = RErr [fresh_client true] [true].
Proof. vm_compute. repeat split; reflexivity. Qed.

(* three candidates, one slot: the subsets {0}, {1}, {2} are selected by 2^32/2 * 2^32/3 accepted-word vectors
   give or take the class sizes; the counting functions compute on a small instance of the draw vectors *)
Example C15_example_bound_factors : qhi 1 = Z.to_nat 2147483648 /\ qlo 1 = Z.to_nat 2147483647
  /\ qhi 2 = Z.to_nat 1431655765 /\ qlo 2 = Z.to_nat 1431655764.
Proof. unfold qhi, qlo. repeat split; reflexivity. Qed.

