(* C15: multipath SCION measurement probes pairwise distinct paths, combined by FTM. *)
From ST Require Import Base.Ints Model.Sample Proofs.SampleProofs.
Open Scope Z_scope.

Theorem C15_sample_count : forall k n c d tape k' ps rest,
  sample k n c d tape = Ok (k', ps, rest) -> k' = Z.min k n.
Proof. exact sample_count. Qed.
Print Assumptions C15_sample_count.
