(* C02 — Fault-tolerant midpoint and median stay within the correct values. *)
From ST Require Import Base.Ints Base.Sorting Model.NtpTime Model.Ftm Model.FtmMeas Proofs.FtmProofs Proofs.FtmMeasProofs.
From Coq Require Import ZArith List Sorting.Permutation.
Import ListNotations.
Open Scope Z_scope.

(* values are tagged: (v, true) is a correct offset, (v, false) an arbitrary one.
   For every non-empty list with at most floor((n-1)/3) arbitrary values and all
   magnitudes below 2^62, the fault-tolerant midpoint lies between two correct values. *)
Theorem C02_ftm_contained : forall l : list (Z * bool),
  l <> [] -> (nbad l <= (length l - 1) / 3)%nat -> (forall x, In x l -> Z.abs (fst x) < 2^62) ->
  exists res lo hi, ftm (map fst l) = Some res /\ In (lo, true) l /\ In (hi, true) l /\ lo <= res <= hi.
Proof. exact ftm_contained. Qed.
Print Assumptions C02_ftm_contained.

Theorem C02_ftm_oracle : forall (l : list (Z * bool)) res, ftm (map fst l) = Some res -> C02_ftm_ok l res = true.
Proof. exact ftm_oracle. Qed.
Print Assumptions C02_ftm_oracle.

Theorem C02_median_contained : forall l : list Z,
  l <> [] -> (forall x, In x l -> Z.abs x < 2^62) ->
  exists res, median l = Some res /\ lmin l <= res <= lmax l.
Proof. exact median_contained. Qed.
Print Assumptions C02_median_contained.

Theorem C02_median_oracle : forall l res, median l = Some res -> C02_median_ok l res = true.
Proof. exact median_oracle. Qed.
Print Assumptions C02_median_oracle.

(* independent of the order of the inputs *)
Theorem C02_perm_invariant : forall l l', Permutation l l' -> ftm l = ftm l' /\ median l = median l'.
Proof. exact perm_invariant. Qed.
Print Assumptions C02_perm_invariant.

(* the caller's slice is only reordered: afterwards it is the sorted permutation of what it was *)
Theorem C02_only_reorders : forall l, Permutation l (zsort l) /\ zsorted (zsort l).
Proof. exact only_reorders. Qed.
Print Assumptions C02_only_reorders.

(* no arithmetic overflow below 2^62: the wrapped int64 computation equals the unbounded one *)
Theorem C02_no_overflow : forall x y, Z.abs x < 2^62 -> Z.abs y < 2^62 -> midpoint x y = x + Z.quot (y - x) 2.
Proof. exact midpoint_exact. Qed.
Print Assumptions C02_no_overflow.

(* the oracle for "only reorders" (multiset of the values unchanged, ascending order) accepts exactly the
   sorted permutations of the slice before the call, i.e. exactly one slice: a dropped, duplicated or
   overwritten element is rejected *)
Theorem C02_reorder_oracle : forall before after,
  C02_reorder_ok before after = true <-> Permutation before after /\ zsorted after.
Proof. exact reorder_ok_iff. Qed.
Print Assumptions C02_reorder_oracle.

Theorem C02_reorder_oracle_unique : forall before after,
  C02_reorder_ok before after = true <-> after = zsort before.
Proof. exact reorder_ok_unique. Qed.
Print Assumptions C02_reorder_oracle_unique.

(* timemath.Midpoint itself: between its arguments below 2^62, in either order of the arguments *)
Theorem C02_midpoint_contained : forall x y, Z.abs x < 2^62 -> Z.abs y < 2^62 ->
  Z.min x y <= midpoint x y <= Z.max x y.
Proof. exact mid_contained. Qed.
Print Assumptions C02_midpoint_contained.

Theorem C02_midpoint_oracle : forall x y, C02_mid_ok x y (midpoint x y) = true.
Proof. exact mid_oracle. Qed.
Print Assumptions C02_midpoint_oracle.

(* beyond the bound nothing is claimed, and nothing could be: at |x| = |y| = 2^62 the int64 difference wraps *)
Theorem C02_midpoint_bound_tight :
  let x := - 2^62 in let y := 2^62 in
  in_i64 x /\ in_i64 y /\ midpoint x y = min_i64 /\ midpoint x y < Z.min x y.
Proof. exact mid_bound_tight. Qed.
Print Assumptions C02_midpoint_bound_tight.

(* ---- timestamped measurements ----
   time.Time is modelled as Go represents a wall-clock time: int64 seconds since January 1 of year 1 and
   0 <= nanoseconds < 10^9 (gt_wf); time.Time{} is (0, 0).  Sub, Add, addSec, After are transcriptions of
   go1.24.2's src/time/time.go for times without monotonic reading (Model/FtmMeas.v). *)

(* Time.Sub is the difference of the two instants saturated to int64 - for ALL pairs of representable times
   (the overflow check u.Add(d).Equal(t) of the Go source never errs, not even at the ends of the range) *)
Theorem C02_time_sub_saturates : forall t u, gt_wf t -> gt_wf u -> gt_sub t u = sat64 (gt_abs t - gt_abs u).
Proof. exact gt_sub_spec. Qed.
Print Assumptions C02_time_sub_saturates.

(* Time.Add returns the exact sum whenever that is a representable time (otherwise its seconds saturate) *)
Theorem C02_time_add_exact : forall t d, gt_wf t -> in_i64 d ->
  min_i64 * ns_per_s <= gt_abs t + d < (max_i64 + 1) * ns_per_s -> gt_abs (gt_add t d) = gt_abs t + d.
Proof. exact gt_add_exact. Qed.
Print Assumptions C02_time_add_exact.

(* the combined timestamp lies between the two timestamps: for ALL representable times, the zero time and
   times more than 292 years apart (saturating Sub) included *)
Theorem C02_meas_timestamp_between : forall x y, gt_wf (tm_ts x) -> gt_wf (tm_ts y) ->
  Z.min (gt_abs (tm_ts x)) (gt_abs (tm_ts y)) <= gt_abs (tm_ts (tmidpoint x y))
    <= Z.max (gt_abs (tm_ts x)) (gt_abs (tm_ts y)).
Proof. exact tmid_ts_between. Qed.
Print Assumptions C02_meas_timestamp_between.

(* its exact value: earlier + sat64(later - earlier) quot 2 ... *)
Theorem C02_meas_timestamp_value : forall x y, gt_wf (tm_ts x) -> gt_wf (tm_ts y) ->
  let lo := Z.min (gt_abs (tm_ts x)) (gt_abs (tm_ts y)) in
  let hi := Z.max (gt_abs (tm_ts x)) (gt_abs (tm_ts y)) in
  gt_abs (tm_ts (tmidpoint x y)) = lo + Z.quot (sat64 (hi - lo)) 2.
Proof. exact tmid_ts_value. Qed.
Print Assumptions C02_meas_timestamp_value.

(* ... which is the midpoint (rounded towards the earlier) as long as the two are at most 2^63-1 ns apart;
   further apart it is earlier + (2^63-1)/2 ns: between, but not the midpoint *)
Theorem C02_meas_timestamp_is_midpoint : forall x y, gt_wf (tm_ts x) -> gt_wf (tm_ts y) ->
  Z.abs (gt_abs (tm_ts x) - gt_abs (tm_ts y)) <= max_i64 ->
  let lo := Z.min (gt_abs (tm_ts x)) (gt_abs (tm_ts y)) in
  let hi := Z.max (gt_abs (tm_ts x)) (gt_abs (tm_ts y)) in
  gt_abs (tm_ts (tmidpoint x y)) = lo + (hi - lo) / 2.
Proof. exact tmid_ts_is_midpoint. Qed.
Print Assumptions C02_meas_timestamp_is_midpoint.

Theorem C02_meas_timestamp_wf : forall x y, gt_wf (tm_ts x) -> gt_wf (tm_ts y) -> gt_wf (tm_ts (tmidpoint x y)).
Proof. exact tmid_ts_wf. Qed.
Print Assumptions C02_meas_timestamp_wf.

(* for EVERY sorted permutation s the (unstable) sort may leave behind: offset = the plain function of the
   offsets, error nil - whatever the errors of the inputs (errored measurements are sorted and selected like any other) *)
Theorem C02_meas_ftm : forall ms s, tm_sorted_perm ms s -> ms <> [] ->
  ftm (map tm_off ms) = Some (tm_off (tftm_sorted s)) /\ tm_err (tftm_sorted s) = false.
Proof. exact tmeas_ftm_offset. Qed.
Print Assumptions C02_meas_ftm.

Theorem C02_meas_median : forall ms s, tm_sorted_perm ms s -> ms <> [] ->
  median (map tm_off ms) = Some (tm_off (tmedian_sorted s)) /\ tm_err (tmedian_sorted s) = false.
Proof. exact tmeas_median_offset. Qed.
Print Assumptions C02_meas_median.

(* the two selected measurements are measurements of the input, and the result's timestamp lies between theirs *)
Theorem C02_meas_ftm_selected : forall ms s, tm_sorted_perm ms s -> ms <> [] ->
  In (fst (sel_ftm s)) ms /\ In (snd (sel_ftm s)) ms.
Proof. exact sel_ftm_in. Qed.
Print Assumptions C02_meas_ftm_selected.

Theorem C02_meas_median_selected : forall ms s, tm_sorted_perm ms s -> ms <> [] ->
  In (fst (sel_median s)) ms /\ In (snd (sel_median s)) ms.
Proof. exact sel_median_in. Qed.
Print Assumptions C02_meas_median_selected.

Theorem C02_meas_ftm_timestamp : forall ms s, tm_sorted_perm ms s -> all_wf ms ->
  let x := fst (sel_ftm s) in let y := snd (sel_ftm s) in
  Z.min (gt_abs (tm_ts x)) (gt_abs (tm_ts y)) <= gt_abs (tm_ts (tftm_sorted s)) <= Z.max (gt_abs (tm_ts x)) (gt_abs (tm_ts y)).
Proof. exact tmeas_ftm_timestamp. Qed.
Print Assumptions C02_meas_ftm_timestamp.

Theorem C02_meas_median_timestamp : forall ms s, tm_sorted_perm ms s -> all_wf ms ->
  let x := fst (sel_median s) in let y := snd (sel_median s) in
  Z.min (gt_abs (tm_ts x)) (gt_abs (tm_ts y)) <= gt_abs (tm_ts (tmedian_sorted s)) <= Z.max (gt_abs (tm_ts x)) (gt_abs (tm_ts y)).
Proof. exact tmeas_median_timestamp. Qed.
Print Assumptions C02_meas_median_timestamp.

(* the measurement oracle for "only reorders" accepts exactly the model's slices: permutations of the FULL
   records (timestamp, offset, error) in ascending order of offset *)
Theorem C02_meas_reorder_oracle : forall before after,
  C02_reorder_m_ok before after = true <-> tm_sorted_perm before after.
Proof. exact reorder_m_ok_iff. Qed.
Print Assumptions C02_meas_reorder_oracle.

(* what the timestamp oracle accepts does lie between *)
Theorem C02_ts_oracle_sound : forall x y r, gt_wf x -> gt_wf y -> C02_ts_ok x y r = true ->
  gt_wf r /\ Z.min (gt_abs x) (gt_abs y) <= gt_abs r <= Z.max (gt_abs x) (gt_abs y).
Proof. exact ts_oracle_sound. Qed.
Print Assumptions C02_ts_oracle_sound.

(* the whole oracle for timestamped measurements (slice only reordered as full records, error nil, timestamp
   between the two selected, offset contained for every choice of the arbitrary positions) holds for the model:
   all inputs, all tie orders *)
Theorem C02_meas_ftm_oracle : forall ms s, ms <> [] -> all_wf ms -> tm_sorted_perm ms s ->
  C02_meas_ftm_ok ms (tftm_sorted s) s = true.
Proof. exact meas_ftm_oracle. Qed.
Print Assumptions C02_meas_ftm_oracle.

Theorem C02_meas_median_oracle : forall ms s, ms <> [] -> all_wf ms -> tm_sorted_perm ms s ->
  C02_meas_median_ok ms (tmedian_sorted s) s = true.
Proof. exact meas_median_oracle. Qed.
Print Assumptions C02_meas_median_oracle.

(* ---- every choice of the arbitrary positions ----
   the property quantifies over every choice of at most floor((n-1)/3) arbitrary positions: a result is within
   the range of the remaining values for every such choice iff it lies between the (f+1)-th smallest and the
   (f+1)-th largest input *)
Theorem C02_ftm_every_choice : forall (l : list Z) res, l <> [] ->
  let n := length l in let f := ((n - 1) / 3)%nat in
  nth f (zsort l) 0 <= res <= nth (n - 1 - f) (zsort l) 0 <-> contained_for_every_choice l res.
Proof. exact ftm_every_choice_iff. Qed.
Print Assumptions C02_ftm_every_choice.

(* the oracle used on the implementation's results accepts exactly that ... *)
Theorem C02_ftm_strong_oracle_iff : forall l res, l <> [] -> (forall x, In x l -> Z.abs x < 2^62) ->
  C02_ftm_strong_ok l res = true <-> contained_for_every_choice l res.
Proof. exact ftm_strong_ok_iff. Qed.
Print Assumptions C02_ftm_strong_oracle_iff.

(* ... the model passes it on all inputs ... *)
Theorem C02_ftm_strong_oracle : forall l res, ftm l = Some res -> C02_ftm_strong_ok l res = true.
Proof. exact ftm_strong_oracle. Qed.
Print Assumptions C02_ftm_strong_oracle.

(* ... and it implies the check against any single designated set *)
Theorem C02_ftm_strong_implies_designated : forall tl res,
  C02_ftm_strong_ok (map fst tl) res = true -> C02_ftm_ok tl res = true.
Proof. exact ftm_strong_implies_designated. Qed.
Print Assumptions C02_ftm_strong_implies_designated.

(* ---- independence of the order of the inputs, measurements ----
   offset and nil error never depend on the order (C02_meas_ftm, C02_meas_median with C02_perm_invariant); with
   pairwise distinct offsets neither does the slice left behind nor the timestamp *)
Theorem C02_meas_order_independent : forall ms ms' s s',
  Permutation ms ms' -> NoDup (map tm_off ms) -> tm_sorted_perm ms s -> tm_sorted_perm ms' s' ->
  s = s' /\ tftm_sorted s = tftm_sorted s' /\ tmedian_sorted s = tmedian_sorted s'.
Proof. exact meas_order_independent. Qed.
Print Assumptions C02_meas_order_independent.

(* with tied offsets the combined timestamp depends on which of the tied records the sort puts where:
   "independent of the order of the inputs", taken literally for the timestamp, is refuted *)
Theorem C02_meas_tie_order_refuted :
  let a := {| tm_ts := {| gt_sec := 1; gt_nsec := 0 |}; tm_off := 0; tm_err := false |} in
  let b := {| tm_ts := {| gt_sec := 2; gt_nsec := 0 |}; tm_off := 0; tm_err := false |} in
  let c := {| tm_ts := {| gt_sec := 3; gt_nsec := 0 |}; tm_off := 0; tm_err := false |} in
  let ms := [a; b; c] in let s := [a; b; c] in let s' := [a; c; b] in
  all_wf ms /\ tm_sorted_perm ms s /\ tm_sorted_perm ms s' /\
  tm_off (tftm_sorted s) = tm_off (tftm_sorted s') /\
  tm_ts (tftm_sorted s) = {| gt_sec := 2; gt_nsec := 0 |} /\ tm_ts (tftm_sorted s') = {| gt_sec := 1; gt_nsec := 500000000 |} /\
  tm_ts (tmedian_sorted s) = {| gt_sec := 2; gt_nsec := 0 |} /\ tm_ts (tmedian_sorted s') = {| gt_sec := 3; gt_nsec := 0 |} /\
  C02_meas_perm_strict_ok (tftm_sorted s) (tftm_sorted s') = false.
Proof. exact meas_tie_order_refuted. Qed.
Print Assumptions C02_meas_tie_order_refuted.

Theorem C02_meas_perm_oracle : forall ms ms' s s', ms <> [] ->
  Permutation ms ms' -> tm_sorted_perm ms s -> tm_sorted_perm ms' s' ->
  C02_meas_perm_ok ms (tftm_sorted s) (tftm_sorted s') = true /\
  C02_meas_perm_ok ms (tmedian_sorted s) (tmedian_sorted s') = true.
Proof. exact meas_perm_oracle. Qed.
Print Assumptions C02_meas_perm_oracle.

(* the one-integer time model of the source translator (Unix nanoseconds) and this one: unix_repr is exactly the
   range of time.Time, the conversions are inverse on it (used by GenEquiv/C02.v) *)
Theorem C02_time_unix_range :
  (forall t, gt_wf t -> unix_repr (gt_unix t) /\ gt_of_unix (gt_unix t) = t) /\
  (forall u, unix_repr u -> gt_wf (gt_of_unix u) /\ gt_unix (gt_of_unix u) = u).
Proof. exact unix_range_exact. Qed.
Print Assumptions C02_time_unix_range.

(* hypotheses satisfiable: zero time.Time{} and a modern time (Sub saturates), an errored input selected *)
Example C02_meas_example :
  let z := gt_zero in let now := {| gt_sec := 63895000000; gt_nsec := 999999999 |} in
  let ms := [ {| tm_ts := now; tm_off := 30; tm_err := false |}; {| tm_ts := now; tm_off := 10; tm_err := false |};
              {| tm_ts := z; tm_off := 20; tm_err := true |}; {| tm_ts := z; tm_off := 40; tm_err := false |} ] in
  let s := isort tm_off ms in
  all_wf ms /\ tm_sorted_perm ms s /\
  tftm_sorted s = {| tm_ts := {| gt_sec := 4611686018; gt_nsec := 427387903 |}; tm_off := 25; tm_err := false |} /\
  gt_sub now z = max_i64.
Proof. exact meas_example. Qed.
