(* C02 — Fault-tolerant midpoint and median stay within the correct values. *)
From ST Require Import Base.Ints Base.Sorting Model.NtpTime Model.Ftm Proofs.FtmProofs.
From Coq Require Import ZArith List Sorting.Permutation.
Import ListNotations.
Open Scope Z_scope.

(* values are tagged: (v, true) is a correct offset, (v, false) an arbitrary one.
   For every non-empty list with at most floor((n-1)/3) arbitrary values and all
   magnitudes below 2^62, the fault-tolerant midpoint lies between two correct values. *)
Theorem C02_ftm_contained : forall l : list (Z * bool),
  l <> [] -> (nbad l <= (length l - 1) / 3)%nat -> (forall x, In x l -> Z.abs (fst x) < 2^62) ->
  exists res lo hi, ftm (map fst l) = Some res /\ In (lo, true) l /\ In (hi, true) l /\ lo <= res <= hi.
Proof. exact ftm_contained. Qed.
Print Assumptions C02_ftm_contained.

Theorem C02_ftm_oracle : forall (l : list (Z * bool)) res, ftm (map fst l) = Some res -> C02_ftm_ok l res = true.
Proof. exact ftm_oracle. Qed.
Print Assumptions C02_ftm_oracle.

Theorem C02_median_contained : forall l : list Z,
  l <> [] -> (forall x, In x l -> Z.abs x < 2^62) ->
  exists res, median l = Some res /\ lmin l <= res <= lmax l.
Proof. exact median_contained. Qed.
Print Assumptions C02_median_contained.

Theorem C02_median_oracle : forall l res, median l = Some res -> C02_median_ok l res = true.
Proof. exact median_oracle. Qed.
Print Assumptions C02_median_oracle.

(* independent of the order of the inputs *)
Theorem C02_perm_invariant : forall l l', Permutation l l' -> ftm l = ftm l' /\ median l = median l'.
Proof. exact perm_invariant. Qed.
Print Assumptions C02_perm_invariant.

(* the caller's slice is only reordered: afterwards it is the sorted permutation of what it was *)
Theorem C02_only_reorders : forall l, Permutation l (zsort l) /\ zsorted (zsort l).
Proof. exact only_reorders. Qed.
Print Assumptions C02_only_reorders.

(* no arithmetic overflow below 2^62: the wrapped int64 computation equals the unbounded one *)
Theorem C02_no_overflow : forall x y, Z.abs x < 2^62 -> Z.abs y < 2^62 -> midpoint x y = x + Z.quot (y - x) 2.
Proof. exact midpoint_exact. Qed.
Print Assumptions C02_no_overflow.

(* timestamped measurements, for EVERY sorted permutation s the (unstable) sort may leave behind *)
Theorem C02_meas_ftm : forall ms s, is_sorted_perm ms s -> ms <> [] ->
  ftm (map m_off ms) = Some (m_off (ftm_m_sorted s)) /\ m_err (ftm_m_sorted s) = false.
Proof. exact meas_ftm_offset. Qed.
Print Assumptions C02_meas_ftm.

Theorem C02_meas_median : forall ms s, is_sorted_perm ms s -> ms <> [] ->
  median (map m_off ms) = Some (m_off (median_m_sorted s)) /\ m_err (median_m_sorted s) = false.
Proof. exact meas_median_offset. Qed.
Print Assumptions C02_meas_median.

Theorem C02_meas_timestamp_between : forall x y,
  Z.min (m_ts x) (m_ts y) <= m_ts (midpoint_m x y) <= Z.max (m_ts x) (m_ts y).
Proof. exact meas_timestamp_between. Qed.
Print Assumptions C02_meas_timestamp_between.
