(* C16 -- A measurement round ends by its deadline, counts each result once, leaks nothing.

   Model: Model/Collect.v, a labelled transition system with virtual time for one call of
   ReferenceClockClient.MeasureClockOffsets (producers, the collector's select loop, the
   drainer, the context's deadline) and the compare-and-swap guard of the collector object.
   `reachable sc s` = s is a state of SOME schedule of the scenario sc (any number of clocks,
   any completion times incl. "never", any results, any deadline); every theorem below is
   about all reachable states, i.e. all schedules.  `wf sc` is what the length check at the
   top of MeasureClockOffsets establishes (len(ms) = len(refclks)). *)
From Coq Require Import ZArith List Bool Sorting.Permutation.
From ST Require Import Model.Collect Proofs.CollectProofs.
Import ListNotations.
Open Scope Z_scope.

(* Clause 1a: in every state of every schedule the collector is either still looping and the
   clock has not passed the deadline, or it returned at exactly min(deadline, completion of
   the last clock) -- never later than the deadline. *)
Theorem C16_deadline : forall sc s, wf sc -> reachable sc s ->
  match coll s with
  | Loop _ _ => now s <= dl sc
  | Ret _ t => t <= dl sc /\ t = expected_ret sc
  end.
Proof. exact deadline_respected. Qed.
Print Assumptions C16_deadline.

(* Clause 1b: the collector is never blocked for good, however slow, blocked (completion time
   None) or failing the clocks are: every schedule is finite (at most 2n+2 transitions), and a
   state in which no transition is enabled has the collector returned, by the deadline. *)
Theorem C16_schedules_finite : forall sc ls s, exec sc (init sc) ls = Some s -> (length ls <= 2 * nclk sc + 2)%nat.
Proof. exact schedules_finite. Qed.
Print Assumptions C16_schedules_finite.

Theorem C16_never_blocked : forall sc s, wf sc -> reachable sc s -> stuck sc s = true ->
  exists j, coll s = Ret j (expected_ret sc) /\ expected_ret sc <= dl sc.
Proof. exact stuck_returned. Qed.
Print Assumptions C16_never_blocked.

(* Clause 2: when the collector has returned, the slice is  results ++ untouched rest, where the
   results are those of a duplicate-free list l of clocks (the order of receipt), each of which
   completed no later than the deadline, containing EVERY clock that completed strictly before
   the deadline; only successful ones are stored, each once, in that order. *)
Theorem C16_prefix_once : forall sc s j t, wf sc -> reachable sc s -> coll s = Ret j t ->
  exists l, NoDup l /\ (forall k, In k l -> (k < nclk sc)%nat /\ by_dl sc k = true) /\
            (forall k, (k < nclk sc)%nat -> before_dl sc k = true -> In k l) /\
            j = length (oks sc l) /\ (j <= nclk sc)%nat /\
            ms s = map (cres sc) (oks sc l) ++ skipn j (s_ms0 sc).
Proof. exact prefix_once. Qed.
Print Assumptions C16_prefix_once.

(* Clause 3: once the collector has returned, every clock's call has returned and no goroutine
   can run, no goroutine of the round exists any more (producers, collector, drainer). *)
Theorem C16_no_leak : forall sc s j t, wf sc -> reachable sc s ->
  coll s = Ret j t -> urgent s = false -> (forall k, pstate s k <> Working) -> goroutines s = 0%nat.
Proof. exact no_leak_settled. Qed.
Print Assumptions C16_no_leak.

(* ... in particular at the end of every maximal schedule of a round whose clocks all return *)
Theorem C16_no_leak_final : forall sc s, wf sc -> reachable sc s -> stuck sc s = true ->
  (forall k, (k < nclk sc)%nat -> ctime sc k <> None) -> goroutines s = 0%nat.
Proof. exact no_leak_final. Qed.
Print Assumptions C16_no_leak_final.

(* Clause 4: the guard.  For every history of calls and returns on one collector object the
   counter is 1 exactly while one call is in progress (ginv), the deferred reset never finds an
   inconsistent count, a call with equal lengths is refused iff a call is in progress, and the
   collector is usable again after the return. *)
Theorem C16_guard_histories : forall os, ginv (fst (grun ginit os)) /\ ~ In GO_inconsistent (snd (grun ginit os)).
Proof. intros os. apply grun_inv. exact ginv_init. Qed.
Print Assumptions C16_guard_histories.

Theorem C16_second_collection_refused : forall g id a b, ginv g ->
  snd (gstep g (GCall id a b)) =
    GO_call (if negb (Nat.eqb a b) then PanicLen else match g_active g with [] => Started | _ => PanicBusy end).
Proof. exact guard_call. Qed.
Print Assumptions C16_second_collection_refused.

Theorem C16_guard_in_progress : forall g id a b, ginv g -> snd (gstep g (GCall id a b)) = GO_call Started ->
  g_active g = [] /\ g_active (fst (gstep g (GCall id a b))) = [id] /\ a = b.
Proof. exact guard_active. Qed.
Print Assumptions C16_guard_in_progress.

Theorem C16_guard_released : forall g id, g_active g = [id] -> ginv g ->
  gstep g (GReturn id) = ({| g_numops := 0; g_active := [] |}, GO_ret).
Proof. exact guard_return. Qed.
Print Assumptions C16_guard_released.

(* The property oracle (written from the property text over the scenario only) accepts what
   the model does in every schedule: return time and slice of every returned state ... *)
Theorem C16_oracle_round : forall sc s j t, wf sc -> reachable sc s -> coll s = Ret j t ->
  C16_round_ok sc t (ms s) = true.
Proof. exact round_ok_model. Qed.
Print Assumptions C16_oracle_round.

(* ... and the goroutine count of every settled state in which all clocks have returned *)
Theorem C16_oracle_leak : forall sc s j t tp, wf sc -> reachable sc s ->
  coll s = Ret j t -> urgent s = false -> (forall k, pstate s k <> Working) ->
  C16_leak_ok sc t tp (Z.of_nat (goroutines s)) = true.
Proof. exact leak_ok_model. Qed.
Print Assumptions C16_oracle_leak.

(* ... and the outcomes of every timed history of calls on one collector object: calls in start
   order, each taking any time >= 0 when let in, equal or unequal lengths, and either resolution
   of the race between a call and a return of the same instant *)
Theorem C16_oracle_guard : forall cs T, starts_from T cs -> C16_guard_ok (hist_model ginit None 0 cs) = true.
Proof. exact guard_oracle_model. Qed.
Print Assumptions C16_oracle_guard.

(* Calls made concurrently (several goroutines at the same instant) reach the compare-and-swap in
   SOME order; whatever that order is, the model's outcomes satisfy the order-free oracle (no two
   returned calls in progress at the same time, every refusal has a call in progress as its cause,
   outcome classes), and that oracle does not depend on how the calls are listed. *)
Theorem C16_oracle_concurrent : forall cs T, starts_from T cs -> C16_concurrent_ok (hist_model ginit None 0 cs) = true.
Proof. exact concurrent_oracle_model. Qed.
Print Assumptions C16_oracle_concurrent.

Theorem C16_oracle_concurrent_order_free : forall l l', Permutation l l' -> C16_concurrent_ok l = C16_concurrent_ok l'.
Proof. exact concurrent_ok_perm. Qed.
Print Assumptions C16_oracle_concurrent_order_free.

(* One iteration of sync.Run = two instances of the collector running side by side under the same
   timeout; Run hands the correction over when both have returned.  For every pair of schedules:
   the hand-over is no later than the deadline, it is max of the two (exact) return times, and the
   oracle for a sync iteration accepts it. *)
Theorem C16_sync_round : forall sc_r sc_p s_r s_p j_r t_r j_p t_p,
  wf sc_r -> wf sc_p -> reachable sc_r s_r -> reachable sc_p s_p ->
  coll s_r = Ret j_r t_r -> coll s_p = Ret j_p t_p ->
  Z.max t_r t_p <= Z.max (dl sc_r) (dl sc_p) /\
  Z.max t_r t_p = Z.max (expected_ret sc_r) (expected_ret sc_p) /\
  C16_sync_round_ok sc_r sc_p (Z.max t_r t_p) = true.
Proof. exact sync_round_model. Qed.
Print Assumptions C16_sync_round.

(* Goroutine accounting at ANY settled instant after the return (also while clocks are still
   running or never return): what is alive is covered by the clocks whose calls have not returned
   yet - one producer each and one drainer waiting for them. *)
Theorem C16_alive_accounting : forall sc s j t tp, wf sc -> reachable sc s ->
  coll s = Ret j t -> urgent s = false -> (forall x, In x (pending sc s) -> tp < x) ->
  C16_alive_ok sc t tp (Z.of_nat (goroutines s)) = true.
Proof. exact alive_ok_model. Qed.
Print Assumptions C16_alive_accounting.

(* The count collectMeasurements returns is the length of the front (observed through the hook
   core/client.VerifCollectMeasurements, kind collect.raw). *)
Theorem C16_oracle_raw : forall sc s j t, wf sc -> reachable sc s -> coll s = Ret j t ->
  C16_raw_ok sc t j (ms s) = true.
Proof. exact raw_ok_model. Qed.
Print Assumptions C16_oracle_raw.

(* Guard and collector composed into one call (gc_init = length check + CAS, gc_step = collector
   transition, the deferred reset fires with Quit/Exit): in every reachable state of the call the
   collector object counts exactly one call in progress while the collector loops, and is idle
   again from the instant the collector returns, which is min(deadline, last completion).  This
   is the release instant the dispatcher uses for histories. *)
Theorem C16_guard_released_at_return : forall sc id g x0 x, ginv g -> gc_init sc id g = Some x0 ->
  gc_reachable sc id x0 x ->
  wf sc /\ reachable sc (gc_s x) /\
  match coll (gc_s x) with
  | Loop _ _ => g_active (gc_g x) = [id] /\ g_numops (gc_g x) = 1
  | Ret _ t => gc_g x = {| g_numops := 0; g_active := [] |} /\ t = expected_ret sc
  end.
Proof.
  intros sc id g x0 x Hg Hi Hr. destruct (guard_released_at_return sc id g x0 x Hg Hi Hr) as [Hwf [H1 H2]].
  split; [exact Hwf|]. split; [exact H1|exact H2].
Qed.
Print Assumptions C16_guard_released_at_return.

(* lts_outcomes_allowed: the schedule search of the dispatcher (Extract/GlueC16.v) only ever
   produces states of the model, so an observation it accepts is an outcome of the LTS *)
Theorem C16_guided_schedules_are_model_schedules : forall fuel sc lim g s0 s g', reachable sc s0 ->
  guided fuel sc lim g s0 = Some (s, g') -> reachable sc s.
Proof. exact guided_reachable. Qed.
Print Assumptions C16_guided_schedules_are_model_schedules.

(* The hypotheses are satisfiable and the states talked about exist: three clocks (one early
   success, one early failure, one blocked far beyond the deadline), deadline 100. *)
Definition ex_sc : scen :=
  {| s_deadline := 100;
     s_clocks := [ {| c_done := Some 4000; c_res := {| m_ts := 1; m_off := 11; m_err := false |} |};
                   {| c_done := Some 10;   c_res := {| m_ts := 2; m_off := 12; m_err := false |} |};
                   {| c_done := Some 20;   c_res := {| m_ts := 3; m_off := 13; m_err := true |} |} ];
     s_ms0 := [ {| m_ts := 7; m_off := -1; m_err := false |}; {| m_ts := 8; m_off := -2; m_err := false |};
                {| m_ts := 9; m_off := -3; m_err := true |} ] |}.
Definition ex_schedule : list label :=
  [Finish 1; Recv 1; Finish 2; Recv 2; Cancel; Quit; Finish 0; DrainRecv 0].

Example ex_wf : wf ex_sc.
Proof. reflexivity. Qed.

Example ex_run :
  match exec ex_sc (init ex_sc) ex_schedule with
  | Some s => coll s = Ret 1 100 /\ ms s = [ {| m_ts := 2; m_off := 12; m_err := false |};
                                             {| m_ts := 8; m_off := -2; m_err := false |};
                                             {| m_ts := 9; m_off := -3; m_err := true |} ]
              /\ stuck ex_sc s = true /\ goroutines s = 0%nat /\ now s = 4000
  | None => False
  end.
Proof. vm_compute. repeat split; reflexivity. Qed.

(* the deadline cannot be overrun: the collector cannot keep receiving after time 100 *)
Example ex_no_late_receive :
  exec ex_sc (init ex_sc) [Finish 1; Recv 1; Finish 2; Recv 2; Cancel; Finish 0] = None.
Proof. vm_compute. reflexivity. Qed.

Example ex_guard :
  snd (grun ginit [GCall 0 3 3; GCall 1 0 0; GCall 2 2 3; GReturn 0; GCall 3 1 1])
  = [GO_call Started; GO_call PanicBusy; GO_call PanicLen; GO_ret; GO_call Started].
Proof. reflexivity. Qed.

(* a timed history: a call taking 100, one made during it, one with unequal lengths, one made
   at the instant it returns (return first), one made while that one is in progress *)
Example ex_history :
  map go_out (hist_model ginit None 0
    [ {| hc_start := 0; hc_lens := true; hc_dur := 100; hc_return_first := true |};
      {| hc_start := 10; hc_lens := true; hc_dur := 5; hc_return_first := true |};
      {| hc_start := 20; hc_lens := false; hc_dur := 5; hc_return_first := true |};
      {| hc_start := 100; hc_lens := true; hc_dur := 30; hc_return_first := true |};
      {| hc_start := 129; hc_lens := true; hc_dur := 1; hc_return_first := false |} ]) = [0; 2; 1; 0; 2].
Proof. reflexivity. Qed.

(* two calls in progress at once are rejected by the order-free oracle, in either listing *)
Example ex_two_in_progress :
  C16_concurrent_ok [ {| go_start := 5; go_lens := true; go_out := 0; go_ret := 105 |};
                      {| go_start := 5; go_lens := true; go_out := 0; go_ret := 75 |} ] = false
  /\ C16_concurrent_ok [ {| go_start := 5; go_lens := true; go_out := 0; go_ret := 105 |};
                         {| go_start := 5; go_lens := true; go_out := 2; go_ret := -1 |};
                         {| go_start := 5; go_lens := true; go_out := 2; go_ret := -1 |} ] = true.
Proof. split; reflexivity. Qed.
