(* C09 — servers answer exactly the valid client requests, once, to the sender.
   Statements only; proofs live in Proofs/ServerDecisionProofs.v.

   Reading guide.  bytes_ok: every element is a byte.  env_ok payload e is the
   contract of what leaves the project for this datagram (NTS-valid payloads are
   at most 1024 bytes, an authenticated request gets at least one cookie back,
   nts.EncodePacket emits at most 1024 bytes).  valid_client_request payload nts
   is the property's "well-formed client request" (>= 48 bytes, LI 0 or 3,
   version 2-4 with mode 3 or version 1 with mode 0, and exactly 48 bytes or a
   valid NTS request).  Timestamps, the timestamp store, the NTS verdict and
   Path.Reverse are universally quantified inputs (record env). *)
From ST Require Import Base.Ints Model.ServerDecision Proofs.ServerDecisionProofs.
From Coq Require Import ZArith List Bool.
Import ListNotations.
Open Scope Z_scope.

(* ---- reply <=> valid request ---- *)

(* all 256 first header bytes: ValidateRequest accepts exactly what the property says
   (complete sweep by vm_compute, lifted to a universally quantified statement) *)
Theorem C09_first_byte_sweep : forall l, 0 <= l < 256 -> validate_lvm l = wf_first_byte l.
Proof. exact lvm_sweep. Qed.
Print Assumptions C09_first_byte_sweep.

Theorem C09_accepted_first_bytes : forall l, 0 <= l < 256 ->
  (validate_lvm l = true <-> In l [8; 19; 27; 35; 200; 211; 219; 227]).
Proof. exact accepted_exactly. Qed.
Print Assumptions C09_accepted_first_bytes.

(* the shifts and masks of the code are the fields of the wire format *)
Theorem C09_header_fields : forall l, 0 <= l < 256 ->
  leap_of l = l / 64 /\ version_of l = (l / 8) mod 8 /\ mode_of l = l mod 8.
Proof. exact fields_arith. Qed.
Print Assumptions C09_header_fields.

(* every payload of every length (0 .. beyond the buffer), all trailing data *)
Theorem C09_reply_iff_valid : forall payload e, bytes_ok payload -> env_ok payload e ->
  ((exists out, ip_decision payload e = Reply out) <-> valid_client_request payload (e_nts_ok e)).
Proof. exact ip_reply_iff_valid. Qed.
Print Assumptions C09_reply_iff_valid.

(* ---- exactly once, to the sender, for every history and every buffer state ---- *)

Theorem C09_history : forall h buf, Forall datagram_ok h ->
  exists outs, ip_run buf h = Some outs /\
    Forall2 (fun d ws =>
      (valid_client_request (d_payload d) (e_nts_ok (d_env d)) /\
       exists out, ws = [ {| w_dst := d_src d; w_payload := out |} ] /\ is_server_reply out)
      \/ (~ valid_client_request (d_payload d) (e_nts_ok (d_env d)) /\ ws = [])) h outs.
Proof. exact ip_history. Qed.
Print Assumptions C09_history.

(* the loop's buffer does not carry anything from one datagram to the next *)
Theorem C09_history_independent : forall h buf,
  ip_run buf h = Some (map (fun d => writes_of (d_src d) (ip_decision (d_payload d) (d_env d))) h).
Proof. exact ip_run_stateless. Qed.
Print Assumptions C09_history_independent.

Theorem C09_reply_count : forall h buf outs, ip_run buf h = Some outs ->
  length (concat outs) =
  length (filter (fun d => match ip_decision (d_payload d) (d_env d) with Reply _ => true | _ => false end) h).
Proof. exact ip_history_count. Qed.
Print Assumptions C09_reply_count.

Theorem C09_buffer_capacity : forall buf d, length buf = Z.to_nat ip_buf_cap ->
  zlen (e_nts_ext (d_env d)) <= 1024 - 48 ->
  length (fst (ip_step buf d)) = Z.to_nat ip_buf_cap.
Proof. exact ip_step_buf. Qed.
Print Assumptions C09_buffer_capacity.

(* the listener code itself never panics on the decision path *)
Theorem C09_no_panic : forall b e, ntp_decision b e <> Crash.
Proof. exact ntp_decision_never_crashes. Qed.
Print Assumptions C09_no_panic.

(* ---- reply shape ---- *)

Theorem C09_reply_shape : forall b e out, ntp_decision b e = Reply out ->
  reply_shape_ok out = true /\ hd 0 out = 36 /\ nth 1 out 0 = 1 /\ 48 <= zlen out.
Proof. exact reply_shape. Qed.
Print Assumptions C09_reply_shape.

Theorem C09_reply_header : forall req e,
  handle_request req e = Some (reply_packet req e) /\
  leap_of (lvm (reply_packet req e)) = 0 /\ version_of (lvm (reply_packet req e)) = 4 /\
  mode_of (lvm (reply_packet req e)) = 4 /\ stratum (reply_packet req e) = 1.
Proof. intros req e. split; [exact (handle_request_total req e) | exact (reply_packet_fields req e)]. Qed.
Print Assumptions C09_reply_header.

(* ---- no reflection ---- *)

(* a reply is not answered by any listener in any environment (NTS verdict included) *)
Theorem C09_no_reflection : forall b e out, ntp_decision b e = Reply out ->
  (forall e', ntp_decision out e' = NoReply) /\ (forall e', ip_decision out e' = NoReply) /\
  (forall nts, wellformed_request out nts = false).
Proof.
  intros b e out H. split; [exact (reply_not_answered b e out H)|]. split.
  - intros e'. apply ip_decision_of_reply. exists b, e. exact H.
  - exact (reply_not_wellformed b e out H).
Qed.
Print Assumptions C09_no_reflection.

(* everything one listener ever writes, sent to any listener in any state, from any
   source, in any order, is answered by nothing: two servers cannot answer each other *)
Theorem C09_no_pingpong : forall h buf outs, ip_run buf h = Some outs ->
  forall (redirect : ip_write -> ip_datagram),
    (forall w, d_payload (redirect w) = w_payload w) ->
    forall buf2, ip_run buf2 (map redirect (concat outs)) = Some (map (fun _ => []) (concat outs)).
Proof. exact no_pingpong. Qed.
Print Assumptions C09_no_pingpong.

Theorem C09_scion_no_reflection : forall cp lp h p e, is_reply_payload p ->
  forall rh out, scion_decision_of cp lp h p e <> SReply rh out.
Proof. exact scion_decision_of_reply. Qed.
Print Assumptions C09_scion_no_reflection.

(* ---- SCION listener ---- *)

Theorem C09_scion_reply_iff_valid : forall cp lp h payload e,
  bytes_ok payload -> env_ok payload e ->
  addressed_to_listener cp lp h = true -> e_spao_fail e = false ->
  ((exists rh out, scion_decision_of cp lp h payload e = SReply rh out) <->
   (valid_client_request payload (e_nts_ok e) /\ e_path_rev e <> None)).
Proof. exact scion_reply_iff_valid. Qed.
Print Assumptions C09_scion_reply_iff_valid.

(* back along the reversed path with addresses and ports exchanged *)
Theorem C09_scion_reply_addressing : forall cp lp h payload e rh out,
  scion_decision_of cp lp h payload e = SReply rh out ->
  h_dst_ia rh = h_src_ia h /\ h_src_ia rh = h_dst_ia h /\
  h_dst_type rh = h_src_type h /\ h_src_type rh = h_dst_type h /\
  h_dst_raw rh = h_src_raw h /\ h_src_raw rh = h_dst_raw h /\
  h_udp_dst rh = h_udp_src h /\ h_udp_src rh = h_udp_dst h /\
  e_path_rev e = Some (h_path_type rh, h_path_raw rh) /\
  is_server_reply out /\ (forall e', ntp_decision out e' = NoReply).
Proof. exact scion_reply_addressing. Qed.
Print Assumptions C09_scion_reply_addressing.

Theorem C09_scion_no_panic : forall cp lp h payload e, scion_decision_of cp lp h payload e <> SCrash.
Proof. exact scion_never_crashes. Qed.
Print Assumptions C09_scion_no_panic.

(* ---- the executable oracle evaluated on implementation observations accepts the model ---- *)

Theorem C09_model_meets_oracle : forall src payload e, bytes_ok payload -> env_ok payload e ->
  C09_ok src payload (e_nts_ok e) (ip_replies src (ip_decision payload e)) = true.
Proof. exact model_meets_oracle_ip. Qed.
Print Assumptions C09_model_meets_oracle.

Theorem C09_scion_model_meets_oracle : forall cp lp src h payload e,
  bytes_ok payload -> env_ok payload e ->
  addressed_to_listener cp lp h = true -> e_spao_fail e = false ->
  C09_scion_ok src h payload (e_nts_ok e) (e_path_rev e)
    (scion_replies src (scion_decision_of cp lp h payload e)) = true.
Proof. exact model_meets_oracle_scion. Qed.
Print Assumptions C09_scion_model_meets_oracle.

(* every packet a SCION listener socket receives, addressed to it or not: no reply at all to
   a packet for another port or with an unreadable host address (relayed, at most, under the
   dispatcher rule) *)
Theorem C09_scion_any_packet_meets_oracle : forall cp lp src h payload e,
  bytes_ok payload -> env_ok payload e -> e_spao_fail e = false ->
  C09_scion_any_ok src cp lp h payload (e_nts_ok e) (e_path_rev e)
    (scion_replies src (scion_decision_of cp lp h payload e)) = true.
Proof. exact model_meets_oracle_scion_any. Qed.
Print Assumptions C09_scion_any_packet_meets_oracle.

(* a request whose SCION packet authenticator does not verify (e_spao_fail) gets no reply; the
   hypothesis e_spao_fail e = false of the theorems above is dropped *)
Theorem C09_scion_authenticator_meets_oracle : forall cp lp src h payload e,
  bytes_ok payload -> env_ok payload e ->
  C09_scion_auth_ok (e_spao_fail e) src cp lp h payload (e_nts_ok e) (e_path_rev e)
    (scion_replies src (scion_decision_of cp lp h payload e)) = true.
Proof. exact model_meets_oracle_scion_auth. Qed.
Print Assumptions C09_scion_authenticator_meets_oracle.

(* the reply belongs to its request (both listeners share ntp_decision): its origin timestamp is
   the request's transmit timestamp, or the request's receive timestamp in interleaved mode; a
   48-byte request gets a 48-byte reply, an NTS request a reply with extension fields (the NTS
   code never emits an empty extension for an authenticated request) *)
Theorem C09_reply_pairs_with_request : forall b e out, bytes_ok b ->
  (e_nts_ok e = true -> e_nts_ext e <> []) ->
  ntp_decision b e = Reply out -> reply_pairs_ok b out = true.
Proof. exact reply_pairs. Qed.
Print Assumptions C09_reply_pairs_with_request.

(* nts.MaxPacketLen = 1024: a longer datagram is never answered by either listener, in any
   environment (1025..2048 bytes reach nts.DecodePacket and fail there; longer ones do not fit
   the IP listener's buffer) *)
Theorem C09_oversize_nts_not_answered : forall b e, 1024 < zlen b ->
  ntp_decision b e = NoReply /\ ip_decision b e = NoReply.
Proof.
  intros b e H. split; [exact (oversize_nts_not_answered b e H)|].
  unfold ip_decision. destruct (_ <? _); [reflexivity | exact (oversize_nts_not_answered b e H)].
Qed.
Print Assumptions C09_oversize_nts_not_answered.

(* SCION/UDP length field: what the UDP layer hands to the listener (length field 0 = the whole
   rest, field >= 8 = that many bytes) is the payload the field delimits; the listener decides
   on that payload (scion_decision_of takes it as its input), never on the field *)
Theorem C09_udp_payload_meets_spec : forall dl L rest, L <= 8 + zlen rest -> 8 + zlen rest <= dl ->
  scion_udp_payload dl L rest = udp_payload_spec L rest.
Proof. exact udp_payload_meets_spec. Qed.
Print Assumptions C09_udp_payload_meets_spec.

(* ---- the same for whole histories: every exchange of every history passes the oracle,
        whatever the listener handled before it (the oracle of the "ip" case kind is
        C09_hist_ok over the probe and sentinel exchanges of all steps) ---- *)

Theorem C09_history_meets_oracle : forall h buf, Forall datagram_ok h ->
  exists outs, ip_run buf h = Some outs /\ length outs = length h /\
    C09_hist_ok (observe_run h outs) = true.
Proof. exact model_meets_oracle_history. Qed.
Print Assumptions C09_history_meets_oracle.

(* bursts: datagrams of one socket back to back; the replies in the order written *)
Theorem C09_burst_meets_oracle : forall src h buf, Forall datagram_ok h ->
  Forall (fun d => d_src d = src) h ->
  exists outs, ip_run buf h = Some outs /\
    C09_burst_ok src (map (fun d => (d_payload d, e_nts_ok (d_env d))) h)
                     (map (fun w => (w_dst w, w_payload w)) (concat outs)) = true.
Proof. exact model_meets_oracle_burst. Qed.
Print Assumptions C09_burst_meets_oracle.

(* a plain 48-byte well-formed request is answered exactly once, to its sender, wherever it
   stands in a history; nothing at all is assumed about the datagrams before and after it
   (valid NTS requests, garbage, oversize datagrams, any environment) *)
Theorem C09_plain_request_answered_in_any_history : forall pre d post buf,
  datagram_ok d -> valid_client_request (d_payload d) false ->
  exists outs_pre out outs_post,
    ip_run buf (pre ++ d :: post) =
      Some (outs_pre ++ [ {| w_dst := d_src d; w_payload := out |} ] :: outs_post) /\
    length outs_pre = length pre /\ length outs_post = length post /\ is_server_reply out.
Proof. exact plain_request_answered_in_any_history. Qed.
Print Assumptions C09_plain_request_answered_in_any_history.

(* ---- the hypotheses are satisfiable, and both outcomes occur ---- *)

Definition ex_env : env :=
  {| e_nts_ok := false; e_nts_ext := []; e_nts_cookie_added := true;
     e_rx := {| t64_sec := 3900000000; t64_frac := 5 |}; e_tx := {| t64_sec := 3900000000; t64_frac := 9 |};
     e_store_hit := None; e_spao_fail := false; e_path_rev := Some (0, []) |}.
Definition ex_request : list Z := 35 :: repeat 0 47.   (* LI 0, VN 4, mode 3 *)
Definition ex_reply_like : list Z := 36 :: 1 :: repeat 0 46.

Example ex_env_ok : env_ok ex_request ex_env.
Proof. unfold env_ok. simpl. split; [discriminate | vm_compute; discriminate]. Qed.

Example ex_request_answered : exists out, ip_decision ex_request ex_env = Reply out /\ hd 0 out = 36.
Proof. eexists. split; vm_compute; reflexivity. Qed.

Example ex_reply_ignored : ip_decision ex_reply_like ex_env = NoReply.
Proof. vm_compute. reflexivity. Qed.

Example ex_short_ignored : ip_decision (firstn 47 ex_request) ex_env = NoReply.
Proof. vm_compute. reflexivity. Qed.

Example ex_trailing_ignored : ip_decision (ex_request ++ [0]) ex_env = NoReply.
Proof. vm_compute. reflexivity. Qed.

Example ex_datagram_ok : Forall datagram_ok [ {| d_src := 7; d_payload := ex_request; d_env := ex_env |} ].
Proof.
  constructor; [|constructor]. split; [|exact ex_env_ok].
  unfold bytes_ok, ex_request. constructor; [lia|].
  apply Forall_forall. intros x Hin. apply repeat_spec in Hin. subst x. lia.
Qed.

(* a valid NTS request followed by a plain request from another socket: both are answered,
   each once, to its own sender; an observation in which the second goes unanswered is
   rejected by the oracle *)
Definition ex_nts_env : env :=
  {| e_nts_ok := true; e_nts_ext := repeat 7 100; e_nts_cookie_added := true;
     e_rx := {| t64_sec := 3900000000; t64_frac := 5 |}; e_tx := {| t64_sec := 3900000000; t64_frac := 9 |};
     e_store_hit := None; e_spao_fail := false; e_path_rev := Some (0, []) |}.
Definition ex_nts_request : list Z := ex_request ++ repeat 1 180.
Definition ex_nts_then_plain : list ip_datagram :=
  [ {| d_src := 7; d_payload := ex_nts_request; d_env := ex_nts_env |};
    {| d_src := 8; d_payload := ex_request; d_env := ex_env |} ].

Example ex_nts_then_plain_ok : Forall datagram_ok ex_nts_then_plain.
Proof.
  assert (bytes_ok ex_request) as Hr.
  { unfold bytes_ok, ex_request. constructor; [lia|].
    apply Forall_forall. intros x Hin. apply repeat_spec in Hin. subst x. lia. }
  constructor; [|constructor; [|constructor]].
  - split.
    + unfold bytes_ok, ex_nts_request. apply Forall_app. split; [exact Hr|].
      apply Forall_forall. intros x Hin. apply repeat_spec in Hin. subst x. lia.
    + unfold env_ok. simpl. split; [intros _; split; [vm_compute; discriminate|reflexivity] | vm_compute; discriminate].
  - split; [exact Hr | exact ex_env_ok].
Qed.

Example ex_nts_then_plain_both_answered :
  exists o1 o2, ip_run [] ex_nts_then_plain =
    Some [ [ {| w_dst := 7; w_payload := o1 |} ]; [ {| w_dst := 8; w_payload := o2 |} ] ] /\
    zlen o1 = 148 /\ zlen o2 = 48.
Proof. eexists _, _. split; [vm_compute; reflexivity|]. split; vm_compute; reflexivity. Qed.

Example ex_unanswered_plain_rejected : forall r1,
  C09_hist_ok [ {| o_src := 7; o_payload := ex_nts_request; o_nts := true; o_replies := [(7, r1)] |};
                {| o_src := 8; o_payload := ex_request; o_nts := false; o_replies := [] |} ] = false.
Proof. intros r1. unfold C09_hist_ok. cbn [forallb]. 
  replace (C09_obs_ok {| o_src := 8; o_payload := ex_request; o_nts := false; o_replies := [] |}) with false
    by (vm_compute; reflexivity).
  rewrite andb_false_r. reflexivity. Qed.
