(* C19 -- PLL clock discipline: bounded slew, no step once tracking, sane actuation.

   Model: Model/Pll.v (pll_do = one call of Pll.Do as seen from the clock;
   pll_run/pll_final = histories on a fresh controller).  "events" are the calls
   received by the clock: EStep offset, EAdjust offset duration frequency,
   EPanic (Do panicked).

   Histories are arbitrary lists of updates (reading, epoch, offset, weight,
   math.Pow answer): epochs are unconstrained, i.e. externally caused epoch
   changes may happen at any point.  Hypotheses of the history theorems:
     epoch_monotone us  readings do not go backwards between two consecutive updates that
                        report the SAME epoch; across an epoch change (a step of the clock, the
                        controller's own negative Step included) they are unconstrained
     upd_ok u           the offset is an int64 and the math.Pow oracle answer lies in [0,1]
     gaps_below_wrap us (C19_oracle_holds only) consecutive updates of one epoch are at most
                        9223372036 s apart; beyond that int64(ceil(dt)*1e9) wraps and the
                        duration clause is FALSE of the code: C19_duration_positive_refuted.
   The slew/duration clauses are exact integer statements below 2^32 s and carry the
   float64 rounding slack (1024 ns, 1 ns) from 2^32 s up to the wrap: C19_adjust_sane. *)
From Coq Require Import ZArith Reals List Bool.
From Flocq Require Import Core BinarySingleNaN.
From ST Require Import Base.Ints Base.F64 Model.Pll Proofs.PllFloat Proofs.PllProofs.
Import ListNotations.
Open Scope Z_scope.

(* Main theorem: the property oracle (Model/Pll.v, C19_ok: written from the
   property text, the same function that is evaluated on the implementation's
   observations) accepts the model's trace for EVERY history.  The oracle
   decides the whole call sequence: no call on the update that starts an epoch
   and while the initial step is awaited; exactly one Step by the offset (or no
   call, |offset| <= 1 ms) at the first update more than 2 s into the epoch
   with weight > 3; afterwards never a Step, at most one Adjust per update with
   sane arguments, and once tracking an Adjust at every later reading. *)
Theorem C19_oracle_holds : forall us,
  epoch_monotone us -> gaps_below_wrap us -> Forall upd_ok us -> C19_ok (pll_run pll_init us) = true.
Proof. exact oracle_holds. Qed.
Print Assumptions C19_oracle_holds.

(* In every state whatsoever: a Step is made only in the awaiting-step mode of
   the current epoch, more than 2 s after t0 (= the first update of the epoch,
   see C19_epoch_restarts), with weight > 3 and |offset| > 1 ms, and by exactly
   the measured offset (MinInt64 excepted, where Inv(Inv(.)) is off by 1 ns). *)
Theorem C19_step_only_awaiting : forall s u x, in_i64 (u_off u) ->
  In (EStep x) (events (pll_do s u)) ->
  p_epoch s = u_epoch u /\ p_mode s = 1 /\
  step_wait_ns < u_now u - p_t0 s /\ fgt (u_weight u) c_3 = true /\
  step_min_ns < Z.abs (u_off u) /\
  (u_off u <> min_i64 -> x = u_off u) /\ (u_off u = min_i64 -> x = min_i64 + 1).
Proof. exact step_only_awaiting. Qed.
Print Assumptions C19_step_only_awaiting.

(* the full statement "by exactly the measured offset" is false at MinInt64 *)
Theorem C19_step_minint_refuted :
  exists s u, in_i64 (u_off u) /\ events (pll_do s u) = [EStep (u_off u + 1)].
Proof.
  exists (mkPll 0 1 0 0 fzero fzero fzero), (mkUpd 3000000000 0 min_i64 (f_of_int 10) fzero).
  split; [unfold in_i64, min_i64, max_i64; cbn; lia|exact step_minint_witness].
Qed.
Print Assumptions C19_step_minint_refuted.

(* once past the awaiting-step mode (awaiting the PLL, tracking) there is no
   Step while the epoch is unchanged, and tracking stays tracking *)
Theorem C19_tracking_only_slews : forall s u, in_i64 (u_off u) ->
  p_epoch s = u_epoch u -> 2 <= p_mode s ->
  (forall x, ~ In (EStep x) (events (pll_do s u))) /\
  (p_mode s = 3 -> p_mode (state_of (pll_do s u)) = 3).
Proof.
  intros s u Hoff E M. split.
  - intros x. exact (no_step_after_startup s u x Hoff E M).
  - exact (tracking_stays s u E).
Qed.
Print Assumptions C19_tracking_only_slews.

(* Adjust is called only in tracking mode of the current epoch *)
Theorem C19_adjust_only_tracking : forall s u o d f,
  In (EAdjust o d f) (events (pll_do s u)) -> p_epoch s = u_epoch u /\ p_mode s = 3.
Proof. exact adjust_only_tracking. Qed.
Print Assumptions C19_adjust_only_tracking.

(* a clock step observed through the epoch restarts the start-up sequence, in
   every state: no call on the clock, mode = awaiting step, t0 = now *)
Theorem C19_epoch_restarts : forall s u, p_epoch s <> u_epoch u ->
  pll_do s u = (mkPll (u_epoch u) 1 (u_now u) (u_now u) (p_a s) (p_b s) (p_i s), [], None).
Proof. exact epoch_change_restarts. Qed.
Print Assumptions C19_epoch_restarts.

(* no panic on any history whose readings are non-decreasing within each epoch *)
Theorem C19_no_panic : forall us u,
  epoch_monotone (us ++ [u]) -> Forall upd_ok (us ++ [u]) ->
  ~ In EPanic (events (pll_do (pll_final pll_init us) u)).
Proof. exact history_no_panic. Qed.
Print Assumptions C19_no_panic.

(* every Adjust of every admissible history, with g = time since the previous
   update (p_t = its reading, C19_prev_time): finite frequency; for g < 2^32 s
   duration >= 1 s, at most g rounded up to whole seconds, |offset| <= 500 ppm of
   the duration (exact integer nanoseconds); for every g up to the wrap
   (9223372036 s) duration >= 1 s, at most g rounded up plus 1024 ns, |offset| <=
   500 ppm of the whole seconds plus 1 ns *)
Theorem C19_adjust_sane : forall us u,
  epoch_monotone (us ++ [u]) -> Forall upd_ok (us ++ [u]) ->
  forall o d f, In (EAdjust o d f) (events (pll_do (pll_final pll_init us) u)) ->
  let s := pll_final pll_init us in
  let g := u_now u - p_t s in
  fis_finite f = true /\ 0 <= g /\
  (g < max_gap_ns -> sec_ns <= d /\ d <= sec_ns * ceil_div g sec_ns /\ 2000 * Z.abs o <= d) /\
  (g <= wrap_gap_ns ->
     sec_ns <= d /\ d <= sec_ns * ceil_div g sec_ns + 1024 /\ Z.abs o <= 500000 * ceil_div g sec_ns + 1).
Proof. exact history_adjust_sane. Qed.
Print Assumptions C19_adjust_sane.

(* the full clause "never a negative or zero duration" is false of the code:
   admissible history (readings 0 s, 3 s, 10 s, then 9223372047 s; weight 10,
   offset 1000 ns), the Adjust of the last update has duration MinInt64 *)
Theorem C19_duration_positive_refuted :
  exists us u o d f, epoch_monotone (us ++ [u]) /\ Forall upd_ok (us ++ [u]) /\
    In (EAdjust o d f) (events (pll_do (pll_final pll_init us) u)) /\ d <= 0.
Proof. exact duration_positive_refuted. Qed.
Print Assumptions C19_duration_positive_refuted.

Theorem C19_prev_time : forall us, us <> [] -> epoch_monotone us -> Forall upd_ok us ->
  forall d, p_t (pll_final pll_init us) = u_now (last_upd d us) /\
            p_epoch (pll_final pll_init us) = u_epoch (last_upd d us).
Proof. exact history_prev_time. Qed.
Print Assumptions C19_prev_time.

(* The start-up sequence, call by call.  While awaiting the step (any state in
   mode 1 of the current epoch): exactly one Step, by Inv(Inv(offset)) (= the
   offset, C19_step_only_awaiting), at the first update that comes more than
   2 s after t0 with weight > 3 if |offset| > 1 ms, and no call otherwise. *)
Theorem C19_initial_step_taken : forall s u, in_i64 (u_off u) ->
  p_epoch s = u_epoch u -> p_mode s = 1 -> p_t0 s <= u_now u ->
  events (pll_do s u) =
    if (step_wait_ns <? u_now u - p_t0 s) && fgt (u_weight u) c_3 && (step_min_ns <? Z.abs (u_off u))
    then [EStep (inv (inv (u_off u)))] else [].
Proof. exact await_step_calls. Qed.
Print Assumptions C19_initial_step_taken.

(* while awaiting the PLL there is no call at all *)
Theorem C19_awaiting_pll_no_call : forall s u,
  p_epoch s = u_epoch u -> p_mode s = 2 -> p_t0 s <= u_now u -> events (pll_do s u) = [].
Proof. exact await_pll_calls. Qed.
Print Assumptions C19_awaiting_pll_no_call.

(* once tracking, in every admissible history: no call at an unchanged
   reading, exactly one Adjust at a later reading *)
Theorem C19_tracking_calls : forall us u,
  epoch_monotone (us ++ [u]) -> Forall upd_ok (us ++ [u]) ->
  let s := pll_final pll_init us in
  p_epoch s = u_epoch u -> p_mode s = 3 ->
  (u_now u = p_t s -> events (pll_do s u) = []) /\
  (p_t s < u_now u -> exists o d f, events (pll_do s u) = [EAdjust o d f]).
Proof. exact history_track_calls. Qed.
Print Assumptions C19_tracking_calls.

(* float-level slew bound, for any finite p and up to 2^34 whole seconds:
   d*-500e-6 <= clamp d p <= d*500e-6 as float64 comparisons.  (_partial: stated
   for the clamp function, connected to histories only through C19_adjust_sane,
   i.e. for gaps below 2^32 s.) *)
Theorem C19_slew_bound_float_partial : forall d p n,
  is_finite d = true -> B2R d = IZR n -> 0 <= n <= 2^34 -> is_finite p = true ->
  fle (clamp d p) (fmul d c_5em4) = true /\ fle (fmul d c_m5em4) (clamp d p) = true.
Proof. exact clamp_float_bound. Qed.
Print Assumptions C19_slew_bound_float_partial.

(* the hypotheses are satisfiable: a history that steps once BACKWARDS (new epoch, earlier reading), then slews *)
Example C19_hypotheses_satisfiable :
  epoch_monotone example_history /\ gaps_below_wrap example_history /\ Forall upd_ok example_history /\
  map (fun p => map shape (snd p)) (pll_run pll_init example_history) = [[]; [1]; []; []; []; [2]].
Proof. exact hypotheses_satisfiable. Qed.
