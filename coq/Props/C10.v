(* C10 - NTS authentication is sound.  Statements only; proofs in Proofs/NtsAuthProofs.v. *)
From Coq Require Import ZArith List Bool.
From ST Require Import Base.Ints Model.NtsAuth Proofs.NtsAuthProofs.
Import ListNotations.
Open Scope Z_scope.

Theorem C10_authenticate_sound :
  forall (seal : bytes -> bytes -> option bytes -> bytes -> bytes)
         (open : bytes -> bytes -> option bytes -> bytes -> option bytes),
  (forall k n ad c p, open k n ad c = Some p -> c = seal k n ad p) ->
  forall b key p p',
    authenticate open b key p = Ok p' ->
    key_ok key = true /\ length (p_nonce p) = 16%nat /\ (p_pos p <= length b)%nat /\
    exists pt, p_ct p = seal key (p_nonce p) (Some (firstn (p_pos p) b)) pt.
Proof. exact authenticate_sound. Qed.
Print Assumptions C10_authenticate_sound.
