(* C10 - NTS authentication is sound: only untampered packets under the right
   key pass.  Statements only; proofs live in Proofs/NtsAuthProofs.v and (byte-level
   completeness: encoder, wire format, decoder) Proofs/NtsAuthComplete.v, the
   satisfiability instance in Proofs/NtsAuthInstance.v.

   Reading guide.  seal/open are the AEAD (miscreant AES-SIV-CMAC) as symbols;
   [ideal_aead seal open] is the symbolic-crypto assumption (Open inverts Seal,
   succeeds only on Seal's own output for the same key/nonce/associated data,
   Seal is injective, ciphertext = plaintext + 16 bytes).  [server_accept open b
   key] is nts.DecodePacket followed by nts.ProcessRequest, [client_accept open b
   key reqID] is DecodePacket followed by ProcessResponse.
   [verifies seal b key p] says: b decodes to p, the authenticator field of b
   starts at p_pos p (type 0x404 there, nonce and ciphertext are the bytes of
   that field), everything else in p is a function of b[:p_pos p] alone, the key
   has a legal length, the nonce is 16 bytes, and the ciphertext is
   seal key nonce (b[:p_pos p]) pt for some pt: the authenticator verifies
   under key over exactly the header and extension bytes that precede it.
   Quantification is over ALL byte strings, keys, nonces, identifiers. *)
From Coq Require Import ZArith List Bool Lia.
From ST Require Import Base.Ints Model.NtsAuth Proofs.NtsAuthProofs Proofs.NtsAuthComplete Proofs.NtsAuthMore Proofs.NtsAuthInstance.
Import ListNotations.
Open Scope Z_scope.

(* ---- soundness ---- *)

(* a server accepts a request only if its authenticator verifies under the key
   it was given (the C2S key from the cookie) over exactly the preceding bytes *)
Theorem C10_sound_server : forall seal open, ideal_aead seal open ->
  forall b key r, server_accept open b key = Ok r -> exists p, verifies seal b key p.
Proof. exact c10_sound_server. Qed.
Print Assumptions C10_sound_server.

(* a client additionally only if the unique identifier - which lies inside the
   authenticated bytes - equals that of its outstanding request *)
Theorem C10_sound_client : forall seal open, ideal_aead seal open ->
  forall b key reqID r, client_accept open b key reqID = Ok r ->
  exists p, verifies seal b key p /\ p_uid p = reqID.
Proof. exact c10_sound_client. Qed.
Print Assumptions C10_sound_client.

(* acceptance by the authentication step alone, for any packet structure *)
Theorem C10_authenticate_sound :
  forall (seal : bytes -> bytes -> option bytes -> bytes -> bytes)
         (open : bytes -> bytes -> option bytes -> bytes -> option bytes),
  (forall k n ad c p, open k n ad c = Some p -> c = seal k n ad p) ->
  forall b key p p',
    authenticate open b key p = Ok p' ->
    key_ok key = true /\ length (p_nonce p) = 16%nat /\ (p_pos p <= length b)%nat /\
    exists pt, p_ct p = seal key (p_nonce p) (Some (firstn (p_pos p) b)) pt.
Proof. exact authenticate_sound. Qed.
Print Assumptions C10_authenticate_sound.

(* what a successful DecodePacket says about the bytes: length <= 1024, the
   authenticator at p_pos p with at least 28 bytes, its nonce and ciphertext
   read from there, and unique identifier / cookies / placeholders determined
   by b[:p_pos p] *)
Theorem C10_decode_spec : forall b p, decode_packet b = Ok p -> wire_ok b p.
Proof. exact decode_packet_spec. Qed.
Print Assumptions C10_decode_spec.

(* the receive loop of the IP client (one retry when the context has a deadline):
   whichever datagram of the sequence ds the measurement is computed from, its
   authenticator verifies under the client's key over exactly the bytes that
   precede it, and it carries the identifier of the outstanding request *)
Theorem C10_client_loop_sound : forall seal open, ideal_aead seal open ->
  forall deadline key reqID ds k,
  client_loop open deadline key reqID ds 0 0 = Some k ->
  exists p, verifies seal (nth k ds []) key p /\ p_uid p = reqID.
Proof. exact c10_client_loop_sound0. Qed.
Print Assumptions C10_client_loop_sound.

(* ---- what exactly the AEAD is assumed to give, and the rejection clauses from it ---- *)
(* [aead_siv seal open] (Proofs/NtsAuthMore.v): Open inverts Seal; Open succeeds
   only on Seal's own output for the same key, nonce and associated data; equal
   seals have the same nonce, associated data and plaintext and keys with the
   same first (S2V/CMAC) half - the same key when the plaintext is not empty; the
   ciphertext is 16 bytes longer than the plaintext.  This is what AES-SIV is
   believed to meet.  [ideal_aead] (injective in the whole key) is stronger and is
   NOT met by AES-SIV for empty plaintexts - every NTS request: the second (CTR)
   half of the key is not used then.  The theorems of this block need aead_siv only. *)
Theorem C10_ideal_implies_siv : forall seal open, ideal_aead seal open -> aead_siv seal open.
Proof. exact ideal_implies_siv. Qed.
Print Assumptions C10_ideal_implies_siv.

(* the honest statement: whatever is accepted (by the server, or by a client
   with any identifier) verifies, and - when the only seal under the receiver's
   key that can reach it is the one of the honest packet b1 (nobody without the
   key makes another: authenticity) - it carries exactly the ciphertext, the
   nonce and the authenticated bytes of b1, under a key with the same first half
   (the same key if the plaintext is not empty) *)
Theorem C10_accept_only_honest : forall seal open, aead_siv seal open ->
  forall b1 k1 p1 b2 k2 p2,
  verifies seal b1 k1 p1 -> only_seal_in_circulation seal b2 k2 p1 -> verifies seal b2 k2 p2 ->
  p_ct p2 = p_ct p1 /\ mac_half k2 = mac_half k1 /\ (length (p_ct p1) <> 16%nat -> k2 = k1) /\
  p_nonce p2 = p_nonce p1 /\ p_pos p2 = p_pos p1 /\
  firstn (p_pos p1) b2 = firstn (p_pos p1) b1.
Proof. exact siv_accept_only_honest. Qed.
Print Assumptions C10_accept_only_honest.

(* the clause: any change to the ciphertext, the nonce or an authenticated byte,
   or a key with another first half (any other key when something is encrypted),
   is rejected by the server and by a client with any outstanding identifier *)
Theorem C10_tamper_any : forall seal open, aead_siv seal open ->
  forall b1 k1 p1 b2 k2 p2,
  verifies seal b1 k1 p1 -> only_seal_in_circulation seal b2 k2 p1 -> decode_packet b2 = Ok p2 ->
  (p_ct p2 <> p_ct p1 \/ p_nonce p2 <> p_nonce p1 \/
   firstn (p_pos p1) b2 <> firstn (p_pos p1) b1 \/ mac_half k2 <> mac_half k1 \/
   (length (p_ct p1) <> 16%nat /\ k2 <> k1)) ->
  (forall r, server_accept open b2 k2 <> Ok r) /\ (forall id r, client_accept open b2 k2 id <> Ok r).
Proof. exact siv_tamper_any. Qed.
Print Assumptions C10_tamper_any.

(* ... and a datagram that DecodePacket refuses is rejected (no hypothesis) *)
Theorem C10_undecodable_rejected : forall open b key,
  (forall p, decode_packet b <> Ok p) ->
  (forall r, server_accept open b key <> Ok r) /\ (forall id r, client_accept open b key id <> Ok r).
Proof. exact undecodable_rejected. Qed.
Print Assumptions C10_undecodable_rejected.

(* the two length fields inside the authenticator are the lengths of the nonce
   and of the ciphertext that the decoder hands to the authentication step *)
Theorem C10_decode_lengths : forall b p, decode_packet b = Ok p ->
  length (p_nonce p) = Z.to_nat (be16 b (p_pos p + 4)) /\
  length (p_ct p) = Z.to_nat (be16 b (p_pos p + 6)).
Proof. exact decode_lengths. Qed.
Print Assumptions C10_decode_lengths.

(* so a changed nonce-length or ciphertext-length field is rejected *)
Theorem C10_tamper_lengths : forall seal open, aead_siv seal open ->
  forall b1 k1 p1 b2 k2 p2,
  verifies seal b1 k1 p1 -> only_seal_in_circulation seal b2 k2 p1 -> decode_packet b2 = Ok p2 ->
  p_pos p2 = p_pos p1 ->
  (Z.to_nat (be16 b2 (p_pos p1 + 4)) <> Z.to_nat (be16 b1 (p_pos p1 + 4)) \/
   Z.to_nat (be16 b2 (p_pos p1 + 6)) <> Z.to_nat (be16 b1 (p_pos p1 + 6))) ->
  (forall r, server_accept open b2 k2 <> Ok r) /\ (forall id r, client_accept open b2 k2 id <> Ok r).
Proof. exact siv_tamper_lengths. Qed.
Print Assumptions C10_tamper_lengths.

(* the use of a different key, with the hypothesis the real cipher meets: a key
   with another first half is rejected; any other key is rejected when the
   plaintext is not empty (every response).  For a request (empty plaintext) a
   key that differs in the second half only is NOT covered - and is accepted by
   the real AES-SIV: see C10_different_key_clause_refuted and the known finding
   siv-ctr-half-unused-empty-plaintext (kinds srv.ctrhalf, nts.ctrhalf) *)
Theorem C10_wrong_key : forall seal open, aead_siv seal open ->
  forall b k1 p k2,
  verifies seal b k1 p ->
  (mac_half k2 <> mac_half k1 \/ (length (p_ct p) <> 16%nat /\ k2 <> k1)) ->
  (forall r, server_accept open b k2 <> Ok r) /\ (forall id r, client_accept open b k2 id <> Ok r).
Proof. exact siv_wrong_key. Qed.
Print Assumptions C10_wrong_key.

(* the use of the other direction: a packet sealed under the C2S key is rejected
   by the client (it holds S2C), a packet sealed under S2C by the server *)
Theorem C10_wrong_direction : forall (export : bytes -> bytes -> bytes) seal open,
  (forall l c c', export l c = export l c' -> c = c') -> ideal_aead seal open ->
  forall b p,
  (verifies seal b (snd (export_keys export)) p ->
   forall id r, client_accept open b (fst (export_keys export)) id <> Ok r) /\
  (verifies seal b (fst (export_keys export)) p ->
   forall r, server_accept open b (snd (export_keys export)) <> Ok r).
Proof. exact wrong_direction. Qed.
Print Assumptions C10_wrong_direction.

(* a shortened datagram: the decoder reads nonce and ciphertext by the inner
   length fields and fills what the datagram does not hold with zeros (up to 12
   bytes of the tag may be missing).  What holds: whatever is accepted, EXTENDED
   WITH ZEROS to the lengths its authenticator declares (take_pad), carries the
   seal under the receiver's key of the bytes in front of the authenticator *)
Theorem C10_accept_zero_extended : forall seal open, aead_siv seal open ->
  forall b key,
  ((exists r, server_accept open b key = Ok r) \/ (exists id r, client_accept open b key id = Ok r)) ->
  exists p pt, decode_packet b = Ok p /\ length (p_nonce p) = 16%nat /\
    take_pad 16 (skipn (p_pos p + 8) b) = p_nonce p /\
    take_pad (Z.to_nat (be16 b (p_pos p + 6))) (skipn (p_pos p + 24) b) =
      seal key (p_nonce p) (Some (firstn (p_pos p) b)) pt.
Proof. exact accept_zero_extended. Qed.
Print Assumptions C10_accept_zero_extended.

(* REFUTED: "any change to ... the ciphertext ... is rejected" read as "only the
   datagram that was sealed is accepted".  With the cipher ex3 (Open succeeds
   only on Seal's output) the request of the project's encoder ends in a zero
   byte of the tag; with that byte cut off the shorter datagram is accepted by the
   server and, as a response, by the client; under another key it is refused.
   On the real code: known finding truncated-tag-zero-filled (kinds nts.trunctag,
   srv.trunctag) *)
Theorem C10_truncated_tag_refuted :
  (forall k n ad p, ex3_open k n ad (ex3_seal k n ad p) = Some p) /\
  (forall k n ad c p, ex3_open k n ad c = Some p -> c = ex3_seal k n ad p) /\
  let key := repeat 7 32 in let rnd := repeat 9 16 in let uid := repeat 1 32 in
  match enc_packet ex3_seal (repeat 0 48) uid [] [] key [] rnd with
  | Ok b =>
      let b' := firstn (length b - 1) b in
      (length b' < length b)%nat /\ b' <> b /\
      (exists r, server_accept ex3_open b' key = Ok r) /\
      (exists r, client_accept ex3_open b' key uid = Ok r) /\
      server_accept ex3_open b' (repeat 8 32) = Err ENotAuthentic
  | _ => False
  end.
Proof. exact truncated_tag_refuted. Qed.
Print Assumptions C10_truncated_tag_refuted.

(* ---- tampering, keys, direction, identifier ---- *)

(* two datagrams that verify and carry the same ciphertext were verified under
   the same key, carry the same nonce and the same authenticated bytes (hence
   the same identifier, cookies, placeholders) *)
Theorem C10_same_ciphertext : forall seal open, ideal_aead seal open ->
  forall b1 k1 p1 b2 k2 p2,
  verifies seal b1 k1 p1 -> verifies seal b2 k2 p2 -> p_ct p1 = p_ct p2 ->
  k1 = k2 /\ p_nonce p1 = p_nonce p2 /\ p_pos p1 = p_pos p2 /\
  firstn (p_pos p1) b1 = firstn (p_pos p1) b2 /\
  p_uid p1 = p_uid p2 /\ p_cookies p1 = p_cookies p2 /\ p_nph p1 = p_nph p2.
Proof. exact c10_same_ciphertext. Qed.
Print Assumptions C10_same_ciphertext.

(* any change to an authenticated byte or to the nonce, or the use of a
   different key (in particular the key of the other direction), is rejected
   by the server and by a client with any outstanding identifier.  A changed
   ciphertext is covered by C10_sound_*: it is accepted only if it is itself
   the seal under the receiver's key of the received nonce and bytes. *)
Theorem C10_tamper : forall seal open, ideal_aead seal open ->
  forall b1 k1 p1 b2 k2 p2,
  verifies seal b1 k1 p1 -> decode_packet b2 = Ok p2 -> p_ct p2 = p_ct p1 ->
  (k2 <> k1 \/ p_nonce p2 <> p_nonce p1 \/ firstn (p_pos p1) b2 <> firstn (p_pos p1) b1) ->
  (forall r, server_accept open b2 k2 <> Ok r) /\ (forall id r, client_accept open b2 k2 id <> Ok r).
Proof. exact c10_tamper. Qed.
Print Assumptions C10_tamper.

(* the keys of the two directions are different (TLS exporter with injective
   context separation), so C10_tamper applies to a swapped direction *)
Theorem C10_directions_differ : forall export : bytes -> bytes -> bytes,
  (forall l c c', export l c = export l c' -> c = c') ->
  fst (export_keys export) <> snd (export_keys export).
Proof. exact directions_differ. Qed.
Print Assumptions C10_directions_differ.

(* a response to a different request is rejected *)
Theorem C10_wrong_uid : forall seal open, ideal_aead seal open ->
  forall b key p reqID r,
  decode_packet b = Ok p -> p_uid p <> reqID -> client_accept open b key reqID <> Ok r.
Proof. exact c10_wrong_uid. Qed.
Print Assumptions C10_wrong_uid.

(* ---- completeness ---- *)

(* every packet produced by the project's own encoder for the same keys is
   accepted.  Byte level: the datagram b is what EncodePacket (enc_packet)
   returns; DecodePacket (decode_packet) applied to b yields exactly the
   encoder's identifier and nonce, the ciphertext that the encoder sealed over
   b[:p_pos p], i.e. over the header and extension bytes in front of the
   authenticator; and ProcessRequest / ProcessResponse accept it under the
   sealing key.  For all keys of legal length, all headers, nonces, cookies.
   Requests: NewRequestPacket's identifier has 32 bytes (newID) and the key
   exchange lets through cookies of at most 896 bytes (ntske.MaxCookieLen); nothing
   else is assumed - that the packet fits into 1024 bytes is proved.
   Responses: the cookies are of the issued shape (one length L, a multiple of
   4: Encode of an encrypted server cookie; 124 bytes for 32-byte keys), the
   identifier is the one decoded from a request (at least 32 bytes, a multiple
   of 4 - see C10_complete_needs_padded_uid) and there is room for one cookie
   (1 <= maxCookies: every request that DecodePacket lets through leaves that room
   for cookies of the size it carried itself); that the packet then fits into
   1024 bytes is proved.  With L >= 24 (each field is then at least the 28 bytes
   the loop of authenticate asks for) the client gets exactly the cookies
   NewResponsePacket kept. *)
Theorem C10_complete : forall seal open, ideal_aead seal open ->
  (forall (c : bytes) (rest cookies phs : list bytes) (hdr uid key rnd : bytes),
     new_request (c :: rest) = Ok (cookies, phs) -> (length c <= 896)%nat ->
     length hdr = 48%nat -> length uid = 32%nat -> key_ok key = true -> length rnd = 16%nat ->
     exists b p,
       enc_packet seal hdr uid cookies phs key [] rnd = Ok b /\ (length b <= MaxPacketLen)%nat /\
       decode_packet b = Ok p /\
       p_uid p = uid /\ p_nonce p = rnd /\ p_ct p = seal key rnd (Some (firstn (p_pos p) b)) [] /\
       server_accept open b key = Ok p) /\
  (forall (c0 : bytes) (rest : list bytes) L (pt hdr uid key rnd : bytes),
     Forall (fun c : bytes => length c = L) (c0 :: rest) -> (L mod 4 = 0)%nat ->
     new_response (c0 :: rest) uid = Ok pt ->
     (32 <= length uid)%nat -> (length uid mod 4 = 0)%nat -> 1 <= max_cookies (length uid) L ->
     length hdr = 48%nat -> key_ok key = true -> length rnd = 16%nat ->
     exists b p p',
       enc_packet seal hdr uid [] [] key pt rnd = Ok b /\ (length b <= MaxPacketLen)%nat /\
       decode_packet b = Ok p /\
       p_uid p = uid /\ p_nonce p = rnd /\ p_ct p = seal key rnd (Some (firstn (p_pos p) b)) pt /\
       client_accept open b key uid = Ok p' /\
       ((24 <= L)%nat -> p_cookies p' = resp_cookies (c0 :: rest) uid)).
Proof. exact c10_complete. Qed.
Print Assumptions C10_complete.

(* the oracle of the encoder kinds (C10_encode_src_ok) judges the output of
   NewRequestPacket / NewResponsePacket + EncodePacket by DecodePacket +
   ProcessRequest under the same key, for every size the builders choose: that is
   C10_complete (the packet always fits) together with this: what the client
   accepts passes the authentication step alone *)
Theorem C10_client_accept_authentic : forall open b key id r,
  client_accept open b key id = Ok r -> server_accept open b key = Ok r.
Proof. exact client_accept_authentic. Qed.
Print Assumptions C10_client_accept_authentic.

(* the same for ANY identifier (>= 32 bytes), cookies, placeholder bodies and
   plaintext that EncodePacket is given, as long as the packet fits into 1024
   bytes (enc_len = 48 + the field lengths, see Proofs/NtsAuthComplete.v) and the
   extension fields inside the plaintext are well formed: EncodePacket returns
   exactly pre ++ auth_field (no panic, no truncation), DecodePacket reads back
   exactly the encoder's fields (bodies zero-padded to a multiple of 4: padz),
   nonce, ciphertext and the authenticator position length pre, and both
   receivers accept under the sealing key *)
Theorem C10_complete_encoder : forall seal open, ideal_aead seal open ->
  forall (hdr uid : bytes) (cookies phs : list bytes) (key pt rnd : bytes) (cs : list bytes),
  length hdr = 48%nat -> (32 <= length uid)%nat -> key_ok key = true -> length rnd = 16%nat ->
  (enc_len uid cookies phs pt <= MaxPacketLen)%nat ->
  plain_loop (length pt) pt 0 (map padz cookies) = Ok cs ->
  let pre := pre_bytes hdr uid cookies phs in
  let ct := seal key rnd (Some pre) pt in
  let b := pre ++ auth_field rnd ct in
  let p := {| p_uid := padz uid; p_cookies := map padz cookies; p_nph := length phs;
              p_nonce := rnd; p_ct := ct; p_pos := length pre |} in
  let p' := {| p_uid := padz uid; p_cookies := cs; p_nph := length phs;
               p_nonce := rnd; p_ct := ct; p_pos := length pre |} in
  enc_packet seal hdr uid cookies phs key pt rnd = Ok b /\
  decode_packet b = Ok p /\ firstn (length pre) b = pre /\
  server_accept open b key = Ok p' /\
  client_accept open b key (padz uid) = Ok p'.
Proof. exact c10_complete_encoder. Qed.
Print Assumptions C10_complete_encoder.

(* the hypothesis on the identifier in C10_complete is needed: the identifier
   travels zero-padded to a multiple of 4 and is read back padded, so a client
   comparing with an identifier whose length is not a multiple of 4 rejects the
   project's own response.  (The project's clients always use 32 bytes; a
   server echoes the identifier as decoded, i.e. already padded.) *)
Theorem C10_complete_needs_padded_uid : forall seal open, ideal_aead seal open ->
  forall (hdr uid : bytes) (cookies phs : list bytes) (key pt rnd : bytes),
  length hdr = 48%nat -> (32 <= length uid)%nat -> key_ok key = true -> length rnd = 16%nat ->
  (enc_len uid cookies phs pt <= MaxPacketLen)%nat -> (length uid mod 4 <> 0)%nat ->
  let pre := pre_bytes hdr uid cookies phs in
  let b := pre ++ auth_field rnd (seal key rnd (Some pre) pt) in
  client_accept open b key uid = Err EUnexpectedResponseID.
Proof. exact c10_unpadded_uid. Qed.
Print Assumptions C10_complete_needs_padded_uid.

(* the authentication step alone, for any packet structure (used above): a
   packet whose authenticator field carries the seal under the receiver's key
   of the bytes in front of it, with a 16-byte nonce, is accepted whenever the
   decrypted extension fields are well formed *)
Theorem C10_authenticate_complete : forall seal open, ideal_aead seal open ->
  forall b key p pt cs,
  key_ok key = true -> length (p_nonce p) = 16%nat -> (p_pos p <= length b)%nat ->
  p_ct p = seal key (p_nonce p) (Some (firstn (p_pos p) b)) pt ->
  plain_loop (length pt) pt 0 (p_cookies p) = Ok cs ->
  authenticate open b key p =
    Ok {| p_uid := p_uid p; p_cookies := cs; p_nph := p_nph p; p_nonce := p_nonce p; p_ct := p_ct p; p_pos := p_pos p |}.
Proof. exact c10_auth_complete. Qed.
Print Assumptions C10_authenticate_complete.

(* ---- cookies ---- *)

(* TLV encodings are inverted by the decoders *)
Theorem C10_cookie_tlv_roundtrip : forall c, wf_ecookie c -> ec_decode (ec_encode c) = Ok c.
Proof. exact ec_roundtrip. Qed.
Print Assumptions C10_cookie_tlv_roundtrip.

Theorem C10_cookie_plain_roundtrip : forall c, wf_cookie c -> sc_decode (sc_encode c) = Ok c.
Proof. exact sc_roundtrip. Qed.
Print Assumptions C10_cookie_plain_roundtrip.

(* a cookie issued by EncryptWithNonce + Encode opens under the key that sealed
   it and yields exactly the sealed algorithm and keys *)
Theorem C10_cookie_complete : forall seal open, ideal_aead seal open ->
  forall c key keyid rnd cb,
  wf_cookie c -> lenz (sc_s2c c) + lenz (sc_c2s c) < 65000 -> length rnd = 16%nat ->
  cookie_seal seal c key keyid rnd = Ok cb -> cookie_open open cb key = Ok c.
Proof. exact c10_cookie_complete. Qed.
Print Assumptions C10_cookie_complete.

(* it opens only under that key: if the ciphertext inside the presented bytes
   is the one sealed under key0 for contents c0, a successful Decode + Decrypt
   used key0, found the sealing nonce and returns exactly c0 *)
Theorem C10_cookie_sound : forall seal open, ideal_aead seal open ->
  forall cb key c ec key0 n0 c0,
  cookie_open open cb key = Ok c -> ec_decode cb = Ok ec ->
  ec_ct ec = seal key0 n0 None (sc_encode c0) -> wf_cookie c0 ->
  key = key0 /\ ec_nonce ec = n0 /\ c = c0.
Proof. exact c10_cookie_sound. Qed.
Print Assumptions C10_cookie_sound.

(* ---- the executable oracles accept the model, for all inputs ---- *)

(* hs describes the packets honest parties sent (honest_ok: 16-byte nonce, the
   ciphertext is the seal under the sender's key of the bytes before its
   authenticator, identifier inside those bytes); unforgeable: every seal under
   the receiver's key that reaches it was made by one of them, for the
   receiver's direction (no one without the key can make one).  Then for EVERY
   datagram b, key, direction and outstanding identifier the oracle that is
   evaluated on the implementation accepts the model's decision. *)
(* NOTE on the third hypothesis: the completeness half of the oracle ("an honest
   packet delivered unchanged is accepted") is taken as a hypothesis here - that
   the model accepts what honest senders sent; it is discharged for the packets of
   the project's own encoder by C10_complete / C10_complete_encoder. *)
Theorem C10_model_meets_packet_oracle : forall seal open, ideal_aead seal open ->
  forall hs b key dir reqid,
  (forall h, In h hs -> honest_ok seal h) -> unforgeable seal hs b key dir ->
  (forall h, In h hs -> model_accepts open (h_bytes h) (h_key h) (h_dir h) (h_uid h) = true) ->
  (dir = 0 \/ dir = 1) ->
  C10_packet_ok hs b key dir reqid (model_accepts open b key dir reqid) = true.
Proof. exact c10_packet_oracle. Qed.
Print Assumptions C10_model_meets_packet_oracle.

Theorem C10_model_meets_cookie_oracle : forall seal open, ideal_aead seal open ->
  forall c0 key0 keyid rnd cb0 cb key,
  wf_cookie c0 -> lenz (sc_s2c c0) + lenz (sc_c2s c0) < 65000 -> length rnd = 16%nat ->
  cookie_seal seal c0 key0 keyid rnd = Ok cb0 ->
  (forall ec n ad pt, ec_decode cb = Ok ec -> ec_ct ec = seal key n ad pt ->
                      ec_ct ec = seal key0 rnd None (sc_encode c0)) ->
  C10_cookie_ok cb0 key0 c0 cb key (cookie_result open cb key) = true.
Proof. exact c10_cookie_oracle. Qed.
Print Assumptions C10_model_meets_cookie_oracle.

(* NOTE: both ends of a connection apply ExportKeys to the same TLS exporter, so
   in the model both ends ARE export_keys export; that the two ends of a real
   connection agree is crypto/tls's property and is observed on a real handshake on
   every run.  The content of this theorem is the third conjunct of the oracle:
   the two directions get different keys. *)
Theorem C10_model_meets_export_oracle : forall export : bytes -> bytes -> bytes,
  (forall l c c', export l c = export l c' -> c = c') ->
  let '(s2c, c2s) := export_keys export in C10_export_ok s2c c2s s2c c2s = true.
Proof. exact export_oracle. Qed.
Print Assumptions C10_model_meets_export_oracle.

(* REFUTED for the real cipher: the clause "the use of a different key ... is
   rejected" does not follow from what AES-SIV provides.  The cipher ex2 meets
   aead_siv, and a request sealed by the project's encoder under k2 is accepted by
   the server under the different key k1 (same first half).  The oracle keeps the
   property's reading (the receiver's key must be the sender's key:
   C10_model_meets_packet_oracle needs ideal_aead); on the real code the
   listeners answer such a request: known finding siv-ctr-half-unused-empty-plaintext
   (kinds srv.ctrhalf, nts.ctrhalf) *)
Theorem C10_different_key_clause_refuted :
  aead_siv ex2_seal ex2_open /\
  exists k1 k2 hdr uid rnd b r,
    k1 <> k2 /\ key_ok k1 = true /\ key_ok k2 = true /\
    enc_packet ex2_seal hdr uid [] [] k2 [] rnd = Ok b /\
    server_accept ex2_open b k1 = Ok r.
Proof. exact different_key_clause_refuted. Qed.
Print Assumptions C10_different_key_clause_refuted.

(* the client's receive loop (kind cl.ip / cl.scion): for every sequence of
   datagrams, with or without a deadline, the oracle accepts the datagram the
   model computes the measurement from (third hypothesis: as above) *)
Theorem C10_model_meets_client_oracle : forall seal open, ideal_aead seal open ->
  forall hs ds key reqid dl,
  (forall h, In h hs -> honest_ok seal h) ->
  (forall b, In b ds -> unforgeable seal hs b key 1) ->
  (forall h, In h hs -> model_accepts open (h_bytes h) (h_key h) (h_dir h) (h_uid h) = true) ->
  C10_client_ok hs ds key reqid (used_of (client_loop open dl key reqid ds 0 0)) = true.
Proof. exact model_meets_client_oracle. Qed.
Print Assumptions C10_model_meets_client_oracle.

(* a long session (kind nts.session): identifiers are fresh - uids is injective,
   the assumption on crypto/rand - so the response to request k is accepted by the
   client with request n outstanding only if k = n *)
Theorem C10_model_meets_session_oracle : forall seal open, aead_siv seal open ->
  forall (uids : Z -> bytes), (forall a b, uids a = uids b -> a = b) ->
  forall b key n k p,
  decode_packet b = Ok p -> p_uid p = uids k ->
  C10_session_ok (model_accepts open b key 1 (uids n)) n k = true.
Proof. exact model_meets_session_oracle. Qed.
Print Assumptions C10_model_meets_session_oracle.

(* a rejected packet hands nothing to the client's cookie store *)
Theorem C10_model_meets_reject_clean : forall o : outcome packet,
  C10_reject_clean (match o with Ok _ => true | _ => false end) (client_stored o) = true.
Proof. exact model_meets_reject_clean. Qed.
Print Assumptions C10_model_meets_reject_clean.

(* the cookies a listener re-issues (the request's server cookie sealed again
   under the current key, one nonce each) open under that key to exactly that
   server cookie - which by C10_listener_sound is what the request's own cookie
   opened to *)
Theorem C10_model_meets_reissue_oracle : forall seal open, ideal_aead seal open ->
  forall sc key keyid rnds replied,
  wf_cookie sc -> lenz (sc_s2c sc) + lenz (sc_c2s sc) < 65000 -> key_ok key = true ->
  Forall (fun r : bytes => length r = 16%nat) rnds ->
  C10_reissue_ok replied (reissued_ok open sc key (reissue seal sc key keyid rnds)) = true.
Proof. exact model_meets_reissue_oracle. Qed.
Print Assumptions C10_model_meets_reissue_oracle.

(* ---- listeners ---- *)
(* the NTS part of runIPServer / runSCIONServer (DecodePacket, FirstCookie,
   cookie Decode, provider.Get, Decrypt, ProcessRequest with the cookie's C2S
   key): a request is answered only if its first cookie opens under the server
   key its key id names, and the request carries unchanged the authenticated
   bytes, nonce and ciphertext of a request an honest client sealed under the
   C2S key in that cookie *)
Theorem C10_listener_sound : forall seal open, ideal_aead seal open ->
  forall getkey hs b p sc,
  server_nts open getkey b = Ok (p, sc) ->
  (forall h, In h hs -> honest_ok seal h) -> unforgeable seal hs b (sc_c2s sc) 0 ->
  existsb (fun h => (h_dir h =? 0) && untampered b h) hs = true /\
  exists cb ec mk, first_cookie_of b = Some cb /\ ec_decode cb = Ok ec /\ getkey (ec_id ec) = Some mk /\
                   cookie_open open cb mk = Ok sc.
Proof. exact c10_listener_sound. Qed.
Print Assumptions C10_listener_sound.

(* ---- loops: the fuel given is never exhausted ---- *)
Theorem C10_no_fuel : forall open b key reqID,
  server_accept open b key <> OutOfFuel /\ client_accept open b key reqID <> OutOfFuel.
Proof. exact c10_no_fuel. Qed.
Print Assumptions C10_no_fuel.

Theorem C10_cookie_no_fuel : forall open cb key, cookie_open open cb key <> OutOfFuel.
Proof. exact c10_cookie_no_fuel. Qed.
Print Assumptions C10_cookie_no_fuel.

(* ---- the hypotheses are satisfiable ---- *)
Example C10_ideal_aead_instance : ideal_aead ex_seal ex_open.
Proof. exact (conj ex_open_seal (conj ex_open_only_seal (conj ex_seal_inj ex_seal_len))). Qed.

Example C10_export_instance : forall l c c' : bytes, (fun (_ c : bytes) => c) l c = (fun (_ c : bytes) => c) l c' -> c = c'.
Proof. intros l c c' H. exact H. Qed.

(* the accepting path of the model is reachable: with a (non-injective, merely
   computable) cipher that prepends 16 zero bytes, the packet that the encoder
   model emits for a 48-byte header and a 32-byte identifier is accepted by the
   server model and by the client model with that identifier, and rejected by
   the client model with another identifier *)
Example C10_accept_reachable :
  let seal := fun (k n : bytes) (ad : option bytes) (p : bytes) => repeat 0 16 ++ p in
  let open := fun (k n : bytes) (ad : option bytes) (c : bytes) => Some (skipn 16 c) in
  let key := repeat 7 32 in let rnd := repeat 9 16 in
  match enc_packet seal (repeat 0 48) (repeat 1 32) [] [] key [] rnd with
  | Ok b => match server_accept open b key, client_accept open b key (repeat 1 32), client_accept open b key (repeat 2 32) with
            | Ok _, Ok _, Err EUnexpectedResponseID => True
            | _, _, _ => False
            end
  | _ => False
  end.
Proof. vm_compute. exact I. Qed.

(* the hypotheses of C10_complete are satisfiable: a key exchange that delivered
   one 124-byte cookie gives a request with that cookie and 6 placeholders ... *)
Example C10_complete_request_instance :
  exists cookies phs, new_request [repeat 5 124%nat] = Ok (cookies, phs) /\
                      (length (repeat 5 124%nat) <= 896)%nat /\ length cookies = 1%nat /\ length phs = 6%nat.
Proof.
  eexists. eexists. split; [vm_compute; reflexivity|]. split; [rewrite repeat_length; lia|].
  split; reflexivity.
Qed.

(* ... and 8 fresh 124-byte cookies for a 32-byte identifier give a response
   plaintext of 7 cookie fields (NewResponsePacket keeps maxCookies = 7) *)
Example C10_complete_response_instance :
  exists pt, new_response (repeat (repeat 5 124%nat) 8) (repeat 1 32%nat) = Ok pt /\ length pt = 896%nat /\
             Forall (fun c : bytes => length c = 124%nat) (repeat (repeat 5 124%nat) 8) /\ (124 mod 4 = 0)%nat /\
             1 <= max_cookies (length (repeat 1 32%nat)) 124 /\
             length (resp_cookies (repeat (repeat 5 124%nat) 8) (repeat 1 32%nat)) = 7%nat.
Proof.
  eexists. split; [vm_compute; reflexivity|]. split; [reflexivity|].
  split; [repeat constructor|]. split; [reflexivity|]. split; [vm_compute; discriminate|reflexivity].
Qed.

(* a response through the whole path, by computation, with the computable cipher
   of C10_accept_reachable: NewResponsePacket for two 124-byte cookies, EncodePacket,
   then DecodePacket + ProcessResponse hand exactly those two cookies to the client *)
Example C10_response_reachable :
  let seal := fun (k n : bytes) (ad : option bytes) (p : bytes) => repeat 0 16 ++ p in
  let open := fun (k n : bytes) (ad : option bytes) (c : bytes) => Some (skipn 16 c) in
  let key := repeat 7 32 in let rnd := repeat 9 16 in let uid := repeat 1 32 in
  let cks := [repeat 5 124%nat; repeat 6 124%nat] in
  match new_response cks uid with
  | Ok pt => match enc_packet seal (repeat 0 48) uid [] [] key pt rnd with
             | Ok b => match client_accept open b key uid with
                       | Ok p' => p_cookies p' = cks
                       | _ => False
                       end
             | _ => False
             end
  | _ => False
  end.
Proof. vm_compute. reflexivity. Qed.

(* aead_siv is satisfiable by a cipher that, like AES-SIV, ignores the second
   half of the key when the plaintext is empty - so it does not imply ideal_aead *)
Example C10_aead_siv_instance : aead_siv ex2_seal ex2_open.
Proof. exact (conj ex2_open_seal (conj ex2_open_only_seal (conj ex2_seal_inj_siv ex2_seal_len))). Qed.

Example C10_aead_siv_ctr_half_unused : forall n ad,
  [1; 2] <> [1; 3] /\ ex2_seal [1; 2] n ad [] = ex2_seal [1; 3] n ad [].
Proof. exact ex2_ctr_half_unused. Qed.
