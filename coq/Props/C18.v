(* C18 — Time-unit conversions for kernel and CSPTP interfaces are exact and normalised. *)
From Coq Require Import ZArith Reals.
From ST Require Import Base.Ints Base.F64 Model.NtpTime Model.Units Proofs.UnitsProofs Proofs.UnitsFloatProofs.
Open Scope Z_scope.

(* every int64 nanosecond count splits into (sec, sub-second) with sub-second in [0, 1e9) and sec*1e9 + sub-second = n *)
Theorem C18_timeval : forall n, in_i64 n ->
  let '(sec, usec) := timeval_from_nsec n in
  0 <= usec < 1000000000 /\ sec * 1000000000 + usec = n /\ in_i64 sec.
Proof. exact timeval_normalised. Qed.
Print Assumptions C18_timeval.

Theorem C18_timeval_oracle : forall n, in_i64 n ->
  C18_timeval_ok n (fst (timeval_from_nsec n)) (snd (timeval_from_nsec n)) = true.
Proof. exact timeval_oracle. Qed.
Print Assumptions C18_timeval_oracle.

(* CSPTP timestamps round-trip exactly over the whole 48-bit seconds range *)
Theorem C18_csptp_ts_roundtrip : forall s ns, 0 <= s < 2^48 -> 0 <= ns < 1000000000 ->
  csptp_ts_of_time (mk_time s ns) = Some (s, ns) /\ csptp_time_of_ts s ns = mk_time s ns.
Proof. exact csptp_ts_roundtrip. Qed.
Print Assumptions C18_csptp_ts_roundtrip.

Theorem C18_csptp_ts_wire_roundtrip : forall s ns, 0 <= s < 2^48 -> 0 <= ns < 1000000000 ->
  csptp_ts_of_time (csptp_time_of_ts s ns) = Some (s, ns).
Proof. exact csptp_ts_wire_roundtrip. Qed.
Print Assumptions C18_csptp_ts_wire_roundtrip.

(* times outside the 48-bit range are refused (the Go code panics), never wrapped *)
Theorem C18_csptp_ts_range_refused : forall t, time_sec t < 0 \/ 2^48 <= time_sec t -> csptp_ts_of_time t = None.
Proof. exact csptp_ts_range_refused. Qed.
Print Assumptions C18_csptp_ts_range_refused.

(* correction fields convert by dropping the 16 sub-nanosecond bits (floor, also for negative values) *)
Theorem C18_timeinterval : forall i, let d := csptp_dur_of_interval i in d * 65536 <= i < (d + 1) * 65536.
Proof. exact interval_drops_subns. Qed.
Print Assumptions C18_timeinterval.

(* the CSPTP offset and mean-path-delay formulas recover any true offset and symmetric delay exactly *)
Theorem C18_csptp_formulas : forall t0 t2 theta delta c1 c3,
  small t0 -> small t2 -> small theta -> small delta -> small c1 -> small c3 ->
  let t1 := t0 + theta + delta + c1 in
  let t3 := t2 - theta + delta + c3 in
  csptp_clock_offset t0 t1 t2 t3 c1 c3 = theta /\
  csptp_mean_path_delay t0 t1 t2 t3 c1 c3 = delta.
Proof. exact csptp_formulas. Qed.
Print Assumptions C18_csptp_formulas.

Theorem C18_csptp_delays : forall t0 t2 theta d1 d2 c1 c3 utc,
  small t0 -> small t2 -> small theta -> small d1 -> small d2 -> small c1 -> small c3 -> small utc ->
  let t1 := t0 + theta + d1 + c1 + utc in
  let t3 := t2 - theta + d2 + c3 - utc in
  csptp_c2s_delay t0 t1 c1 utc = theta + d1 /\ csptp_s2c_delay t2 t3 c3 utc = - theta + d2.
Proof. exact csptp_delays. Qed.
Print Assumptions C18_csptp_delays.

(* ---- "the drift allowance is proportional to the interval" (clocks.SystemClock.Drift) ----

   Full clause: for every configured drift (ns per second) and every interval whose allowance
   drift x interval / 10^9 does not overflow int64 nanoseconds, Drift(interval) is that allowance up
   to the rounding of the float64 evaluation and the conversion to whole nanoseconds.

   Proved below on the range  0 < drift <= MaxInt64,  0 <= interval <= MaxInt64,
   drift x interval < 2^62 x 10^9  (allowance below 2^62 ns = 146 years; note that drift x interval
   itself may be far beyond int64, e.g. 500 us/s x 6 h = 1.08 x 10^19 ns^2 > 2^63).
   Not covered (hence _partial on the headline statement): negative intervals or drifts (the code is
   odd in both, not proved) and allowances in [2^62, 2^63) ns.  drift = 0 is clocks.UnknownDrift
   and means "no bound" (C18_drift_unknown). *)

(* Drift(d) = floor(F) for a real F within 2^-50 (relative) of drift x d / 10^9: six roundings to
   nearest of at most 2^-53 each, no underflow, no overflow, one truncation *)
Theorem C18_drift_proportional_partial : forall drift_ns d,
  0 < drift_ns <= max_i64 -> 0 <= d <= max_i64 -> drift_ns * d < 2^62 * 1000000000 ->
  exists F : R,
    (IZR (sysclk_drift drift_ns d) <= F < IZR (sysclk_drift drift_ns d) + 1)%R /\
    (Rabs (F - IZR (drift_ns * d) / 1000000000) <= IZR (drift_ns * d) / 1000000000 * / 1125899906842624)%R.
Proof. exact sysclk_drift_proportional. Qed.
Print Assumptions C18_drift_proportional_partial.

(* the property oracle used on the implementation's outputs holds for the model on ALL int64 inputs
   (outside the range above the oracle is true by definition): D >= 0, D = 0 for the empty interval,
   |D x 10^9 - drift x d| <= 10^9 + drift x d / 2^48 *)
Theorem C18_drift_oracle : forall drift_ns d, in_i64 drift_ns -> in_i64 d ->
  C18_drift_ok drift_ns d (sysclk_drift drift_ns d) = true.
Proof. exact sysclk_drift_oracle. Qed.
Print Assumptions C18_drift_oracle.

(* integer form, sharper constant: |D x 10^9 - drift x d| x 2^50 <= 10^9 x 2^50 + drift x d *)
Theorem C18_drift_close : forall drift_ns d,
  0 < drift_ns <= max_i64 -> 0 <= d <= max_i64 -> drift_ns * d < 2^62 * 1000000000 ->
  let D := sysclk_drift drift_ns d in let q := drift_ns * d in
  0 <= D /\ Z.abs (D * 1000000000 - q) * 2^50 <= 1000000000 * 2^50 + q.
Proof. intros drift_ns d Hn Hd Hq. apply sysclk_drift_int. repeat split; lia. Qed.
Print Assumptions C18_drift_close.

(* allowances below 2^50 ns (13 days): at most one nanosecond from floor(drift x d / 10^9) *)
Theorem C18_drift_within_1ns : forall drift_ns d,
  0 < drift_ns <= max_i64 -> 0 <= d <= max_i64 -> drift_ns * d < 2^50 * 1000000000 ->
  drift_ns * d / 1000000000 - 1 <= sysclk_drift drift_ns d <= drift_ns * d / 1000000000 + 1.
Proof. exact sysclk_drift_1ns. Qed.
Print Assumptions C18_drift_within_1ns.

(* a longer interval never gets a smaller allowance; the empty interval gets none *)
Theorem C18_drift_monotone : forall drift_ns d1 d2,
  0 < drift_ns <= max_i64 -> 0 <= d1 <= d2 -> d2 <= max_i64 -> drift_ns * d2 < 2^62 * 1000000000 ->
  sysclk_drift drift_ns d1 <= sysclk_drift drift_ns d2.
Proof. exact sysclk_drift_monotone. Qed.
Print Assumptions C18_drift_monotone.

Theorem C18_drift_empty_interval : forall drift_ns, 0 < drift_ns <= max_i64 -> sysclk_drift drift_ns 0 = 0.
Proof. exact sysclk_drift_empty_interval. Qed.
Print Assumptions C18_drift_empty_interval.

(* proportionality without the constant: monotone and additive over two intervals (oracle of the
   case kind units.drift_add), for the model on all int64 inputs *)
Theorem C18_drift_add_oracle : forall drift_ns d1 d2, in_i64 drift_ns -> in_i64 d1 -> in_i64 d2 ->
  C18_drift_add_ok drift_ns d1 d2 (sysclk_drift drift_ns d1) (sysclk_drift drift_ns d2) (sysclk_drift drift_ns (d1 + d2)) = true.
Proof. exact sysclk_drift_add_oracle. Qed.
Print Assumptions C18_drift_add_oracle.

(* drift 0 (clocks.UnknownDrift): the allowance is MaxInt64 for every interval *)
Theorem C18_drift_unknown : forall d, sysclk_drift 0 d = max_i64.
Proof. exact sysclk_drift_unknown. Qed.
Print Assumptions C18_drift_unknown.

(* exact cases by evaluation of the bit-exact model; in both, drift x interval = 1.08 x 10^19 exceeds
   int64 (an integer evaluation interval * drift / 10^9 wraps) while the allowance is 10.8 s *)
Example C18_drift_500us_6h :
  sysclk_drift 500000 21600000000000 = 10800000000 /\
  max_i64 < 500000 * 21600000000000 < 2^62 * 1000000000.
Proof. split; [vm_compute; reflexivity|split; reflexivity]. Qed.

Example C18_drift_50us_60h :
  sysclk_drift 50000 216000000000000 = 10800000000 /\
  max_i64 < 50000 * 216000000000000 < 2^62 * 1000000000.
Proof. split; [vm_compute; reflexivity|split; reflexivity]. Qed.

(* a case where the float evaluation is not exact: 3896 ns/s over 0.999999999 s is 3895.999996104 ns *)
Example C18_drift_inexact : sysclk_drift 3896 999999999 = 3895 /\ 3896 * 999999999 / 1000000000 = 3895.
Proof. split; vm_compute; reflexivity. Qed.

(* the hypotheses of the range theorems and of the oracle are satisfiable, also at the upper end *)
Example C18_drift_range_inhabited :
  C18_drift_range 1000000000 4611686018427387903 = true /\
  C18_drift_ok 1000000000 4611686018427387903 (sysclk_drift 1000000000 4611686018427387903) = true /\
  C18_drift_add_ok 500000 10800000000000 10800000000000 5400000000 5400000000 10800000000 = true /\
  C18_drift_ok 500000 21600000000000 (-7646744073) = false.   (* what an int64 evaluation returns *)
Proof. repeat split; vm_compute; reflexivity. Qed.
