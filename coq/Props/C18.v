(* C18 — Time-unit conversions for kernel and CSPTP interfaces are exact and normalised. *)
From ST Require Import Base.Ints Base.F64 Model.NtpTime Model.Units Proofs.UnitsProofs.
Open Scope Z_scope.

(* every int64 nanosecond count splits into (sec, sub-second) with sub-second in [0, 1e9) and sec*1e9 + sub-second = n *)
Theorem C18_timeval : forall n, in_i64 n ->
  let '(sec, usec) := timeval_from_nsec n in
  0 <= usec < 1000000000 /\ sec * 1000000000 + usec = n /\ in_i64 sec.
Proof. exact timeval_normalised. Qed.
Print Assumptions C18_timeval.

Theorem C18_timeval_oracle : forall n, in_i64 n ->
  C18_timeval_ok n (fst (timeval_from_nsec n)) (snd (timeval_from_nsec n)) = true.
Proof. exact timeval_oracle. Qed.
Print Assumptions C18_timeval_oracle.

(* CSPTP timestamps round-trip exactly over the whole 48-bit seconds range *)
Theorem C18_csptp_ts_roundtrip : forall s ns, 0 <= s < 2^48 -> 0 <= ns < 1000000000 ->
  csptp_ts_of_time (mk_time s ns) = Some (s, ns) /\ csptp_time_of_ts s ns = mk_time s ns.
Proof. exact csptp_ts_roundtrip. Qed.
Print Assumptions C18_csptp_ts_roundtrip.

Theorem C18_csptp_ts_wire_roundtrip : forall s ns, 0 <= s < 2^48 -> 0 <= ns < 1000000000 ->
  csptp_ts_of_time (csptp_time_of_ts s ns) = Some (s, ns).
Proof. exact csptp_ts_wire_roundtrip. Qed.
Print Assumptions C18_csptp_ts_wire_roundtrip.

(* times outside the 48-bit range are refused (the Go code panics), never wrapped *)
Theorem C18_csptp_ts_range_refused : forall t, time_sec t < 0 \/ 2^48 <= time_sec t -> csptp_ts_of_time t = None.
Proof. exact csptp_ts_range_refused. Qed.
Print Assumptions C18_csptp_ts_range_refused.

(* correction fields convert by dropping the 16 sub-nanosecond bits (floor, also for negative values) *)
Theorem C18_timeinterval : forall i, let d := csptp_dur_of_interval i in d * 65536 <= i < (d + 1) * 65536.
Proof. exact interval_drops_subns. Qed.
Print Assumptions C18_timeinterval.

(* the CSPTP offset and mean-path-delay formulas recover any true offset and symmetric delay exactly *)
Theorem C18_csptp_formulas : forall t0 t2 theta delta c1 c3,
  small t0 -> small t2 -> small theta -> small delta -> small c1 -> small c3 ->
  let t1 := t0 + theta + delta + c1 in
  let t3 := t2 - theta + delta + c3 in
  csptp_clock_offset t0 t1 t2 t3 c1 c3 = theta /\
  csptp_mean_path_delay t0 t1 t2 t3 c1 c3 = delta.
Proof. exact csptp_formulas. Qed.
Print Assumptions C18_csptp_formulas.

Theorem C18_csptp_delays : forall t0 t2 theta d1 d2 c1 c3 utc,
  small t0 -> small t2 -> small theta -> small d1 -> small d2 -> small c1 -> small c3 -> small utc ->
  let t1 := t0 + theta + d1 + c1 + utc in
  let t3 := t2 - theta + d2 + c3 - utc in
  csptp_c2s_delay t0 t1 c1 utc = theta + d1 /\ csptp_s2c_delay t2 t3 c3 utc = - theta + d2.
Proof. exact csptp_delays. Qed.
Print Assumptions C18_csptp_delays.
