(* C18 — Time-unit conversions for kernel and CSPTP interfaces are exact and normalised. *)
From Coq Require Import ZArith Reals Lia.
From Flocq Require Import IEEE754.BinarySingleNaN.
From ST Require Import Base.Ints Base.F64 Model.NtpTime Model.Units Model.UnitsOracle Proofs.UnitsProofs Proofs.UnitsFloatProofs.
Open Scope Z_scope.

(* every int64 nanosecond count splits into (sec, sub-second) with sub-second in [0, 1e9) and sec*1e9 + sub-second = n *)
Theorem C18_timeval : forall n, in_i64 n ->
  let '(sec, usec) := timeval_from_nsec n in
  0 <= usec < 1000000000 /\ sec * 1000000000 + usec = n /\ in_i64 sec.
Proof. exact timeval_normalised. Qed.
Print Assumptions C18_timeval.

Theorem C18_timeval_oracle : forall n, in_i64 n ->
  C18_timeval_ok n (fst (timeval_from_nsec n)) (snd (timeval_from_nsec n)) = true.
Proof. exact timeval_oracle. Qed.
Print Assumptions C18_timeval_oracle.

(* CSPTP timestamps round-trip exactly over the whole 48-bit seconds range *)
Theorem C18_csptp_ts_roundtrip : forall s ns, 0 <= s < 2^48 -> 0 <= ns < 1000000000 ->
  csptp_ts_of_time (mk_time s ns) = Some (s, ns) /\ csptp_time_of_ts s ns = mk_time s ns.
Proof. exact csptp_ts_roundtrip. Qed.
Print Assumptions C18_csptp_ts_roundtrip.

Theorem C18_csptp_ts_wire_roundtrip : forall s ns, 0 <= s < 2^48 -> 0 <= ns < 1000000000 ->
  csptp_ts_of_time (csptp_time_of_ts s ns) = Some (s, ns).
Proof. exact csptp_ts_wire_roundtrip. Qed.
Print Assumptions C18_csptp_ts_wire_roundtrip.

(* times outside the 48-bit range are refused (the Go code panics), never wrapped *)
Theorem C18_csptp_ts_range_refused : forall t, time_sec t < 0 \/ 2^48 <= time_sec t -> csptp_ts_of_time t = None.
Proof. exact csptp_ts_range_refused. Qed.
Print Assumptions C18_csptp_ts_range_refused.

(* the wire allows ANY 32-bit nanoseconds field.  A non-canonical one (>= 10^9) denotes the instant
   s + ns/10^9; re-encoding keeps the instant but not the fields (so C18_csptp_ts_wire_roundtrip cannot hold
   for it), and at the last 48-bit seconds the carried instant is beyond the range: the code panics.
   csptp.TimestampFromTime has no caller outside tests at /repo HEAD (the CSPTP server's response path is not
   wired up), so the panic is not reachable from the network today. *)
Theorem C18_csptp_ts_noncanonical : forall s ns, 0 <= s -> 0 <= ns < 2^32 -> s + ns / 1000000000 < 2^48 ->
  csptp_ts_of_time (csptp_time_of_ts s ns) = Some (s + ns / 1000000000, ns mod 1000000000).
Proof. exact csptp_ts_noncanonical. Qed.
Print Assumptions C18_csptp_ts_noncanonical.

Theorem C18_csptp_ts_noncanonical_differs : forall s ns, 0 <= s -> 1000000000 <= ns < 2^32 ->
  csptp_ts_of_time (csptp_time_of_ts s ns) <> Some (s, ns).
Proof. exact csptp_ts_noncanonical_differs. Qed.
Print Assumptions C18_csptp_ts_noncanonical_differs.

Theorem C18_csptp_ts_edge_refused : forall s ns, 0 <= s -> 0 <= ns -> 2^48 <= s + ns / 1000000000 ->
  csptp_ts_of_time (csptp_time_of_ts s ns) = None.
Proof. exact csptp_ts_edge_refused. Qed.
Print Assumptions C18_csptp_ts_edge_refused.

(* oracle of the kind csptp.ts_reencode (instant preserved, canonical fields unchanged, refusal exactly beyond
   the range) on the model, for every 48-bit seconds and every 32-bit nanoseconds field *)
Theorem C18_ts_reencode_oracle : forall s ns, 0 <= s < 2^48 -> 0 <= ns < 2^32 ->
  match csptp_ts_of_time (csptp_time_of_ts s ns) with
  | Some (a, b) => C18_ts_reencode_ok s ns 1 a b = true
  | None => C18_ts_reencode_ok s ns 0 0 0 = true
  end.
Proof. exact ts_reencode_oracle. Qed.
Print Assumptions C18_ts_reencode_oracle.

Example C18_csptp_ts_witnesses :
  csptp_ts_of_time (csptp_time_of_ts 1717243200 1000000000) = Some (1717243201, 0) /\
  csptp_ts_of_time (csptp_time_of_ts (2^48 - 1) 999999999) = Some (2^48 - 1, 999999999) /\
  csptp_ts_of_time (csptp_time_of_ts (2^48 - 1) 1000000000) = None /\
  csptp_ts_of_time (csptp_time_of_ts (2^48 - 4) 4000000000) = None /\
  csptp_ts_of_time (csptp_time_of_ts (2^48 - 4) 3999999999) = Some (2^48 - 1, 999999999).
Proof. repeat split; vm_compute; reflexivity. Qed.

(* correction fields convert by dropping the 16 sub-nanosecond bits (floor, also for negative values) *)
Theorem C18_timeinterval : forall i, let d := csptp_dur_of_interval i in d * 65536 <= i < (d + 1) * 65536.
Proof. exact interval_drops_subns. Qed.
Print Assumptions C18_timeinterval.

(* the CSPTP offset and mean-path-delay formulas recover any true offset and symmetric delay exactly,
   for "all offset/delay combinations that do not overflow int64 nanoseconds": every int64
   subtraction/addition the Go code performs stays in range (csptp_no_overflow: t1-t0, t3-t2, these minus
   the corrections, their difference and their sum).  The absolute times t0, t2 are arbitrary, so
   present-day Unix times (1.7 x 10^18 ns > 2^60) are covered. *)
Theorem C18_csptp_formulas : forall t0 t2 theta delta c1 c3,
  in_i64 (theta + delta + c1) /\ in_i64 (- theta + delta + c3) /\
  in_i64 (theta + delta) /\ in_i64 (- theta + delta) /\
  in_i64 (2 * theta) /\ in_i64 (2 * delta) ->
  let t1 := t0 + theta + delta + c1 in
  let t3 := t2 - theta + delta + c3 in
  csptp_clock_offset t0 t1 t2 t3 c1 c3 = theta /\
  csptp_mean_path_delay t0 t1 t2 t3 c1 c3 = delta.
Proof. exact csptp_formulas. Qed.
Print Assumptions C18_csptp_formulas.

(* in particular for offsets, delays and corrections up to 2^60 ns (36 years) at any time *)
Theorem C18_csptp_formulas_small : forall t0 t2 theta delta c1 c3,
  small theta -> small delta -> small c1 -> small c3 ->
  let t1 := t0 + theta + delta + c1 in
  let t3 := t2 - theta + delta + c3 in
  csptp_clock_offset t0 t1 t2 t3 c1 c3 = theta /\
  csptp_mean_path_delay t0 t1 t2 t3 c1 c3 = delta.
Proof. intros t0 t2 theta delta c1 c3 A B C D. apply csptp_formulas. apply small_no_overflow; assumption. Qed.
Print Assumptions C18_csptp_formulas_small.

(* one-way delays d1, d2 with the UTC correction: t1 = t0 + theta + d1 + c1 + utc, t3 = t2 - theta + d2 + c3 - utc *)
Theorem C18_csptp_delays : forall t0 t2 theta d1 d2 c1 c3 utc,
  in_i64 (theta + d1 + c1 + utc) /\ in_i64 (theta + d1 + utc) /\ in_i64 (theta + d1) /\
  in_i64 (- theta + d2 + c3 - utc) /\ in_i64 (- theta + d2 - utc) /\ in_i64 (- theta + d2) ->
  let t1 := t0 + theta + d1 + c1 + utc in
  let t3 := t2 - theta + d2 + c3 - utc in
  csptp_c2s_delay t0 t1 c1 utc = theta + d1 /\ csptp_s2c_delay t2 t3 c3 utc = - theta + d2.
Proof. exact csptp_delays. Qed.
Print Assumptions C18_csptp_delays.

(* the oracles of the case kinds csptp.recover, csptp.recover_delays and csptp.formulas hold for the
   model on ALL inputs (any times, any int64 or larger values) *)
Theorem C18_recover_oracle : forall t0 t2 theta delta c1 c3,
  let t1 := t0 + theta + delta + c1 in
  let t3 := t2 - theta + delta + c3 in
  C18_recover_ok theta delta c1 c3 (csptp_clock_offset t0 t1 t2 t3 c1 c3) (csptp_mean_path_delay t0 t1 t2 t3 c1 c3) = true.
Proof. exact recover_oracle. Qed.
Print Assumptions C18_recover_oracle.

Theorem C18_delays_oracle : forall t0 t2 theta d1 d2 c1 c3 utc,
  let t1 := t0 + theta + d1 + c1 + utc in
  let t3 := t2 - theta + d2 + c3 - utc in
  C18_delays_ok theta d1 d2 c1 c3 utc (csptp_c2s_delay t0 t1 c1 utc) (csptp_s2c_delay t2 t3 c3 utc) = true.
Proof. exact delays_oracle. Qed.
Print Assumptions C18_delays_oracle.

Theorem C18_formulas_oracle : forall t0 t1 t2 t3 c1 c3 utc,
  C18_formulas_ok t0 t1 t2 t3 c1 c3 utc
    (csptp_clock_offset t0 t1 t2 t3 c1 c3) (csptp_mean_path_delay t0 t1 t2 t3 c1 c3)
    (csptp_c2s_delay t0 t1 c1 utc) (csptp_s2c_delay t2 t3 c3 utc) = true.
Proof. exact formulas_oracle. Qed.
Print Assumptions C18_formulas_oracle.

(* the oracle of the kind csptp.client (the real client against a responder whose timestamps are theta ahead)
   is a consequence of the formulas: request delay d1 in [0, d1max], reply sent at s2 and delayed by D2,
   corrections c1, c3 and announced UTC correction U arbitrary; c1 and c3 cancel *)
Theorem C18_client_oracle : forall t0 s2 d1 D2 theta c1 c3 U d1max,
  0 <= d1 <= d1max ->
  in_i64 (theta + d1 + c1) -> in_i64 (theta + d1) -> in_i64 (D2 - theta + c3) -> in_i64 (D2 - theta) ->
  in_i64 (2 * theta + d1 - D2) -> in_i64 (d1 + D2) -> in_i64 (theta + d1 - U) -> in_i64 (D2 - theta + U) ->
  let t1 := t0 + d1 + theta + c1 in let t2 := s2 + theta - c3 in let t3 := s2 + D2 in
  C18_client_ok theta U d1max D2
    (csptp_clock_offset t0 t1 t2 t3 c1 c3) (csptp_mean_path_delay t0 t1 t2 t3 c1 c3)
    (csptp_c2s_delay t0 t1 c1 U) (csptp_s2c_delay t2 t3 c3 U) = true.
Proof. exact client_oracle. Qed.
Print Assumptions C18_client_oracle.

(* 2024-06-01T12:00:00Z = 1717243200 s: a server 37 ns ahead, 0.5 ms each way, residence times 3 and 4 ns,
   reply sent 1.5 ms later; and with a 37 s UTC correction on the one-way delays *)
Example C18_csptp_2024 :
  let t0 := 1717243200000000000 in let t2 := t0 + 1500000 in
  2^60 < t0 /\
  csptp_clock_offset t0 (t0 + 37 + 500000 + 3) t2 (t2 - 37 + 500000 + 4) 3 4 = 37 /\
  csptp_mean_path_delay t0 (t0 + 37 + 500000 + 3) t2 (t2 - 37 + 500000 + 4) 3 4 = 500000 /\
  csptp_c2s_delay t0 (t0 + 37 + 400000 + 3 + 37000000000) 3 37000000000 = 37 + 400000 /\
  csptp_s2c_delay t2 (t2 - 37 + 600000 + 4 - 37000000000) 4 37000000000 = - 37 + 600000 /\
  C18_recover_range 37 500000 3 4 = true /\ C18_delays_range 37 400000 600000 3 4 37000000000 = true.
Proof. cbv zeta. repeat split; vm_compute; reflexivity. Qed.

(* ---- "frequency <-> scaled-ppm conversion round-trips to within one unit in the last place" ----
   for all scaled-ppm values of the kernel's range |x| <= 32768000 (500 ppm):
   ScaledPPMFromFreq(FreqFromScaledPPM(x)) = int64(RN(RN(x / 65536e6) * 65536e6)); the two roundings
   move the product by less than 1/2 and int64() truncates toward zero, so the result is x or the
   neighbour of x toward zero, never the one away from zero.  It is NOT always x (Example below). *)
Theorem C18_freq_roundtrip : forall x, Z.abs x <= 32768000 ->
  let r := scaled_ppm_from_freq (freq_from_scaled_ppm x) in
  (0 <= x -> x - 1 <= r <= x) /\ (x <= 0 -> x <= r <= x + 1).
Proof. exact freq_roundtrip. Qed.
Print Assumptions C18_freq_roundtrip.

Theorem C18_freq_roundtrip_oracle : forall x, C18_freq_ok x (scaled_ppm_from_freq (freq_from_scaled_ppm x)) = true.
Proof. exact freq_roundtrip_oracle. Qed.
Print Assumptions C18_freq_roundtrip_oracle.

(* 1 104 656 of the 65 536 001 values of the range lose one unit, the smallest is 249 *)
Example C18_freq_roundtrip_sharp :
  scaled_ppm_from_freq (freq_from_scaled_ppm 249) = 248 /\ scaled_ppm_from_freq (freq_from_scaled_ppm (-249)) = -248 /\
  scaled_ppm_from_freq (freq_from_scaled_ppm 250) = 250 /\ scaled_ppm_from_freq (freq_from_scaled_ppm 32768000) = 32768000.
Proof. repeat split; vm_compute; reflexivity. Qed.

(* the other direction, freq -> scaled ppm -> freq, for every finite float64 frequency of the kernel's range
   (|f| x 65536e6 <= 2^25, i.e. up to 512 ppm): the frequency that comes back differs from f by less than
   one unit of 2^-16 ppm (1/65536e6), plus 2^-26 of a unit for the two roundings; the intermediate scaled-ppm
   value is within the int64 range.  (One whole unit can be lost: int64() truncates.) *)
Theorem C18_freq_roundtrip_back : forall f : f64, BinarySingleNaN.is_finite f = true ->
  (Rabs (BinarySingleNaN.B2R f * 65536000000) <= 33554432)%R ->
  let r := scaled_ppm_from_freq f in
  BinarySingleNaN.is_finite (freq_from_scaled_ppm r) = true /\ Z.abs r <= 33554433 /\
  (Rabs (BinarySingleNaN.B2R (freq_from_scaled_ppm r) * 65536000000 - BinarySingleNaN.B2R f * 65536000000) < 1 + / 67108864)%R.
Proof. exact ppm_freq_roundtrip. Qed.
Print Assumptions C18_freq_roundtrip_back.

(* each direction on its own (oracles of the kinds units.ppm_of_freq and units.freq_of_ppm):
   ScaledPPMFromFreq f on EVERY float64 f: same sign, |result| = |f| x 65536e6 up to 2^-52 and the truncation
   (for |f| x 65536e6 < 2^62; NaN, infinities and larger values are unconstrained);
   FreqFromScaledPPM x on EVERY int64 x: a finite float of the sign of x with g x 65536e6 = x up to 2^-51 *)
Theorem C18_ppm_of_freq_oracle : forall f : f64, C18_ppm_of_freq_ok f (scaled_ppm_from_freq f) = true.
Proof. exact ppm_of_freq_oracle. Qed.
Print Assumptions C18_ppm_of_freq_oracle.

Theorem C18_freq_of_ppm_oracle : forall x, in_i64 x -> C18_freq_of_ppm_ok x (freq_from_scaled_ppm x) = true.
Proof. exact freq_of_ppm_oracle. Qed.
Print Assumptions C18_freq_of_ppm_oracle.

(* ---- "the drift allowance is proportional to the interval" (clocks.SystemClock.Drift) ----

   For every configured drift (ns per second, any sign, not 0) and every interval (any sign) whose allowance
   drift x interval / 10^9 is below 2^63 - 2^13 ns in magnitude, Drift(interval) is that allowance up to the
   rounding of the float64 evaluation (2^-50 relative) and the conversion to whole nanoseconds; it has the sign
   of drift x interval (C18_drift_odd, C18_drift_all_signs).  drift x interval itself may be far beyond int64
   (500 us/s x 6 h = 1.08 x 10^19 ns^2 > 2^63).  In the last 8192 ns below 2^63 the float result rounds up to
   2^63 and int64() yields MinInt64: C18_drift_top_band (this is where "does not overflow int64 nanoseconds"
   ends for this function).  drift = 0 is clocks.UnknownDrift and means "no bound" (C18_drift_unknown). *)

(* Drift(d) = floor(F) for a real F within 2^-50 (relative) of drift x d / 10^9: six roundings to
   nearest of at most 2^-53 each, no underflow, no overflow, one truncation *)
Theorem C18_drift_proportional : forall drift_ns d,
  0 < drift_ns <= max_i64 -> 0 <= d <= max_i64 -> drift_ns * d < (2^63 - 2^13) * 1000000000 ->
  exists F : R,
    (IZR (sysclk_drift drift_ns d) <= F < IZR (sysclk_drift drift_ns d) + 1)%R /\
    (Rabs (F - IZR (drift_ns * d) / 1000000000) <= IZR (drift_ns * d) / 1000000000 * / 1125899906842624)%R.
Proof. exact sysclk_drift_proportional. Qed.
Print Assumptions C18_drift_proportional.

(* negative intervals and negative drifts: Drift is odd in both (also at MinInt64: |x| <= 2^63) *)
Theorem C18_drift_odd : forall drift_ns d,
  0 < drift_ns <= 2^63 -> 0 <= d <= 2^63 -> drift_ns * d < (2^63 - 2^13) * 1000000000 ->
  sysclk_drift drift_ns (- d) = - sysclk_drift drift_ns d /\
  sysclk_drift (- drift_ns) d = - sysclk_drift drift_ns d /\
  sysclk_drift (- drift_ns) (- d) = sysclk_drift drift_ns d.
Proof.
  intros drift_ns d Hn Hd Hq. apply sysclk_drift_signed.
  unfold drift_range, DRL. change (2^63) with 9223372036854775808 in *. change (2^13) with 8192 in *. lia.
Qed.
Print Assumptions C18_drift_odd.

(* all signs at once, integer form: |D x 10^9 - q| x 2^50 <= 10^9 x 2^50 + |q|, D has the sign of q = drift x d *)
Theorem C18_drift_all_signs : forall drift_ns d, in_i64 drift_ns -> in_i64 d -> drift_ns <> 0 ->
  Z.abs (drift_ns * d) < (2^63 - 2^13) * 1000000000 ->
  let D := sysclk_drift drift_ns d in let q := drift_ns * d in
  Z.abs (D * 1000000000 - q) * 2^50 <= 1000000000 * 2^50 + Z.abs q /\
  (0 <= q -> 0 <= D) /\ (q <= 0 -> D <= 0).
Proof. exact sysclk_drift_all_signs. Qed.
Print Assumptions C18_drift_all_signs.

(* what happens above the range: an allowance of 2^63 - 1 ns (1 s/s over MaxInt64 ns) becomes MinInt64, and so
   does everything that truly overflows; just below the band the result is still right *)
Example C18_drift_top_band :
  sysclk_drift 1000000000 max_i64 = min_i64 /\
  sysclk_drift 1000000000 (max_i64 - 8192) = 9223372036854766592 /\
  sysclk_drift 2000000000 max_i64 = min_i64 /\
  sysclk_drift 500000 (- 21600000000000) = - 10800000000 /\
  sysclk_drift (- 500000) 21600000000000 = - 10800000000 /\
  sysclk_drift 1000 min_i64 = - 9223372036854.
Proof. repeat split; vm_compute; reflexivity. Qed.

(* the property oracle used on the implementation's outputs holds for the model on ALL int64 inputs
   (outside the range above the oracle is true by definition): D >= 0, D = 0 for the empty interval,
   |D x 10^9 - drift x d| <= 10^9 + drift x d / 2^48 *)
Theorem C18_drift_oracle : forall drift_ns d, in_i64 drift_ns -> in_i64 d ->
  C18_drift_ok drift_ns d (sysclk_drift drift_ns d) = true.
Proof. exact sysclk_drift_oracle. Qed.
Print Assumptions C18_drift_oracle.

(* integer form, sharper constant: |D x 10^9 - drift x d| x 2^50 <= 10^9 x 2^50 + drift x d *)
Theorem C18_drift_close : forall drift_ns d,
  0 < drift_ns <= max_i64 -> 0 <= d <= max_i64 -> drift_ns * d < (2^63 - 2^13) * 1000000000 ->
  let D := sysclk_drift drift_ns d in let q := drift_ns * d in
  0 <= D /\ Z.abs (D * 1000000000 - q) * 2^50 <= 1000000000 * 2^50 + q.
Proof.
  intros drift_ns d Hn Hd Hq. apply sysclk_drift_int.
  unfold drift_range, DRL, max_i64 in *. change (2^63) with 9223372036854775808 in *. change (2^13) with 8192 in *. lia.
Qed.
Print Assumptions C18_drift_close.

(* allowances below 2^50 ns (13 days): at most one nanosecond from floor(drift x d / 10^9) *)
Theorem C18_drift_within_1ns : forall drift_ns d,
  0 < drift_ns <= max_i64 -> 0 <= d <= max_i64 -> drift_ns * d < 2^50 * 1000000000 ->
  drift_ns * d / 1000000000 - 1 <= sysclk_drift drift_ns d <= drift_ns * d / 1000000000 + 1.
Proof. exact sysclk_drift_1ns. Qed.
Print Assumptions C18_drift_within_1ns.

(* a longer interval never gets a smaller allowance; the empty interval gets none *)
Theorem C18_drift_monotone : forall drift_ns d1 d2,
  0 < drift_ns <= max_i64 -> 0 <= d1 <= d2 -> d2 <= max_i64 -> drift_ns * d2 < (2^63 - 2^13) * 1000000000 ->
  sysclk_drift drift_ns d1 <= sysclk_drift drift_ns d2.
Proof. exact sysclk_drift_monotone. Qed.
Print Assumptions C18_drift_monotone.

Theorem C18_drift_empty_interval : forall drift_ns, 0 < drift_ns <= max_i64 -> sysclk_drift drift_ns 0 = 0.
Proof. exact sysclk_drift_empty_interval. Qed.
Print Assumptions C18_drift_empty_interval.

(* proportionality without the constant: monotone and additive over two intervals (oracle of the
   case kind units.drift_add), for the model on all int64 inputs *)
Theorem C18_drift_add_oracle : forall drift_ns d1 d2, in_i64 drift_ns -> in_i64 d1 -> in_i64 d2 ->
  C18_drift_add_ok drift_ns d1 d2 (sysclk_drift drift_ns d1) (sysclk_drift drift_ns d2) (sysclk_drift drift_ns (d1 + d2)) = true.
Proof. exact sysclk_drift_add_oracle. Qed.
Print Assumptions C18_drift_add_oracle.

(* drift 0 (clocks.UnknownDrift): the allowance is MaxInt64 for every interval *)
Theorem C18_drift_unknown : forall d, sysclk_drift 0 d = max_i64.
Proof. exact sysclk_drift_unknown. Qed.
Print Assumptions C18_drift_unknown.

(* exact cases by evaluation of the bit-exact model; in both, drift x interval = 1.08 x 10^19 exceeds
   int64 (an integer evaluation interval * drift / 10^9 wraps) while the allowance is 10.8 s *)
Example C18_drift_500us_6h :
  sysclk_drift 500000 21600000000000 = 10800000000 /\
  max_i64 < 500000 * 21600000000000 < 2^62 * 1000000000.
Proof. split; [vm_compute; reflexivity|split; reflexivity]. Qed.

Example C18_drift_50us_60h :
  sysclk_drift 50000 216000000000000 = 10800000000 /\
  max_i64 < 50000 * 216000000000000 < 2^62 * 1000000000.
Proof. split; [vm_compute; reflexivity|split; reflexivity]. Qed.

(* a case where the float evaluation is not exact: 3896 ns/s over 0.999999999 s is 3895.999996104 ns *)
Example C18_drift_inexact : sysclk_drift 3896 999999999 = 3895 /\ 3896 * 999999999 / 1000000000 = 3895.
Proof. split; vm_compute; reflexivity. Qed.

(* the hypotheses of the range theorems and of the oracle are satisfiable, also at the upper end *)
Example C18_drift_range_inhabited :
  C18_drift_range 1000000000 4611686018427387903 = true /\
  C18_drift_ok 1000000000 4611686018427387903 (sysclk_drift 1000000000 4611686018427387903) = true /\
  C18_drift_add_ok 500000 10800000000000 10800000000000 5400000000 5400000000 10800000000 = true /\
  C18_drift_ok 500000 21600000000000 (-7646744073) = false.   (* what an int64 evaluation returns *)
Proof. repeat split; vm_compute; reflexivity. Qed.
