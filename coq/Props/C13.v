(* C13 - SCION packet authentication and reply addressing are sound end to end.

   Model: Model/ScionGlue.v - one iteration of the SCION listener loop
   ([server_step]: SCMP echo/traceroute reply, forwarding branch, NTP branch with
   the SPAO check and the authenticated reply; core/server/server_scion.go) and
   the receive loop of the SCION client ([client_run]: address checks,
   response-side SPAO check, the one-retry rule; core/client/client_scion.go),
   with the SPI/algorithm metadata of net/scion/auth.go.

   External functions are universally quantified: [mac] (spao.ComputeAuthCMAC
   as a function of the key and of the fields scionproto feeds into the CMAC),
   [reverse] (Path.Reverse), [fetch_key] (DRKey fetch and derivation: any
   outcome, including failure), [ntp_handle] (the NTP part: C06/C09).  The
   theorems hold for every such function, every packet (all address families
   and lengths, all path types and contents, all option lists, all payloads),
   every listener configuration (own port / end-host port / dispatcher,
   authentication on or off) and every list of datagrams delivered to a client.

   [carries spi q o]: the end-to-end extension of q was decoded directly in
   front of the L4 layer and its first authenticator option o has 28 bytes of
   data, SPI spi and the algorithm of the time service. *)
From ST Require Import Base.Ints Model.ScionGlue Model.ScionGlueOracle Model.DrkeyCache Model.SvcSpao Proofs.ScionGlueProofs Proofs.DrkeyCacheProofs Proofs.SvcSpaoProofs.
From Coq Require Import ZArith List Bool Lia.
Import ListNotations.
Open Scope Z_scope.

(* A request (UDP) that carries the client-direction authenticator, on a listener
   with a DRKey fetcher, with the host-host key k available, whose MAC is not
   the MAC of the received packet under k, is never answered ... *)
Theorem C13_bad_mac_never_served : forall mac reverse fetch_key ntp_handle c q oob o k,
  s_fetcher c = true -> carries spi_client q o -> fetch_key (keyreq_of q) = Some k ->
  opt_mac o <> mac k (macin_rx o q) ->
  (exists s d n p, rx_l4 q = Udp s d n p) ->
  forall t, server_step mac reverse fetch_key ntp_handle c q oob <> Send ToLastHop t.
Proof. exact bad_mac_never_served. Qed.
Print Assumptions C13_bad_mac_never_served.

(* ... and, addressed to the service, it is dropped (nothing at all is sent) *)
Theorem C13_bad_mac_dropped : forall mac reverse fetch_key ntp_handle c q oob o k s n p,
  s_fetcher c = true -> carries spi_client q o -> fetch_key (keyreq_of q) = Some k ->
  opt_mac o <> mac k (macin_rx o q) ->
  rx_l4 q = Udp s (s_local_port c) n p ->
  exists why, server_step mac reverse fetch_key ntp_handle c q oob = Drop why.
Proof. exact bad_mac_dropped. Qed.
Print Assumptions C13_bad_mac_dropped.

(* Whatever datagrams reach the client's socket, in whatever order (rs: any
   list), the datagram an offset is computed from is the first or the second
   one, passes every check of the receive loop, and - with a key - does not
   carry a server-direction authenticator whose MAC differs from the MAC of the
   received packet under the key. *)
Theorem C13_bad_mac_never_accepted : forall mac c rs retried i j a,
  client_run mac c retried i rs = CAccept j a ->
  exists q n, nth_error rs (j - i) = Some (q, n) /\
    forall k o, c_key c = Some k -> carries spi_server q o -> opt_mac o = mac k (macin_rx o q).
Proof. exact bad_mac_never_accepted. Qed.
Print Assumptions C13_bad_mac_never_accepted.

Theorem C13_accepted_passed_all_checks : forall mac c rs retried i j a,
  client_run mac c retried i rs = CAccept j a ->
  exists q n, nth_error rs (j - i) = Some (q, n) /\ client_check mac c q n = Acc a /\
              (i <= j)%nat /\ (j <= i + 1)%nat /\ (retried = true -> j = i).
Proof. exact client_run_accept. Qed.
Print Assumptions C13_accepted_passed_all_checks.

(* The reply to a request whose authenticator verified (server_auth = AuthOk)
   is sent to the previous hop, carries the server-direction authenticator whose
   MAC is the MAC of the reply as the client receives it, and the requesting
   client (same key; local = the request's source, remote = its destination)
   authenticates and accepts it.  Hypotheses: a CMAC tag has 16 bytes; the
   reversed path has a registered path type (what Path.Reverse returns); the
   request names IP hosts (address types T4Ip/T16Ip, as every request of the
   client does: since 702ebdb the client refuses a response whose source or
   destination is a service or other non-IP address with the host's bytes). *)
Theorem C13_reply_auth_roundtrip : forall mac reverse fetch_key ntp_handle c q oob k o s n p t,
  (forall k m, zlen (mac k m) = 16) ->
  (forall pt pp, reverse (h_path_type (rx_hdr q), h_path (rx_hdr q)) = Some (pt, pp) -> pt < 4) ->
  ip_type (h_src_type (rx_hdr q)) = true -> ip_type (h_dst_type (rx_hdr q)) = true ->
  server_auth mac fetch_key c q = AuthOk k o -> rx_l4 q = Udp s (s_local_port c) n p ->
  server_step mac reverse fetch_key ntp_handle c q oob = Send ToLastHop t ->
  let h := rx_hdr q in
  let cc := mkCcfg (Some k) (h_src_ia h) (h_src_raw h) (h_dst_ia h) (h_dst_raw h) true in
  forall nok, exists o',
    carries spi_server (deliver t nok) o' /\
    opt_mac o' = mac k (macin_rx o' (deliver t nok)) /\
    client_auth mac cc (deliver t nok) = AuthOk k o' /\
    client_check mac cc (deliver t nok) 0 = Acc true.
Proof. exact reply_auth_roundtrip. Qed.
Print Assumptions C13_reply_auth_roundtrip.

(* server_auth = AuthOk means exactly: fetcher, authenticator carried, key
   fetched, MAC computable and equal *)
Theorem C13_verified_means : forall mac fetch_key c q k o,
  server_auth mac fetch_key c q = AuthOk k o ->
  s_fetcher c = true /\ carries spi_client q o /\ fetch_key (keyreq_of q) = Some k /\
  mac_computable (rx_hdr q) = true /\ opt_mac o = mac k (macin_rx o q).
Proof. intros mac fetch_key. exact (server_auth_ok_inv mac (fun p => Some p) fetch_key (fun b => b)). Qed.
Print Assumptions C13_verified_means.

(* Every reply (NTP, SCMP echo, SCMP traceroute): ISD-AS, host address type and
   bytes exchanged, the path is the reversed path with the reversed path's
   type, ports exchanged (NTP) / reply type, code 0 and the payload echoed
   unchanged, no extension (SCMP). *)
Theorem C13_reply_addressing : forall mac reverse fetch_key ntp_handle c q oob t,
  server_step mac reverse fetch_key ntp_handle c q oob = Send ToLastHop t ->
  swapped (rx_hdr q) (tx_hdr t) /\
  reverse (h_path_type (rx_hdr q), h_path (rx_hdr q)) = Some (h_path_type (tx_hdr t), h_path (tx_hdr t)) /\
  ((exists s d n p, rx_l4 q = Udp s d n p /\ d = s_local_port c /\
       tx_l4 t = Udp d s (8 + zlen (ntp_handle p)) (ntp_handle p)) \/
   (exists ty code p rt, rx_l4 q = Scmp ty code p /\ scmp_reply_type ty = Some rt /\ tx_l4 t = Scmp rt 0 p /\ tx_e2e t = None)).
Proof. exact reply_addressing. Qed.
Print Assumptions C13_reply_addressing.

(* Anything the listener sends goes to the previous hop (a reply) or to the
   addressed end host and L4 port (a forward); nothing else is ever written. *)
Theorem C13_send_is_reply_or_forward : forall mac reverse fetch_key ntp_handle c q oob d t,
  server_step mac reverse fetch_key ntp_handle c q oob = Send d t ->
  d = ToLastHop \/ exists s dp n p, rx_l4 q = Udp s dp n p /\ d = ToHostPort (h_dst_raw (rx_hdr q)) dp.
Proof. exact send_is_reply_or_forward. Qed.
Print Assumptions C13_send_is_reply_or_forward.

(* Forwarded <=> well-formed UDP packet with IP host addresses whose L4
   destination port is neither this service's port nor the end-host port,
   received on the end-host port; it goes to the destination host and port;
   header fields and L4 (ports, payload) unchanged. *)
Theorem C13_forward_iff : forall mac reverse fetch_key ntp_handle c q oob host port t,
  server_step mac reverse fetch_key ntp_handle c q oob = Send (ToHostPort host port) t <->
  exists s n p, forward_cond c q s port n p /\ host = h_dst_raw (rx_hdr q) /\ t = forward_tx q oob.
Proof. exact forward_iff. Qed.
Print Assumptions C13_forward_iff.

Theorem C13_forward_payload_unchanged : forall q oob,
  tx_l4 (forward_tx q oob) = rx_l4 q /\ unchanged (rx_hdr q) (tx_hdr (forward_tx q oob)).
Proof. exact (forward_payload_unchanged (fun _ _ => []) (fun p => Some p) (fun b => b)). Qed.
Print Assumptions C13_forward_payload_unchanged.

(* What exactly is forwarded: the SCION header with every field but NextHdr, the L4
   header and payload (theorem above), and these extension headers: if the
   end-to-end extension directly follows the SCION header, all its options
   (authenticator included) in their order, followed by the receive-timestamp
   option when the kernel delivered one; otherwise - the packet has a
   hop-by-hop extension - NO option of the original packet: the hop-by-hop
   extension and an end-to-end extension behind it are dropped; with a
   timestamp a fresh end-to-end extension holding only the timestamp option is
   sent, without one the packet goes out as SCION/UDP; NextHdr names what is
   sent.  (Before the repair of the forwarding branch NextHdr kept naming the
   hop-by-hop extension in the last case and the datagram did not parse: found
   by kind srv.fwdhbh.)  A packet with a hop-by-hop extension therefore loses
   its authenticator on the way through the end-host port (observation, see
   DESIGN). *)
Theorem C13_forward_extensions : forall q oob,
  let ts := mkOpt OPT_TIMESTAMP oob in
  let t := forward_tx q oob in
  (h_next (rx_hdr q) = E2E_CLASS ->
     h_next (tx_hdr t) = E2E_CLASS /\
     tx_e2e t = Some (rx_opts q ++ (if zlen oob =? 0 then [] else [ts]))) /\
  (h_next (rx_hdr q) <> E2E_CLASS ->
     (zlen oob = 0 -> tx_e2e t = None /\ h_next (tx_hdr t) = L4_UDP) /\
     (zlen oob <> 0 -> tx_e2e t = Some [ts] /\ h_next (tx_hdr t) = E2E_CLASS)).
Proof. exact forward_extensions. Qed.
Print Assumptions C13_forward_extensions.

(* ... and the boolean form evaluated on every forwarded packet the harness sees
   (with or without a kernel receive timestamp at the forwarder, kinds srv, srv.fwdnots):
   the options of a forwarded packet, timestamp options aside, are exactly the options of
   the received packet when its end-to-end extension directly follows the SCION header
   (otherwise none), the forwarded packet parses, and traffic class and flow id are the
   received packet's. *)
Theorem C13_srv_fwdext_oracle_holds_on_model : forall mac reverse fetch_key ntp_handle socks sender k nok c q oob,
  C13_srv_fwdext_ok (s_local_port c) q
    (srv_obs mac socks sender k nok (server_step mac reverse fetch_key ntp_handle c q oob)) = true.
Proof. exact srv_clause_fwdext. Qed.
Print Assumptions C13_srv_fwdext_oracle_holds_on_model.

(* Ideal MAC (no two MAC inputs share a tag under one key): a request / response
   carrying a tag made for the MAC input m0 that arrives with any covered field
   changed (authenticator algorithm or timestamp/sequence number, traffic
   class, flow id, path type, address types, path, L4 ports, length, payload)
   is dropped / not accepted. *)
Theorem C13_covered_mutation_dropped : forall mac reverse fetch_key ntp_handle,
  (forall k a b, mac k a = mac k b -> a = b) ->
  forall c q oob o k m0 s n p,
  s_fetcher c = true -> carries spi_client q o -> fetch_key (keyreq_of q) = Some k ->
  opt_mac o = mac k m0 -> macin_rx o q <> m0 ->
  rx_l4 q = Udp s (s_local_port c) n p ->
  exists why, server_step mac reverse fetch_key ntp_handle c q oob = Drop why.
Proof. exact covered_mutation_dropped. Qed.
Print Assumptions C13_covered_mutation_dropped.

Theorem C13_covered_mutation_not_accepted : forall mac,
  (forall k a b, mac k a = mac k b -> a = b) ->
  forall c q n o k m0,
  c_key c = Some k -> carries spi_server q o -> opt_mac o = mac k m0 -> macin_rx o q <> m0 ->
  forall a, client_check mac c q n <> Acc a.
Proof. exact covered_mutation_not_accepted. Qed.
Print Assumptions C13_covered_mutation_not_accepted.

(* the ideal-MAC hypothesis is satisfiable *)
Theorem C13_ideal_mac_consistent : forall k a b, ideal_mac k a = ideal_mac k b -> a = b.
Proof. exact ideal_mac_inj. Qed.
Print Assumptions C13_ideal_mac_consistent.

(* The client clause of the property oracle (C13_cli_ok, the boolean evaluated on
   the implementation's observations) holds for the model on ALL inputs: any
   client configuration with authentication on or off, any request, any list of
   delivered datagrams (each parsed in slayers' fixed extension order), the
   MACs recomputed as the harness does it. *)
Theorem C13_cli_oracle_holds_on_model : forall mac c k h sp dp pl rs (auth : bool),
  (forall k m, zlen (mac k m) = 16) ->
  c_key c = (if auth then Some k else None) ->
  Forall (fun r => wf_layers (fst r)) rs ->
  let req := deliver (client_request mac c h sp dp pl) true in
  C13_cli_ok auth req (recomputed_mac mac k req)
    (map (fun r => (fst r, recomputed_mac mac k (fst r))) rs)
    (accepted_of (client_run mac c false 0 rs)) = true.
Proof. exact cli_oracle_on_model. Qed.
Print Assumptions C13_cli_oracle_holds_on_model.

(* The response the client computes an offset from comes from the queried host
   and is addressed to the client (ISD-AS, IP address type, same IP address):
   C13_cli_from_queried_ok holds for the model for every list of delivered
   datagrams, whatever MACs the harness attaches to them. *)
Theorem C13_cli_from_queried_holds_on_model : forall mac c rs macs,
  length macs = length rs ->
  C13_cli_from_queried_ok (c_local_ia c) (c_local_host c) (c_remote_ia c) (c_remote_host c)
    (combine (map fst rs) macs) (accepted_of (client_run mac c false 0 rs)) = true.
Proof. exact cli_from_queried_on_model. Qed.
Print Assumptions C13_cli_from_queried_holds_on_model.

(* The server clause of the property oracle (C13_srv_ok, the boolean evaluated on
   the implementation's observations) holds for the model on ALL inputs: any
   listener configuration (own port / end-host port / dispatcher, fetcher or
   not), any received datagram q (parsed in slayers' fixed extension order),
   any ancillary data oob, any MAC function, Path.Reverse, key fetch and NTP
   part, any set of harness sockets and sending socket.  The observation is
   what the harness sockets see of the step ([srv_obs]): nothing for a drop,
   the serialised and re-parsed reply at the sending socket, a forwarded packet
   at the socket bound to the addressed (host, port) if there is one; the MACs
   recomputed under the host-host key k for the first authenticator option, as
   the harness does it, and the request's path reversed by [reverse].
   Hypotheses (each one is a hypothesis of a clause-wise theorem above):
     - a CMAC tag has 16 bytes: first hypothesis of C13_reply_auth_roundtrip;
       the second one (the reversed path has a registered type) is not needed:
       the oracle does not ask whether the reply's MAC is computable;
     - wf_layers q: as in C13_cli_oracle_holds_on_model; it turns the oracle's
       "an end-to-end extension was decoded" into the [carries] of the
       clause-wise theorems (extension directly in front of the L4 layer);
     - on a listener with a fetcher the host-host key is available:
       [fetch_key (keyreq_of q) = Some k] of C13_bad_mac_never_served /
       C13_bad_mac_dropped / C13_covered_mutation_dropped (without a key the
       listener serves the request unauthenticated). *)
Theorem C13_srv_oracle_holds_on_model : forall mac reverse fetch_key ntp_handle socks sender k nok c q oob,
  (forall k m, zlen (mac k m) = 16) ->
  wf_layers q ->
  (s_fetcher c = true -> fetch_key (keyreq_of q) = Some k) ->
  C13_srv_ok (s_local_port c) (s_conn_port c) (s_fetcher c) socks sender q
    (recomputed_mac mac k q) (reverse (h_path_type (rx_hdr q), h_path (rx_hdr q)))
    (srv_obs mac socks sender k nok (server_step mac reverse fetch_key ntp_handle c q oob)) = true.
Proof. exact srv_oracle_on_model. Qed.
Print Assumptions C13_srv_oracle_holds_on_model.

(* The listener that cannot obtain the host-host key (the DRKey daemon answers
   with an error or with a key of a wrong length: fetch_key = None) treats the
   request as an unauthenticated one: the oracle of that situation
   (C13_srv_nokey_ok: addressing / forwarding clauses, and a reply to a request
   for the service never carries the server's authenticator) holds for the
   model on all inputs.  No hypothesis on the MAC function or the packet. *)
Theorem C13_srv_nokey_oracle_holds_on_model : forall mac reverse fetch_key ntp_handle socks sender k nok c q oob,
  s_fetcher c = true -> wf_layers q ->
  fetch_key (keyreq_of q) = None ->
  C13_srv_nokey_ok (s_local_port c) (s_conn_port c) socks sender q
    (reverse (h_path_type (rx_hdr q), h_path (rx_hdr q)))
    (srv_obs mac socks sender k nok (server_step mac reverse fetch_key ntp_handle c q oob)) = true.
Proof. exact srv_nokey_oracle_on_model. Qed.
Print Assumptions C13_srv_nokey_oracle_holds_on_model.

(* "The host-to-host key": the listener's decision depends on the key source only
   through the key for keyreq_of q = (server: the packet's destination ISD-AS and
   host; client: its source ISD-AS and host).  (On the real code the requests
   the listener and the client make to the DRKey daemon are compared with this,
   protocol number and validity time included: kinds srv.keyed / cli.keyed.) *)
Theorem C13_key_is_the_packets : forall mac reverse ntp_handle fk1 fk2 c q oob,
  fk1 (keyreq_of q) = fk2 (keyreq_of q) ->
  server_step mac reverse fk1 ntp_handle c q oob = server_step mac reverse fk2 ntp_handle c q oob.
Proof. exact server_step_key_ext. Qed.
Print Assumptions C13_key_is_the_packets.

(* The key cache of the listener (Fetcher.FetchHostASKey, Model/DrkeyCache.v): K is
   the key hierarchy (key bytes as a function of protocol, server AS, client AS,
   server host and epoch start).  Against daemons that answer - when they answer -
   with the genuine key of the request for an epoch containing the validity time
   asked for, every key the Fetcher returns, in any history of calls (any
   interleaving of clients, hosts, times going forth and back, cache hits,
   daemon failures), is the genuine key of that call's protocol, ASes and
   server host for an epoch that CONTAINS the call's validity time: a key is
   never used outside its epoch, nor for another host. *)
Theorem C13_key_cache_sound : forall K calls,
  Forall (fun cd => sound_daemon K (snd cd)) calls ->
  Forall2 (fun cd r => forall k, snd r = Some k -> key_for K k (fst cd)) calls (krun [] calls).
Proof. intros K calls H. exact (krun_sound K calls [] (empty_cache_genuine K) H). Qed.
Print Assumptions C13_key_cache_sound.

(* "With authentication enabled ... on either side" = enabled by configuration: for every
   list of auth_modes and every number of SCION reference clocks and SCION peer clocks, the
   clients the model of createClocks builds satisfy the wiring oracle (kind svc.spao evaluates
   it on what the service's own loadConfig and createClocks build): all seven path clients of
   every reference clock AND of every peer have SPAO enabled iff "spao" is among auth_modes,
   and then all of them share one DRKey fetcher. *)
Theorem C13_svc_spao_oracle_holds_on_model : forall modes nrefs npeers,
  C13_svc_spao_ok modes nrefs npeers true (model_clocks modes nrefs npeers) = true.
Proof. exact svc_spao_on_model. Qed.
Print Assumptions C13_svc_spao_oracle_holds_on_model.

(* "Carries a packet authenticator for the time-service DRKey (expected SPI and algorithm) whose
   MAC does not verify": an authenticator whose data does not have 28 bytes (a MAC of 0, 15, 17 ..
   bytes) cannot verify, nor can any authenticator when the listener cannot obtain the key.  Such a
   request for the service is dropped (both were served like unauthenticated requests before the
   repairs of the length test and of the key-fetch error branch). *)
Theorem C13_wrong_length_never_served : forall mac reverse fetch_key ntp_handle c q oob o s n p,
  s_fetcher c = true -> claims spi_client q o -> zlen (o_data o) <> auth_opt_data_len ->
  rx_l4 q = Udp s (s_local_port c) n p ->
  exists why, server_step mac reverse fetch_key ntp_handle c q oob = Drop why.
Proof. exact wrong_length_dropped. Qed.
Print Assumptions C13_wrong_length_never_served.

Theorem C13_no_key_never_served : forall mac reverse fetch_key ntp_handle c q oob o s n p,
  s_fetcher c = true -> carries spi_client q o -> fetch_key (keyreq_of q) = None ->
  rx_l4 q = Udp s (s_local_port c) n p ->
  exists why, server_step mac reverse fetch_key ntp_handle c q oob = Drop why.
Proof. exact no_key_dropped. Qed.
Print Assumptions C13_no_key_never_served.

Theorem C13_srv_maclen_oracle_holds_on_model : forall mac reverse fetch_key ntp_handle socks sender k nok c q oob,
  wf_layers q ->
  C13_srv_maclen_ok (s_fetcher c) (s_local_port c) q
    (srv_obs mac socks sender k nok (server_step mac reverse fetch_key ntp_handle c q oob)) = true.
Proof. exact srv_maclen_oracle_on_model. Qed.
Print Assumptions C13_srv_maclen_oracle_holds_on_model.

(* The client with authentication enabled that could not obtain the key never computes an offset
   from a response that carries the server's authenticator (it cannot verify it): for every list
   of delivered datagrams. *)
Theorem C13_cli_nokey_oracle_holds_on_model : forall mac c rs macs,
  c_key c = None -> c_auth c = true -> length macs = length rs ->
  Forall (fun r => wf_layers (fst r)) rs ->
  C13_cli_nokey_ok true false (combine (map fst rs) macs) (accepted_of (client_run mac c false 0 rs)) = true.
Proof. exact cli_nokey_on_model. Qed.
Print Assumptions C13_cli_nokey_oracle_holds_on_model.

(* ---- the hypotheses are satisfiable: a concrete authenticated exchange ---- *)
(* a 16-byte checksum of the encoded MAC input: enough for the example *)
Definition ex_mac (k : bytes) (m : macin) : bytes := (fold_left Z.add (ideal_mac k m) 0 mod 256) :: repeat 0 15.
Definition ex_rev (p : Z * bytes) : option (Z * bytes) := Some p.
Definition ex_key (_ : keyreq) : option bytes := Some (repeat 0 16).
Definition ex_ntp (_ : bytes) : bytes := repeat 36 48.
Definition ex_hdr : hdr := mkHdr 1 2 0 0 [10;0;0;1] [10;0;0;2] 0 [] 0 7 E2E_CLASS.
Definition ex_cc : ccfg := mkCcfg (Some (repeat 0 16)) 2 [10;0;0;2] 1 [10;0;0;1] true.
Definition ex_req : rx := deliver (client_request ex_mac ex_cc ex_hdr 40000 10123 (repeat 35 48)) true.
Definition ex_scfg : scfg := mkScfg 10123 10123 10 true.

Example C13_nonvacuous :
  (exists o, server_auth ex_mac ex_key ex_scfg ex_req = AuthOk (repeat 0 16) o) /\
  (match server_step ex_mac ex_rev ex_key ex_ntp ex_scfg ex_req [] with
   | Send ToLastHop t => client_run ex_mac ex_cc false 0 [(deliver t false, 0)] = CAccept 0 true
   | _ => False
   end) /\
  (* the same request with one payload byte changed is dropped *)
  (let bad := mkRx true (rx_layers ex_req) (rx_hdr ex_req) (rx_opts ex_req)
                   (Udp 40000 10123 56 (34 :: repeat 35 47)) (rx_buflen ex_req) true in
   server_step ex_mac ex_rev ex_key ex_ntp ex_scfg bad [] = Drop 10) /\
  (* a packet for another end-host port is forwarded by the end-host port listener only *)
  (let fq := mkRx true [LT_SCION; LT_UDP] (set_next ex_hdr L4_UDP) [] (Udp 40000 31000 56 (repeat 35 48)) 200 true in
   (match server_step ex_mac ex_rev ex_key ex_ntp (mkScfg 10123 endhost_port 10 true) fq [] with
    | Send (ToHostPort [10;0;0;1] 31000) _ => True | _ => False end) /\
   server_step ex_mac ex_rev ex_key ex_ntp ex_scfg fq [] = Drop 8).
Proof.
  split; [exists (hd (mkOpt 0 []) (rx_opts ex_req)); vm_compute; reflexivity|].
  split; [vm_compute; reflexivity|].
  split; [vm_compute; reflexivity|].
  split; [vm_compute; exact I|vm_compute; reflexivity].
Qed.

(* ---- the hypotheses of C13_srv_oracle_holds_on_model are satisfiable, and the
        oracle it speaks of is not trivially true ---- *)
Definition ex_bad_req : rx :=
  mkRx true (rx_layers ex_req) (rx_hdr ex_req) (rx_opts ex_req)
       (Udp 40000 10123 56 (34 :: repeat 35 47)) (rx_buflen ex_req) true.
Definition ex_fwd_req : rx :=
  mkRx true [LT_SCION; LT_UDP] (set_next ex_hdr L4_UDP) [] (Udp 40000 31000 56 (repeat 35 48)) 200 true.
Definition ex_socks : list (bytes * Z) := [([10;0;0;9], 31000); ([10;0;0;1], 31000)].
Definition ex_obs (c : scfg) (q : rx) : list sobs :=
  srv_obs ex_mac ex_socks 7 (repeat 0 16) false (server_step ex_mac ex_rev ex_key ex_ntp c q []).
Definition ex_srv_ok (c : scfg) (q : rx) (obs : list sobs) : bool :=
  C13_srv_ok (s_local_port c) (s_conn_port c) (s_fetcher c) ex_socks 7 q
    (recomputed_mac ex_mac (repeat 0 16) q) (ex_rev (h_path_type (rx_hdr q), h_path (rx_hdr q))) obs.

Example C13_srv_oracle_nonvacuous :
  (forall k m, zlen (ex_mac k m) = 16) /\ wf_layers ex_req /\ wf_layers ex_bad_req /\ wf_layers ex_fwd_req /\
  (forall r, ex_key r = Some (repeat 0 16)) /\
  (* the verified request is answered by one datagram at the sending socket, the
     request with a changed payload byte by none, the packet for port 31000 is
     forwarded to the second harness socket *)
  map so_sock (ex_obs ex_scfg ex_req) = [7] /\ ex_obs ex_scfg ex_bad_req = [] /\
  map so_sock (ex_obs (mkScfg 10123 endhost_port 10 true) ex_fwd_req) = [1] /\
  (* the oracle accepts these (instances of the theorem) ... *)
  ex_srv_ok ex_scfg ex_req (ex_obs ex_scfg ex_req) = true /\
  (* ... and rejects: the reply as an answer to the request that does not verify, *)
  ex_srv_ok ex_scfg ex_bad_req (ex_obs ex_scfg ex_req) = false /\
  (* an unauthenticated reply to the verified request, *)
  ex_srv_ok ex_scfg ex_req (ex_obs (mkScfg 10123 10123 10 false) ex_req) = false /\
  (* the reply seen at another socket than the previous hop, *)
  ex_srv_ok ex_scfg ex_req (map (fun o => mkSobs 1 (so_rx o) (so_mac o)) (ex_obs ex_scfg ex_req)) = false /\
  (* a due forward that does not happen, and a forward from a listener that is not the end-host port's *)
  ex_srv_ok (mkScfg 10123 endhost_port 10 true) ex_fwd_req [] = false /\
  ex_srv_ok ex_scfg ex_fwd_req (ex_obs (mkScfg 10123 endhost_port 10 true) ex_fwd_req) = false.
Proof.
  split; [intros k m; reflexivity|].
  split; [intros _; vm_compute; split; [discriminate|reflexivity]|].
  split; [intros _; vm_compute; split; [discriminate|reflexivity]|].
  split; [intro H; vm_compute in H; discriminate|].
  split; [intro r; reflexivity|].
  repeat split; vm_compute; reflexivity.
Qed.

(* ---- authentication is opportunistic, not fail-closed (NOT part of C13 as
        stated: C13 speaks of datagrams that CARRY the authenticator) ----
   The model - and the code it describes, see case kind cli.strict - accepts,
   with authentication enabled and the key in hand, a response from which the
   authenticator has been removed, and computes an offset from it; it does the
   same when the key could not be fetched (c_key = None although authentication
   was asked for).  The strict oracle C13_cli_strict_ok rejects both. *)
Definition ex_plain_reply : rx :=
  match server_step ex_mac ex_rev ex_key ex_ntp (mkScfg 10123 10123 10 false) ex_req [] with
  | Send _ t => deliver t false
  | Drop _ => ex_req
  end.

Theorem C13_fail_closed_refuted_on_model :
  (* key in hand, response without authenticator *)
  (client_run ex_mac ex_cc false 0 [(ex_plain_reply, 0)] = CAccept 0 false /\
   C13_cli_ok true ex_req (recomputed_mac ex_mac (repeat 0 16) ex_req)
     [(ex_plain_reply, recomputed_mac ex_mac (repeat 0 16) ex_plain_reply)] (Some 0%nat) = true /\
   C13_cli_strict_ok true true true [(ex_plain_reply, recomputed_mac ex_mac (repeat 0 16) ex_plain_reply)] (Some 0%nat) = false) /\
  (* authentication asked for, no key *)
  (client_run ex_mac (mkCcfg None 2 [10;0;0;2] 1 [10;0;0;1] true) false 0 [(ex_plain_reply, 0)] = CAccept 0 false /\
   C13_cli_strict_ok true false true [(ex_plain_reply, [])] (Some 0%nat) = false).
Proof. repeat split; vm_compute; reflexivity. Qed.
Print Assumptions C13_fail_closed_refuted_on_model.

(* ---- SCMP requests are answered whatever authenticator they carry (the first
        sentence of C13 read literally says "a request ... is never served";
        kind srv.scmpauth shows the same on the real listener; KNOWN_FINDINGS) ----
   An echo request carrying the time service's authenticator with a MAC that
   is not the MAC of the packet is answered by the model of the listener, and
   the literal oracle C13_srv_scmpauth_ok rejects that observation; in fact the
   SCMP branch of the model does not depend on the options at all. *)
Definition ex_scmp_req : rx :=
  mkRx true [LT_SCION; LT_E2E; LT_SCMP] ex_hdr [mkOpt OPT_AUTH (meta_bytes spi_client auth_algorithm ++ repeat 7 16)]
       (Scmp SCMP_ECHO_REQUEST 0 [0;1;0;2;9;9;9;9]) 120 false.

Theorem C13_scmp_bad_mac_served_refuted :
  (exists o, carries_auth spi_client ex_scmp_req = Some o /\
             opt_mac o <> recomputed_mac ex_mac (repeat 0 16) ex_scmp_req) /\
  map so_sock (ex_obs ex_scfg ex_scmp_req) = [7] /\
  C13_srv_scmpauth_ok true ex_scmp_req (recomputed_mac ex_mac (repeat 0 16) ex_scmp_req) (ex_obs ex_scfg ex_scmp_req) = false /\
  (* the property oracle as built (clause 1 speaks of requests for the service) accepts it *)
  ex_srv_ok ex_scfg ex_scmp_req (ex_obs ex_scfg ex_scmp_req) = true /\
  (* the SCMP branch never looks at the options *)
  (forall mac reverse fetch_key ntp_handle c ok ls h os os' t code p n nok oob,
     server_step mac reverse fetch_key ntp_handle c (mkRx ok ls h os (Scmp t code p) n nok) oob =
     server_step mac reverse fetch_key ntp_handle c (mkRx ok ls h os' (Scmp t code p) n nok) oob).
Proof.
  split; [eexists; split; [vm_compute; reflexivity|vm_compute; discriminate]|].
  split; [vm_compute; reflexivity|].
  split; [vm_compute; reflexivity|].
  split; [vm_compute; reflexivity|].
  intros. reflexivity.
Qed.
Print Assumptions C13_scmp_bad_mac_served_refuted.

(* the cache theorem is not vacuous: two epochs, one client AS; the key of the first
   epoch is served from the cache inside the epoch and replaced after it *)
Definition ex_K (p s d : Z) (h : bytes) (nb : Z) : bytes := [p; s; d; zlen h; nb].
Definition ex_daemon (m : hameta) : option hakey :=
  let nb := (m_time m / 100) * 100 in
  Some (mkHak (m_proto m) (m_src_ia m) (m_dst_ia m) (m_src_host m) nb (nb + 100) (ex_K (m_proto m) (m_src_ia m) (m_dst_ia m) (m_src_host m) nb)).
Example C13_key_cache_nonvacuous :
  sound_daemon ex_K ex_daemon /\
  map (fun r => (fst r, match snd r with Some k => k_nb k | None => -1 end))
      (krun [] [(mkMeta 123 1 2 [10;0;0;1] 150, ex_daemon); (mkMeta 123 1 2 [10;0;0;1] 199, ex_daemon);
                (mkMeta 123 1 2 [10;0;0;1] 201, ex_daemon); (mkMeta 123 1 2 [10;0;0;9] 202, ex_daemon);
                (mkMeta 123 1 2 [10;0;0;9] 150, fun _ => None)])
  = [(true, 100); (false, 100); (true, 200); (true, 200); (true, -1)].
Proof.
  split; [|vm_compute; reflexivity].
  intros m k H. unfold ex_daemon in H. inversion H; subst; clear H. unfold key_for, genuine. cbn.
  repeat split; try reflexivity; pose proof (Z.div_mod (m_time m) 100 ltac:(lia)); pose proof (Z.mod_pos_bound (m_time m) 100 ltac:(lia)); lia.
Qed.
