(* C06 — Server replies are correct in basic and interleaved mode for every history.
   Model: Model/Tss.v (handleRequest, updateTXTimestamp of core/server/server.go).
   A history is any list of operations (requests of any mix of clients with any
   receive times and clock readings, transmit-timestamp reports with any
   values, in any order: an interleaving of listeners is such a list).  Times
   lie in one NTP era k (Time64 comparison wraps at era boundaries), capacities
   are arbitrary positive numbers; [reachable] = reached from the empty store by
   such a history, together with the log of all replies and reports so far. *)
From ST Require Import Base.Ints Model.NtpTime Model.Tss Model.TssOracle Model.TssListenerOracle Proofs.TssProofs Proofs.TssInv Proofs.TssRun Proofs.TssOracleProofs Proofs.TssListenerProofs Proofs.TssFrame.
From Coq Require Import ZArith List.
Import ListNotations.
Open Scope Z_scope.

(* every reachable state satisfies the invariant (distinct receive stamps per client,
   every recorded transmit stamp later than its receive stamp, ...) and every stored
   exchange was created by a reply to the same client *)
Theorem C06_reachable_invariant : forall k c s log,
  0 < icap c -> 0 <= cap c -> reachable k c s log -> Inv c s /\ Prov log s.
Proof. intros k c s log Hi Hc. exact (reachable_inv k c Hi s log Hc). Qed.
Print Assumptions C06_reachable_invariant.

(* the reply to any request in any reachable state:
   - carries the server's receive timestamp of that request (after the uniqueness
     increments), distinct from all receive timestamps kept for that client;
   - is basic (origin = request transmit; transmit later than receive) or
     interleaved (origin = request receive; transmit = the one recorded for the
     earlier reply TO THE SAME CLIENT whose receive stamp equals the request's
     origin - that reply's own transmit stamp or a transmit time reported for it
     since - and later than that receive stamp);
   - is interleaved exactly when such a record exists and receive <> transmit. *)
Theorem C06_reply : forall k c s log cid q rxt now victim out,
  0 < icap c -> 0 <= cap c -> reachable k c s log ->
  in_era k rxt -> in_era k (rxt + icap c + 1) -> in_era k now ->
  handle c s cid q rxt now victim = Some out ->
  let r := o_reply out in
  r_rx r = to64 (o_rxt out) /\ rxt <= o_rxt out /\
  (forall it, find_item cid (items s) = Some it -> forall e, In e (it_ents it) -> e_rx e <> r_rx r) /\
  to64 (o_rxt out) < to64 (o_txt out) /\ (rxt < now -> now <= o_txt out) /\
  ((r_inter r = false /\ r_org r = q_tx q /\ r_tx r = to64 (o_txt out) /\ r_rx r < r_tx r) \/
   (r_inter r = true /\ r_org r = q_rx q /\ q_rx q <> q_tx q /\
    exists q0 r0, In (EvReply cid q0 r0) log /\ r_rx r0 = q_org q /\ r_rx r0 < r_tx r /\
      (r_tx r = r_ref r0 \/ In (EvTx cid (q_org q) (r_tx r)) log))) /\
  (r_inter r = true <->
     q_rx q <> q_tx q /\ exists it e, find_item cid (items s) = Some it /\ In e (it_ents it) /\ e_rx e = q_org q).
Proof.
  intros k c s log cid q rxt now victim out Hi Hc Hr E1 E2 E3 Hh.
  destruct (reachable_inv k c Hi s log Hc Hr) as [HI HP].
  exact (reply_theorem k c Hi s log cid q rxt now victim out HI HP E1 E2 E3 Hh).
Qed.
Print Assumptions C06_reply.

(* a reply is always produced (the only undefined case of the model is a
   priority queue that pops something other than a minimum) *)
Theorem C06_reply_defined : forall k c s log cid q rxt now victim,
  0 < icap c -> 0 <= cap c -> reachable k c s log ->
  in_era k rxt -> in_era k (rxt + icap c + 1) -> in_era k now ->
  handle c s cid q rxt now victim = None ->
  find_item cid (items s) = None /\ Z.of_nat (length (items s)) = cap c /\
  exists m, hq_min_val (hq s) = Some m /\ m <= to64 rxt /\ hq_find victim (hq s) <> Some m.
Proof.
  intros k c s log cid q rxt now victim Hi Hc Hr E1 E2 E3 Hh.
  destruct (reachable_inv k c Hi s log Hc Hr) as [HI _].
  exact (handle_defined k c Hi s cid q rxt now victim HI E1 E2 E3 Hh).
Qed.
Print Assumptions C06_reply_defined.

(* every transmit stamp on record is later than its receive stamp *)
Theorem C06_recorded_tx_after_rx : forall k c s log it e,
  0 < icap c -> 0 <= cap c -> reachable k c s log -> In it (items s) -> In e (it_ents it) -> e_rx e < e_tx e.
Proof.
  intros k c s log it e Hi Hc Hr Hit He.
  destruct (reachable_inv k c Hi s log Hc Hr) as [[_ [_ [Hall _]]] _].
  rewrite Forall_forall in Hall. destruct (Hall it Hit) as [_ [_ [_ [_ H]]]]. exact (H e He).
Qed.
Print Assumptions C06_recorded_tx_after_rx.

(* the transmit-timestamp report: the reported time is made later than the
   receive time; if it differs from what is on record the record now holds it
   (the kernel transmit timestamp once it has been read); if it does not (none
   could be read) the exchange is dropped from the record - nothing else of the
   client's record changes *)
Theorem C06_kernel_tx : forall k c s log cid rxt txt,
  0 < icap c -> 0 <= cap c -> reachable k c s log ->
  in_era k rxt -> in_era k (rxt + 1) -> in_era k txt ->
  let out := update_tx s cid rxt txt in
  rxt < t_txt out /\ (rxt < txt -> t_txt out = txt) /\ tx_kernel_clause s cid rxt txt.
Proof.
  intros k c s log cid rxt txt Hi Hc Hr E1 E2 E3.
  destruct (reachable_inv k c Hi s log Hc Hr) as [HI _].
  destruct (update_tx_spec k c s cid rxt txt HI E1 E2 E3) as [_ [H1 [H2 [_ H3]]]]. auto.
Qed.
Print Assumptions C06_kernel_tx.

(* the property oracle that is evaluated on the implementation's observations
   (Model/TssOracle.v, written from the property text) accepts everything the
   model does, in every reachable state: a rejection on the real code is
   therefore a disagreement with the model AND a violation of the property *)
Theorem C06_model_meets_handle_oracle : forall k c s log cid q rxt now victim out,
  0 < icap c -> 0 <= cap c -> reachable k c s log ->
  in_era k rxt -> in_era k (rxt + icap c + 1) -> in_era k now ->
  handle c s cid q rxt now victim = Some out ->
  C06_handle_ok (pre_of s cid) q rxt now (r_org (o_reply out)) (r_rx (o_reply out)) (r_tx (o_reply out))
    (o_rxt out) (o_txt out) = true.
Proof.
  intros k c s log cid q rxt now victim out Hi Hc Hr E1 E2 E3 Hh.
  destruct (reachable_inv k c Hi s log Hc Hr) as [HI _].
  exact (model_handle_oracle k c Hi s cid q rxt now victim out HI E1 E2 E3 Hh).
Qed.
Print Assumptions C06_model_meets_handle_oracle.

Theorem C06_model_meets_update_oracle : forall k c s log cid rxt txt,
  0 < icap c -> 0 <= cap c -> reachable k c s log ->
  in_era k rxt -> in_era k (rxt + 1) -> in_era k txt ->
  let out := update_tx s cid rxt txt in
  C06_update_ok (pre_of s cid) (pre_of (t_state out) cid) rxt (t_txt out) = true /\
  pairs_ordered (pre_of (t_state out) cid) = true /\ rxt < t_txt out.
Proof.
  intros k c s log cid rxt txt Hi Hc Hr E1 E2 E3.
  destruct (reachable_inv k c Hi s log Hc Hr) as [HI _].
  exact (model_update_oracle k c s cid rxt txt HI E1 E2 E3).
Qed.
Print Assumptions C06_model_meets_update_oracle.

(* the receive stamp a reply carries, exactly: the time reported back is the FIRST one at or after
   the packet's receive time whose stamp is distinct from all receive stamps kept for the client -
   unchanged when the packet's own stamp collides with none (then the transmit time is the clock
   reading, or receive time + 1 ns when the clock is not later), every skipped nanosecond collides
   with a kept stamp, and the move is at most one nanosecond per kept exchange (<= 8 ns) *)
Theorem C06_receive_stamp : forall k c s log cid q rxt now victim out,
  0 < icap c -> 0 <= cap c -> reachable k c s log ->
  in_era k rxt -> in_era k (rxt + icap c + 1) ->
  handle c s cid q rxt now victim = Some out ->
  rxt <= o_rxt out <= rxt + Z.of_nat (length (ents_of_client s cid)) /\
  Z.of_nat (length (ents_of_client s cid)) <= icap c /\
  (forall d, rxt <= d < o_rxt out -> has_rx (to64 d) (ents_of_client s cid) = true) /\
  has_rx (to64 (o_rxt out)) (ents_of_client s cid) = false /\
  (has_rx (to64 rxt) (ents_of_client s cid) = false ->
     o_rxt out = rxt /\ o_txt out = if rxt <? now then now else rxt + 1).
Proof.
  intros k c s log cid q rxt now victim out Hi Hc Hr E1 E2 Hh.
  destruct (reachable_inv k c Hi s log Hc Hr) as [[Hnd [Hcap [Hall Hhq]]] _].
  destruct (handle_rxt_spec c s cid q rxt now victim out Hh) as [H1 [H2 [H3 H4]]].
  assert (Hb : o_rxt out <= rxt + Z.of_nat (length (ents_of_client s cid)) /\ Z.of_nat (length (ents_of_client s cid)) <= icap c).
  { unfold ents_of_client in *. destruct (find_item cid (items s)) as [it|] eqn:Hfind.
    - destruct (find_item_In _ _ _ Hfind) as [Hin _].
      assert (Hok : item_ok c it) by (rewrite Forall_forall in Hall; apply Hall; exact Hin).
      split; [exact (handle_rxt_bound k c s cid q rxt now victim it out Hfind Hok E1 E2 Hh)|]. destruct Hok as [_ [Hl _]]. exact Hl.
    - cbn [length]. split; [|lia].
      destruct (Z.eq_dec (o_rxt out) rxt) as [E|E]; [lia|]. specialize (H2 rxt). cbn in H2. discriminate H2. lia. }
  destruct Hb as [Hb1 Hb2]. split; [lia|]. split; [exact Hb2|]. split; [exact H2|]. split; [exact H3|].
  intros Hfree. assert (o_rxt out = rxt).
  { destruct (Z.eq_dec (o_rxt out) rxt) as [E|E]; [exact E|]. rewrite (H2 rxt) in Hfree by lia. discriminate Hfree. }
  split; [assumption|auto].
Qed.
Print Assumptions C06_receive_stamp.

(* the interleaved clause against the STATE (not the log): the transmit stamp served is the one
   of THE exchange stored for this client whose receive stamp equals the request's origin (there is
   exactly one such exchange; receive stamps may recur in the log after removals, in the store
   they are distinct), and it is later than that receive stamp *)
Theorem C06_interleaved_serves_stored : forall k c s log cid q rxt now victim out,
  0 < icap c -> 0 <= cap c -> reachable k c s log ->
  in_era k rxt -> in_era k (rxt + icap c + 1) -> in_era k now ->
  handle c s cid q rxt now victim = Some out ->
  r_inter (o_reply out) = true ->
  exists it e, find_item cid (items s) = Some it /\ In e (it_ents it) /\
    e_rx e = q_org q /\ r_tx (o_reply out) = e_tx e /\ e_rx e < e_tx e /\
    (forall e', In e' (it_ents it) -> e_rx e' = q_org q -> e' = e).
Proof.
  intros k c s log cid q rxt now victim out Hi Hc Hr E1 E2 E3 Hh Hint.
  destruct (reachable_inv k c Hi s log Hc Hr) as [HI _].
  exact (interleaved_serves_stored k c Hi s cid q rxt now victim out HI E1 E2 E3 Hh Hint).
Qed.
Print Assumptions C06_interleaved_serves_stored.

(* isolation, as a frame property of the two operations (no invariant needed for the first part):
   - the reply to a client and the times reported back are a function of the request and of the
     client's OWN item: two stores that agree on that item give the same reply, whatever they hold
     for other clients (and whichever client the queue evicts);
   - a request leaves every other client's item as it was (the evicted client loses its item);
   - a transmit-timestamp report leaves every other client's item as it was. *)
Theorem C06_isolation : forall c s s' cid q rxt now victim victim' out out',
  find_item cid (items s) = find_item cid (items s') ->
  handle c s cid q rxt now victim = Some out ->
  handle c s' cid q rxt now victim' = Some out' ->
  o_reply out = o_reply out' /\ o_rxt out = o_rxt out' /\ o_txt out = o_txt out'.
Proof. exact handle_reply_frame. Qed.
Print Assumptions C06_isolation.

Theorem C06_frame : forall k c s log,
  0 < icap c -> 0 <= cap c -> reachable k c s log ->
  (forall cid q rxt now victim out, handle c s cid q rxt now victim = Some out ->
     forall x, In x (items (o_state out)) -> it_key x <> cid -> In x (items s)) /\
  (forall cid rxt txt x, In x (items (t_state (update_tx s cid rxt txt))) -> it_key x <> cid -> In x (items s)).
Proof.
  intros k c s log Hi Hc Hr. destruct (reachable_inv k c Hi s log Hc Hr) as [[Hnd _] _]. split.
  - intros cid q rxt now victim out Hh. exact (handle_items_frame c s cid q rxt now victim out Hnd Hh).
  - intros cid rxt txt. exact (update_tx_items_frame s cid rxt txt Hnd).
Qed.
Print Assumptions C06_frame.

(* the full per-request oracle (reply clauses; the reported receive time is the first free stamp, moved
   by at most one nanosecond per kept exchange; this reply's exchange is on record afterwards with the
   software transmit time unless the client - unknown before - was served without state; nothing else
   appeared in the client's record) accepts the model in every reachable state *)
Theorem C06_model_meets_full_handle_oracle : forall k c s log cid q rxt now victim out,
  0 < icap c -> 0 <= cap c -> reachable k c s log ->
  in_era k rxt -> in_era k (rxt + icap c + 1) -> in_era k now ->
  handle c s cid q rxt now victim = Some out ->
  C06_handle_full_ok (pre_of s cid) q rxt now (r_org (o_reply out)) (r_rx (o_reply out)) (r_tx (o_reply out))
    (o_rxt out) (o_txt out) (post_of (o_state out) cid) = true.
Proof.
  intros k c s log cid q rxt now victim out Hi Hc Hr E1 E2 E3 Hh.
  destruct (reachable_inv k c Hi s log Hc Hr) as [HI _].
  exact (model_handle_full_oracle k c Hi s cid q rxt now victim out HI E1 E2 E3 Hh).
Qed.
Print Assumptions C06_model_meets_full_handle_oracle.

(* the transmit time handed back by a report, for every store and every input (no invariant, no era
   hypothesis - in particular across the 2036 rollover of the 32-bit seconds): a reported time later
   than the receive time is kept as it is, otherwise it becomes receive time + 1 ns; the comparison is
   between the times, not between their 64-bit stamps (oracle clause C06_update_given_ok) *)
Theorem C06_report_time : forall s cid rxt txt,
  t_txt (update_tx s cid rxt txt) = (if rxt <? txt then txt else rxt + 1) /\
  C06_update_given_ok rxt txt (t_txt (update_tx s cid rxt txt)) = true.
Proof.
  intros s cid rxt txt.
  assert (H : t_txt (update_tx s cid rxt txt) = if rxt <? txt then txt else rxt + 1).
  { unfold update_tx. destruct (find_item cid (items s)) as [it|]; [|reflexivity].
    destruct (scan_tx_from 0 (it_ents it) (to64 rxt) None None None) as [[[[x xtx]|] m0] m1]; [|reflexivity].
    destruct (negb (xtx =? to64 (if rxt <? txt then txt else rxt + 1))); [reflexivity|].
    destruct (Nat.eqb (length (it_ents it)) 1); reflexivity. }
  split; [exact H|]. unfold C06_update_given_ok. rewrite H. destruct (rxt <? txt); apply Z.eqb_refl.
Qed.
Print Assumptions C06_report_time.

(* ---- at the listeners ----
   What a client sees on the wire (Model/TssListenerOracle.v): the listener-level
   history of a run is the list, oldest first, of (client, request, reply origin /
   receive / transmit stamp) of its replies; the store, the clock readings and the
   transmit-timestamp reports are hidden.  For EVERY history run through the model
   from the empty store (any mix of clients, any receive times and clock readings,
   any transmit-timestamp reports in any order) the listener-level oracle that is
   evaluated on the datagrams of the real IP and SCION listeners accepts the
   projected history: a rejection on the real listeners is a violation of the
   property by handleRequest/updateTXTimestamp or by the wiring around them
   (client identity, which receive / transmit stamps are passed). *)
Theorem C06_listener_oracle : forall k c ops s log,
  0 < icap c -> 0 <= cap c -> Forall (op_in_era k c) ops ->
  run_log c tss_empty [] ops = Some (s, log) ->
  C06_lsn_ok (wire log) = true.
Proof. intros k c ops s log Hi Hc. exact (listener_oracle_of_run k c Hi ops s log Hc). Qed.
Print Assumptions C06_listener_oracle.

(* what acceptance means, in words of the property: every reply is basic (origin = the
   request's transmit field) or interleaved (origin = its receive field, which differs from
   the transmit field), and an interleaved reply to a client names as origin the receive
   stamp of an EARLIER reply to THAT client, serves a transmit stamp later than it, and
   carries a different receive stamp itself.  Nothing recorded for another client is served. *)
Theorem C06_listener_isolation : forall h,
  C06_lsn_ok h = true ->
  forall before o after, h = before ++ o :: after ->
  (lsn_inter o = false -> l_org o = q_tx (l_q o)) /\
  (lsn_inter o = true ->
     l_org o = q_rx (l_q o) /\ q_rx (l_q o) <> q_tx (l_q o) /\ l_rx o <> q_org (l_q o) /\
     exists o0, In o0 before /\ l_cl o0 = l_cl o /\ l_rx o0 = q_org (l_q o) /\ l_rx o0 < l_tx o).
Proof. exact lsn_ok_split. Qed.
Print Assumptions C06_listener_isolation.

(* the clause the slow-link histories add to the listener-level oracle (kind lsn.slowlink):
   "the recorded transmit time is the kernel transmit timestamp once it has been read".  If
   every transmit-timestamp report carries a time not earlier than the software transmit
   time of the exchange it is reported for (monotone time: the kernel transmits a reply after
   the listener has stamped it), then an interleaved reply never serves a transmit stamp
   earlier than the software transmit time of the exchange it names - the time that very
   reply carried (r_ref; its transmit field when it was a basic reply).  The real listeners
   violated this behind a slow link: a stamp that arrived late was later taken for the
   stamp of the NEXT reply of that socket (D-C06b). *)
Theorem C06_served_tx_after_software_tx : forall k c s log cid q rxt now victim out,
  0 < icap c -> 0 <= cap c -> reachable k c s log -> reports_after_software log ->
  in_era k rxt -> in_era k (rxt + icap c + 1) -> in_era k now ->
  handle c s cid q rxt now victim = Some out ->
  r_inter (o_reply out) = true ->
  exists q0 r0, In (EvReply cid q0 r0) log /\ r_rx r0 = q_org q /\ r_ref r0 <= r_tx (o_reply out).
Proof.
  intros k c s log cid q rxt now victim out Hi Hc Hr Hrep E1 E2 E3 Hh Hint.
  destruct (reachable_inv k c Hi s log Hc Hr) as [HI HP].
  exact (served_tx_after_software_tx k c Hi s log cid q rxt now victim out HI HP Hrep E1 E2 E3 Hh Hint).
Qed.
Print Assumptions C06_served_tx_after_software_tx.

(* the hypothesis is satisfiable: the history of C06_nonvacuous (a report 10 ns after the software time) *)
Example C06_reports_after_software_nonvacuous :
  let t := 1717171717000000000 in
  let ops := [OpHandle 1 {| q_org := 0; q_rx := 5; q_tx := 6 |} t (t + 10) 0;
              OpUpdateTx 1 t (t + 20);
              OpHandle 1 {| q_org := to64 t; q_rx := 7; q_tx := 8 |} (t + 100) (t + 110) 0] in
  exists s log, run_log real_config tss_empty [] ops = Some (s, log) /\ reports_after_software log.
Proof.
  cbv zeta. eexists. eexists. split; [vm_compute; reflexivity|].
  intros cid rx tx q0 r0 Htx Hrep Hrx. cbn [In] in Htx, Hrep.
  destruct Htx as [Htx|[Htx|[Htx|[]]]]; try discriminate Htx.
  injection Htx as Ec Erx Etx. rewrite <- Etx. rewrite <- Erx in Hrx. clear Ec Erx Etx.
  destruct Hrep as [Hrep|[Hrep|[Hrep|[]]]]; try discriminate Hrep;
    injection Hrep as _ _ Er; rewrite <- Er in Hrx |- *; cbn [r_rx r_ref] in *.
  - vm_compute in Hrx. discriminate Hrx.
  - intro Hgt. vm_compute in Hgt. discriminate Hgt.
Qed.

(* the listener-level oracle is not trivially true: client 2 naming the receive stamp of a reply
   to client 1 and being served interleaved is rejected; the same request from client 1 is accepted *)
Example C06_listener_oracle_rejects_cross_client :
  let first := {| l_cl := 1; l_q := {| q_org := 0; q_rx := 5; q_tx := 6 |}; l_org := 6; l_rx := 100; l_tx := 110 |} in
  let served cl := {| l_cl := cl; l_q := {| q_org := 100; q_rx := 110; q_tx := 7 |}; l_org := 110; l_rx := 200; l_tx := 120 |} in
  C06_lsn_ok [first; served 2] = false /\ C06_lsn_ok [first; served 1] = true.
Proof. split; reflexivity. Qed.

(* the hypotheses are satisfiable: a concrete history in era 0 of the real configuration *)
Example C06_nonvacuous :
  let t := 1717171717000000000 in
  let ops := [OpHandle 1 {| q_org := 0; q_rx := 5; q_tx := 6 |} t (t + 10) 0;
              OpUpdateTx 1 t (t + 20);
              OpHandle 1 {| q_org := to64 t; q_rx := 7; q_tx := 8 |} (t + 100) (t + 110) 0] in
  Forall (op_in_era 0 real_config) ops /\
  exists s log, run_log real_config tss_empty [] ops = Some (s, log) /\
    match log with EvReply _ _ r :: _ => r_inter r = true /\ r_tx r = to64 (t + 20) | _ => False end.
Proof.
  cbv zeta. split.
  - repeat constructor; unfold in_era, time_sec, ntp_epoch, nanos_per_sec; cbn; lia.
  - eexists. eexists. split; [vm_compute; reflexivity|]. vm_compute. split; reflexivity.
Qed.

(* an exchange for which NO reply goes out is not on record.  The listeners enter a request into
   the store (handleRequest) before the reply is built and sent; when no reply can be sent (SCION
   path that cannot be reversed, no cookie, failed write) they report the transmit time
   handleRequest set, unchanged (updateTXTimestamp): afterwards the store satisfies the invariant
   and holds no exchange of this client with the receive stamp of the unanswered request - so no
   later request can be served in interleaved mode from it ("an interleaved reply is given only
   when such an earlier reply to the same client is on record"). *)
Theorem C06_no_reply_not_on_record : forall k c s cid q rxt now victim out,
  0 < icap c -> Inv c s -> in_era k rxt -> in_era k (rxt + icap c + 1) -> in_era k now ->
  handle c s cid q rxt now victim = Some out ->
  Inv c (t_state (update_tx (o_state out) cid (o_rxt out) (o_txt out))) /\
  forall it, find_item cid (items (t_state (update_tx (o_state out) cid (o_rxt out) (o_txt out)))) = Some it ->
    forall e, In e (it_ents it) -> e_rx e <> to64 (o_rxt out).
Proof. exact noreply_not_on_record. Qed.
Print Assumptions C06_no_reply_not_on_record.

(* the listener-level oracle for such an exchange (kind lsn.noreply) is not trivially true: it
   rejects what the listeners did before the repair (the unanswered request kept on record and the
   next request of the client served from it) and accepts a basic reply from an empty record *)
Example C06_noreply_oracle_rejects_kept_record :
  let q := {| q_org := 100; q_rx := 7; q_tx := 9 |} in
  C06_noreply_ok false [(100, 105)] q true 7 200 105 [(200, 210)] = false /\
  C06_noreply_ok false [] q true 9 200 205 [(200, 210)] = true.
Proof. split; reflexivity. Qed.
