(* C07 — Server per-client state stays bounded, consistent and race-free.
   Same model and notion of reachable state as C06 (Model/Tss.v): [items] is
   the map of clients, [hq] the priority queue as container/heap has been told
   about it (one (client, queue value) pair per Push, changed by Fix, dropped by
   Pop/Remove).  Theorems hold for ALL capacities cap >= 0, icap > 0 (the code's
   2^20 and 8 are an instance) within one NTP era. *)
From ST Require Base.Mutex.
From ST Require Import Base.Ints Model.NtpTime Model.Tss Proofs.TssProofs Proofs.TssInv Proofs.TssRun Proofs.TssExact Proofs.TssFrame Proofs.TssSerial.
From Coq Require Import ZArith List.
Import ListNotations.
Open Scope Z_scope.

(* at most cap clients, between 1 and icap exchanges per client, whatever the history *)
Theorem C07_bounds : forall k c s log,
  0 < icap c -> 0 <= cap c -> reachable k c s log ->
  Z.of_nat (length (items s)) <= cap c /\
  forall it, In it (items s) -> (1 <= length (it_ents it))%nat /\ Z.of_nat (length (it_ents it)) <= icap c.
Proof.
  intros k c s log Hi Hc Hr. destruct (reachable_inv k c Hi s log Hc Hr) as [[_ [Hcap [Hall _]]] _].
  split; [exact Hcap|]. intros it Hit. rewrite Forall_forall in Hall. destruct (Hall it Hit) as [H1 [H2 _]]. auto.
Qed.
Print Assumptions C07_bounds.

(* the index of clients by recent activity always agrees with the map: exactly one
   entry per client, carrying that client's current queue value; client ids are distinct *)
Theorem C07_index_agrees : forall k c s log,
  0 < icap c -> 0 <= cap c -> reachable k c s log ->
  hq s = map (fun it => (it_key it, it_qval it)) (items s) /\ NoDup (map it_key (items s)).
Proof.
  intros k c s log Hi Hc Hr. destruct (reachable_inv k c Hi s log Hc Hr) as [[Hnd [_ [_ Hhq]]] _]. auto.
Qed.
Print Assumptions C07_index_agrees.

(* a client is never ranked older than its most recent stored exchange, and the
   receive stamps stored for one client are pairwise distinct *)
Theorem C07_qval_ge_latest : forall k c s log it,
  0 < icap c -> 0 <= cap c -> reachable k c s log -> In it (items s) ->
  (forall e, In e (it_ents it) -> e_rx e <= it_qval it) /\ NoDup (map e_rx (it_ents it)).
Proof.
  intros k c s log it Hi Hc Hr Hit. destruct (reachable_inv k c Hi s log Hc Hr) as [[_ [_ [Hall _]]] _].
  rewrite Forall_forall in Hall. destruct (Hall it Hit) as [_ [_ [H3 [H4 _]]]]. auto.
Qed.
Print Assumptions C07_qval_ge_latest.

(* ... and exactly as its most recent stored exchange when requests arrive in
   timestamp order (each request of a client that has state is newer than that
   client's queue value): the queue value is the largest stored receive stamp.
   The hypothesis cannot be dropped (TssExact.out_of_order_not_exact). *)
Theorem C07_qval_is_newest_in_order : forall k c ops s log,
  0 < icap c -> 0 <= cap c ->
  Forall (op_in_era k c) ops -> all_in_order c tss_empty ops ->
  run_log c tss_empty [] ops = Some (s, log) ->
  forall it, In it (items s) ->
    exists e, In e (it_ents it) /\ it_qval it = e_rx e /\ forall e', In e' (it_ents it) -> e_rx e' <= e_rx e.
Proof. exact run_qval_is_newest. Qed.
Print Assumptions C07_qval_is_newest_in_order.

(* a request from a client without state: the store evicts only when it is full,
   only the client with the minimal queue value (least recently active), and only
   if the newcomer is at least as recent; otherwise the newcomer is served
   statelessly and the state is unchanged; when not full the newcomer is added *)
Theorem C07_evict_min_only : forall k c s cid q rxt now victim out,
  find_item cid (items s) = None -> in_era k rxt -> in_era k (rxt + 1) -> in_era k now ->
  handle c s cid q rxt now victim = Some out ->
  (o_stateless out = true /\ o_evicted out = None /\ o_state out = s /\
    Z.of_nat (length (items s)) = cap c /\
    (hq_min_val (hq s) = None \/ exists m, hq_min_val (hq s) = Some m /\ to64 rxt < m)) \/
  (o_stateless out = false /\ o_evicted out = None /\ Z.of_nat (length (items s)) <> cap c /\
    o_state out = {| items := new_item cid (to64 rxt) (to64 (o_txt out)) :: items s;
                     hq := (cid, to64 rxt) :: hq s |}) \/
  (o_stateless out = false /\ o_evicted out = Some victim /\ Z.of_nat (length (items s)) = cap c /\
    (exists m, hq_find victim (hq s) = Some m /\ hq_min_val (hq s) = Some m /\ m <= to64 rxt) /\
    o_state out = {| items := new_item cid (to64 rxt) (to64 (o_txt out)) :: remove_item victim (items s);
                     hq := (cid, to64 rxt) :: hq_remove victim (hq s) |}).
Proof.
  intros k c s cid q rxt now victim out Hf E1 E2 E3 Hh.
  destruct (handle_new_spec k c s cid q rxt now victim out Hf E1 E2 E3 Hh) as [_ [_ [_ [_ [_ H]]]]]. exact H.
Qed.
Print Assumptions C07_evict_min_only.

(* a request from a client that has state never changes the set of clients *)
Theorem C07_known_client_keeps_set : forall k c s cid q rxt now victim it,
  0 < icap c -> Inv c s -> find_item cid (items s) = Some it ->
  in_era k rxt -> in_era k (rxt + icap c + 1) -> in_era k now ->
  exists out, handle c s cid q rxt now victim = Some out /\
    map it_key (items (o_state out)) = map it_key (items s) /\ o_evicted out = None /\ o_stateless out = false.
Proof.
  intros k c s cid q rxt now victim it Hi HInv Hf E1 E2 E3.
  assert (Hok : item_ok c it).
  { destruct HInv as [_ [_ [Hall _]]]. rewrite Forall_forall in Hall. apply Hall. apply (find_item_In _ _ _ Hf). }
  destruct (handle_existing_spec k c Hi s cid q rxt now victim it Hf Hok E1 E2 E3) as [out [it' [hq' [H1 [H2 [H3 [H4 _]]]]]]].
  exists out. split; [exact H1|]. rewrite H2. cbn [items]. rewrite replace_item_keys. auto.
Qed.
Print Assumptions C07_known_client_keeps_set.

(* every operation, from any state satisfying the invariant, re-establishes it:
   this is what makes the theorems hold along every history *)
Theorem C07_step_preserves : forall k c s o s' ev log,
  0 < icap c -> Inv c s -> Prov log s -> op_in_era k c o -> step_log c s o = Some (s', ev) ->
  Inv c s' /\ Prov (ev :: log) s'.
Proof. intros k c s o s' ev log Hi. exact (step_log_inv k c Hi s o s' ev log). Qed.
Print Assumptions C07_step_preserves.

(* concurrency: handleRequest and updateTXTimestamp touch the shared store only
   inside critical sections of the one mutex tssMu (checked on the source on every
   run).  For such code any schedule of any number of listener goroutines leaves
   the store in the state obtained by running the critical sections one after the
   other in lock-acquisition order - the operation lists the theorems above
   quantify over - and that order respects each goroutine's own order. *)
Theorem C07_serializable : forall (s0 : tss) (threads : list (list (Mutex.section tss))) (sched : list nat),
  Mutex.holder tss (Mutex.run tss sched (Mutex.init tss s0 threads)) = None ->
  Mutex.st tss (Mutex.run tss sched (Mutex.init tss s0 threads))
  = Mutex.sequential tss (map snd (rev (Mutex.order tss (Mutex.run tss sched (Mutex.init tss s0 threads))))) s0.
Proof. exact (Mutex.mutex_quiescent tss). Qed.
Print Assumptions C07_serializable.

Theorem C07_lock_order_respects_program_order : forall (s0 : tss) threads sched u,
  Mutex.entered tss u (Mutex.run tss sched (Mutex.init tss s0 threads))
    ++ nth u (Mutex.work tss (Mutex.run tss sched (Mutex.init tss s0 threads))) []
  = nth u threads [].
Proof. exact (Mutex.mutex_program_order tss). Qed.
Print Assumptions C07_lock_order_respects_program_order.

(* the mutex theorem instantiated with the store: every handleRequest / updateTXTimestamp call
   is one critical section of tssMu that performs the model's step (the reply is computed inside
   it and is part of the shared log).  For ANY number of listener goroutines, each with any
   program of calls, and ANY schedule: once no call is in progress, the store AND all replies
   are exactly those of the sequential run (Tss.run_log - the histories C06 and C07 quantify
   over) of the calls in lock-acquisition order, and that order interleaves the goroutines'
   own program orders.  None = the queue was told to pop something that is not a minimum. *)
Theorem C07_concurrent_calls_serialize : forall c (threads : list (list op)) (sched : list nat),
  let final := Mutex.run shared sched (Mutex.init shared (Some (tss_empty, [])) (map (map (call_section c)) threads)) in
  Mutex.holder shared final = None ->
  exists ops : list op,
    map (call_section c) ops = map snd (rev (Mutex.order shared final)) /\
    Mutex.st shared final = run_log c tss_empty [] ops /\
    (forall u, Mutex.entered shared u final ++ nth u (Mutex.work shared final) [] = map (call_section c) (nth u threads [])).
Proof. exact calls_serialize. Qed.
Print Assumptions C07_concurrent_calls_serialize.

(* the hypothesis is met: two goroutines, one call each, goroutine 1 enters first *)
Example C07_concurrent_calls_nonvacuous :
  let t := 1717171717000000000 in
  let rq := {| q_org := 0; q_rx := 5; q_tx := 5 |} in
  let threads := [[OpHandle 1 rq t (t + 10) 0]; [OpHandle 2 rq (t + 100) (t + 110) 0]] in
  let final := Mutex.run shared [1; 0; 1; 1; 0; 0; 0]%nat
                 (Mutex.init shared (Some (tss_empty, [])) (map (map (call_section real_config)) threads)) in
  Mutex.holder shared final = None /\
  match Mutex.st shared final with Some (s, log) => map it_key (items s) = [1; 2] /\ length log = 2%nat | None => False end.
Proof. cbv zeta. split; [vm_compute; reflexivity|]. vm_compute. split; reflexivity. Qed.

(* frame: a request or a transmit-timestamp report of one client leaves the item of every other
   client exactly as it was (only the evicted client's item disappears); the item of the client
   itself keeps a subset of its exchanges plus possibly the reported one *)
Theorem C07_frame : forall k c s log,
  0 < icap c -> 0 <= cap c -> reachable k c s log ->
  (forall cid q rxt now victim out, handle c s cid q rxt now victim = Some out ->
     forall x, In x (items (o_state out)) -> it_key x <> cid -> In x (items s)) /\
  (forall cid rxt txt x, In x (items (t_state (update_tx s cid rxt txt))) ->
     In x (items s) \/
     (it_key x = cid /\ exists it, find_item cid (items s) = Some it /\
        forall e, In e (it_ents x) ->
          In e (it_ents it) \/
          (e = {| e_rx := to64 rxt; e_tx := to64 (t_txt (update_tx s cid rxt txt)) |} /\
           exists e0, In e0 (it_ents it) /\ e_rx e0 = to64 rxt))).
Proof.
  intros k c s log Hi Hc Hr. destruct (reachable_inv k c Hi s log Hc Hr) as [[Hnd _] _]. split.
  - intros cid q rxt now victim out Hh. exact (handle_items_frame c s cid q rxt now victim out Hnd Hh).
  - intros cid rxt txt. exact (update_tx_frame s cid rxt txt Hnd).
Qed.
Print Assumptions C07_frame.

(* non-vacuity: a full store of capacity 2 evicts its least recently active client *)
Example C07_evicts_minimum :
  let c := {| cap := 2; icap := 8 |} in
  let t := 1717171717000000000 in
  let rq := {| q_org := 0; q_rx := 5; q_tx := 5 |} in
  let ops := [OpHandle 1 rq t (t + 10) 0; OpHandle 2 rq (t + 100) (t + 110) 0; OpHandle 3 rq (t + 200) (t + 210) 1] in
  Forall (op_in_era 0 c) ops /\
  exists s log, run_log c tss_empty [] ops = Some (s, log) /\ map it_key (items s) = [3; 2].
Proof.
  cbv zeta. split.
  - repeat constructor; unfold in_era, time_sec, ntp_epoch, nanos_per_sec; cbn; lia.
  - eexists. eexists. split; [vm_compute; reflexivity|]. vm_compute. reflexivity.
Qed.

(* ===========================================================================
   The priority queue made concrete (Model/TssHeap.v): the array tssQ driven by
   Go's container/heap - Push = append + up, Pop = Swap(0,n-1) + down + drop last,
   Remove(i) = Swap(i,n-1) + (down or else up) + drop last, Fix(i) = down or else
   up, Less = qval.Before, Swap rewriting the two qidx back-pointers - and
   handleRequest / updateTXTimestamp issuing the heap calls of the code
   (handle_h, update_tx_h: Push on insert, Pop on eviction, Fix after a qval
   change, Remove when an item goes).  An array slot is (client, queue value);
   h_bp is the table of the items' qidx fields.
     heap_valid a : heap order of the array (below: no slot smaller than its parent)
     bp_ok h      : every slot's client has qidx = the index of that slot
     wf h         : bp_ok h and the clients in the array are pairwise distinct
     Rel sh s     : the concrete store sh represents the store s of Tss.v: same
                    items, array = a permutation of hq s, heap_valid, bp_ok
   =========================================================================== *)
From ST Require Import Model.TssHeap Proofs.TssHeapProofs.
From Coq Require Import Permutation.

(* the loops of container/heap run on fuel; the fuel given is never exhausted *)
Theorem C07_heap_fuel : forall h i j n,
  up_f (S j) h j <> None /\ down_f (S (n - i)) h i n <> None.
Proof. intros h i j n. split; [apply up_fuel|apply down_fuel]. Qed.
Print Assumptions C07_heap_fuel.

(* heap_valid is the usual heap order: no element is smaller than its parent *)
Theorem C07_heap_valid_means : forall a,
  heap_valid a <->
  forall j, (0 < j < length a)%nat -> snd (nth ((j - 1) / 2) a hd0) <= snd (nth j a hd0).
Proof. intros a. exact (heap_n_parent a (length a)). Qed.
Print Assumptions C07_heap_valid_means.

(* every container/heap call made on a valid heap leaves a valid heap with the
   right back-pointers and exactly the expected contents; Pop returns the root
   and Remove(i) the slot i *)
Theorem C07_heap_ops_valid : forall h,
  wf h -> heap_valid (h_arr h) ->
  (forall k v, ~ In k (map fst (h_arr h)) ->
     wf (hpush h (k, v)) /\ heap_valid (h_arr (hpush h (k, v))) /\
     Permutation (h_arr (hpush h (k, v))) ((k, v) :: h_arr h)) /\
  (h_arr h <> [] ->
     snd (hpop h) = nth 0 (h_arr h) hd0 /\ wf (fst (hpop h)) /\ heap_valid (h_arr (fst (hpop h))) /\
     Permutation (snd (hpop h) :: h_arr (fst (hpop h))) (h_arr h)) /\
  (forall i, (i < length (h_arr h))%nat ->
     snd (hremove h i) = nth i (h_arr h) hd0 /\ wf (fst (hremove h i)) /\ heap_valid (h_arr (fst (hremove h i))) /\
     Permutation (snd (hremove h i) :: h_arr (fst (hremove h i))) (h_arr h)) /\
  (forall i v, (i < length (h_arr h))%nat ->
     let k := fst (nth i (h_arr h) hd0) in
     wf (hfix (hset_qval h k v) i) /\ heap_valid (h_arr (hfix (hset_qval h k v) i)) /\
     Permutation (h_arr (hfix (hset_qval h k v) i)) (hq_fix k v (h_arr h))).
Proof.
  intros h Hwf Hh. split; [intros k v Hf; apply hpush_spec; assumption|].
  split; [intros Hne; apply hpop_spec; assumption|].
  split; [intros i Hi; apply hremove_spec; assumption|].
  intros i v Hi k. apply hset_fix_spec; try assumption. reflexivity.
Qed.
Print Assumptions C07_heap_ops_valid.

(* what heap.Pop returns is the root of the array, and the root is a least
   recently active client: the side condition "victim must be a minimum" of
   Tss.handle is a theorem about the array heap *)
Theorem C07_pop_is_minimum : forall c sh s,
  Rel sh s -> Inv c s -> h_arr (hs_heap sh) <> [] ->
  snd (hpop (hs_heap sh)) = nth 0 (h_arr (hs_heap sh)) hd0 /\
  fst (snd (hpop (hs_heap sh))) = root_key (hs_heap sh) /\
  hq_find (root_key (hs_heap sh)) (hq s) = Some (snd (snd (hpop (hs_heap sh)))) /\
  hq_min_val (hq s) = Some (snd (snd (hpop (hs_heap sh)))) /\
  forall x, In x (hq s) -> snd (snd (hpop (hs_heap sh))) <= snd x.
Proof. exact pop_is_minimum. Qed.
Print Assumptions C07_pop_is_minimum.

(* REFINEMENT, one operation: on a concrete store representing s, handleRequest
   with the real heap calls behaves as Tss.handle on s with victim = the root
   popped: same reply, same reported times, same eviction/stateless outcome, and
   the new concrete store represents the new abstract store (same items) *)
Theorem C07_heap_refines : forall c sh s cid q rxt now,
  Rel sh s -> Inv c s ->
  match handle_h c sh cid q rxt now with
  | Some oh => exists out, handle c s cid q rxt now (root_key (hs_heap sh)) = Some out /\
      Rel (ho_state oh) (o_state out) /\ ho_reply oh = o_reply out /\ ho_rxt oh = o_rxt out /\
      ho_txt oh = o_txt out /\ ho_evicted oh = o_evicted out /\ ho_stateless oh = o_stateless out
  | None => handle c s cid q rxt now (root_key (hs_heap sh)) = None
  end.
Proof. exact handle_h_refines. Qed.
Print Assumptions C07_heap_refines.

Theorem C07_heap_refines_tx : forall c sh s cid rxt txt,
  Rel sh s -> Inv c s ->
  Rel (ht_state (update_tx_h sh cid rxt txt)) (t_state (update_tx s cid rxt txt)) /\
  ht_txt (update_tx_h sh cid rxt txt) = t_txt (update_tx s cid rxt txt) /\
  ht_removed_item (update_tx_h sh cid rxt txt) = t_removed_item (update_tx s cid rxt txt) /\
  ht_removed_entry (update_tx_h sh cid rxt txt) = t_removed_entry (update_tx s cid rxt txt) /\
  ht_updated (update_tx_h sh cid rxt txt) = t_updated (update_tx s cid rxt txt).
Proof. exact update_tx_h_refines. Qed.
Print Assumptions C07_heap_refines_tx.

(* with the victim supplied by the array heap the request handler always answers
   (Tss.handle can only fail on a victim that is not a minimum) *)
Theorem C07_heap_defined : forall k c sh s cid q rxt now,
  0 < icap c -> Rel sh s -> Inv c s ->
  in_era k rxt -> in_era k (rxt + icap c + 1) -> in_era k now ->
  handle_h c sh cid q rxt now <> None.
Proof. intros k c sh s cid q rxt now Hi. exact (handle_h_defined k c Hi sh s cid q rxt now). Qed.
Print Assumptions C07_heap_defined.

(* REFINEMENT, all histories: every history runs to completion on the concrete
   store; the array is in heap order, every back-pointer is right, and the store
   reached represents (same items; array = permutation of the abstract queue) a
   state reachable in Tss.v - so C06 and C07_bounds .. C07_evict_min_only hold of
   the items of the concrete store *)
Theorem C07_heap_valid : forall k c ops,
  0 < icap c -> 0 <= cap c -> Forall (op_in_era k c) ops ->
  exists sh, run_h c tssh_empty ops = Some sh /\
    (forall j, (0 < j < length (h_arr (hs_heap sh)))%nat ->
       snd (nth ((j - 1) / 2) (h_arr (hs_heap sh)) hd0) <= snd (nth j (h_arr (hs_heap sh)) hd0)) /\
    (forall i, (i < length (h_arr (hs_heap sh)))%nat ->
       bp_get (fst (nth i (h_arr (hs_heap sh)) hd0)) (h_bp (hs_heap sh)) = i) /\
    exists s log, reachable k c s log /\ hs_items sh = items s /\ Permutation (h_arr (hs_heap sh)) (hq s).
Proof.
  intros k c ops Hi Hc Hera. destruct (heap_run k c Hi ops Hc Hera) as [sh [s [log [Hrun [Hreach [Hit [Hp [Hh Hbp]]]]]]]].
  exists sh. split; [exact Hrun|]. split; [apply C07_heap_valid_means; exact Hh|]. split; [exact Hbp|].
  exists s, log. auto.
Qed.
Print Assumptions C07_heap_valid.

(* ... for instance: the array holds exactly one slot per client, carrying that
   client's current queue value, and the bounds of C07_bounds hold *)
Theorem C07_heap_array_is_index : forall k c ops sh,
  0 < icap c -> 0 <= cap c -> Forall (op_in_era k c) ops -> run_h c tssh_empty ops = Some sh ->
  Permutation (h_arr (hs_heap sh)) (map (fun it => (it_key it, it_qval it)) (hs_items sh)) /\
  NoDup (map it_key (hs_items sh)) /\
  Z.of_nat (length (hs_items sh)) <= cap c /\
  forall it, In it (hs_items sh) -> (1 <= length (it_ents it))%nat /\ Z.of_nat (length (it_ents it)) <= icap c.
Proof.
  intros k c ops sh Hi Hc Hera Hrun. destruct (heap_run k c Hi ops Hc Hera) as [sh' [s [log [Hrun' [Hreach [Hit [Hp _]]]]]]].
  assert (sh' = sh) by congruence. subst sh'.
  destruct (C07_index_agrees k c s log Hi Hc Hreach) as [Hhq Hnd].
  destruct (C07_bounds k c s log Hi Hc Hreach) as [Hb1 Hb2].
  rewrite Hit. rewrite <- Hhq. auto.
Qed.
Print Assumptions C07_heap_array_is_index.

(* non-vacuity: the history of C07_evicts_minimum on the concrete store - the pop
   of the full store removes client 1 (the root), the array is [(2,_); (3,_)] *)
Example C07_heap_evicts_root :
  let c := {| cap := 2; icap := 8 |} in
  let t := 1717171717000000000 in
  let rq := {| q_org := 0; q_rx := 5; q_tx := 5 |} in
  let ops := [OpHandle 1 rq t (t + 10) 0; OpHandle 2 rq (t + 100) (t + 110) 0; OpHandle 3 rq (t + 200) (t + 210) 0] in
  exists sh, run_h c tssh_empty ops = Some sh /\ map it_key (hs_items sh) = [3; 2] /\
             map fst (h_arr (hs_heap sh)) = [2; 3] /\ map (fun kv => bp_get (fst kv) (h_bp (hs_heap sh))) (h_arr (hs_heap sh)) = [0%nat; 1%nat].
Proof. cbv zeta. eexists. split; [vm_compute; reflexivity|]. vm_compute. auto. Qed.
