(* C07 — Server per-client state stays bounded, consistent and race-free.
   Same model and notion of reachable state as C06 (Model/Tss.v): [items] is
   the map of clients, [hq] the priority queue as container/heap has been told
   about it (one (client, queue value) pair per Push, changed by Fix, dropped by
   Pop/Remove).  Theorems hold for ALL capacities cap >= 0, icap > 0 (the code's
   2^20 and 8 are an instance) within one NTP era. *)
From ST Require Base.Mutex.
From ST Require Import Base.Ints Model.NtpTime Model.Tss Proofs.TssProofs Proofs.TssInv Proofs.TssRun Proofs.TssExact.
From Coq Require Import ZArith List.
Import ListNotations.
Open Scope Z_scope.

(* at most cap clients, between 1 and icap exchanges per client, whatever the history *)
Theorem C07_bounds : forall k c s log,
  0 < icap c -> 0 <= cap c -> reachable k c s log ->
  Z.of_nat (length (items s)) <= cap c /\
  forall it, In it (items s) -> (1 <= length (it_ents it))%nat /\ Z.of_nat (length (it_ents it)) <= icap c.
Proof.
  intros k c s log Hi Hc Hr. destruct (reachable_inv k c Hi s log Hc Hr) as [[_ [Hcap [Hall _]]] _].
  split; [exact Hcap|]. intros it Hit. rewrite Forall_forall in Hall. destruct (Hall it Hit) as [H1 [H2 _]]. auto.
Qed.
Print Assumptions C07_bounds.

(* the index of clients by recent activity always agrees with the map: exactly one
   entry per client, carrying that client's current queue value; client ids are distinct *)
Theorem C07_index_agrees : forall k c s log,
  0 < icap c -> 0 <= cap c -> reachable k c s log ->
  hq s = map (fun it => (it_key it, it_qval it)) (items s) /\ NoDup (map it_key (items s)).
Proof.
  intros k c s log Hi Hc Hr. destruct (reachable_inv k c Hi s log Hc Hr) as [[Hnd [_ [_ Hhq]]] _]. auto.
Qed.
Print Assumptions C07_index_agrees.

(* a client is never ranked older than its most recent stored exchange, and the
   receive stamps stored for one client are pairwise distinct *)
Theorem C07_qval_ge_latest : forall k c s log it,
  0 < icap c -> 0 <= cap c -> reachable k c s log -> In it (items s) ->
  (forall e, In e (it_ents it) -> e_rx e <= it_qval it) /\ NoDup (map e_rx (it_ents it)).
Proof.
  intros k c s log it Hi Hc Hr Hit. destruct (reachable_inv k c Hi s log Hc Hr) as [[_ [_ [Hall _]]] _].
  rewrite Forall_forall in Hall. destruct (Hall it Hit) as [_ [_ [H3 [H4 _]]]]. auto.
Qed.
Print Assumptions C07_qval_ge_latest.

(* ... and exactly as its most recent stored exchange when requests arrive in
   timestamp order (each request of a client that has state is newer than that
   client's queue value): the queue value is the largest stored receive stamp.
   The hypothesis cannot be dropped (TssExact.out_of_order_not_exact). *)
Theorem C07_qval_is_newest_in_order : forall k c ops s log,
  0 < icap c -> 0 <= cap c ->
  Forall (op_in_era k c) ops -> all_in_order c tss_empty ops ->
  run_log c tss_empty [] ops = Some (s, log) ->
  forall it, In it (items s) ->
    exists e, In e (it_ents it) /\ it_qval it = e_rx e /\ forall e', In e' (it_ents it) -> e_rx e' <= e_rx e.
Proof. exact run_qval_is_newest. Qed.
Print Assumptions C07_qval_is_newest_in_order.

(* a request from a client without state: the store evicts only when it is full,
   only the client with the minimal queue value (least recently active), and only
   if the newcomer is at least as recent; otherwise the newcomer is served
   statelessly and the state is unchanged; when not full the newcomer is added *)
Theorem C07_evict_min_only : forall k c s cid q rxt now victim out,
  find_item cid (items s) = None -> in_era k rxt -> in_era k (rxt + 1) -> in_era k now ->
  handle c s cid q rxt now victim = Some out ->
  (o_stateless out = true /\ o_evicted out = None /\ o_state out = s /\
    Z.of_nat (length (items s)) = cap c /\
    (hq_min_val (hq s) = None \/ exists m, hq_min_val (hq s) = Some m /\ to64 rxt < m)) \/
  (o_stateless out = false /\ o_evicted out = None /\ Z.of_nat (length (items s)) <> cap c /\
    o_state out = {| items := new_item cid (to64 rxt) (to64 (o_txt out)) :: items s;
                     hq := (cid, to64 rxt) :: hq s |}) \/
  (o_stateless out = false /\ o_evicted out = Some victim /\ Z.of_nat (length (items s)) = cap c /\
    (exists m, hq_find victim (hq s) = Some m /\ hq_min_val (hq s) = Some m /\ m <= to64 rxt) /\
    o_state out = {| items := new_item cid (to64 rxt) (to64 (o_txt out)) :: remove_item victim (items s);
                     hq := (cid, to64 rxt) :: hq_remove victim (hq s) |}).
Proof.
  intros k c s cid q rxt now victim out Hf E1 E2 E3 Hh.
  destruct (handle_new_spec k c s cid q rxt now victim out Hf E1 E2 E3 Hh) as [_ [_ [_ [_ [_ H]]]]]. exact H.
Qed.
Print Assumptions C07_evict_min_only.

(* a request from a client that has state never changes the set of clients *)
Theorem C07_known_client_keeps_set : forall k c s cid q rxt now victim it,
  0 < icap c -> Inv c s -> find_item cid (items s) = Some it ->
  in_era k rxt -> in_era k (rxt + icap c + 1) -> in_era k now ->
  exists out, handle c s cid q rxt now victim = Some out /\
    map it_key (items (o_state out)) = map it_key (items s) /\ o_evicted out = None /\ o_stateless out = false.
Proof.
  intros k c s cid q rxt now victim it Hi HInv Hf E1 E2 E3.
  assert (Hok : item_ok c it).
  { destruct HInv as [_ [_ [Hall _]]]. rewrite Forall_forall in Hall. apply Hall. apply (find_item_In _ _ _ Hf). }
  destruct (handle_existing_spec k c Hi s cid q rxt now victim it Hf Hok E1 E2 E3) as [out [it' [hq' [H1 [H2 [H3 [H4 _]]]]]]].
  exists out. split; [exact H1|]. rewrite H2. cbn [items]. rewrite replace_item_keys. auto.
Qed.
Print Assumptions C07_known_client_keeps_set.

(* every operation, from any state satisfying the invariant, re-establishes it:
   this is what makes the theorems hold along every history *)
Theorem C07_step_preserves : forall k c s o s' ev log,
  0 < icap c -> Inv c s -> Prov log s -> op_in_era k c o -> step_log c s o = Some (s', ev) ->
  Inv c s' /\ Prov (ev :: log) s'.
Proof. intros k c s o s' ev log Hi. exact (step_log_inv k c Hi s o s' ev log). Qed.
Print Assumptions C07_step_preserves.

(* concurrency: handleRequest and updateTXTimestamp touch the shared store only
   inside critical sections of the one mutex tssMu (checked on the source on every
   run).  For such code any schedule of any number of listener goroutines leaves
   the store in the state obtained by running the critical sections one after the
   other in lock-acquisition order - the operation lists the theorems above
   quantify over - and that order respects each goroutine's own order. *)
Theorem C07_serializable : forall (s0 : tss) (threads : list (list (Mutex.section tss))) (sched : list nat),
  Mutex.holder tss (Mutex.run tss sched (Mutex.init tss s0 threads)) = None ->
  Mutex.st tss (Mutex.run tss sched (Mutex.init tss s0 threads))
  = Mutex.sequential tss (map snd (rev (Mutex.order tss (Mutex.run tss sched (Mutex.init tss s0 threads))))) s0.
Proof. exact (Mutex.mutex_quiescent tss). Qed.
Print Assumptions C07_serializable.

Theorem C07_lock_order_respects_program_order : forall (s0 : tss) threads sched u,
  Mutex.entered tss u (Mutex.run tss sched (Mutex.init tss s0 threads))
    ++ nth u (Mutex.work tss (Mutex.run tss sched (Mutex.init tss s0 threads))) []
  = nth u threads [].
Proof. exact (Mutex.mutex_program_order tss). Qed.
Print Assumptions C07_lock_order_respects_program_order.

(* non-vacuity: a full store of capacity 2 evicts its least recently active client *)
Example C07_evicts_minimum :
  let c := {| cap := 2; icap := 8 |} in
  let t := 1717171717000000000 in
  let rq := {| q_org := 0; q_rx := 5; q_tx := 5 |} in
  let ops := [OpHandle 1 rq t (t + 10) 0; OpHandle 2 rq (t + 100) (t + 110) 0; OpHandle 3 rq (t + 200) (t + 210) 1] in
  Forall (op_in_era 0 c) ops /\
  exists s log, run_log c tss_empty [] ops = Some (s, log) /\ map it_key (items s) = [3; 2].
Proof.
  cbv zeta. split.
  - repeat constructor; unfold in_era, time_sec, ntp_epoch, nanos_per_sec; cbn; lia.
  - eexists. eexists. split; [vm_compute; reflexivity|]. vm_compute. reflexivity.
Qed.
