(* C11 - NTS cookie lifecycle: single use, pool capped at eight, requests always fit.
   Model: Model/CookiePool.v; oracle: Model/CookieOracle.v. *)
From ST Require Import Base.Ints Base.Bytes Model.CookiePool Proofs.CookiePoolProofs.
From Coq Require Import ZArith List.
Import ListNotations.
Open Scope Z_scope.

Theorem C11_no_reuse : forall (C : Type) (issue : nat -> C),
  (forall i j, issue i = issue j -> i = j) ->
  forall clen (os : list exch), NoDup (s_sent (sys_run issue clen sys0 os)).
Proof. intros C issue Hinj clen os. exact (no_reuse issue Hinj clen os). Qed.
Print Assumptions C11_no_reuse.
