(* C11 - NTS cookie lifecycle: single use, pool capped at eight, requests always fit.

   Model: Model/CookiePool.v (net/ntske/fetcher.go FetchData/StoreCookie;
   net/nts/nts.go NewRequestPacket, NewResponsePacket, EncodePacket and the pack
   methods on the fixed 1024-byte buffer, DecodePacket, maxCookies; the cookie
   replenishment of core/server/server_ip.go / server_scion.go; the eight cookies
   of core/server/ntske.go).  Oracle: Model/CookieOracle.v.

   Histories: a list of calls of one client; every call is described by
   [exch]: does a key exchange (needed when the pool is empty) succeed, does
   the request/reply exchange succeed (anything else - lost request, lost or
   damaged reply, server that no longer has the key - is a loss), and how many
   cookies the servers hand to other clients in between.  [issue k] is the k-th
   cookie the servers ever issue; "server nonces are fresh" is the hypothesis
   that [issue] is injective.  Cookies are [clen] bytes long ([124] for this
   project's servers, [serverCookieLen]); the unique identifier has 32 bytes.

   AES-SIV is a Section variable: [seal] with the only assumption that the
   ciphertext is 16 bytes longer than the plaintext, and for the last theorem
   [open] with [open (seal ...) = plaintext]; an instance is given at the end. *)
From ST Require Import Base.Ints Base.Bytes Model.CookiePool Model.CookieOracle Model.CookieSystem Model.Provider
  Proofs.CookiePoolProofs Proofs.CookieCodecProofs Proofs.CookieRefine Proofs.CookieOracleProofs
  Proofs.CookieSystemC12 Proofs.CookieWorld.
From Coq Require Import ZArith List Bool Lia.
Import ListNotations.
Open Scope Z_scope.

(* ---------- single use ---------- *)

(* over every history the cookies sent in requests are pairwise distinct *)
Theorem C11_no_reuse : forall (C : Type) (issue : nat -> C),
  (forall i j, issue i = issue j -> i = j) ->
  forall clen (os : list exch), NoDup (s_sent (sys_run issue clen sys0 os)).
Proof. intros C issue Hinj clen os. exact (no_reuse issue Hinj clen os). Qed.
Print Assumptions C11_no_reuse.

(* a cookie that has been sent is never in the pool again *)
Theorem C11_sent_leaves_pool : forall (C : Type) (issue : nat -> C),
  (forall i j, issue i = issue j -> i = j) ->
  forall clen (os : list exch) x,
  In x (s_sent (sys_run issue clen sys0 os)) -> ~ In x (s_pool (sys_run issue clen sys0 os)).
Proof. intros C issue Hinj clen os x. exact (sent_not_pooled issue Hinj clen os x). Qed.
Print Assumptions C11_sent_leaves_pool.

(* one call sends nothing (empty pool, failed key exchange) or exactly one cookie:
   the head of the pool, or the first cookie of a new key exchange *)
Theorem C11_one_cookie_per_call : forall (C : Type) (issue : nat -> C) clen (s : sys C) o,
  s_sent (sys_step issue clen s o) = s_sent s \/
  exists c, s_sent (sys_step issue clen s o) = c :: s_sent s /\ (s_pool s = [] \/ exists r, s_pool s = c :: r).
Proof. intros C issue clen s o. exact (step_sends issue clen s o). Qed.
Print Assumptions C11_one_cookie_per_call.

(* ---------- the request on the wire ---------- *)

(* For every pool c :: rest (level = its length), any cookie length of which at
   least one fits: NewRequestPacket + EncodePacket do not panic and produce exactly
   header, unique identifier field, ONE cookie field with c, p placeholder fields
   typed 0x0304 with a zero body as long as the cookie, authenticator;
   p = min(8 - level, maxCookies - 1); the length is request_len <= 1024. *)
Theorem C11_request_shape : forall (seal : bytes -> bytes -> bytes -> bytes -> bytes),
  (forall k n p a, zlen (seal k n p a) = zlen p + 16) ->
  forall hdr id c rest kc2s nonce,
  zlen hdr = 48 -> zlen id = 32 -> key_ok kc2s = true -> zlen nonce = 16 ->
  1 <= max_cookies 32 (zlen c) ->
  let level := zlen (c :: rest) in
  let p := Z.to_nat (Z.max 0 (num_placeholders level 32 (zlen c))) in
  exists pkt, new_request (c :: rest) kc2s id = Ok pkt /\
    p_cookies pkt = [c] /\ length (p_placeholders pkt) = p /\
    encode_packet seal hdr pkt nonce = Ok (request_wire seal hdr id c nonce kc2s p) /\
    zlen (request_wire seal hdr id c nonce kc2s p) = request_len level 32 (zlen c) /\
    request_len level 32 (zlen c) <= MaxPacketLen.
Proof. intros seal Hs. exact (request_encoding seal Hs). Qed.
Print Assumptions C11_request_shape.

(* as many placeholders as cookies are missing, fewer only when one more field would not fit *)
Theorem C11_placeholders_maximal : forall idLen clen level,
  0 <= clen -> 1 <= max_cookies idLen clen -> 1 <= level <= numStoredCookies ->
  let p := Z.max 0 (num_placeholders level idLen clen) in
  p = numStoredCookies - level \/
  MaxPacketLen < ntpPacketLen + field_len idLen + (p + 2) * field_len clen + auth_len 0.
Proof. exact placeholders_maximal. Qed.
Print Assumptions C11_placeholders_maximal.

(* the numbers for the cookies this project's servers issue (124 bytes), every pool level 1..8:
   124 + 128 * (1 + min(8 - level, 6)) bytes, never more than 1020; the reply carries
   as many cookies as fields requested and has the same length *)
Theorem C11_fits : forall level,
  1 <= level <= 8 ->
  request_len level 32 124 = 124 + 128 * (1 + Z.min (8 - level) 6) /\
  request_len level 32 124 <= 1024 /\
  let r := 1 + Z.max 0 (num_placeholders level 32 124) in
  reply_count r 32 124 = r /\
  reply_len (reply_count r 32 124) 32 124 = request_len level 32 124.
Proof. exact fits_issued. Qed.
Print Assumptions C11_fits.

(* (near-definitional: both sides compute) *)
Theorem C11_issued_cookie_length : serverCookieLen = 124 /\ max_cookies 32 serverCookieLen = 7.
Proof. split; reflexivity. Qed.
Print Assumptions C11_issued_cookie_length.

(* for any cookie and identifier length of which one cookie fits: requests at every
   level and replies to any number of requested cookies fit *)
Theorem C11_fits_general : forall idLen clen,
  0 <= clen -> 1 <= max_cookies idLen clen ->
  (forall level, 1 <= level -> request_len level idLen clen <= MaxPacketLen) /\
  (forall r, 1 <= r -> reply_len (reply_count r idLen clen) idLen clen <= MaxPacketLen).
Proof.
  intros idLen clen Hc Hm. split.
  - intros level Hl. exact (request_fits idLen clen level Hc Hm Hl).
  - intros r Hr. exact (reply_fits idLen clen r Hc Hm Hr).
Qed.
Print Assumptions C11_fits_general.

(* ---------- the pool (abstract history system; the same over the concrete system below) ---------- *)

(* a successful exchange never shrinks the pool, and no call makes it larger than eight *)
Theorem C11_pool_bounds : forall (C : Type) (issue : nat -> C),
  (forall i j, issue i = issue j -> i = j) ->
  forall clen, clen <= MaxCookieLen ->
  forall s o, reachable issue clen s ->
  (length (s_pool (sys_step issue clen s o)) <= 8)%nat /\
  (e_ok o = true -> e_nosend o = false -> (length (s_pool s) <= length (s_pool (sys_step issue clen s o)))%nat).
Proof.
  intros C issue Hinj clen Hc s o Hr. pose proof (reachable_inv issue Hinj clen s Hr) as HI. split.
  - exact (pool_le_eight issue Hinj clen s o HI).
  - intros Hok Hns. exact (proj1 (success_never_shrinks issue Hinj clen Hc s o HI Hok Hns)).
Qed.
Print Assumptions C11_pool_bounds.

(* a pool of eight stays at eight over a successful exchange *)
Theorem C11_stays_eight : forall (C : Type) (issue : nat -> C),
  (forall i j, issue i = issue j -> i = j) ->
  forall clen, clen <= MaxCookieLen ->
  forall s o, reachable issue clen s -> e_ok o = true -> e_nosend o = false -> length (s_pool s) = 8%nat ->
  length (s_pool (sys_step issue clen s o)) = 8%nat.
Proof.
  intros C issue Hinj clen Hc s o Hr. exact (stays_eight issue Hinj clen Hc s o (reachable_inv issue Hinj clen s Hr)).
Qed.
Print Assumptions C11_stays_eight.

(* loss-free operation: after every call the pool holds eight cookies *)
Theorem C11_loss_free_eight : forall (C : Type) (issue : nat -> C),
  (forall i j, issue i = issue j -> i = j) ->
  forall clen, clen <= MaxCookieLen ->
  forall os, loss_free os -> os <> [] -> length (s_pool (sys_run issue clen sys0 os)) = 8%nat.
Proof. intros C issue Hinj clen Hc os. exact (loss_free_eight issue Hinj clen Hc os). Qed.
Print Assumptions C11_loss_free_eight.

(* a lost exchange - or a call that ends before its request leaves (deadline, unusable server
   address) - costs exactly the cookie taken for it; an empty pool is refilled by a key exchange
   (eight cookies, one of them used at once); when that fails nothing is sent *)
Theorem C11_losses_and_rekeying : forall (C : Type) (issue : nat -> C),
  (forall i j, issue i = issue j -> i = j) ->
  forall clen, clen <= MaxCookieLen ->
  forall s o, reachable issue clen s ->
  (s_pool s <> [] -> e_ok o = false \/ e_nosend o = true ->
     length (s_pool (sys_step issue clen s o)) = (length (s_pool s) - 1)%nat) /\
  (e_nosend o = true -> s_sent (sys_step issue clen s o) = s_sent s) /\
  (s_pool s = [] -> e_ke_ok o = true -> e_ok o = false \/ e_nosend o = true ->
     length (s_pool (sys_step issue clen s o)) = 7%nat) /\
  (s_pool s = [] -> e_ke_ok o = true -> e_ok o = true -> e_nosend o = false ->
     length (s_pool (sys_step issue clen s o)) = 8%nat) /\
  (s_pool s = [] -> e_ke_ok o = false ->
     s_pool (sys_step issue clen s o) = [] /\ s_sent (sys_step issue clen s o) = s_sent s).
Proof.
  intros C issue Hinj clen Hc s o Hr. pose proof (reachable_inv issue Hinj clen s Hr) as HI.
  split; [|split; [|split; [|split]]].
  - intros Hne Hok. exact (loss_pops_one issue Hinj clen Hc s o HI Hne Hok).
  - intros Hns. exact (nosend_sends_nothing issue clen s o Hns).
  - intros He Hk Hok. exact (rekey_loss issue Hinj clen Hc s o He Hk Hok).
  - intros He Hk Hok Hns. exact (rekey_success issue Hinj clen Hc s o He Hk Hok Hns).
  - intros He Hk. exact (kefail_nothing issue clen s o He Hk).
Qed.
Print Assumptions C11_losses_and_rekeying.

(* with 124-byte cookies, whatever was lost before: two successful calls restore a pool of eight *)
Theorem C11_recovers_in_two : forall (C : Type) (issue : nat -> C),
  (forall i j, issue i = issue j -> i = j) ->
  forall s o1 o2, reachable issue 124 s ->
  e_ke_ok o1 = true -> e_ok o1 = true -> e_nosend o1 = false -> e_ok o2 = true -> e_nosend o2 = false ->
  length (s_pool (sys_step issue 124 (sys_step issue 124 s o1) o2)) = 8%nat.
Proof.
  intros C issue Hinj s o1 o2 Hr. exact (recovers_in_two issue Hinj s o1 o2 (reachable_inv issue Hinj 124 s Hr)).
Qed.
Print Assumptions C11_recovers_in_two.

(* ---------- the reply ---------- *)

(* The server made the cookies cs (one per cookie or placeholder of the request, all
   of one length L, a multiple of 4) for a request with identifier uid.
   NewResponsePacket + EncodePacket do not panic; the reply is header, the request's
   unique identifier, authenticator whose ciphertext seals - under S2C, with all
   bytes before the authenticator as associated data - the first k cookies as
   cookie fields, k = all of them or as many as fit; its length is reply_len k <= 1024. *)
Theorem C11_reply : forall (seal : bytes -> bytes -> bytes -> bytes -> bytes),
  (forall k n p a, zlen (seal k n p a) = zlen p + 16) ->
  forall hdr uid c0 r ks2c nonce L,
  let cs := c0 :: r in
  zlen hdr = 48 -> 32 <= zlen uid -> key_ok ks2c = true -> zlen nonce = 16 ->
  Forall (fun c => zlen c = L) cs -> L mod 4 = 0 -> 0 <= L ->
  1 <= max_cookies (zlen uid) L ->
  let k := reply_count (zlen cs) (zlen uid) L in
  let sent := firstn (Z.to_nat k) cs in
  exists pkt, new_response cs ks2c uid = Ok pkt /\
    encode_packet seal hdr pkt nonce = Ok (reply_wire seal hdr uid nonce ks2c sent) /\
    zlen sent = k /\
    zlen (reply_wire seal hdr uid nonce ks2c sent) = reply_len k (zlen uid) L /\
    reply_len k (zlen uid) L <= MaxPacketLen.
Proof. intros seal Hs. exact (reply_encoding seal Hs). Qed.
Print Assumptions C11_reply.

Theorem C11_reply_cookie_count : forall idLen clen r,
  0 <= clen -> 1 <= max_cookies idLen clen -> 1 <= r ->
  1 <= reply_count r idLen clen <= r /\
  (reply_count r idLen clen = r \/ MaxPacketLen < reply_len (reply_count r idLen clen + 1) idLen clen).
Proof.
  intros idLen clen r Hc Hm Hr. split.
  - exact (reply_count_bounds r idLen clen Hr).
  - exact (reply_count_maximal idLen clen r Hc Hm Hr).
Qed.
Print Assumptions C11_reply_cookie_count.

(* (near-definitional: it unfolds reply_wire and applies the assumption on open) the requester can authenticate the reply: with the S2C key, the nonce and the bytes
   before the authenticator, AES-SIV opens the ciphertext to the cookie fields *)
Theorem C11_reply_authenticable : forall (seal : bytes -> bytes -> bytes -> bytes -> bytes)
  (open : bytes -> bytes -> bytes -> bytes -> option bytes),
  (forall k n p a, open k n (seal k n p a) a = Some p) ->
  forall hdr uid nonce ks2c sent,
  let pre := hdr ++ enc_field extUniqueIdentifier uid in
  exists ct, reply_wire seal hdr uid nonce ks2c sent = pre ++ enc_auth nonce ct /\
             open ks2c nonce ct pre = Some (concat (map (enc_field extCookie) sent)).
Proof. intros seal open Ho. exact (reply_opens seal open Ho). Qed.
Print Assumptions C11_reply_authenticable.

(* ---------- the concrete system: the functions the check executes ---------- *)

(* Model/CookieSystem.v composes one call of the client out of fetch, client_request,
   server_reply, client_process and store - the functions the dispatcher runs on the observed
   datagrams - with the NTS-KE server, the NTP server's NTS branch and the key provider.
   K : crypto bundles AES-SIV and the sealing of server cookies with what is assumed of them;
   P : provider bundles Current/Get with the four facts C12 proves (c12_provider below is that
   instance).  wreach = reached from a client without data by calls with well-formed inputs
   (32-byte identifiers and keys, 16-byte nonces, 48-byte NTP headers, time not running backwards),
   for any pattern of deliveries, lost requests, lost replies, calls that end before sending,
   failing key exchanges, ageing of the provider and cookies issued to others. *)

(* refinement: a call of the concrete system is a step of the abstract history system on the
   cookies' identities (the number of the server nonce inside), with the same outcome *)
Theorem C11_refinement : forall (K : crypto) (P : provider) s o s' ob,
  wreach K P s -> wf_op o -> wstep K P s o = Some (s', ob) ->
  exists e, walpha K P s' = sys_step (fun k : nat => k) (k_L K) (walpha K P s) e /\
            e_skip e = o_skip o /\ e_nosend e = ob_nosend ob /\ e_ok e = ob_intact ob /\
            (e_ke_ok e = true <-> o_ke o <> None).
Proof. exact W_step_refines. Qed.
Print Assumptions C11_refinement.

Theorem C11_reachable_refines : forall (K : crypto) (P : provider) s,
  wreach K P s -> reachable (fun k : nat => k) (k_L K) (walpha K P s).
Proof. exact W_reach_abstract. Qed.
Print Assumptions C11_reachable_refines.

(* no cookie is sent twice, over every run of the concrete system *)
Theorem C11_concrete_no_reuse : forall (K : crypto) (P : provider) s,
  wreach K P s -> NoDup (cs_sent s).
Proof. exact W_no_reuse. Qed.
Print Assumptions C11_concrete_no_reuse.

Theorem C11_concrete_sent_leaves_pool : forall (K : crypto) (P : provider) s x,
  wreach K P s -> In x (cs_sent s) -> ~ In x (pool (cs_client s)).
Proof. exact W_sent_leaves_pool. Qed.
Print Assumptions C11_concrete_sent_leaves_pool.

(* the pool over one call from any reachable state: never more than eight; an authenticated reply
   never shrinks it, keeps eight at eight, and refills an empty pool to eight; anything else costs
   one cookie; a key exchange that fails leaves nothing and sends nothing; a call sends at most one
   cookie: the head of the pool (or of the key exchange) *)
Theorem C11_concrete_pool : forall (K : crypto) (P : provider) s o s' ob,
  wreach K P s -> wf_op o -> wstep K P s o = Some (s', ob) ->
  let n := length (pool (cs_client s)) in
  let n' := length (pool (cs_client s')) in
  (n' <= 8)%nat /\
  (ob_intact ob = true -> (n <= n')%nat /\ (n = 8%nat -> n' = 8%nat) /\ (n = 0%nat -> n' = 8%nat)) /\
  (ob_intact ob = false -> n <> 0%nat -> n' = (n - 1)%nat) /\
  (n = 0%nat -> o_ke o <> None -> ob_intact ob = false -> n' = 7%nat) /\
  (n = 0%nat -> o_ke o = None -> n' = 0%nat /\ ob_sent ob = None) /\
  (ob_sent ob = None -> cs_sent s' = cs_sent s) /\
  (ob_sent ob <> None -> exists c, cs_sent s' = c :: cs_sent s /\
                                   (pool (cs_client s) = [] \/ exists r, pool (cs_client s) = c :: r)).
Proof. exact W_pool. Qed.
Print Assumptions C11_concrete_pool.

(* the server's reply (reply_good, Proofs/CookieRefine.v): the request decodes; the reply carries
   reply_count (server_issue_count of the decoded request) cookies - one per cookie or placeholder,
   as many as fit -; it is the wire format of C11_reply, within 1024 bytes; every cookie names the
   provider's current key, which Get hands out at that time (valid now), opens under it to the
   client's session keys, and is newer than every cookie sent so far; through all rotations: the
   provider is any state reached by Current/Get calls at non-decreasing times *)
Theorem C11_concrete_reply : forall (K : crypto) (P : provider) s o s' ob reply cs cur,
  wreach K P s -> wf_op o -> wstep K P s o = Some (s', ob) -> ob_reply ob = Some (reply, cs, cur) ->
  exists req, ob_sent ob = Some req /\
    reply_good (k_seal K) (k_keyid K) (k_opencookie K) (p_state P) (p_get P) (k_cid K) (k_L K) s s' o req reply cs cur.
Proof. exact W_reply. Qed.
Print Assumptions C11_concrete_reply.

(* the oracle's predicates on datagrams accept what the model sends: every request ... *)
Theorem C11_model_meets_oracle_request : forall (K : crypto) (P : provider) s o s' ob req,
  wreach K P s -> wf_op o -> wstep K P s o = Some (s', ob) -> ob_sent ob = Some req ->
  request_ok (level_at (p_state P) s) req = true.
Proof. exact W_request_ok. Qed.
Print Assumptions C11_model_meets_oracle_request.

(* ... and every reply, with the facts the harness collects about its cookies (key identifier, opening
   under the key Get returns), against any set of cookies known from before *)
Theorem C11_model_meets_oracle_reply : forall (K : crypto) (P : provider) s o s' ob req reply cs cur known,
  wreach K P s -> wf_op o -> wstep K P s o = Some (s', ob) ->
  ob_sent ob = Some req -> ob_reply ob = Some (reply, cs, cur) ->
  (forall x, In x known -> In x (cs_sent s') \/ (k_cid K x < sv_next (cs_server s))%nat) ->
  reply_ok req reply true
    (map (facts_of (k_keyid K) (k_opencookie K) (p_state P) (p_get P) (sv_prov (cs_server s')) (cs_now s')) cs)
    (c2s (cs_client s')) (s2c (cs_client s')) known (sk_id cur) = true.
Proof. exact W_reply_ok. Qed.
Print Assumptions C11_model_meets_oracle_reply.

(* the defect repaired by "StoreCookie keeps at most MaxStoredCookies": whatever an authenticated reply
   carries - a foreign or misbehaving server may send seven cookies where one was asked for -
   ProcessResponse never shrinks the pool and never takes it beyond eight *)
Theorem C11_pool_never_beyond_eight_any_reply :
  forall (aopen : bytes -> bytes -> bytes -> bytes -> option bytes) reply ks2c reqid c1 c2,
  client_process aopen reply ks2c reqid c1 = Ok c2 -> (length (pool c1) <= 8)%nat ->
  (length (pool c1) <= length (pool c2) <= 8)%nat.
Proof. exact client_process_cap. Qed.
Print Assumptions C11_pool_never_beyond_eight_any_reply.

(* StoreCookie on its own: any sequence of cookies, of any length *)
Theorem C11_store_cookie_cap : forall cs p,
  (length p <= 8)%nat -> (length p <= length (fold_left store_cookie cs p) <= 8)%nat.
Proof. intros cs p H. split; [apply store_grows|apply store_cap; exact H]. Qed.
Print Assumptions C11_store_cookie_cap.

(* DecodePacket reads back what EncodePacket wrote: the client's request ... *)
Theorem C11_decode_request : forall (seal : bytes -> bytes -> bytes -> bytes -> bytes),
  (forall k n p a, zlen (seal k n p a) = zlen p + 16) ->
  forall hdr id c nonce key n,
  zlen hdr = 48 -> zlen id = 32 -> zlen c mod 4 = 0 -> zlen nonce = 16 ->
  zlen (request_wire seal hdr id c nonce key n) <= MaxPacketLen ->
  let pre := hdr ++ enc_field extUniqueIdentifier id ++ enc_field extCookie c ++
             concat (repeat (enc_field extCookiePlaceholder (repeat 0 (length c))) n) in
  request_wire seal hdr id c nonce key n = pre ++ enc_auth nonce (seal key nonce [] pre) /\
  decode_packet (request_wire seal hdr id c nonce key n) =
    Ok {| d_uid := Some id; d_cookies := [c]; d_nplaceholders := Z.of_nat n;
          d_auth := Some (zlen pre, nonce, seal key nonce [] pre) |}.
Proof. intros seal Hs. exact (decode_request seal Hs). Qed.
Print Assumptions C11_decode_request.

(* ... and the server's reply, whose plaintext holds exactly the cookies *)
Theorem C11_decode_reply : forall (seal : bytes -> bytes -> bytes -> bytes -> bytes),
  (forall k n p a, zlen (seal k n p a) = zlen p + 16) ->
  forall hdr uid nonce key (sent : list bytes),
  zlen hdr = 48 -> 32 <= zlen uid -> zlen uid mod 4 = 0 -> zlen nonce = 16 ->
  zlen (reply_wire seal hdr uid nonce key sent) <= MaxPacketLen ->
  let pre := hdr ++ enc_field extUniqueIdentifier uid in
  let plain := concat (map (enc_field extCookie) sent) in
  decode_packet (reply_wire seal hdr uid nonce key sent) =
    Ok {| d_uid := Some uid; d_cookies := []; d_nplaceholders := 0;
          d_auth := Some (zlen pre, nonce, seal key nonce plain pre) |}.
Proof. intros seal Hs. exact (decode_reply seal Hs). Qed.
Print Assumptions C11_decode_reply.

(* the provider of C12 (Model/Provider.v) is an instance: the four facts follow from C12's invariant *)
Theorem C11_provider_is_c12 :
  p_state c12_provider = Provider.state /\
  (forall t0 p, new_provider t0 = Some p -> p_inv c12_provider t0 p).
Proof. split; [reflexivity|exact c12_new]. Qed.
Print Assumptions C11_provider_is_c12.

(* with C12's provider nothing is assumed of the provider any more *)
Theorem C11_concrete_no_reuse_c12 : forall (K : crypto) s, wreach K c12_provider s -> NoDup (cs_sent s).
Proof. intros K. exact (W_no_reuse K c12_provider). Qed.
Print Assumptions C11_concrete_no_reuse_c12.

(* ---------- the hypotheses are satisfiable; the definitions compute ---------- *)

Example issue_fresh_example : forall i j : nat, (fun n => n) i = (fun n => n) j -> i = j.
Proof. intros i j H. exact H. Qed.

Definition ex_seal (k n p a : bytes) : bytes := repeat 0 16 ++ p.
Definition ex_open (k n c a : bytes) : option bytes := Some (skipn 16 c).
Example ex_seal_len : forall k n p a, zlen (ex_seal k n p a) = zlen p + 16.
Proof. intros. unfold ex_seal, zlen. rewrite app_length, repeat_length. lia. Qed.
Example ex_open_seal : forall k n p a, ex_open k n (ex_seal k n p a) a = Some p.
Proof. intros. reflexivity. Qed.

Definition ok_call : exch := {| e_ke_ok := true; e_ok := true; e_skip := 3; e_waste := 0; e_nosend := false |}.
Definition lost_call : exch := {| e_ke_ok := true; e_ok := false; e_skip := 0; e_waste := 2; e_nosend := false |}.
(* pool sizes along: success, 7 losses (down to level 1), success (1 -> 7), success (-> 8) *)
Example pool_levels_example :
  map (fun n => length (s_pool (sys_run (fun k => k) 124 sys0 (firstn n (ok_call :: repeat lost_call 7 ++ [ok_call; ok_call])))))
      (seq 1 10) = [8; 7; 6; 5; 4; 3; 2; 1; 7; 8]%nat.
Proof. vm_compute. reflexivity. Qed.
(* eight losses in a row empty the pool; the next call re-keys *)
Example rekey_example :
  map (fun n => length (s_pool (sys_run (fun k => k) 124 sys0 (firstn n (repeat lost_call 9 ++ [ok_call])))))
      (seq 1 10) = [7; 6; 5; 4; 3; 2; 1; 0; 7; 8]%nat.
Proof. vm_compute. reflexivity. Qed.

(* the crypto assumptions are consistent: a (useless) instance *)
Example crypto_consistent : crypto.
Proof. exact toy_crypto. Qed.
