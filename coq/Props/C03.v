(* C03 - the reported offset is within half the round-trip delay of the true
   offset, and the four timestamps combined belong to one exchange.
   Statements only; proofs live in Proofs/ExchangeProofs.v. *)
From ST Require Import Base.Ints Model.NtpTime Model.Exchange Model.ExchangeOracle Proofs.ExchangeProofs.
From Coq Require Import ZArith List.
Import ListNotations.
Open Scope Z_scope.

Theorem C03_arith_exact : forall t0 t3 d1 d2 theta,
  0 <= d1 -> 0 <= d2 ->
  let t1 := t0 + d1 + theta in let t2 := t3 - d2 + theta in
  dur_ok (t1 - t0) -> dur_ok (t2 - t3) -> dur_ok (t3 - t0) -> dur_ok (t2 - t1) ->
  2 * Z.abs (clock_offset t0 t1 t2 t3 - theta) <= d1 + d2 + 1 /\
  round_trip_delay t0 t1 t2 t3 = d1 + d2.
Proof. exact arith_exact. Qed.
Print Assumptions C03_arith_exact.
