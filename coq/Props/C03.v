(* C03 - the offset a client reports is within half the round-trip delay of the
   true offset (plus nanosecond rounding), and the four timestamps it combines
   belong to one exchange - for every history of exchanges with a conformant
   server whose clock offset changes from exchange to exchange, under arbitrary
   delay, loss, duplication, reordering and staleness of requests and replies.

   Model: Model/Exchange.v (client_ip.go / client_scion.go exchange logic),
   Model/NtpTime.v (ntp.go); world: Model/ExchangeWorld.v (conformant server by
   the reply contract of C06, adversarial network, ghost log of exchanges).
   Statements only; proofs live in Proofs/ExchangeProofs.v.

   Hypotheses, all visible in the statements:
   - fresh_socket_per_request: only replies to copies of the CURRENT request
     reach its socket (constructor st_recv / accepts: q_id (e_q e) = q_id q);
     (the harness ties this hypothesis to the code: consecutive requests of one
     call leave from different source ports - case kind c03.kstamps - and a reply
     released only when the NEXT request arrives, addressed to the socket of the
     request it answers, must have no effect - action latereply of c03.hist);
   - client_clock_strict: a reply arrives after its request was stamped, within
     2^32 s (arrival_ok; the exchange may straddle an NTP era rollover), so the
     two stamps differ as Time64 values;
   - the server never reuses a receive stamp for this client (ex_ok; C06 gives
     this for the stamps it keeps);
   - causality: a request copy is received after it was sent, a reply copy
     arrives after it was stamped (ex_ok, arrival_ok), whatever theta is;
   - for the numeric bound: all stamps within 2^31 s of the client's clock
     reading and durations below 2^61 ns (stamps_near).

   The receive stamp crx is an INPUT of the model, constrained only by arrival_ok.
   For the IP client it is the kernel's stamp.  The SCION client overwrites it
   with the end-to-end receive-timestamp option (type 253) of the response packet
   when there is one; that option is not authenticated, so for SCION arrival_ok is
   an assumption about packet content (honest forwarders between the stamping
   element and the client), not about physics.  The harness checks that only the
   option of the ACCEPTED packet is used (not one of a refused packet, not a
   hop-by-hop option).

   Scope of the bound: t0 (q_ctx) and t3 (crx) are the stamps of the departure
   of the request and of the arrival of the reply (ex_ok: q_ctx + theta <= srx,
   arrival_ok: stx - theta <= crx), i.e. the KERNEL transmit / receive
   timestamps.  When the kernel transmit timestamp cannot be read the clients
   fall back to cTxTime1 = timebase.Now() taken after udp.ReadTXTimestamp's 1 ms
   poll, about 1-2 ms after the request left (likewise t3 = Now() after the read):
   then q_ctx + theta <= srx fails, the theorem does not apply, and on the real
   code the reported offset is off by about that much, far beyond half the
   computed round-trip delay.  That is a recorded finding (KNOWN_FINDINGS.txt,
   id clock-fallback-t0), reproduced on every run by case kind c03.fallback with
   the same oracle. *)
From ST Require Import Base.Ints Model.NtpTime Model.Exchange Model.ExchangeOracle Model.ExchangeWorld
  Proofs.NtpTimeProofs Proofs.ExchangeProofs.
From Coq Require Import ZArith List.
Import ListNotations.
Open Scope Z_scope.

(* (a) arithmetic, exact stamps: t1 = t0 + d1 + theta, t2 = t3 - d2 + theta *)
Theorem C03_arith_exact : forall t0 t3 d1 d2 theta,
  0 <= d1 -> 0 <= d2 ->
  let t1 := t0 + d1 + theta in let t2 := t3 - d2 + theta in
  dur_ok (t1 - t0) -> dur_ok (t2 - t3) -> dur_ok (t3 - t0) -> dur_ok (t2 - t1) ->
  2 * Z.abs (clock_offset t0 t1 t2 t3 - theta) <= d1 + d2 + 1 /\
  round_trip_delay t0 t1 t2 t3 = d1 + d2.
Proof. exact arith_exact. Qed.
Print Assumptions C03_arith_exact.

(* (a') with every stamp up to 1 ns early (the loss of the 2^-32 s wire format):
   |off - theta| <= (d1+d2)/2 + 1.5 ns, the computed delay is within 2 ns of
   d1+d2, and the oracle's inequality |off - theta| <= rtd/2 + 3 ns holds *)
Theorem C03_arith_trunc : forall t0 t1 t2 t3 ctx srx stx crx theta,
  ctx - 1 <= t0 <= ctx -> srx - 1 <= t1 <= srx -> stx - 1 <= t2 <= stx -> crx - 1 <= t3 <= crx ->
  let d1 := srx - theta - ctx in let d2 := crx - (stx - theta) in
  0 <= d1 -> 0 <= d2 ->
  dur_ok (t1 - t0) -> dur_ok (t2 - t3) -> dur_ok (t3 - t0) -> dur_ok (t2 - t1) ->
  2 * Z.abs (clock_offset t0 t1 t2 t3 - theta) <= d1 + d2 + 3 /\
  Z.abs (round_trip_delay t0 t1 t2 t3 - (d1 + d2)) <= 2 /\
  bound_ok (clock_offset t0 t1 t2 t3) t0 t1 t2 t3 theta = true.
Proof. exact arith_trunc. Qed.
Print Assumptions C03_arith_trunc.

(* client_clock_strict as a fact about Time64: two stamps less than 2^32 s apart,
   one later than the other, have different Time64 values - also when an NTP era
   rollover (2036-02-07) lies between them *)
Theorem C03_time64_injective_within_2p32_s : forall a b,
  a < b -> b - a < secs_per_era * nanos_per_sec -> time_ok a -> time_ok b ->
  time64_of_time a <> time64_of_time b.
Proof. exact t64_inj_near. Qed.
Print Assumptions C03_time64_injective_within_2p32_s.

(* (b) the invariant of every reachable state: while the client's state names
   this reference, its three stored stamps are the kernel transmit stamp of one
   request, the server's receive stamp of one handling of a copy of THAT request
   and the arrival stamp of a copy of THAT handling's reply *)
Theorem C03_invariant : forall c ref w, ref <> 0 -> reachable c ref w -> Inv c ref w.
Proof. exact reachable_inv. Qed.
Print Assumptions C03_invariant.

(* (b) pairing: whenever the client accepts a response, the four stamps it combines
   belong to ONE exchange: in basic mode the handling e of the current request
   whose reply just arrived (t0 = kernel transmit stamp, t1, t2 = e's two server
   stamps, t3 = this arrival); in interleaved mode the previous accepted exchange
   e' with its arrival c' (t0 = transmit stamp of e's request, t1 = e's receive
   stamp, t2 = the transmit stamp on record for e's reply, t3 = c'), each through
   the Time64 format *)
Theorem C03_pairing : forall c ref w q e crx a,
  ref <> 0 -> reachable c ref w -> accepts c ref w q e crx a ->
  paired_basic q e crx a \/ paired_inter w q a.
Proof. exact pairing. Qed.
Print Assumptions C03_pairing.

(* the bound, for every accepted response of every run: with theta the clock
   offset of the server during the exchange the stamps belong to, d1, d2 >= 0 its
   two network delays: |off - theta| <= (d1+d2)/2 + 1.5 ns, |rtd - (d1+d2)| <= 2 ns,
   and the property oracle C03_ok1 accepts (offset, stamps) against that exchange *)
Theorem C03_bound : forall c ref w q e crx a,
  ref <> 0 -> reachable c ref w -> accepts c ref w q e crx a ->
  (a_inter a = false ->
     e_q e = q /\
     (stamps_near q e (e_stx e) crx -> bound_for a (q_ctx q) (e_srx e) (e_stx e) crx (e_theta e))) /\
  (a_inter a = true ->
     exists e' c', w_gprev w = Some (e', c') /\ In e' (w_exs w) /\
       (stamps_near q e' (e_rtx e') c' ->
        bound_for a (q_ctx (e_q e')) (e_srx e') (e_rtx e') c' (e_theta e'))).
Proof. exact accept_bound. Qed.
Print Assumptions C03_bound.

(* the oracle evaluated on the model: it accepts against any list of scripted
   exchanges that contains the right one *)
Theorem C03_model_meets_oracle : forall a ctx srx stx crx theta lo hi xs,
  bound_for a ctx srx stx crx theta -> lo <= ctx -> crx <= hi ->
  In {| x_lo0 := lo; x_srx := srx; x_stx := stx; x_theta := theta; x_hi3 := hi; x_fb := false |} xs ->
  C03_ok (a_off a) (a_t0 a) (a_t1 a) (a_t2 a) (a_t3 a) xs = true.
Proof. exact bound_for_oracle. Qed.
Print Assumptions C03_model_meets_oracle.

(* the executable receive loop (one retry) accepts only what process_response,
   the function the world's client runs, accepts *)
Theorem C03_recv_loop_accept : forall c ref p ireq req now0 ctx1 ds retries a,
  recv_loop c ref p ireq req now0 ctx1 retries ds = AAccept a ->
  exists r crx cr, In (DgResp r crx) ds /\
    process_response c ref p ireq req now0 ctx1 r crx cr = DAccept a.
Proof. intros c ref p ireq req now0 ctx1 ds. exact (recv_loop_accept c ref p ireq req now0 ctx1 ds). Qed.
Print Assumptions C03_recv_loop_accept.

(* the hypotheses are satisfiable: a run with a basic exchange followed by an
   interleaved one, server 7 s ahead, delays 4 us / 1.5 us: the interleaved result
   is computed from the FIRST exchange and is off by (4 - 1.5)/2 = 1.25 us *)
Example C03_nonvacuous_run : reachable Ex.c 1 Ex.w5.
Proof. exact run_reachable. Qed.

Example C03_nonvacuous_accept :
  exists a, accepts Ex.c 1 Ex.w5 Ex.q1 Ex.e2 (Ex.t + 1000009000) a /\ a_inter a = true /\
    w_gprev Ex.w5 = Some (Ex.e1, Ex.t + 9000) /\
    stamps_near Ex.q1 Ex.e1 (e_rtx Ex.e1) (Ex.t + 9000) /\
    a_off a = 7000001250 /\ a_rtd a = 5500.
Proof. exact run_accepts_interleaved. Qed.
