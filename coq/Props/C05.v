(* C05 - Clients accept only genuine, matching, authenticated server responses.
   Model: Model/ClientAccept.v (receive loop of measureClockOffsetIP /
   measureClockOffsetSCION, ntp.DecodePacket, ValidateResponseMetadata,
   ValidateResponseTimestamps, nts.DecodePacket / ProcessResponse, the
   exchanges of one MeasureClockOffsetIP call, the client's interleaved-mode
   state).  Quantifiers: every request [q], every list [evs] of delivered
   events (datagrams with arbitrary bytes, sources, flags, receive stamps, in
   any order and number, and read errors), every AEAD [open] (symbolic
   crypto), every history of calls of one client.
   For the SCION client the front of a datagram is what gopacket/scionproto
   show of it, including whether the packet authenticator (SPAO) the client
   looks at verifies under the DRKey host-host key (C05_spao_* below).
   [genuine open q g h] is the conjunction of the property's clauses for
   datagram g with decoded header h (Proofs/ClientAcceptProofs.v, spelled out
   by C05_genuine_clauses below). *)
From ST Require Import Base.Ints Model.NtpTime Model.ClientAccept Model.AuthModes Proofs.ClientAcceptProofs.
From Coq Require Import ZArith List Bool.
Import ListNotations.
Open Scope Z_scope.

(* what [genuine] says, clause by clause: at least 48 bytes; origin = the
   request's transmit field, or its receive field if the request is an
   interleaved one; leap <> 3, version 3|4, mode 4, stratum 1..15; transmit
   time not before the receive time it is combined with; from the queried
   server (SCION: queried ISD-AS and host, addressed to the client, a UDP
   packet) *)
Theorem C05_genuine_clauses : forall open q g h,
  genuine open q g h ->
  (48 <= length (g_payload g))%nat /\
  h_org h = {| t64_sec := be32 (g_payload g) 24; t64_frac := be32 (g_payload g) 28 |} /\
  h_rx h = {| t64_sec := be32 (g_payload g) 32; t64_frac := be32 (g_payload g) 36 |} /\
  h_tx h = {| t64_sec := be32 (g_payload g) 40; t64_frac := be32 (g_payload g) 44 |} /\
  h_lvm h = nthz (g_payload g) 0 /\ h_stratum h = nthz (g_payload g) 1 /\
  (h_org h = q_tx q \/ (q_ireq q = true /\ h_org h = q_rx q)) /\
  leap_of (h_lvm h) <> 3 /\ (version_of (h_lvm h) = 3 \/ version_of (h_lvm h) = 4) /\ mode_of (h_lvm h) = 4 /\
  h_stratum h <> 0 /\ h_stratum h <= 15 /\
  (is_interleaved q h = false ->
     time_of_time64 (h_rx h) (q_ref q) <= time_of_time64 (h_tx h) (q_ref q)) /\
  (is_interleaved q h = true ->
     time_of_time64 (q_psrx q) (q_ref q) <= time_of_time64 (h_tx h) (q_ref q)) /\
  (forall src sport, g_front g = FrontIP src sport -> src = q_server q /\ sport = q_port q) /\
  (forall v, g_front g = FrontSCION v ->
     sv_last v = 0 /\ sv_src_ia v = q_server_ia q /\ sv_src_host v = Some (q_server q) /\
     sv_dst_ia v = q_local_ia q /\ sv_dst_host v = Some (q_local q)).
Proof. exact genuine_clauses. Qed.
Print Assumptions C05_genuine_clauses.

(* with NTS, [genuine] contains: the datagram decodes, carries the request's
   unique identifier, and the AEAD opens under the server-to-client key with
   exactly the bytes before the authenticator as associated data *)
Theorem C05_genuine_nts : forall open q g h,
  genuine open q g h -> q_nts q = true ->
  exists p pt cs,
    decode_packet (g_payload g) = Ok p /\ p_uid p = q_uid q /\ key_ok (q_s2c q) = true /\
    length (p_nonce p) = 16%nat /\ (p_pos p <= length (g_payload g))%nat /\
    open (q_s2c q) (p_nonce p) (firstn (p_pos p) (g_payload g)) (p_ct p) = Some pt /\
    plain_loop (length pt) pt 0 (p_cookies p) = Ok cs.
Proof. intros open q g h (_ & _ & _ & _ & G5 & _) HN. exact (G5 HN). Qed.
Print Assumptions C05_genuine_nts.

(* Soundness of acceptance: if the receive loop reports success, the datagram
   it is based on was delivered, is the first or second event, is genuine for
   the outstanding request, the result is computed from it (and the client's
   own stamps) alone, and every earlier event was skipped *)
Theorem C05_accept_sound : forall open q evs i r,
  recv_loop open q 0 0 evs = LAccept i r ->
  (i <= 1)%nat /\
  exists g h, nth_error evs i = Some (EvDgram g) /\ genuine open q g h /\ clock_sane q g h /\
              r = result_of q g h /\
  forall j, (j < i)%nat -> exists ev e, nth_error evs j = Some ev /\ handle open q j ev = SSkip e.
Proof. exact recv_loop_accept. Qed.
Print Assumptions C05_accept_sound.

(* Every other datagram is skipped or yields an error, never an offset: one
   datagram ... *)
Theorem C05_other_datagram_no_offset : forall open q nr g,
  (forall h, ~ genuine open q g h) -> forall r, handle open q nr (EvDgram g) <> SAccept r.
Proof. exact handle_not_genuine. Qed.
Print Assumptions C05_other_datagram_no_offset.

(* ... and any number of them, in any order, from any source *)
Theorem C05_others_never_offset : forall open q evs,
  (forall g h, In (EvDgram g) evs -> ~ genuine open q g h) ->
  forall i r, recv_loop open q 0 0 evs <> LAccept i r.
Proof. exact recv_loop_others. Qed.
Print Assumptions C05_others_never_offset.

(* "comes from the queried server": address AND port - a datagram from the server's address but another
   UDP source port (another process on that host, a sender that spoofs only the address) never yields
   an offset, wherever it arrives in the loop and whatever it carries *)
Theorem C05_other_port_never_offset : forall open q nr g src sport,
  g_front g = FrontIP src sport -> sport <> q_port q -> forall r, handle open q nr (EvDgram g) <> SAccept r.
Proof. exact other_port_not_accepted. Qed.
Print Assumptions C05_other_port_never_offset.

(* a genuine datagram that the loop reaches is accepted (the check does not
   reject what the property allows); clock_sane = the client's own two stamps
   are in order, otherwise ValidateResponseTimestamps returns an error *)
Theorem C05_genuine_accepted : forall open q nr g h,
  genuine open q g h -> clock_sane q g h -> handle open q nr (EvDgram g) = SAccept (result_of q g h).
Proof. exact handle_genuine. Qed.
Print Assumptions C05_genuine_accepted.

(* one retry: the first two events decide the call *)
Theorem C05_one_retry : forall open q evs,
  (2 <= length evs)%nat ->
  recv_loop open q 0 0 evs = recv_loop open q 0 0 (firstn 2 evs) /\ recv_loop open q 0 0 evs <> LBlocked.
Proof. exact recv_loop_two. Qed.
Print Assumptions C05_one_retry.

(* a datagram is skipped only if no datagram was skipped before, a deadline is set and not reached *)
Theorem C05_skip_needs_retry : forall open q nr ev e, handle open q nr ev = SSkip e -> nr <> 1%nat.
Proof. exact handle_skip. Qed.
Print Assumptions C05_skip_needs_retry.

(* NTS with an ideal AEAD (a ciphertext opens only if the key holder sealed it
   with exactly that associated data): what precedes the authenticator of an
   accepted datagram - the NTP header with all timestamps, and the unique
   identifier, which is the request's - is what the holder of the
   server-to-client key sealed *)
Theorem C05_nts_authentic : forall open (sealed : bytes -> bytes -> bytes -> bytes -> bytes -> Prop),
  (forall k n ad ct pt, open k n ad ct = Some pt -> sealed k n ad pt ct) ->
  forall q evs i r,
  q_nts q = true ->
  recv_loop open q 0 0 evs = LAccept i r ->
  exists g p pt, nth_error evs i = Some (EvDgram g) /\ decode_packet (g_payload g) = Ok p /\
    p_uid p = q_uid q /\ (48 <= p_pos p <= length (g_payload g))%nat /\
    sealed (q_s2c q) (p_nonce p) (firstn (p_pos p) (g_payload g)) pt (p_ct p).
Proof. exact nts_accept_authentic. Qed.
Print Assumptions C05_nts_authentic.

(* skipped and failing datagrams leave nothing behind: every cookie stored in the
   fetcher's pool during an exchange was handed over by a delivered datagram that
   carries the request's unique identifier and verifies under the S2C key *)
Theorem C05_stored_cookies_authentic : forall open q evs nr c,
  In c (loop_cookies open q nr evs) ->
  exists g cs, In (EvDgram g) evs /\ nts_ok open q (g_payload g) /\
               nts_check open q (g_payload g) = Ok cs /\ In c cs.
Proof. exact loop_cookies_authentic. Qed.
Print Assumptions C05_stored_cookies_authentic.

(* the fetcher's pool (ntske.Fetcher.StoreCookie, MaxStoredCookies = 8): storing the cookies of an
   authentic response never grows the pool beyond eight and puts in nothing but those cookies *)
Theorem C05_pool_store_bounded : forall cs pool,
  (length pool <= 8)%nat -> (length (store_cookies pool cs) <= 8)%nat.
Proof. exact store_cookies_bound. Qed.
Print Assumptions C05_pool_store_bounded.

Theorem C05_pool_store_from : forall cs pool c, In c (store_cookies pool cs) -> In c pool \/ In c cs.
Proof. exact store_cookies_from. Qed.
Print Assumptions C05_pool_store_from.

(* MeasureClockOffsetIP (one to three exchanges): an offset is returned only as the offset of a
   datagram that was genuine for the request outstanding in its exchange - THE request the model
   built in the state the client had reached after the exchanges before it (state_after; not some
   state), and the (request, outcome) pair is the one the run recorded *)
Theorem C05_call_offset_genuine : forall open c st envs st' off ts lrs,
  envs <> [] ->
  call open c st envs = (st', COffset off ts, lrs) ->
  exists pre e post g h i,
    firstn (num_exchanges c) envs = pre ++ e :: post /\
    let q := make_request c (state_after open c st pre) e in
    nth_error (e_evs e) i = Some (EvDgram g) /\ (i <= 1)%nat /\
    genuine open q g h /\ clock_sane q g h /\ off = r_off (result_of q g h) /\ ts = r_crx (result_of q g h) /\
    In (q, LAccept i (result_of q g h)) lrs.
Proof. exact call_offset_genuine. Qed.
Print Assumptions C05_call_offset_genuine.

(* the same over every history of calls (and mode resets) of one client: the call is the one at
   its position in the history, entered in the state the history before it produced (hist_state,
   call_entry), the request the one built after the exchanges of that call before it *)
Theorem C05_history_offsets_genuine : forall open c ops st off ts lrs,
  calls_nonempty ops ->
  In (COffset off ts, lrs) (history open c st ops) ->
  exists opre envs opost pre e post g h i,
    ops = opre ++ HCall envs :: opost /\
    firstn (num_exchanges c) envs = pre ++ e :: post /\
    let q := make_request c (state_after open c (call_entry c (hist_state open c st opre)) pre) e in
    nth_error (e_evs e) i = Some (EvDgram g) /\ (i <= 1)%nat /\
    genuine open q g h /\ clock_sane q g h /\ off = r_off (result_of q g h) /\ ts = r_crx (result_of q g h) /\
    In (q, LAccept i (result_of q g h)) lrs.
Proof. exact history_offsets_genuine. Qed.
Print Assumptions C05_history_offsets_genuine.

(* the states in those statements are reachable ... *)
Theorem C05_history_states_reachable : forall open c ops pre,
  reachable open c (state_after open c (call_entry c (hist_state open c cstate0 ops)) pre).
Proof.
  intros open c ops pre. apply reachable_after. apply reachable_entry. apply reachable_hist. apply reach_init.
Qed.
Print Assumptions C05_history_states_reachable.

(* ... and in a reachable state what an interleaved request quotes (c.prev: the server receive
   timestamp, the client's transmit and receive stamps) was recorded from a datagram that the
   receive loop accepted as genuine for the request built in a reachable state: the origin and
   transmit-not-before-receive clauses of an interleaved exchange refer to an ACCEPTED datagram's
   timestamps, never to those of a skipped or rejected one *)
Theorem C05_state_provenance : forall open c st, reachable open c st -> s_has st = true ->
  exists st0 e g h k, reachable open c st0 /\
    let q := make_request c st0 e in
    recv_loop open q 0 0 (e_evs e) = LAccept k (result_of q g h) /\
    nth_error (e_evs e) k = Some (EvDgram g) /\ genuine open q g h /\ clock_sane q g h /\
    s_srx st = h_rx h /\ s_ctx st = time64_of_time (e_ctx1 e) /\ s_crx st = time64_of_time (crx_of g) /\
    s_il st = is_interleaved q h.
Proof. exact state_provenance. Qed.
Print Assumptions C05_state_provenance.

(* the state kept for interleaved mode is that of the accepted response, and
   an interleaved request quotes exactly that state *)
Theorem C05_state_records_response : forall c st e g h,
  c_imode c = true ->
  let q := make_request c st e in
  let st' := update c st e (result_of q g h) in
  s_has st' = true /\ s_srx st' = h_rx h /\ s_il st' = is_interleaved q h /\
  s_ctx st' = time64_of_time (e_ctx1 e) /\ s_crx st' = time64_of_time (crx_of g).
Proof. exact update_records_response. Qed.
Print Assumptions C05_state_records_response.

Theorem C05_request_fields : forall c st e,
  let q := make_request c st e in
  (q_ireq q = true -> c_imode c = true /\ s_has st = true /\
                      s_host st = e_server e /\ s_port st = e_port e /\
                      q_rx q = s_crx st /\ q_tx q = s_ctx st /\ q_psrx q = s_srx st) /\
  (q_ireq q = false -> q_rx q = zero64 /\ q_tx q = time64_of_time (e_ref e)).
Proof. exact interleaved_request_fields. Qed.
Print Assumptions C05_request_fields.

(* the property oracle (Model/ClientAccept.v, C05_ok) accepts what the model
   does, on all inputs: payloads are byte strings; the views handed to the
   oracle carry the delivered bytes and flags that do not understate the facts *)
(* one exchange; [prev] is the oracle's own history (the receive timestamp of the datagram its
   last success was based on), [prev_ok]: an interleaved request quotes a timestamp from it *)
Theorem C05_oracle_holds_of_model : forall open q evs views prev,
  Forall payload_bytes (dgrams_of evs) ->
  Forall2 (faithful open q) (dgrams_of evs) views ->
  prev_ok prev q ->
  C05_ok (oreq_of prev q) views (obs_of (recv_loop open q 0 0 evs)) = true.
Proof. exact oracle_holds_of_model. Qed.
Print Assumptions C05_oracle_holds_of_model.

(* the oracle with its own history along every history of calls and mode resets of one client,
   from the initial state: every exchange meets C05_ok where "the previous measurement's receive
   timestamp" is what the ORACLE recorded from the datagram of the last success (C05_basis), not
   what the client's request says - a timestamp of a skipped or rejected datagram never enters a
   reported measurement.  [views q e]: the views of the datagrams of exchange e under request q *)
Theorem C05_oracle_history_holds : forall open views c ops,
  ops_faithful open views ops ->
  oracle_history open views c cstate0 ops [] = true.
Proof.
  intros open views c ops H. apply oracle_history_holds; [exact H|]. intros _ Hc. discriminate.
Qed.
Print Assumptions C05_oracle_history_holds.

(* ... from any state that the oracle's history backs, with the invariant spelled out: along the
   exchanges of one call the verdict is true, the invariant is kept and the state carried is the
   one the model's call_loop returns *)
Theorem C05_oracle_call_holds : forall open views c envs st prev i nerr acc,
  Forall (views_faithful open views) envs -> hist_inv c st prev ->
  let '(b, s2, p) := oracle_call open views c st envs prev in
  b = true /\ hist_inv c s2 p /\ s2 = fst (fst (call_loop open c st envs i nerr acc)).
Proof. exact oracle_call_holds. Qed.
Print Assumptions C05_oracle_call_holds.

(* ------------------------------------------------------------------ *)
(* The hypotheses are satisfiable; the loop does accept.               *)
(* ------------------------------------------------------------------ *)
Definition ex_open_none : bytes -> bytes -> bytes -> bytes -> option bytes := fun _ _ _ _ => None.

Definition ex_t (s f : Z) : time64 := {| t64_sec := s; t64_frac := f |}.
Definition ex_be32 (x : Z) : bytes := [x / 16777216 mod 256; x / 65536 mod 256; x / 256 mod 256; x mod 256].
Definition ex_hdr (lvm stratum : Z) (org rx tx : time64) : bytes :=
  [lvm; stratum; 0; 0] ++ repeat 0 20 ++
  ex_be32 (t64_sec org) ++ ex_be32 (t64_frac org) ++ ex_be32 (t64_sec rx) ++ ex_be32 (t64_frac rx) ++
  ex_be32 (t64_sec tx) ++ ex_be32 (t64_frac tx).

(* a basic request sent at Unix time 1.7e9 s to server 2130706433 (127.0.0.1) *)
Definition ex_q (nts : bool) (uid key : bytes) : request :=
  {| q_scion := false; q_server := 2130706433; q_port := 123; q_server_ia := 0; q_local_ia := 0; q_local := 0;
     q_authkey := false; q_bufcap := if nts then 1024%nat else 48%nat; q_deadline := true;
     q_nts := nts; q_uid := uid; q_s2c := key;
     q_ireq := false; q_rx := ex_t 0 0; q_tx := ex_t 3908988800 5;
     q_ref := 1700000000000000000; q_ctx1 := 1700000000000001000;
     q_pctx := ex_t 0 0; q_psrx := ex_t 0 0; q_pcrx := ex_t 0 0 |}.
Definition ex_g (src : Z) (payload : bytes) : dgram :=
  {| g_before := true; g_xflags := 0; g_front := FrontIP src 123; g_payload := payload; g_crx := 1700000000000900000 |}.

Definition ex_good : bytes := ex_hdr 36 1 (ex_t 3908988800 5) (ex_t 3908988800 1000000) (ex_t 3908988800 2000000).
Definition ex_stratum0 : bytes := ex_hdr 36 0 (ex_t 3908988800 5) (ex_t 3908988800 1000000) (ex_t 3908988800 2000000).
Definition ex_wrong_origin : bytes := ex_hdr 36 1 (ex_t 3908988800 6) (ex_t 3908988800 1000000) (ex_t 3908988800 2000000).

(* a datagram from another address is skipped, the genuine one is accepted *)
(* the genuine response from the server's address and another port is skipped *)
Example C05_ex_other_port :
  recv_loop ex_open_none (ex_q false [] []) 0 0
    [EvDgram {| g_before := true; g_xflags := 0; g_front := FrontIP 2130706433 124; g_payload := ex_good; g_crx := 1700000000000900000 |}]
  = LBlocked /\
  handle ex_open_none (ex_q false [] []) 0
    (EvDgram {| g_before := true; g_xflags := 0; g_front := FrontIP 2130706433 124; g_payload := ex_good; g_crx := 1700000000000900000 |})
  = SSkip ESource.
Proof. split; vm_compute; reflexivity. Qed.

Example C05_ex_skip_then_accept :
  exists r, recv_loop ex_open_none (ex_q false [] []) 0 0 [EvDgram (ex_g 2130706434 ex_good); EvDgram (ex_g 2130706433 ex_good)] = LAccept 1 r.
Proof. eexists. vm_compute. reflexivity. Qed.

(* two mismatching datagrams end the call although the genuine response follows *)
Example C05_ex_two_failures :
  recv_loop ex_open_none (ex_q false [] []) 0 0
    [EvDgram (ex_g 2130706434 ex_good); EvDgram (ex_g 2130706433 ex_wrong_origin); EvDgram (ex_g 2130706433 ex_good)]
  = LFail 1 EUnexpected.
Proof. vm_compute. reflexivity. Qed.

(* a matching datagram with stratum 0 ends the call at once *)
Example C05_ex_stratum0 :
  recv_loop ex_open_none (ex_q false [] []) 0 0 [EvDgram (ex_g 2130706433 ex_stratum0); EvDgram (ex_g 2130706433 ex_good)]
  = LFail 0 EResponse.
Proof. vm_compute. reflexivity. Qed.

(* NTS: unique identifier field (36 bytes) and authenticator field (40 bytes) behind the header *)
Definition ex_uid : bytes := repeat 7 32.
Definition ex_key : bytes := repeat 9 32.
Definition ex_nonce : bytes := repeat 3 16.
Definition ex_ct : bytes := repeat 4 16.
Definition ex_nts_pkt : bytes :=
  ex_good ++ [1; 4; 0; 36] ++ ex_uid ++ [4; 4; 0; 40; 0; 16; 0; 16] ++ ex_nonce ++ ex_ct.
(* an AEAD that opens exactly this one sealed packet *)
Definition ex_open : bytes -> bytes -> bytes -> bytes -> option bytes :=
  fun k n ad ct =>
    if bytes_eqb k ex_key && bytes_eqb n ex_nonce && bytes_eqb ad (firstn 84 ex_nts_pkt) && bytes_eqb ct ex_ct
    then Some [] else None.

Example C05_ex_nts_accept :
  exists r, recv_loop ex_open (ex_q true ex_uid ex_key) 0 0 [EvDgram (ex_g 2130706433 ex_nts_pkt)] = LAccept 0 r.
Proof. eexists. vm_compute. reflexivity. Qed.

(* the same packet with one timestamp bit changed after sealing is not authentic *)
Definition ex_nts_tampered : bytes := firstn 47 ex_nts_pkt ++ [129] ++ skipn 48 ex_nts_pkt.
Example C05_ex_nts_tampered :
  recv_loop ex_open (ex_q true ex_uid ex_key) 0 0 [EvDgram (ex_g 2130706433 ex_nts_tampered); EvDgram (ex_g 2130706433 ex_good)]
  = LFail 1 ENoUid.
Proof. vm_compute. reflexivity. Qed.

(* every call makes at least one exchange (n = 3 with interleaved mode, else 1) ... *)
Theorem C05_call_makes_a_try : forall c, (1 <= num_exchanges c)%nat /\ forall (e : xenv) envs, firstn (num_exchanges c) (e :: envs) <> [].
Proof.
  intro c. unfold num_exchanges. split; [destruct (c_imode c); auto|].
  intros e envs. destruct (c_imode c); simpl; discriminate.
Qed.
Print Assumptions C05_call_makes_a_try.

(* ... which is what the hypothesis [envs <> []] of the call-level theorems stands for: a try loop that
   makes no exchange (e.g. one that is left early when the context is already done) returns the zero
   values of its results - a measurement of offset 0 with a nil error, based on no datagram.  The case
   kind client.ctxdone drives the real entry points with such contexts; the oracle
   C05_call_needs_datagram rejects a reported measurement without an accepted datagram *)
Theorem C05_no_try_is_phantom : forall open c st i nerr,
  call_loop open c st [] i nerr None = (st, COffset 0 0, []) /\
  C05_call_needs_datagram true 0 = false /\
  forall acc, C05_call_needs_datagram false acc = true.
Proof. intros. split; [reflexivity|]. split; [reflexivity|]. intro acc. reflexivity. Qed.
Print Assumptions C05_no_try_is_phantom.

(* the call-level oracle for several clients: a reported offset lies between accepted measurements; with one
   accepted measurement it is that one, with none nothing passes (kind scion.twopath) *)
Theorem C05_call_offset_within_spec : forall off accepted,
  C05_call_offset_within off accepted = true <->
  exists a b, In a accepted /\ In b accepted /\ a <= off <= b.
Proof.
  intros off accepted. unfold C05_call_offset_within. rewrite andb_true_iff, !existsb_exists. split.
  - intros [(a & Ha & La) (b & Hb & Lb)]. apply Z.leb_le in La. apply Z.leb_le in Lb. exists a, b. auto.
  - intros (a & b & Ha & Hb & La & Lb). split; [exists a|exists b]; split; auto; apply Z.leb_le; assumption.
Qed.
Print Assumptions C05_call_offset_within_spec.

Example C05_ex_call_offset_within :
  C05_call_offset_within 0 [12345] = false /\ C05_call_offset_within 12345 [12345] = true /\
  C05_call_offset_within 0 [] = false /\ C05_call_offset_within 15 [10; 20] = true.
Proof. repeat split; reflexivity. Qed.

(* MeasureClockOffsetSCION (one client): an offset only from a genuine datagram, an error otherwise *)
Theorem C05_scion_call_offset_genuine : forall open c st envs st' cr lrs off ts,
  envs <> [] ->
  call open c st envs = (st', cr, lrs) -> scion_return cr = COffset off ts ->
  exists pre e post g h i,
    firstn (num_exchanges c) envs = pre ++ e :: post /\
    let q := make_request c (state_after open c st pre) e in
    nth_error (e_evs e) i = Some (EvDgram g) /\ (i <= 1)%nat /\
    genuine open q g h /\ clock_sane q g h /\ off = r_off (result_of q g h) /\ ts = r_crx (result_of q g h) /\
    In (q, LAccept i (result_of q g h)) lrs.
Proof. exact scion_call_offset_genuine. Qed.
Print Assumptions C05_scion_call_offset_genuine.

Theorem C05_scion_all_fail_is_error : forall e, exists e', scion_return (CError e) = CError e'.
Proof. exact scion_return_error. Qed.
Print Assumptions C05_scion_all_fail_is_error.

(* Regression lemma for D-C05a (fixed in /repo by 3dfc5bf): with the return value as it was BEFORE the
   fix (scion_return_pinned) the clause "every other datagram yields an error, never an offset" was
   false: a call in which no datagram is genuine (here: the only datagram has stratum 0) ended every
   exchange with an error, yet the call returned offset 0 with a nil error.  The witness is replayed on
   the implementation by the case kind scion.allfail, which now has to end with an error. *)
Theorem C05_scion_allfail_pinned_refuted :
  exists c envs,
    (forall e g h, In e envs -> In (EvDgram g) (e_evs e) -> ~ genuine ex_open_none (make_request c cstate0 e) g h) /\
    exists st' lrs er, call ex_open_none c cstate0 envs = (st', CError er, lrs) /\
                       scion_return_pinned (CError er) = COffset 0 0 /\
                       scion_return (CError er) = CError ENoMeasurement.
Proof.
  exists {| c_scion := true; c_imode := false; c_nts := false; c_server := 2130706433; c_server_ia := 1; c_local_ia := 2;
            c_local := 2130706433; c_deadline := true |}.
  exists [{| e_ref := 1700000000000000000; e_ctx1 := 1700000000000001000; e_uid := []; e_s2c := []; e_authkey := false; e_server := 2130706433; e_port := 123;
             e_evs := [EvDgram {| g_before := true; g_xflags := 0;
                                  g_front := FrontSCION {| sv_decode_ok := true; sv_nlayers := 2; sv_last := 0; sv_len_ok := true;
                                                           sv_src_ia := 1; sv_dst_ia := 2; sv_src_host := Some 2130706433;
                                                           sv_dst_host := Some 2130706433; sv_e2e := false; sv_tsopt := None;
                                                           sv_auth := AuthNone |};
                                  g_payload := ex_hdr 36 0 (ex_t 3908988800 0) (ex_t 3908988800 1000000) (ex_t 3908988800 2000000);
                                  g_crx := 1700000000000900000 |}] |}].
  split.
  - intros e g h [He|[]] Hg. subst e. simpl in Hg. destruct Hg as [Hg|[]]. inversion Hg; subst g. clear Hg.
    intros (_ & _ & _ & HD & _ & _ & (_ & _ & _ & HS & _) & _).
    vm_compute in HD. inversion HD; subst h. apply HS. reflexivity.
  - eexists. eexists. eexists. split; [vm_compute; reflexivity | split; reflexivity].
Qed.
Print Assumptions C05_scion_allfail_pinned_refuted.

(* ------------------------------------------------------------------ *)
(* The SCION client with packet authentication (Auth.Enabled: SPAO     *)
(* under the DRKey host-host key) and NTS over SCION.                  *)
(* [spao_bad q g]: the client holds the key and g carries, in an       *)
(* end-to-end extension, an authenticator for the server's SPI and     *)
(* algorithm whose MAC does not verify (or cannot be computed).        *)
(* [bad_mac q g]: in addition everything the client checks before the  *)
(* authenticator (flags, parse, UDP length, source and destination     *)
(* ISD-AS and host) is in order.                                       *)
(* ------------------------------------------------------------------ *)

(* wrong MAC => never an offset, whatever else the datagram says and wherever it arrives in the loop *)
Theorem C05_spao_bad_mac_never_offset : forall open q g,
  spao_bad q g -> forall nr r, handle open q nr (EvDgram g) <> SAccept r.
Proof. exact spao_bad_not_accepted. Qed.
Print Assumptions C05_spao_bad_mac_never_offset.

(* wrong MAC on a datagram that is otherwise from the server => errInvalidPacketAuthenticator
   under the one-retry rule (skipped if no datagram was skipped before, a deadline is set and
   not reached; otherwise the call ends with that error) *)
Theorem C05_spao_bad_mac_error : forall open q nr g v,
  flags_ok q g = true -> g_front g = FrontSCION v -> scion_pre_ok q v ->
  sv_e2e v = true -> q_authkey q = true -> sv_auth v = AuthMac false ->
  handle open q nr (EvDgram g) = retry q nr (g_before g) EScionAuth.
Proof. exact spao_bad_error. Qed.
Print Assumptions C05_spao_bad_mac_error.

(* two wrong MACs in one measurement: retry exhausted => the authenticator error, never an
   offset, although the genuine response may follow *)
Theorem C05_spao_two_bad_macs : forall open q g1 g2 rest,
  bad_mac q g1 -> bad_mac q g2 ->
  recv_loop open q 0 0 (EvDgram g1 :: EvDgram g2 :: rest) =
  if q_deadline q && g_before g1 then LFail 1 EScionAuth else LFail 0 EScionAuth.
Proof. exact spao_two_bad. Qed.
Print Assumptions C05_spao_two_bad_macs.

(* wrong MAC, then the genuine response: the first is skipped, the second accepted *)
Theorem C05_spao_bad_then_genuine : forall open q g1 g2 h rest,
  bad_mac q g1 -> q_deadline q = true -> g_before g1 = true ->
  genuine open q g2 h -> clock_sane q g2 h ->
  recv_loop open q 0 0 (EvDgram g1 :: EvDgram g2 :: rest) = LAccept 1 (result_of q g2 h).
Proof. exact spao_bad_then_genuine. Qed.
Print Assumptions C05_spao_bad_then_genuine.

(* what the code does with a response that carries no authenticator the client looks at
   (no end-to-end extension, no authenticator option, option of another length, the client's
   own SPI, another SPI or algorithm) or one whose MAC verifies: exactly what a client without
   key does - the missing authenticator is not an error, the response is used unauthenticated *)
Theorem C05_spao_absent_is_unauthenticated : forall open q nr g,
  (forall v, g_front g = FrontSCION v -> sv_e2e v = true -> sv_auth v <> AuthMac false) ->
  handle open q nr (EvDgram g) = handle open (without_authkey q) nr (EvDgram g).
Proof. exact spao_absent_as_without_key. Qed.
Print Assumptions C05_spao_absent_is_unauthenticated.

(* an accepted datagram of the SCION client: from the queried ISD-AS and host, addressed to the
   client, its authenticator (if the client holds the key and looks at one) verifies, and with
   NTS over SCION it carries the request's identifier and verifies under the S2C key *)
Theorem C05_scion_accept_clauses : forall open q evs i r g v,
  recv_loop open q 0 0 evs = LAccept i r -> nth_error evs i = Some (EvDgram g) -> g_front g = FrontSCION v ->
  scion_pre_ok q v /\
  (sv_e2e v = true -> q_authkey q = true -> sv_auth v <> AuthMac false) /\
  (q_nts q = true -> nts_ok open q (g_payload g)).
Proof. exact scion_accept_clauses. Qed.
Print Assumptions C05_scion_accept_clauses.

(* the hypotheses are satisfiable: a SCION client with the key, server 127.0.0.1 in ISD-AS 1, client in 2 *)
Definition ex_sq : request :=
  {| q_scion := true; q_server := 2130706433; q_port := 123; q_server_ia := 1; q_local_ia := 2; q_local := 2130706433;
     q_authkey := true; q_bufcap := Z.to_nat 9188; q_deadline := true;
     q_nts := false; q_uid := []; q_s2c := [];
     q_ireq := false; q_rx := ex_t 0 0; q_tx := ex_t 3908988800 5;
     q_ref := 1700000000000000000; q_ctx1 := 1700000000000001000;
     q_pctx := ex_t 0 0; q_psrx := ex_t 0 0; q_pcrx := ex_t 0 0 |}.
Definition ex_sv (e2e : bool) (a : auth_view) : scion_view :=
  {| sv_decode_ok := true; sv_nlayers := if e2e then 3 else 2; sv_last := 0; sv_len_ok := true;
     sv_src_ia := 1; sv_dst_ia := 2; sv_src_host := Some 2130706433; sv_dst_host := Some 2130706433;
     sv_e2e := e2e; sv_tsopt := None; sv_auth := a |}.
Definition ex_sg (e2e : bool) (a : auth_view) : dgram :=
  {| g_before := true; g_xflags := 0; g_front := FrontSCION (ex_sv e2e a); g_payload := ex_good; g_crx := 1700000000000900000 |}.

Example C05_ex_bad_mac : bad_mac ex_sq (ex_sg true (AuthMac false)).
Proof.
  split; [vm_compute; reflexivity|]. exists (ex_sv true (AuthMac false)).
  split; [reflexivity|]. split; [|auto]. unfold scion_pre_ok. simpl. repeat split; auto. discriminate.
Qed.

(* wrong MAC, wrong MAC, genuine: the authenticator error at the second datagram *)
Example C05_ex_spao_two_bad :
  recv_loop ex_open_none ex_sq 0 0
    [EvDgram (ex_sg true (AuthMac false)); EvDgram (ex_sg true (AuthMac false)); EvDgram (ex_sg true (AuthMac true))]
  = LFail 1 EScionAuth.
Proof. vm_compute. reflexivity. Qed.

(* wrong MAC, genuine: accepted at the second datagram *)
Example C05_ex_spao_bad_then_genuine :
  exists r, recv_loop ex_open_none ex_sq 0 0 [EvDgram (ex_sg true (AuthMac false)); EvDgram (ex_sg true (AuthMac true))] = LAccept 1 r.
Proof. eexists. vm_compute. reflexivity. Qed.

(* the same response without any authenticator is accepted by the client that holds the key *)
Example C05_ex_spao_missing_accepted :
  exists r, recv_loop ex_open_none ex_sq 0 0 [EvDgram (ex_sg false AuthNone)] = LAccept 0 r.
Proof. eexists. vm_compute. reflexivity. Qed.

(* the oracle rejects an offset based on a datagram whose authenticator does not verify *)
Example C05_ex_oracle_rejects_bad_mac :
  C05_ok {| oq_nts := false; oq_ireq := false; oq_sid := 1; oq_prev := []; oq_rx := ex_t 0 0; oq_tx := ex_t 3908988800 5;
            oq_ref := 1700000000000000000 |}
         [{| o_from_server := true; o_payload := ex_good; o_uid_ok := false; o_auth_ok := false; o_spao_ok := false |}]
         (ObsOffset 1700000000000001000 1700000000000232830 1700000000000465661 1700000000000900000 (-101254)) = false.
Proof. vm_compute. reflexivity. Qed.
(* ... and accepts it when the authenticator is in order *)
Example C05_ex_oracle_accepts_good_mac :
  C05_ok {| oq_nts := false; oq_ireq := false; oq_sid := 1; oq_prev := []; oq_rx := ex_t 0 0; oq_tx := ex_t 3908988800 5;
            oq_ref := 1700000000000000000 |}
         [{| o_from_server := true; o_payload := ex_good; o_uid_ok := false; o_auth_ok := false; o_spao_ok := true |}]
         (ObsOffset 1700000000000001000 1700000000000232830 1700000000000465661 1700000000000900000 (-101254)) = true.
Proof. vm_compute. reflexivity. Qed.

(* the oracle keeps its own history: an interleaved response (origin = the request's receive field)
   combined with a receive timestamp that is not the one of the datagram the previous success was
   based on - e.g. that of a response rejected for "transmit before receive", kept by mistake - is rejected *)
Definition ex_ireq (prev : list (Z * time64)) : oreq :=
  {| oq_nts := false; oq_ireq := true; oq_rx := ex_t 3908988800 77; oq_tx := ex_t 3908988800 5; oq_sid := 1; oq_prev := prev;
     oq_ref := 1700000000000000000 |}.
Definition ex_iresp : bytes := ex_hdr 36 1 (ex_t 3908988800 77) (ex_t 3908988801 1000000) (ex_t 3908988800 2000000).
Definition ex_iview : oview :=
  {| o_from_server := true; o_payload := ex_iresp; o_uid_ok := false; o_auth_ok := false; o_spao_ok := true |}.
(* t1 = 1699999950 s: fifty seconds in the past, the receive field of no accepted datagram *)
Example C05_ex_oracle_rejects_stale_t1 :
  C05_ok (ex_ireq [(1, ex_t 3908988799 0)]) [ex_iview]
         (ObsOffset 1699999999000001000 1699999950000000000 1700000000000465661 1699999999000900000
                    (clock_offset 1699999999000001000 1699999950000000000 1700000000000465661 1699999999000900000)) = false.
Proof. vm_compute. reflexivity. Qed.
(* the same observation when the oracle's history does hold that timestamp *)
Example C05_ex_oracle_accepts_recorded_t1 :
  C05_ok (ex_ireq [(1, ex_t 3908988750 0)]) [ex_iview]
         (ObsOffset 1699999999000001000 1699999950000000000 1700000000000465661 1699999999000900000
                    (clock_offset 1699999999000001000 1699999950000000000 1700000000000465661 1699999999000900000)) = true.
Proof. vm_compute. reflexivity. Qed.
(* ... and is rejected when that timestamp was recorded from a measurement of ANOTHER server *)
Example C05_ex_oracle_rejects_other_server_t1 :
  C05_ok (ex_ireq [(2, ex_t 3908988750 0)]) [ex_iview]
         (ObsOffset 1699999999000001000 1699999950000000000 1700000000000465661 1699999999000900000
                    (clock_offset 1699999999000001000 1699999950000000000 1700000000000465661 1699999999000900000)) = false.
Proof. vm_compute. reflexivity. Qed.
(* a sequence: a success records the datagram's receive field, an error leaves the history alone *)
Example C05_ex_basis :
  C05_basis {| oq_nts := false; oq_ireq := false; oq_sid := 1; oq_prev := [(7, ex_t 1 2)]; oq_rx := ex_t 0 0; oq_tx := ex_t 3908988800 5;
               oq_ref := 1700000000000000000 |}
            [{| o_from_server := true; o_payload := ex_good; o_uid_ok := false; o_auth_ok := false; o_spao_ok := true |}]
            (ObsOffset 1700000000000001000 1700000000000232830 1700000000000465661 1700000000000900000 (-101254))
  = [(1, ex_t 3908988800 1000000)] /\
  C05_basis (ex_ireq [(7, ex_t 1 2)]) [ex_iview] ObsError = [(7, ex_t 1 2)].
Proof. split; vm_compute; reflexivity. Qed.

(* the hypotheses of the history theorem are satisfiable: histories without datagrams, any views *)
Example C05_ex_ops_faithful : ops_faithful ex_open_none (fun _ _ => []) [HCall [{| e_ref := 0; e_ctx1 := 0; e_uid := []; e_s2c := []; e_authkey := false; e_server := 2130706433; e_port := 123; e_evs := [EvErr true] |}]; HReset].
Proof.
  intros envs [H|[H|[]]]; [|discriminate]. inversion H; subst. constructor; [|constructor].
  split; [constructor|]. intros q. constructor.
Qed.

(* the ideal-AEAD hypothesis of C05_nts_authentic has an instance *)
Example C05_ex_ideal : exists (sealed : bytes -> bytes -> bytes -> bytes -> bytes -> Prop),
  forall k n ad ct pt, ex_open k n ad ct = Some pt -> sealed k n ad pt ct.
Proof. exists (fun k n ad pt ct => ex_open k n ad ct = Some pt). auto. Qed.

(* the oracle rejects an offset that is based on no delivered genuine datagram *)
Example C05_ex_oracle_rejects :
  C05_ok {| oq_nts := false; oq_ireq := false; oq_sid := 1; oq_prev := []; oq_rx := ex_t 0 0; oq_tx := ex_t 3908988800 5;
            oq_ref := 1700000000000000000 |}
         [{| o_from_server := false; o_payload := ex_good; o_uid_ok := false; o_auth_ok := false; o_spao_ok := true |}]
         (ObsOffset 1700000000000001000 1700000000000232830 1700000000000465661 1700000000000900000 (-101254)) = false.
Proof. vm_compute. reflexivity. Qed.

(* The timestamps that enter a reported offset are those of the header the authenticated payload
   carries: t2 (and t1 unless the response is an interleaved one, and the receive timestamp kept for
   interleaved mode) are fields of the NTP header at the start of the payload as parsed (over SCION:
   udpLayer.Payload, the first Length-8 bytes behind the UDP header - never bytes appended behind the
   UDP datagram), and with NTS exactly these header bytes lie inside the associated data that opened
   under the server-to-client key *)
Theorem C05_accept_timestamps_authenticated : forall open q evs i r,
  recv_loop open q 0 0 evs = LAccept i r ->
  exists g h, nth_error evs i = Some (EvDgram g) /\ ntp_decode (g_payload g) = Some h /\
    r_t2 r = time_of_time64 (h_tx h) (q_ref q) /\
    (is_interleaved q h = false -> r_t1 r = time_of_time64 (h_rx h) (q_ref q)) /\
    r_srx r = h_rx h /\
    (q_nts q = true ->
       exists p pt, decode_packet (g_payload g) = Ok p /\ (48 <= p_pos p <= length (g_payload g))%nat /\
         open (q_s2c q) (p_nonce p) (firstn (p_pos p) (g_payload g)) (p_ct p) = Some pt /\
         let ad := firstn (p_pos p) (g_payload g) in
         h_org h = {| t64_sec := be32 ad 24; t64_frac := be32 ad 28 |} /\
         h_rx h = {| t64_sec := be32 ad 32; t64_frac := be32 ad 36 |} /\
         h_tx h = {| t64_sec := be32 ad 40; t64_frac := be32 ad 44 |}).
Proof. exact accept_timestamps_authenticated. Qed.
Print Assumptions C05_accept_timestamps_authenticated.

(* ------------------------------------------------------------------ *)
(* "When NTS is enabled": enabled by configuration (auth_modes).        *)
(* Model/AuthModes.v: the flags createClocks gives every client.        *)
(* ------------------------------------------------------------------ *)

(* every client the service builds has NTS on iff "nts" is among auth_modes ... *)
Theorem C05_cfg_nts_iff_configured : forall modes daemon scion,
  a_nts (wired_client modes daemon scion) = true <-> In mode_nts modes.
Proof. exact wired_client_nts. Qed.
Print Assumptions C05_cfg_nts_iff_configured.

(* ... whatever the order of the list, repetitions, and entries the service does not know *)
Theorem C05_cfg_order_irrelevant : forall l1 l2 daemon scion,
  (forall x, In x l1 <-> In x l2) -> wired_client l1 daemon scion = wired_client l2 daemon scion.
Proof. exact wired_client_perm. Qed.
Print Assumptions C05_cfg_order_irrelevant.

(* the oracle of the case kind svc.authmodes holds of the model for every configuration *)
Theorem C05_cfg_oracle_holds_of_model : forall modes daemon scions,
  C05_cfg_ok modes (map (wired_client modes daemon) scions) = true.
Proof. exact cfg_oracle_holds_of_model. Qed.
Print Assumptions C05_cfg_oracle_holds_of_model.

(* the oracle rejects the wiring in which only the last entry of auth_modes counts *)
Example C05_ex_cfg_last_entry_only :
  C05_cfg_ok [mode_nts; mode_spao]
             [{| a_auth := true; a_nts := false; a_ke := 0; a_quic := false; a_drkey := true |}] = false /\
  C05_cfg_ok [mode_nts; mode_spao] [wired_client [mode_nts; mode_spao] true true; wired_client [mode_nts; mode_spao] true false] = true.
Proof. split; vm_compute; reflexivity. Qed.
