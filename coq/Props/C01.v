(* C01 — Per-round clock correction is bounded whatever the sources report.

   Model: Model/Sync.v (sync.Run: prologue, clamp, cutoff, midpoint, reused
   measurement slices), Model/Ftm.v (fault-tolerant midpoint), Model/Units.v
   (SystemClock.Drift), Base/F64.v (float64 = Flocq binary64).
   Reading of the bound: the cap of a side is the float64 number
   cap f D = f (x) float64(D), D = clk.Drift(SyncInterval); "within c m" is the
   code's own comparison float64(|c|) <= m.  C01_bound_exact_below_2p53 and
   C01_cap_is_rounded_product turn this into the integer inequality
   |c| <= floor(RN(f * D)) for every cap below 2^53 ns (104 days per round).
   Non-finite factors: a NaN factor (and every infinite one except a peer
   factor +Inf) is refused at start-up (C01_nan_factor_refused,
   C01_infinite_factor_refused; the code tests !(x > y) since /repo 6abb997);
   no theorem about Run assumes finite factors.  Hypotheses that appear: the
   clause "both contribute => bounded by the peer cap" needs the peer cap below
   2^62 ns, and
   C01_midpoint_refuted_beyond_2p62 shows that this is necessary. *)
From ST Require Import Base.Ints Base.F64 Base.Sorting Model.NtpTime Model.Units Model.Ftm Model.Sync Model.SyncConfig Proofs.SyncProofs Proofs.SyncDriftProofs Proofs.SyncConfigProofs.
From Coq Require Import ZArith List Reals.
From Flocq Require Import Core.Core IEEE754.BinarySingleNaN.
Import ListNotations.
Open Scope Z_scope.

(* Every run of the model — any configuration, any drift the clock reports, any
   number of reference clocks and peers, any multi-round history of timely,
   failing, late and missing answers over the whole int64 range — satisfies the
   property oracle (start-up refusal, one Do and one Sleep per round, the bound
   and the cutoff / midpoint clauses). *)
Theorem C01_run_oracle : forall cfg D nref npeer rs, in_i64 (c_interval cfg) -> in_i64 D ->
  C01_ok cfg nref npeer rs (run cfg D nref npeer rs) = true.
Proof. exact run_oracle. Qed.
Print Assumptions C01_run_oracle.

(* Start-up: Run refuses exactly the inadmissible settings (and a clock that
   reports no positive drift); when it starts, the two caps are impact x
   Drift(interval), positive, and the reference cap does not exceed the peer cap. *)
Theorem C01_startup_refusal : forall cfg D, in_i64 (c_interval cfg) -> in_i64 D ->
  ((exists code nd, prologue cfg D = Refuse code nd) <-> (inadmissible cfg = true \/ D <= 0)) /\
  (forall rm pm, prologue cfg D = Start rm pm ->
     rm = cap (c_ref cfg) D /\ pm = cap (c_peer cfg) D /\ cap_ok rm /\ cap_ok pm /\ fle rm pm = true).
Proof. exact startup_refusal. Qed.
Print Assumptions C01_startup_refusal.

(* a NaN impact factor (either one) is inadmissible and refused before anything else happens: Run panics
   without a single call of the clock or of the discipline, whatever the other settings, the clock and the sources *)
Theorem C01_nan_factor_refused : forall cfg D nref npeer rs,
  fis_nan (c_ref cfg) = true \/ fis_nan (c_peer cfg) = true ->
  inadmissible cfg = true /\ run cfg D nref npeer rs = (true, []).
Proof. exact nan_factor_refused. Qed.
Print Assumptions C01_nan_factor_refused.

(* infinite factors: a non-finite reference factor and a peer factor -Inf are inadmissible as well; the one
   non-finite setting that is accepted is a peer factor +Inf, whose cap is +Inf (peer side unbounded by
   configuration, reference side bounded by a finite factor) *)
Theorem C01_infinite_factor_refused : forall cfg,
  is_finite (c_ref cfg) = false \/ c_peer cfg = B754_infinity true -> inadmissible cfg = true.
Proof. exact inf_inadmissible. Qed.
Print Assumptions C01_infinite_factor_refused.

Theorem C01_admissible_factors : forall cfg, inadmissible cfg = false ->
  (is_finite (c_ref cfg) = true /\ (1 < B2R (c_ref cfg))%R) /\
  (c_peer cfg = B754_infinity false \/ (is_finite (c_peer cfg) = true /\ (1 < B2R (c_peer cfg))%R)).
Proof. exact admissible_factors. Qed.
Print Assumptions C01_admissible_factors.

(* what "inadmissible" means in real numbers for finite factors: a factor <= 1, peer factor - 1 (rounded) <= reference factor,
   interval <= 0, timeout < 0 or above half the interval *)
Theorem C01_inadmissible_means : forall cfg, is_finite (c_ref cfg) = true -> is_finite (c_peer cfg) = true ->
  (inadmissible cfg = true <->
   (B2R (c_ref cfg) <= 1)%R \/ (B2R (c_peer cfg) <= 1)%R \/ (RN (B2R (c_peer cfg) - 1) <= B2R (c_ref cfg))%R \/
   c_interval cfg <= 0 \/ c_timeout cfg < 0 \/ Z.quot (c_interval cfg) 2 < c_timeout cfg).
Proof. exact inadmissible_real. Qed.
Print Assumptions C01_inadmissible_means.

(* in exact arithmetic: a peer factor not exceeding the reference factor by more than 1 is refused *)
Theorem C01_gap_refused_exact : forall cfg, is_finite (c_ref cfg) = true -> is_finite (c_peer cfg) = true ->
  (B2R (c_peer cfg) - B2R (c_ref cfg) <= 1)%R -> inadmissible cfg = true.
Proof. exact gap_refused. Qed.
Print Assumptions C01_gap_refused_exact.

(* refused runs hand nothing to the clock discipline: the only events are the Drift queries *)
Theorem C01_refused_hands_on_nothing : forall cfg D nref npeer rs, in_i64 (c_interval cfg) -> in_i64 D ->
  inadmissible cfg = true \/ D <= 0 ->
  exists nd, run cfg D nref npeer rs = (true, repeat (EDrift (c_interval cfg) D) nd).
Proof. exact run_refused. Qed.
Print Assumptions C01_refused_hands_on_nothing.

(* Histories: for every admissible configuration, every positive drift, all numbers of sources and
   every history rs, the run is Drift, Drift, then exactly one (Do c; Sleep interval) per round, and every
   c is bounded: 0 without sources, within the reference cap with reference clocks only, within the peer
   cap with peers only, and within the peer cap with both (peer cap below 2^62 ns). *)
Theorem C01_one_bounded_correction_per_round : forall cfg D nref npeer rs, in_i64 (c_interval cfg) -> in_i64 D ->
  inadmissible cfg = false -> 0 < D ->
  exists evs,
    run cfg D nref npeer rs = (false, EDrift (c_interval cfg) D :: EDrift (c_interval cfg) D :: evs) /\
    alternates (corr_bounded cfg (cap (c_ref cfg) D) (cap (c_peer cfg) D) nref npeer) (c_interval cfg) (length rs) evs.
Proof. exact run_history. Qed.
Print Assumptions C01_one_bounded_correction_per_round.

(* Histories with the case analysis of the property.  `history` (Proofs/SyncProofs.v) threads the two measurement
   slices through the rounds: in every round the aggregated offsets ro, po of the two sides are what
   measureOffsetToRefClks computes from this round's timely answers and the values left from earlier rounds (failed,
   late and missing sources keep an old value), exactly one Do c and one Sleep are issued, and c obeys `corr_cases`:
     no sources: c = 0;
     reference clocks only: c = the bounded reference offset, within the reference cap;
     peers only: beyond the cutoff c = the bounded peer offset, within the peer cap; within the cutoff c = 0;
     both: peers within the cutoff -> c = the bounded reference offset, WITHIN THE REFERENCE CAP;
           peers beyond the cutoff -> c = the midpoint of the two bounded values, within the peer cap whenever the two
           bounded values are less than 2^63 apart (Midpoint cannot wrap).
   For every admissible configuration, every positive Drift, all source counts and every history. *)
Theorem C01_history_case_analysis : forall cfg D nref npeer rs, in_i64 (c_interval cfg) -> in_i64 D ->
  inadmissible cfg = false -> 0 < D ->
  exists evs,
    run cfg D nref npeer rs = (false, EDrift (c_interval cfg) D :: EDrift (c_interval cfg) D :: evs) /\ history cfg (cap (c_ref cfg) D) (cap (c_peer cfg) D) nref npeer rs (repeat 0 nref) (repeat 0 (peer_slots npeer)) evs.
Proof. exact run_history_cases. Qed.
Print Assumptions C01_history_case_analysis.

(* the case analysis for one round and all aggregated offsets *)
Theorem C01_round_case_analysis : forall cfg rm pm nref npeer ro po, cap_ok rm -> cap_ok pm -> fle rm pm = true ->
  in_i64 ro -> in_i64 po -> corr_cases cfg rm pm nref npeer ro po (Sync.round cfg rm pm nref npeer ro po).
Proof. exact round_cases. Qed.
Print Assumptions C01_round_case_analysis.

(* timemath.Midpoint is exact and stays between its arguments when their difference is an int64 *)
Theorem C01_midpoint_no_wrap : forall x y, in_i64 x -> in_i64 y -> Z.abs (y - x) <= max_i64 ->
  midpoint x y = x + Z.quot (y - x) 2 /\ Z.abs (midpoint x y) <= Z.max (Z.abs x) (Z.abs y).
Proof. exact midpoint_nowrap. Qed.
Print Assumptions C01_midpoint_no_wrap.

(* One round, for all aggregated offsets of the whole int64 range: the correction is the bounded
   reference value, the bounded peer value, their midpoint, or 0, according to who contributes *)
Theorem C01_round_cases : forall cfg rm pm nref npeer ro po, cap_ok rm -> cap_ok pm -> in_i64 ro -> in_i64 po ->
  Sync.round cfg rm pm nref npeer ro po =
  match negb (Nat.eqb nref 0), contributes cfg npeer po with
  | true, false => Sync.bounded rm ro
  | false, true => Sync.bounded pm po
  | true, true => midpoint (Sync.bounded rm ro) (Sync.bounded pm po)
  | false, false => 0
  end.
Proof. exact round_shape. Qed.
Print Assumptions C01_round_cases.

(* the bounded value of any offset is within the cap (and is an int64) *)
Theorem C01_bounded_within_cap : forall mx off, cap_ok mx -> in_i64 off ->
  within (Sync.bounded mx off) mx = true /\ in_i64 (Sync.bounded mx off).
Proof. exact bounded_facts. Qed.
Print Assumptions C01_bounded_within_cap.

Theorem C01_round_bounded : forall cfg rm pm nref npeer ro po, cap_ok rm -> cap_ok pm -> fle rm pm = true ->
  in_i64 ro -> in_i64 po -> corr_bounded cfg rm pm nref npeer (Sync.round cfg rm pm nref npeer ro po).
Proof. exact round_bounded. Qed.
Print Assumptions C01_round_bounded.

(* a peer offset within the cutoff contributes nothing *)
Theorem C01_peer_within_cutoff_contributes_nothing : forall cfg rm pm nref npeer ro po,
  cap_ok rm -> cap_ok pm -> in_i64 ro -> in_i64 po -> po <> min_i64 -> Z.abs po <= c_cutoff cfg ->
  Sync.round cfg rm pm nref npeer ro po = match nref with O => 0 | S _ => Sync.bounded rm ro end.
Proof. exact cutoff_contributes_nothing. Qed.
Print Assumptions C01_peer_within_cutoff_contributes_nothing.

(* stale values: a measurement slice whose old values and whose arrivals of this round are all within the cutoff
   (and below 2^62 ns) yields an aggregated offset within the cutoff, and stays such a slice: peers that have never
   been beyond the cutoff contribute nothing, however many of them fail *)
Theorem C01_stale_peers_within_cutoff : forall cfg old arr s' o,
  peer_small cfg 0 = true -> Forall (fun v => peer_small cfg v = true) old -> Forall (fun v => peer_small cfg v = true) arr ->
  measure old arr = (s', o) -> Forall (fun v => peer_small cfg v = true) s' /\ peer_small cfg o = true.
Proof. exact measure_small. Qed.
Print Assumptions C01_stale_peers_within_cutoff.

(* the oracle with the clause about peers within the cutoff switched off (scenarios that leave open which answers
   were counted) holds for every run as well *)
Theorem C01_run_oracle_env : forall env cfg D nref npeer rs, in_i64 (c_interval cfg) -> in_i64 D ->
  C01_ok_env env cfg nref npeer rs (run cfg D nref npeer rs) = true.
Proof. exact run_oracle_env. Qed.
Print Assumptions C01_run_oracle_env.

(* the round-level oracle holds for every pair of offsets, whatever the oracle knows about them (pe: it has seen
   every peer answer counted so far within the cutoff - then so is the aggregated peer offset, C01_stale_peers_within_cutoff) *)
Theorem C01_round_oracle : forall cfg rm pm nref npeer pe ro po kr kp,
  cap_ok rm -> cap_ok pm -> in_i64 ro -> in_i64 po ->
  (kr = None \/ kr = Some ro) -> (kp = None \/ (kp = Some po /\ po <> min_i64)) ->
  (pe = true -> peer_small cfg po = true) ->
  round_ok cfg rm pm nref npeer pe kr kp (Sync.round cfg rm pm nref npeer ro po) = true.
Proof. exact round_ok_model. Qed.
Print Assumptions C01_round_oracle.

(* caps below 2^53 ns: "within" is exactly |c| <= floor(cap) *)
Theorem C01_bound_exact_below_2p53 : forall c mx,
  is_finite mx = true -> (0 < B2R mx < IZR (2^53))%R -> Z.abs c <= 2^64 ->
  (within c mx = true <-> Z.abs c <= Zfloor (B2R mx)).
Proof. exact within_exact. Qed.
Print Assumptions C01_bound_exact_below_2p53.

(* ... and the cap is the correctly rounded product impact factor x D *)
Theorem C01_cap_is_rounded_product : forall f D, is_finite f = true -> Z.abs D <= 2^53 -> is_finite (cap f D) = true ->
  B2R (cap f D) = RN (B2R f * IZR D).
Proof. exact cap_real. Qed.
Print Assumptions C01_cap_is_rounded_product.

(* for admissible factors the reference cap never exceeds the peer cap *)
Theorem C01_caps_ordered : forall cfg D,
  inadmissible cfg = false -> in_i64 D -> 0 < D -> fle (cap (c_ref cfg) D) (cap (c_peer cfg) D) = true.
Proof. exact caps_ordered. Qed.
Print Assumptions C01_caps_ordered.

(* the clamp fires only when the cap is below 2^63: the conversion back to int64 never overflows *)
Theorem C01_clamp_no_conversion_overflow : forall mx off, is_finite mx = true -> (0 < B2R mx)%R -> in_i64 off ->
  exceeds off mx = true ->
  (B2R mx < IZR two63)%R /\ clamp mx off = sgn off * Zfloor (B2R mx) /\ in_i64 (clamp mx off).
Proof. exact clamp_no_conversion_overflow. Qed.
Print Assumptions C01_clamp_no_conversion_overflow.

(* the measurement slices: a round's slice keeps its length, and when every source answered in time
   the aggregated offset is the fault-tolerant midpoint of this round's values alone *)
Theorem C01_fresh_round_is_ftm : forall old arr, length arr = length old -> old <> [] ->
  measure old arr = (zsort arr, ftm_sorted (zsort arr)) /\ ftm arr = Some (ftm_sorted (zsort arr)).
Proof. exact measure_full. Qed.
Print Assumptions C01_fresh_round_is_ftm.

Theorem C01_stale_round_still_int64 : forall old arr s' o, measure old arr = (s', o) -> length s' = length old /\ in_i64 o.
Proof. exact measure_facts. Qed.
Print Assumptions C01_stale_round_still_int64.

(* SystemClock.Drift with the configured drift 0 (clocks.UnknownDrift) reports MaxInt64: the caps are then
   beyond every int64 and nothing is ever clamped - the bound holds trivially. *)
Theorem C01_unknown_drift_is_maxint : forall d, sysclk_drift 0 d = max_i64.
Proof. exact unknown_drift. Qed.
Print Assumptions C01_unknown_drift_is_maxint.

(* SystemClock.Drift is drift x interval: for every int64 drift (ns per s) and every int64 interval the model of
   Drift (six float64 roundings, one truncation) satisfies the drift oracle, i.e. for 0 < drift_ns, 0 < interval,
   drift_ns * interval < 2^62 * 1e9:  |D * 1e9 - drift_ns * interval| * 2^48 <= 1e9 * 2^48 + drift_ns * interval
   (1 ns + 2^-48 relative); outside that range the oracle asks nothing. *)
Theorem C01_drift_close : forall drift_ns interval, in_i64 drift_ns -> in_i64 interval ->
  C01_drift_ok drift_ns interval (sysclk_drift drift_ns interval) = true.
Proof. exact sysclk_drift_close. Qed.
Print Assumptions C01_drift_close.

(* the same, readable and four times sharper than the oracle needs (2^-50 relative): Drift is a non-negative
   int64 within 1 ns + 2^-50 x of the exact allowance drift_ns * interval / 1e9 ns *)
Theorem C01_drift_within_1ns_2p50 : forall drift_ns interval,
  0 < drift_ns <= max_i64 -> 0 < interval <= max_i64 -> drift_ns * interval < 2^62 * 1000000000 ->
  let D := sysclk_drift drift_ns interval in
  0 <= D <= max_i64 /\ Z.abs (D * 1000000000 - drift_ns * interval) * 2^50 <= 1000000000 * 2^50 + drift_ns * interval.
Proof. exact sysclk_drift_bound. Qed.
Print Assumptions C01_drift_within_1ns_2p50.

(* in real numbers: Drift is the floor of a number P within 2^-50 (relative) of drift_ns * interval / 1e9; in
   particular Drift never exceeds the exact allowance by more than that factor (the truncation only lowers it) *)
Theorem C01_drift_is_floor_of_near_product : forall drift_ns interval,
  0 < drift_ns <= max_i64 -> 0 < interval <= max_i64 -> drift_ns * interval < 2^62 * 1000000000 ->
  exists P : R, sysclk_drift drift_ns interval = (Zfloor P) /\ (IZR (drift_ns * interval) / 1000000000 * (1 - / 1125899906842624) <= P <= IZR (drift_ns * interval) / 1000000000 * (1 + / 1125899906842624))%R.
Proof. exact sysclk_drift_real. Qed.
Print Assumptions C01_drift_is_floor_of_near_product.

(* an allowance above 1 ns per round is reported as a positive Drift (Run starts); below 1 ns Drift is 0 (Run refuses) *)
Theorem C01_drift_positive_above_1ns : forall drift_ns interval,
  0 < drift_ns <= max_i64 -> 0 < interval <= max_i64 -> drift_ns * interval < 2^62 * 1000000000 ->
  (1000000000 < drift_ns * interval -> 0 < sysclk_drift drift_ns interval) /\ (drift_ns * interval < 1000000000 -> sysclk_drift drift_ns interval = 0).
Proof. exact sysclk_drift_pos. Qed.
Print Assumptions C01_drift_positive_above_1ns.

(* End to end for the real SystemClock: a correction c that passes the code's comparison against the cap
   factor (x) float64(Drift(interval)) is bounded by the EXACT product factor x drift x interval (drift in ns/s,
   interval in ns, result in ns) up to 2^-49 relative - the nine roundings of Drift, of the cap and of the
   comparison together.  (1 <= factor: admissible factors exceed 1.) *)
Theorem C01_bound_vs_exact_product : forall f drift_ns interval c,
  is_finite f = true -> (1 <= B2R f)%R ->
  0 < drift_ns <= max_i64 -> 0 < interval <= max_i64 -> drift_ns * interval < 2^62 * 1000000000 -> Z.abs c <= 2^64 ->
  is_finite (cap f (sysclk_drift drift_ns interval)) = true -> within c (cap f (sysclk_drift drift_ns interval)) = true ->
  (IZR (Z.abs c) <= B2R f * (IZR (drift_ns * interval) / 1000000000) * (1 + / 562949953421312))%R.
Proof. exact within_cap_exact_product. Qed.
Print Assumptions C01_bound_vs_exact_product.

(* The configuration path (timeservice.go clockDrift / syncConfig, Model/SyncConfig.v): the model satisfies the
   configuration oracle for all six settings, present or omitted, of any float64 value *)
Theorem C01_config_oracle : forall drift ref peer cutoff timeout interval,
  let cfg := sync_config ref peer cutoff timeout interval in
  match clock_drift drift with
  | None => C01_config_ok drift ref peer cutoff timeout interval true 0 fzero fzero 0 0 0 = true
  | Some d => C01_config_ok drift ref peer cutoff timeout interval false d (c_ref cfg) (c_peer cfg)
                            (c_cutoff cfg) (c_timeout cfg) (c_interval cfg) = true
  end.
Proof. exact config_oracle. Qed.
Print Assumptions C01_config_oracle.

(* the settings are in seconds, the service works in nanoseconds: timemath.Duration(x) is within 1 ns + 2^-52 (relative)
   of x * 10^9 for every float64 x with |x * 10^9| < 2^62, and it is 0 only for |x * 10^9| < 1 (nanos_close and sub_ns
   state this in integers on the exact value m * 2^e of x) *)
Theorem C01_config_seconds_to_ns : forall x,
  nanos_close x (dur_of_seconds x) = true /\ (dur_of_seconds x = 0 -> is_finite x = true -> sub_ns x = true).
Proof. exact dur_of_seconds_spec. Qed.
Print Assumptions C01_config_seconds_to_ns.

(* "Settings that would void the bound are refused at start-up", for the configured drift: clockDrift accepts a
   setting only if it is 0 / omitted (the documented unknown drift) or arrives as a POSITIVE number of ns per s; a
   positive drift below 1 ns/s used to be truncated to 0 = clocks.UnknownDrift (Drift = MaxInt64, nothing clamped)
   and is refused now, as are NaN and values beyond the int64 range *)
Theorem C01_accepted_drift_positive : forall x d, clock_drift x = Some d ->
  (feq (setting x) fzero = true /\ d = 0) \/ (fgt (setting x) fzero = true /\ 0 < d).
Proof. exact accepted_drift_positive. Qed.
Print Assumptions C01_accepted_drift_positive.

(* clock_drift = 5e-10 (0.5 ns/s) and clock_drift = nan are refused *)
Theorem C01_sub_ns_drift_refused :
  clock_drift (Some (f_of_bits 4467902934002620053)) = None /\ clock_drift (Some (f_of_bits 9221120237041090560)) = None.
Proof. exact sub_ns_drift_refused. Qed.
Print Assumptions C01_sub_ns_drift_refused.

(* nothing configured: the defaults 1.25 / 2.5 / 50 us / 500 ms / 1 s, accepted by Run; the drift is UnknownDrift *)
Theorem C01_config_defaults_admissible :
  sync_config None None None None None = mkcfg default_ref default_peer 50000 500000000 1000000000 /\ inadmissible (sync_config None None None None None) = false /\ clock_drift None = Some 0.
Proof. exact config_defaults. Qed.
Print Assumptions C01_config_defaults_admissible.

(* a NaN written into the configuration file - as a factor, as the interval or as the timeout - ends in a
   configuration that Run refuses (a NaN cutoff becomes MinInt64 ns: every peer offset is beyond it, which does not
   touch the bound) *)
Theorem C01_config_nan_refused : forall ref peer cutoff timeout interval,
  fis_nan (setting ref) = true \/ fis_nan (setting peer) = true \/ fis_nan (setting interval) = true \/ fis_nan (setting timeout) = true ->
  inadmissible (sync_config ref peer cutoff timeout interval) = true.
Proof. exact config_nan_refused. Qed.
Print Assumptions C01_config_nan_refused.

(* Observation: an omitted (or zero) clock_drift is clocks.UnknownDrift; Drift then reports MaxInt64 for every
   interval (C01_unknown_drift_is_maxint), both caps exceed the int64 range and nothing is ever clamped: with the
   drift left unconfigured the bound of C01 is void by configuration ("drift > 0" is part of the quantifier). *)
Theorem C01_config_unknown_drift : forall d, clock_drift None = Some 0 /\ sysclk_drift 0 d = max_i64.
Proof. exact config_unknown_drift. Qed.
Print Assumptions C01_config_unknown_drift.

(* Boundary observation: with a drift allowance of 3e18 ns per round (95 years) and the default factors the
   two bounded values are further apart than 2^63, Midpoint wraps and the correction leaves the peer cap. *)
Theorem C01_midpoint_refuted_beyond_2p62 :
  inadmissible wit_cfg = false /\ 0 < wit_D /\ in_i64 wit_D /\
  flt (cap (c_peer wit_cfg) wit_D) (f_of_int two63) = true /\
  flt (cap (c_peer wit_cfg) wit_D) two62f = false /\
  within (Sync.round wit_cfg (cap (c_ref wit_cfg) wit_D) (cap (c_peer wit_cfg) wit_D) 1 1 min_i64 5473372036854775808)
         (cap (c_peer wit_cfg) wit_D) = false.
Proof. exact midpoint_wraps_beyond_2p62. Qed.
Print Assumptions C01_midpoint_refuted_beyond_2p62.

(* the hypotheses of the theorems above are satisfiable (the service's default factors, drift 100 us per round) *)
Example C01_hypotheses_inhabited :
  is_finite (c_ref wit_cfg) = true /\ is_finite (c_peer wit_cfg) = true /\ inadmissible wit_cfg = false /\
  cap_ok (cap (c_ref wit_cfg) 100000) /\ flt (cap (c_peer wit_cfg) 100000) two62f = true.
Proof. exact history_hypotheses_inhabited. Qed.

(* the hypotheses of the drift theorems are satisfiable: drift 50 us/s, interval 1 s *)
Example C01_drift_hypotheses_inhabited :
  sysclk_drift 50000 1000000000 = 50000 /\ C01_drift_ok 50000 1000000000 50000 = true /\ C01_drift_ok 50000 1000000000 50002 = false.
Proof. exact sysclk_drift_close_inhabited. Qed.

Example C01_bound_vs_exact_product_inhabited :
  let f := c_peer wit_cfg in
  is_finite f = true /\ flt fone f = true /\ sysclk_drift 50000 1000000000 = 50000 /\ is_finite (cap f (sysclk_drift 50000 1000000000)) = true /\ within 1000 (cap f (sysclk_drift 50000 1000000000)) = true.
Proof. exact within_cap_exact_product_inhabited. Qed.
