(* C08 — no network input can crash or hang a listener or a client.
   Statements only; models in Model/Total.v, proofs in Proofs/TotalProofs.v.
   "safe o" = the outcome o is neither Panic (process death: the receive loops have no recover)
   nor OutOfFuel (a loop that does not come back to the socket).  Every theorem quantifies over
   ALL byte lists (list elements are read mod 256) and over all answers of the calls that leave
   the project (AES-SIV open, key provider, SCION key fetch and MAC comparison). *)
From ST Require Import Base.Ints Model.Total Proofs.TotalProofs.
Open Scope Z_scope.

(* ---- decoders: total on all inputs ---- *)

Theorem C08_ntp_decode_total : forall b, safe (ntp_decode b).
Proof. exact ntp_decode_total. Qed.
Print Assumptions C08_ntp_decode_total.

Theorem C08_csptp_message_total : forall b, safe (csptp_decode_message b).
Proof. exact csptp_decode_message_total. Qed.
Print Assumptions C08_csptp_message_total.

Theorem C08_csptp_request_tlv_total : forall b, safe (csptp_decode_request_tlv b).
Proof. exact csptp_decode_request_tlv_total. Qed.
Print Assumptions C08_csptp_request_tlv_total.

Theorem C08_csptp_response_tlv_total : forall b, safe (csptp_decode_response_tlv b).
Proof. exact csptp_decode_response_tlv_total. Qed.
Print Assumptions C08_csptp_response_tlv_total.

(* ServerCookie.Decode and EncryptedServerCookie.Decode: fuel = length of the input suffices *)
Theorem C08_server_cookie_decode_total : forall b, safe (server_cookie_decode b).
Proof. exact server_cookie_decode_total. Qed.
Print Assumptions C08_server_cookie_decode_total.

Theorem C08_encrypted_cookie_decode_total : forall b, safe (encrypted_cookie_decode b).
Proof. exact encrypted_cookie_decode_total. Qed.
Print Assumptions C08_encrypted_cookie_decode_total.

(* Decrypt: for every cipher, key, nonce (of any length) and ciphertext *)
Theorem C08_cookie_decrypt_total : forall aopen key nonce ct, safe (cookie_decrypt aopen key nonce ct).
Proof. exact cookie_decrypt_total. Qed.
Print Assumptions C08_cookie_decrypt_total.

(* nts.DecodePacket: never panics and the extension-field walk ends within length b iterations *)
Theorem C08_nts_decode_total : forall b, safe (nts_decode b).
Proof. exact nts_decode_total. Qed.
Print Assumptions C08_nts_decode_total.

(* ProcessRequest / authenticate on a decoded packet, for every key and every cipher: the slice
   b[:Auth.pos], the nonce handed to Open, and the walk over the decrypted fields *)
Theorem C08_nts_authenticate_total : forall aopen b key p,
  nts_decode b = Ok p -> safe (nts_authenticate aopen b key p).
Proof. exact nts_authenticate_total. Qed.
Print Assumptions C08_nts_authenticate_total.

(* ProcessResponse (client side) *)
Theorem C08_nts_process_response_total : forall aopen b key reqid p,
  nts_decode b = Ok p -> safe (nts_process_response aopen b key reqid p).
Proof. exact nts_process_response_total. Qed.
Print Assumptions C08_nts_process_response_total.

(* the walk over decrypted fields on its own, for every plaintext an attacker may have sealed *)
Theorem C08_nts_walk_total : forall d acc, safe (nts_walk (length d) d 0 acc).
Proof. exact nts_walk_total_all. Qed.
Print Assumptions C08_nts_walk_total.

(* a decoded request has a unique identifier of 32..944 bytes ... *)
Theorem C08_nts_decoded_uid_bound : forall b p u,
  nts_decode b = Ok p -> np_uid p = Some u -> 32 <= blen u <= 944.
Proof. exact nts_decode_uid_bound. Qed.
Print Assumptions C08_nts_decoded_uid_bound.

(* ... and for such an identifier the reply (NewResponsePacket + EncodePacket) is encoded without
   a panic, however many cookies were asked for; the listener's own cookies have a length that is a
   multiple of four (124 bytes) *)
Theorem C08_nts_server_reply_total : forall idlen n clen,
  32 <= idlen <= 944 -> 1 <= n -> 0 <= clen -> clen mod 4 = 0 -> is_ok (nts_server_reply idlen n clen).
Proof. exact nts_server_reply_ok. Qed.
Print Assumptions C08_nts_server_reply_total.

Example C08_nts_server_reply_example : nts_server_reply 32 8 124 = Ok 1020.
Proof. vm_compute. reflexivity. Qed.

(* the bounds of DecodePacket are what keeps EncodePacket total: a 16-byte identifier (accepted
   before fix 9c285be) makes it panic *)
Theorem C08_nts_server_reply_needs_uid_check : nts_server_reply 16 1 124 = Panic.
Proof. vm_compute. reflexivity. Qed.
Print Assumptions C08_nts_server_reply_needs_uid_check.

(* NTS-KE ReadData on every finite stream *)
Theorem C08_ntske_read_data_total : forall s, safe (ntske_read_data s).
Proof. exact ntske_read_data_total. Qed.
Print Assumptions C08_ntske_read_data_total.

(* udp.TimestampFromOOBData on every control-message buffer (the SCION client hands it an option
   from the network) *)
Theorem C08_timestamp_from_oob_total : forall oob, safe (timestamp_from_oob oob).
Proof. exact timestamp_from_oob_total. Qed.
Print Assumptions C08_timestamp_from_oob_total.

(* PacketAuthOptMetadata / PacketAuthOptMAC behind the length guard of their call sites *)
Theorem C08_auth_option_site_total : forall d, safe (auth_opt_site d).
Proof. exact auth_opt_site_total. Qed.
Print Assumptions C08_auth_option_site_total.

Theorem C08_auth_option_needs_guard : forall d, blen d <> 28 -> auth_opt_metadata d = Panic.
Proof. exact auth_opt_metadata_panics. Qed.
Print Assumptions C08_auth_option_needs_guard.

(* ---- receive loops ---- *)

(* one iteration of runIPServer: for every datagram, every cipher and key-provider answer, it ends
   with a decision (drop or reply) and leaves the goroutine's state as it was *)
Theorem C08_ip_server_step_progress : forall env st d,
  wf_env env -> exists a, ip_server_step env st d = Ok (st, a).
Proof. exact ip_server_step_ok. Qed.
Print Assumptions C08_ip_server_step_progress.

(* every history of datagrams is served to its end: no crash, no hang, one decision per datagram *)
Theorem C08_ip_server_run_served : forall env, wf_env env -> forall h st,
  exists acts, ip_server_run env st h [] = Served acts /\ length acts = length h.
Proof. exact ip_server_run_served_all. Qed.
Print Assumptions C08_ip_server_run_served.

(* malformed input is dropped and the next well-formed request on the socket is still answered *)
Theorem C08_sentinel_answered : forall env, wf_env env -> forall h s st,
  well_formed_request s -> blen s <= ls_cap st ->
  exists acts, length acts = length h /\ ip_server_run env st (h ++ [s]) [] = Served (acts ++ [Reply 48]).
Proof. exact sentinel_answered. Qed.
Print Assumptions C08_sentinel_answered.

Example C08_wf_env_example : wf_env {| env_open := fun _ _ _ _ => None; env_key := fun _ => None; env_cookie_len := 124 |}.
Proof. split; vm_compute; [discriminate|reflexivity]. Qed.
Example C08_well_formed_example : well_formed_request (35 :: repeat 0 47).
Proof. split; vm_compute; reflexivity. Qed.

(* the CSPTP listener (either port) and the CSPTP client decide on every datagram *)
Theorem C08_csptp_server_step_progress : forall port d, is_ok (csptp_server_step port d).
Proof. exact csptp_server_step_ok. Qed.
Print Assumptions C08_csptp_server_step_progress.

Theorem C08_csptp_client_step_progress : forall seq fe fg d, is_ok (csptp_client_step seq fe fg d).
Proof. exact csptp_client_step_ok. Qed.
Print Assumptions C08_csptp_client_step_progress.

(* runSCIONServer over every result the layer parser can deliver (decoded layers, address lengths,
   UDP length field, path reversal, authenticator option of any length, any payload) and every
   answer of key fetch and MAC comparison: drop, echo, forward or reply.
   Partial: gopacket/slayers parsing and the serialisation of the reply (SerializeTo, answered by
   panic(err) in the code) are outside the model. *)
Theorem C08_scion_server_step_progress_partial : forall env p,
  wf_env (se_ip env) -> 0 <= sp_udplen p -> is_ok (scion_server_step env p).
Proof. exact scion_server_step_ok. Qed.
Print Assumptions C08_scion_server_step_progress_partial.

(* ---- the oracle evaluated on implementation observations accepts the model ---- *)

Theorem C08_model_meets_oracle_decoders : forall b aopen key nonce ct,
  C08_class_ok (class_of (ntp_decode b)) = true /\
  C08_class_ok (class_of (csptp_decode_message b)) = true /\
  C08_class_ok (class_of (csptp_decode_request_tlv b)) = true /\
  C08_class_ok (class_of (csptp_decode_response_tlv b)) = true /\
  C08_class_ok (class_of (server_cookie_decode b)) = true /\
  C08_class_ok (class_of (encrypted_cookie_decode b)) = true /\
  C08_class_ok (class_of (cookie_decrypt aopen key nonce ct)) = true /\
  C08_class_ok (class_of (nts_decode b)) = true /\
  C08_class_ok (class_of (ntske_read_data b)) = true /\
  C08_class_ok (class_of (timestamp_from_oob b)) = true /\
  C08_class_ok (class_of (auth_opt_site b)) = true.
Proof. exact model_meets_oracle_decoders. Qed.
Print Assumptions C08_model_meets_oracle_decoders.

(* ---- the request encoder of the clients ---- *)

(* The cookies a client holds come from the network (NTS-KE Cookie records, cookie fields inside
   authenticated NTS replies).  Fetcher.exchangeKeys and Fetcher.StoreCookie keep only cookies of
   at most ntske.MaxCookieLen = 896 bytes (fix df23410); for those NewRequestPacket + EncodePacket
   never panic (the proof covers up to 928 bytes; beyond 896 the packet would be cut at 1024). *)
Theorem C08_nts_client_request_total : forall navail clen,
  1 <= navail -> 0 <= clen <= 896 -> is_ok (nts_client_request navail clen).
Proof. exact nts_client_request_ok_896. Qed.
Print Assumptions C08_nts_client_request_total.

Example C08_nts_client_request_example : nts_client_request 1 896 = Ok 1024.
Proof. vm_compute. reflexivity. Qed.

(* the bound kept by the fetcher is needed: with a cookie of 929 bytes EncodePacket indexes past
   its 1024-byte buffer (the defect this check found in the pinned tree) *)
Theorem C08_nts_client_request_needs_cookie_bound : exists navail clen,
  1 <= navail /\ 0 <= clen < 65536 /\ nts_client_request navail clen = Panic.
Proof. exact nts_client_request_refuted. Qed.
Print Assumptions C08_nts_client_request_needs_cookie_bound.
