(* C17 — Offset filters implement their selection rule and reset cleanly. *)
From ST Require Import Base.Ints Base.Value Base.Sorting Base.F64 Model.NtpTime Model.Ftm Model.Lucky Model.Ntimed
  Proofs.LuckyProofs Proofs.NtimedProofs Proofs.NtimedFloat.
From Coq Require Import ZArith List Sorting.Permutation.
Import ListNotations.
Open Scope Z_scope.

(* ================= lucky-packet filter ================= *)

(* Selection rule.  w is the window, s1 ANY slice the (unstable) sort by round-trip
   delay may leave behind (a sorted permutation of w).  With pairwise distinct delays
   the value Do returns is the median of the offsets of the k lowest-delay samples of
   the window ("lowest" is defined by rank, not by sorting). *)
Theorem C17_lucky_spec : forall pick w s1,
  rtd_sorted_perm w s1 -> NoDup (map l_rtd w) ->
  lucky_out_of pick w s1 = median_sorted (zsort (map l_off (lowest pick w))).
Proof. exact lucky_selection_rule. Qed.
Print Assumptions C17_lucky_spec.

(* ... and therefore equals what the executable model (insertion sort) computes *)
Theorem C17_lucky_sort_choice_irrelevant : forall pick w s1,
  rtd_sorted_perm w s1 -> NoDup (map l_rtd w) ->
  lucky_out_of pick w s1 = lucky_result (lucky_select pick w).
Proof. exact lucky_sort_choice_irrelevant. Qed.
Print Assumptions C17_lucky_sort_choice_irrelevant.

(* the hypotheses are satisfiable: three samples with distinct delays *)
Example C17_lucky_spec_example :
  let w := [ {| l_stamp := 0; l_off := 5; l_rtd := 40 |}; {| l_stamp := 1; l_off := 6; l_rtd := 42 |};
             {| l_stamp := 2; l_off := 1; l_rtd := 10 |} ] in
  rtd_sorted_perm w (isort l_rtd w) /\ NoDup (map l_rtd w) /\ lucky_out_of 1 w (isort l_rtd w) = 1
  /\ lucky_out_of 2 w (isort l_rtd w) = 3.
Proof.
  cbv zeta. split; [apply isort_rtd_sorted_perm|]. split; [apply distinctb_NoDup; reflexivity|].
  split; vm_compute; reflexivity.
Qed.

(* Window.  After any history the stored window is the last N samples seen since the last Reset
   (configured: capacity N, pick min(k,N), state = last N of the samples accumulated so far). *)
Theorem C17_lucky_window : forall cap pick, (0 < cap)%nat ->
  forall ops f acc, configured cap pick f acc ->
  forall f', lucky_after f ops = Some f' -> configured cap pick f' (since_reset acc ops).
Proof. exact lucky_window. Qed.
Print Assumptions C17_lucky_window.

(* The constructor refuses exactly the non-positive arguments (the Go code panics). *)
Theorem C17_lucky_new_total : forall cap pick, lucky_new cap pick = None <-> cap <= 0 \/ pick <= 0.
Proof. exact lucky_new_total. Qed.
Print Assumptions C17_lucky_new_total.

(* Main statement: for ALL capacities, pick counts and histories of Do/Reset the configured filter
   never panics and every output is accepted by the property oracle (median offset of the
   min(k,N) lowest-delay samples among the last N since the last reset, whenever the delays in the
   window are pairwise distinct and the offsets are below 2^62 in magnitude). *)
Theorem C17_lucky_oracle : forall cap pick f ops, lucky_new cap pick = Some f ->
  exists outs, lucky_run f ops = Some outs /\ C17_lucky_ok (Z.to_nat cap) (Z.to_nat pick) ops outs = true.
Proof. exact lucky_new_meets_oracle. Qed.
Print Assumptions C17_lucky_oracle.

(* unconfigured (&LuckyPacketFilter{}): every Do returns the raw offset ntp.ClockOffset *)
Theorem C17_lucky_unconfigured : forall ops acc,
  exists outs, lucky_run lucky_zero ops = Some outs /\ C17_lucky_ok_from 0 0 acc ops outs = true.
Proof. exact unconfigured_run. Qed.
Print Assumptions C17_lucky_unconfigured.

Theorem C17_lucky_unconfigured_raw : forall s, lucky_do lucky_zero s = Some (lucky_zero, raw_offset s).
Proof. exact unconfigured_raw. Qed.
Print Assumptions C17_lucky_unconfigured_raw.

(* Reset: whatever two equally configured filters held before, what follows a Reset is the same. *)
Theorem C17_lucky_reset : forall f1 f2 ops,
  lk_cap f1 = lk_cap f2 -> lk_pick f1 = lk_pick f2 ->
  lucky_run f1 (LReset :: ops) = lucky_run f2 (LReset :: ops).
Proof. exact lucky_reset_forgets. Qed.
Print Assumptions C17_lucky_reset.

(* Reset equals fresh: the filter returned by NewLuckyPacketFilter(cap, pick), taken through ANY history
   pre and then Reset, answers every further history exactly like a filter just constructed. *)
Theorem C17_lucky_reset_fresh : forall cap pick f0 pre f ops,
  lucky_new cap pick = Some f0 -> lucky_after f0 pre = Some f ->
  lucky_run f (LReset :: ops) = lucky_run f0 ops.
Proof. exact lucky_reset_equals_new. Qed.
Print Assumptions C17_lucky_reset_fresh.

(* ... and for ALL states (not only reachable ones): Reset leaves the empty window of the same configuration *)
Theorem C17_lucky_reset_state : forall f, lucky_reset f = lucky_fresh (lk_cap f) (lk_pick f).
Proof. exact lucky_reset_is_fresh. Qed.
Print Assumptions C17_lucky_reset_state.

(* Ties (equal round-trip delays; outside the property's quantifier).  slices.SortFunc on at most 12 elements
   is insertionSortCmpFunc (go_isort models its loop literally).  It is the stable sort: the samples of any
   one delay d stay in window order, so among equal delays the OLDER samples are the ones kept, and the
   executable model computes exactly the filter's output.  Longer windows with ties go through pdqsort
   proper and are compared by contract (any sorted permutation). *)
Theorem C17_lucky_ties : forall pick w,
  go_isort l_rtd w = isort l_rtd w /\
  (forall d, filter (fun m => l_rtd m =? d) (go_isort l_rtd w) = filter (fun m => l_rtd m =? d) w) /\
  lucky_out_of pick w (go_isort l_rtd w) = lucky_result (lucky_select pick w).
Proof. exact lucky_ties_small. Qed.
Print Assumptions C17_lucky_ties.

(* two samples of equal delay, one lucky packet: the older one's offset is returned *)
Example C17_lucky_ties_example :
  let w := [ {| l_stamp := 0; l_off := 5; l_rtd := 10 |}; {| l_stamp := 1; l_off := 6; l_rtd := 10 |};
             {| l_stamp := 2; l_off := 1; l_rtd := 40 |} ] in
  lucky_out_of 1 w (go_isort l_rtd w) = 5 /\ lucky_result (lucky_select 1 w) = 5.
Proof. vm_compute. split; reflexivity. Qed.

(* ================= Ntimed filter ================= *)

(* raw_f s = Inv(Duration((lo+hi)/2)) in binary64 is a function of the sample alone.
   Warm-up: every Do that is at most the third since the last reset point (explicit Reset, or a Do
   under a new clock epoch; since_counts counts them from the history alone) returns raw_f. *)
Theorem C17_ntimed_raw_young : forall ops,
  Forall2 (fun (i : nt_info) (cs : nat * sample) => (fst cs <= 3)%nat -> ni_out i = raw_f (snd cs))
          (nt_trace (nt_zero 0) ops) (combine (since_counts 0 0 ops) (do_samples ops)).
Proof. exact young_raw_fresh. Qed.
Print Assumptions C17_ntimed_raw_young.

(* Within the learned bounds (neither lo < loLim nor hi > hiLim), in ANY state, under any epoch. *)
Theorem C17_ntimed_raw_within : forall f e s,
  ni_fail_lo (nt_do_info f e s) = false -> ni_fail_hi (nt_do_info f e s) = false ->
  ni_out (nt_do_info f e s) = raw_f s.
Proof. exact within_bounds_raw. Qed.
Print Assumptions C17_ntimed_raw_within.

(* (also when both limits are violated) *)
Theorem C17_ntimed_raw_both : forall f e s,
  ni_fail_lo (nt_do_info f e s) = true -> ni_fail_hi (nt_do_info f e s) = true ->
  ni_out (nt_do_info f e s) = raw_f s.
Proof. exact both_limits_raw. Qed.
Print Assumptions C17_ntimed_raw_both.

(* Reset / clock step: from a reset point on, the outputs do not depend on the state the filter was in. *)
Theorem C17_ntimed_reset : forall f1 f2 op rest,
  is_reset_point (nt_epoch f1) op = true -> is_reset_point (nt_epoch f2) op = true ->
  nt_run f1 (op :: rest) = nt_run f2 (op :: rest).
Proof. exact reset_forgets. Qed.
Print Assumptions C17_ntimed_reset.

(* Reset equals fresh: for ALL states f (reachable or not) and all epochs, what follows a Reset is what a new
   filter returns on the same history; the same after a Do under another epoch than the filter's. *)
Theorem C17_ntimed_reset_fresh : forall f e ops, nt_run f (NReset e :: ops) = nt_run (nt_zero 0) ops.
Proof. exact reset_equals_fresh. Qed.
Print Assumptions C17_ntimed_reset_fresh.

Theorem C17_ntimed_reset_state : forall f e, nt_after f [NReset e] = nt_zero e.
Proof. exact reset_state. Qed.
Print Assumptions C17_ntimed_reset_state.

Theorem C17_ntimed_epoch_fresh : forall f e s ops, nt_epoch f <> e ->
  nt_run f (NDo e s :: ops) = nt_run (nt_zero 0) (NDo e s :: ops).
Proof. exact epoch_change_equals_fresh. Qed.
Print Assumptions C17_ntimed_epoch_fresh.

(* ... so replaying every stretch between reset points on a new filter reproduces the outputs *)
Theorem C17_ntimed_restart : forall ops f, nt_run_restarting f ops = nt_run f ops.
Proof. exact restarting_same. Qed.
Print Assumptions C17_ntimed_restart.

(* The hypotheses of C17_ntimed_reset are satisfiable by an explicit Reset and by an epoch change. *)
Example C17_ntimed_reset_example :
  is_reset_point 5 (NReset 5) = true /\
  is_reset_point 5 (NDo 6 {| sm_ctx := 0; sm_srx := 10; sm_stx := 10; sm_crx := 20 |}) = true.
Proof. split; reflexivity. Qed.

(* "Raw offset (correct sign, within float rounding)": raw_f s, computed in binary64 as
   Inv(Duration((lo.Seconds() + hi.Seconds()) / 2)), against the exact integer ntp.ClockOffset.
   Proved from the Flocq semantics of the binary64 operations (every rounding: relative error 2^-53 plus
   the underflow term; float64(int64) exact below 2^53; truncation int64(float64)), for ALL samples whose
   one-way differences lo = cTx - sRx and hi = cRx - sTx are below 2^62 ns (146 years) in magnitude. *)
Theorem C17_ntimed_raw_close : forall s, Z.abs (lo_ns s) < 2^62 -> Z.abs (hi_ns s) < 2^62 ->
  Z.abs (raw_f s - raw_offset s) <= 2 + (Z.abs (lo_ns s) + Z.abs (hi_ns s)) / 2^50.
Proof. exact raw_f_close_Z. Qed.
Print Assumptions C17_ntimed_raw_close.

(* sharper: within one nanosecond while |lo| + |hi| < 2^50 ns (13 days) *)
Theorem C17_ntimed_raw_close_1ns : forall s, Z.abs (lo_ns s) + Z.abs (hi_ns s) < 2^50 ->
  Z.abs (raw_f s - raw_offset s) <= 1.
Proof. exact raw_f_close_1ns. Qed.
Print Assumptions C17_ntimed_raw_close_1ns.

(* correct sign: an exact offset beyond the tolerance keeps its sign *)
Theorem C17_ntimed_raw_sign : forall s, Z.abs (lo_ns s) < 2^62 -> Z.abs (hi_ns s) < 2^62 ->
  (raw_tol s < raw_offset s -> 0 < raw_f s) /\ (raw_offset s < - raw_tol s -> raw_f s < 0).
Proof. exact raw_f_sign. Qed.
Print Assumptions C17_ntimed_raw_sign.

(* The wild range.  Time.Sub saturates, so lo and hi are always int64 values; ntp.ClockOffset adds the two
   saturated differences in int64 and WRAPS (raw_offset).  The Ntimed filter does not wrap: on every sample with
   lo + hi < 2^64 - 2^14 its output is within the same tolerance of the offset over the integers,
   wide_offset s = -(lo + hi) / 2 (including Inv's saturation at +2^63). *)
Theorem C17_wild_saturates : forall s, min_i64 <= lo_ns s <= max_i64 /\ min_i64 <= hi_ns s <= max_i64.
Proof. exact lo_hi_range. Qed.
Print Assumptions C17_wild_saturates.

Theorem C17_ntimed_raw_wide : forall s, in_corner s = false ->
  Z.abs (raw_f s - wide_offset s) <= raw_tol s.
Proof. intros s H. apply raw_f_wide_Z. apply Z.leb_gt. exact H. Qed.
Print Assumptions C17_ntimed_raw_wide.

(* below 2^62 the two references coincide *)
Theorem C17_raw_offset_is_wide : forall s, Z.abs (lo_ns s) < 2^62 -> Z.abs (hi_ns s) < 2^62 -> raw_offset s = wide_offset s.
Proof. exact raw_offset_exact. Qed.
Print Assumptions C17_raw_offset_is_wide.

(* The corner in_corner s: lo + hi >= 2^64 - 2^14 (both one-way differences within 8 us of +292 years): still close, or
   mid * 1e9 rounded to 2^63, int64() of it is -2^63 and Inv returns MaxInt64 (wrong sign: the offset is -2^63). *)
Theorem C17_ntimed_raw_corner : forall s, in_corner s = true ->
  Z.abs (raw_f s - wide_offset s) <= raw_tol s \/ raw_f s = max_i64.
Proof. intros s H. apply raw_f_corner. apply Z.leb_le. exact H. Qed.
Print Assumptions C17_ntimed_raw_corner.

(* the corner exists: both differences saturated; the Ntimed filter says +292 years, ntp.ClockOffset wraps to 0 *)
Example C17_ntimed_corner_example :
  let s := {| sm_ctx := 2^63 + 5; sm_srx := 0; sm_stx := 0; sm_crx := 2^63 + 5 |} in
  lo_ns s = max_i64 /\ hi_ns s = max_i64 /\ raw_f s = max_i64 /\ wide_offset s = - max_i64 /\ raw_offset s = 0.
Proof. vm_compute. repeat split; reflexivity. Qed.

(* FINDING (ntimed-corner-wrong-sign; KNOWN_FINDINGS.txt, case kind ntimed.corner): the clause "correct sign" of
   the property is refuted in the corner.  The sample below (any timestamps are within the property's quantifier)
   has an offset of -(2^63 - 1) ns; the filter's very first output on it is +(2^63 - 1) ns. *)
Theorem C17_ntimed_sign_refuted : exists s,
  wide_offset s < - raw_tol s /\ 0 < raw_f s /\ raw_close s (raw_f s) = false /\
  nt_run (nt_zero 0) [NDo 0 s] = [raw_f s].
Proof.
  exists {| sm_ctx := 2^63 + 5; sm_srx := 0; sm_stx := 0; sm_crx := 2^63 + 5 |}.
  vm_compute. repeat split; reflexivity.
Qed.
Print Assumptions C17_ntimed_sign_refuted.

(* the closeness clause of the property oracle, on every sample outside that corner: against ntp.ClockOffset
   below 2^62 ns, against wide_offset beyond *)
Theorem C17_ntimed_raw_close_oracle : forall s, in_corner s = false -> raw_close s (raw_f s) = true.
Proof. exact raw_f_close. Qed.
Print Assumptions C17_ntimed_raw_close_oracle.

(* Oracle on the model, all histories, given the closeness clause for the samples of the history
   (the form proved before the rounding-error analysis; kept because C17_ntimed_oracle is derived from it). *)
Theorem C17_ntimed_oracle_conditional : forall ops,
  (forall s, In s (do_samples ops) -> raw_close s (raw_f s) = true) ->
  let tr := nt_trace (nt_zero 0) ops in
  C17_ntimed_ok ops (within_of tr) (map ni_out tr) (reset_points 0 0 ops) (nt_run_restarting (nt_zero 0) ops) = true.
Proof. exact ntimed_model_meets_oracle. Qed.
Print Assumptions C17_ntimed_oracle_conditional.

(* Oracle on the model: for ALL histories of Do/Reset with arbitrary epochs and arbitrary timestamps none of whose
   samples lies in the corner lo + hi >= 2^64 - 2^14, the model's outputs are accepted by the property oracle (raw
   offset within float rounding and of the right sign on the first three samples after a reset point and on samples
   within the learned bounds; reset points where the history puts them; outputs equal to those of new filters
   started at every reset point).  Full statement (without the corner hypothesis): refuted, see below. *)
Theorem C17_ntimed_oracle : forall ops,
  (forall s, In s (do_samples ops) -> in_corner s = false) ->
  let tr := nt_trace (nt_zero 0) ops in
  C17_ntimed_ok ops (within_of tr) (map ni_out tr) (reset_points 0 0 ops) (nt_run_restarting (nt_zero 0) ops) = true.
Proof. exact ntimed_model_meets_oracle_all. Qed.
Print Assumptions C17_ntimed_oracle.

(* ... and a one-sample history in the corner on which the oracle rejects the model's (= the filter's) output *)
Theorem C17_ntimed_oracle_refuted : exists ops,
  let tr := nt_trace (nt_zero 0) ops in
  C17_ntimed_ok ops (within_of tr) (map ni_out tr) (reset_points 0 0 ops) (nt_run_restarting (nt_zero 0) ops) = false.
Proof.
  exists [NDo 0 {| sm_ctx := 2^63 + 5; sm_srx := 0; sm_stx := 0; sm_crx := 2^63 + 5 |}].
  vm_compute. reflexivity.
Qed.
Print Assumptions C17_ntimed_oracle_refuted.

(* the reset clause of the oracle holds unconditionally *)
Theorem C17_ntimed_oracle_reset : forall ops,
  let tr := nt_trace (nt_zero 0) ops in
  list_eqb Z.eqb (nt_run_restarting (nt_zero 0) ops) (map ni_out tr) = true.
Proof. exact ntimed_reset_oracle. Qed.
Print Assumptions C17_ntimed_oracle_reset.

(* the bounds of C17_ntimed_raw_close are met by ordinary samples (13 ms out, 47 ms back, offset -17 ms) *)
Example C17_ntimed_close_example :
  let s := {| sm_ctx := 1700000000000000000; sm_srx := 1700000000013000000;
              sm_stx := 1700000000013000000; sm_crx := 1700000000060000000 |} in
  Z.abs (lo_ns s) < 2^62 /\ Z.abs (hi_ns s) < 2^62 /\ raw_close s (raw_f s) = true /\ raw_offset s = -17000000 /\ raw_f s = -17000000.
Proof. vm_compute. repeat split; reflexivity. Qed.

(* ================= service wiring: one filter per client ================= *)

(* The clauses above speak about one filter instance and its own sample stream.  createClocks (observed through
   the wiring hook, case kind svc.filters) must give every client a *client.NtimedFilter of its own: the oracle
   C17_filters_ok accepts the expected observation for every configuration ... *)
Theorem C17_filters_expected : forall kinds npeer,
  let '(counts, types, ids) := svc_expected kinds npeer in
  C17_filters_ok kinds npeer true counts types ids = true.
Proof. exact filters_expected_ok. Qed.
Print Assumptions C17_filters_expected.

(* ... and rejects every observation in which two clients hold the same filter *)
Theorem C17_filters_shared_rejected : forall kinds npeer counts types pre x mid post,
  C17_filters_ok kinds npeer true counts types (pre ++ x :: mid ++ x :: post) = false.
Proof. exact filters_shared_rejected. Qed.
Print Assumptions C17_filters_shared_rejected.
