(* Model of net/nts/nts.go: the extension-field pack/unpack methods, EncodePacket and
   DecodePacket.  The AEAD of the authenticator is outside this property: the nonce
   (rand.Read) and the ciphertext (Seal) are inputs of the encoder model.  No proofs here. *)
From ST Require Import Base.Ints Base.Bytes.
Open Scope Z_scope.

Definition max_packet_len : nat := 1024.
Definition ntp_hdr_len : nat := 48.
Definition ext_unique_id := 260.          (* 0x104 *)
Definition ext_cookie := 516.             (* 0x204 *)
Definition ext_cookie_placeholder := 772. (* 0x304 *)
Definition ext_authenticator := 1028.     (* 0x404 *)

(* ---------- writing into buf at pos ---------- *)

Definition wstate := (list Z * nat)%type.

(* binary.BigEndian.PutUint16(buf[pos:], v): buf[pos:] needs pos <= len, the write 2 bytes *)
Definition put_u16 (st : wstate) (v : Z) : outcome wstate :=
  let '(buf, pos) := st in
  if (length buf <? pos + 2)%nat then Panic else Ok (write buf pos (be_enc 2 v), (pos + 2)%nat).

(* n := copy(buf[pos:], src); pos += n : copies what fits *)
Definition put_copy (st : wstate) (src : list Z) : outcome wstate :=
  let '(buf, pos) := st in
  if (length buf <? pos)%nat then Panic
  else let n := Nat.min (length src) (length buf - pos) in
       Ok (write buf pos (firstn n src), (pos + n)%nat).

(* (n + 3) & ^3 *)
Definition pad4len (n : nat) : nat := ((n + 3) / 4 * 4)%nat.

(* the common body of UniqueIdentifier.pack, Cookie.pack, CookiePlaceholder.pack:
   Length = 4 + uint16(newlen) (uint16 arithmetic), header, value, zero padding *)
Definition field_pack (ty : Z) (st : wstate) (v : list Z) : outcome wstate :=
  let newlen := pad4len (length v) in
  obind (put_u16 st ty) (fun st1 =>
  obind (put_u16 st1 (u16 (4 + u16 (Z.of_nat newlen)))) (fun st2 =>
  obind (put_copy st2 v) (fun st3 =>
  put_copy st3 (repeat 0 (newlen - length v))))).

Definition e_short_uid := 3.

Definition uid_pack (st : wstate) (id : list Z) : outcome wstate :=
  if (length id <? 32)%nat then Err e_short_uid else field_pack ext_unique_id st id.

(* Authenticator.pack with the nonce drawn and the ciphertext sealed:
   noncepadlen := (-nonceLen) % 4 and cipherpadlen likewise, in uint16 arithmetic *)
Definition auth_pack (st : wstate) (nonce ct : list Z) : outcome wstate :=
  let nl := u16 (Z.of_nat (length nonce)) in
  let npad := u16 (- nl) mod 4 in
  let cl := u16 (Z.of_nat (length ct)) in
  let cpad := u16 (- cl) mod 4 in
  obind (put_u16 st ext_authenticator) (fun st1 =>
  obind (put_u16 st1 (u16 (4 + 2 + 2 + nl + npad + cl + cpad))) (fun st2 =>
  obind (put_u16 st2 nl) (fun st3 =>
  obind (put_u16 st3 cl) (fun st4 =>
  obind (put_copy st4 nonce) (fun st5 =>
  obind (put_copy st5 (repeat 0 (Z.to_nat npad))) (fun st6 =>
  obind (put_copy st6 ct) (fun st7 =>
  put_copy st7 (repeat 0 (Z.to_nat cpad))))))))).

Fixpoint pack_all (f : wstate -> list Z -> outcome wstate) (st : wstate) (l : list (list Z)) : outcome wstate :=
  match l with
  | [] => Ok st
  | c :: r => obind (f st c) (fun st' => pack_all f st' r)
  end.

(* what EncodePacket is given: the unique identifier, the cookies, the placeholder bodies *)
Record nts_in := { ni_id : list Z; ni_cookies : list (list Z); ni_placeholders : list (list Z) }.

(* EncodePacket(b, pkt): the slice b points to must have length 48; the buffer becomes 1024 bytes: the header followed
   by zeros (cap(b) < 1024: fresh buffer) or by what the caller's backing array held behind
   the header (tail = the bytes between len and cap, at least 976 of them);
   fields are packed from position 48; the result is buf[:pos].  Every error of a pack
   method is turned into a panic. *)
Definition nts_encode (hdr tail : list Z) (p : nts_in) (nonce ct : list Z) : outcome (list Z) :=
  if negb (length hdr =? ntp_hdr_len)%nat then Panic
  else
    let buf0 := hdr ++ (if (length tail <? max_packet_len - ntp_hdr_len)%nat
                        then repeat 0 (max_packet_len - ntp_hdr_len)
                        else firstn (max_packet_len - ntp_hdr_len) tail) in
    let r := obind (uid_pack (buf0, ntp_hdr_len) (ni_id p)) (fun st1 =>
             obind (pack_all (field_pack ext_cookie) st1 (ni_cookies p)) (fun st2 =>
             obind (pack_all (field_pack ext_cookie_placeholder) st2 (ni_placeholders p)) (fun st3 =>
             auth_pack st3 nonce ct))) in
    match r with
    | Ok (buf, pos) => Ok (firstn pos buf)
    | _ => Panic
    end.

(* ---------- DecodePacket ---------- *)

Definition ext_val := (Z * Z * list Z)%type.   (* extHdr.Type, extHdr.Length, value *)

Record nts_pkt := {
  np_uid : ext_val;
  np_cookies : list ext_val;
  np_placeholders : list (Z * Z);            (* header only: unpack leaves Cookie nil *)
  np_auth : Z * Z * list Z * list Z }.       (* Type, Length, Nonce, CipherText *)

Definition nts_pkt_empty : nts_pkt :=
  {| np_uid := (0, 0, []); np_cookies := []; np_placeholders := []; np_auth := (0, 0, [], []) |}.

Definition set_uid p u := {| np_uid := u; np_cookies := np_cookies p; np_placeholders := np_placeholders p; np_auth := np_auth p |}.
Definition add_cookie p c := {| np_uid := np_uid p; np_cookies := np_cookies p ++ [c]; np_placeholders := np_placeholders p; np_auth := np_auth p |}.
Definition add_placeholder p c := {| np_uid := np_uid p; np_cookies := np_cookies p; np_placeholders := np_placeholders p ++ [c]; np_auth := np_auth p |}.
Definition set_auth p a := {| np_uid := np_uid p; np_cookies := np_cookies p; np_placeholders := np_placeholders p; np_auth := a |}.

Definition get_u16 (b : list Z) (pos : nat) : Z := be_dec (slice b pos 2).

Definition d_ok := 0. Definition d_too_long := 1. Definition d_short_ext := 2.
Definition d_short_uid := 3. Definition d_no_uid := 4. Definition d_no_auth := 5. Definition d_fuel := 99.

Fixpoint nts_decode_loop (fuel : nat) (b : list Z) (pos : nat) (p : nts_pkt) (found_uid found_auth : bool)
  : nts_pkt * Z :=
  if (28 <=? length b - pos)%nat && negb found_auth then
    match fuel with
    | O => (p, d_fuel)
    | S fuel' =>
      let ty := get_u16 b pos in
      let len := get_u16 b (pos + 2) in
      if len <? 4 then (p, d_short_ext)
      else
        let pos4 := (pos + 4)%nat in
        let next := (pos4 + Z.to_nat (len - 4))%nat in
        if ty =? ext_unique_id then
          let vl := Z.to_nat (len - 4) in
          if (vl <? 32)%nat then (p, d_short_uid)
          else nts_decode_loop fuel' b next (set_uid p (ty, len, zpad vl (skipn pos4 b))) true found_auth
        else if ty =? ext_authenticator then
          let nl := Z.to_nat (get_u16 b pos4) in
          let cl := Z.to_nat (get_u16 b (pos4 + 2)) in
          let q := (pos4 + 4)%nat in
          let n := Nat.min nl (length b - q) in
          nts_decode_loop fuel' b next
            (set_auth p (ty, len, zpad nl (skipn q b), zpad cl (skipn (q + n) b))) found_uid true
        else if ty =? ext_cookie then
          nts_decode_loop fuel' b next (add_cookie p (ty, len, zpad (Z.to_nat (len - 4)) (skipn pos4 b))) found_uid found_auth
        else if ty =? ext_cookie_placeholder then
          nts_decode_loop fuel' b next (add_placeholder p (ty, len)) found_uid found_auth
        else nts_decode_loop fuel' b next p found_uid found_auth
    end
  else if negb found_uid then (p, d_no_uid)
  else if negb found_auth then (p, d_no_auth)
  else (p, d_ok).

(* DecodePacket(pkt, b): fields are assigned / appended to pkt as they are met, also when
   an error is returned later *)
Definition nts_decode (p0 : nts_pkt) (b : list Z) : nts_pkt * Z :=
  if (max_packet_len <? length b)%nat then (p0, d_too_long)
  else nts_decode_loop (length b) b ntp_hdr_len p0 false false.

(* ---------- the encrypted part: NewResponsePacket and authenticate ---------- *)

(* maxCookies(idLen, cookieLen); a negative numerator (huge identifier) gives no positive count either way *)
Definition max_cookies (idlen clen : nat) : nat :=
  ((max_packet_len - ntp_hdr_len - (4 + pad4len idlen) - 40) / (4 + pad4len clen))%nat.

(* NewResponsePacket: the plaintext of the authenticator.  cookies[0] of an empty list panics; the
   list is cut to what fits; the buffer is sized len(cookies) * (4 + len(cookies[0])) (no padding,
   first cookie's length for all) and every cookie is packed into it as an extension field *)
Definition nts_response_plain (cookies : list (list Z)) (idlen : nat) : outcome (list Z) :=
  match cookies with
  | [] => Panic
  | c0 :: _ =>
      let n := max_cookies idlen (length c0) in
      let cs := if (1 <=? n)%nat && (n <? length cookies)%nat then firstn n cookies else cookies in
      let buf := repeat 0 (length cs * (4 + length c0)) in
      match pack_all (field_pack ext_cookie) (buf, 0%nat) cs with
      | Ok (b, _) => Ok b
      | _ => Panic
      end
  end.

(* NewRequestPacket: the first held cookie, and placeholders for the cookies missing from the
   pool of 8, as far as they fit next to it (numPlaceholders may be negative: none then) *)
Definition nts_request_in (id : list Z) (held : list (list Z)) : option nts_in :=
  match held with
  | [] => None   (* ntskeData.Cookie[0] panics *)
  | c0 :: _ =>
      let np := Z.min (8 - Z.of_nat (length held)) (Z.of_nat (max_cookies (length id) (length c0)) - 1) in
      Some {| ni_id := id; ni_cookies := [c0];
              ni_placeholders := repeat (repeat 0 (length c0)) (Z.to_nat np) |}
  end.

(* authenticate, after Open: the walk over the decrypted extension fields; cookies are appended *)
Fixpoint nts_auth_walk (fuel : nat) (pt : list Z) (pos : nat) (cs : list ext_val) : list ext_val * Z :=
  if (28 <=? length pt - pos)%nat then
    match fuel with
    | O => (cs, d_fuel)
    | S fuel' =>
      let ty := get_u16 pt pos in
      let len := get_u16 pt (pos + 2) in
      if len <? 4 then (cs, d_short_ext)
      else
        let pos4 := (pos + 4)%nat in
        let next := (pos4 + Z.to_nat (len - 4))%nat in
        if ty =? ext_cookie then
          nts_auth_walk fuel' pt next (cs ++ [(ty, len, zpad (Z.to_nat (len - 4)) (skipn pos4 pt))])
        else nts_auth_walk fuel' pt next cs
    end
  else (cs, d_ok).

(* Authenticator.pos as DecodePacket records it: where the authenticator field starts; the bytes
   before it are the associated data of the AEAD *)
Fixpoint nts_auth_pos (fuel : nat) (b : list Z) (pos : nat) : option nat :=
  if (28 <=? length b - pos)%nat then
    match fuel with
    | O => None
    | S fuel' =>
      let ty := get_u16 b pos in
      let len := get_u16 b (pos + 2) in
      if len <? 4 then None
      else
        let next := (pos + 4 + Z.to_nat (len - 4))%nat in
        if ty =? ext_unique_id then
          if (Z.to_nat (len - 4) <? 32)%nat then None else nts_auth_pos fuel' b next
        else if ty =? ext_authenticator then Some pos
        else nts_auth_pos fuel' b next
    end
  else None.

(* ---------- the wire format as the property reads it ---------- *)

Definition pad4 (v : list Z) : list Z := v ++ repeat 0 (pad4len (length v) - length v).

Definition ext_field (ty : Z) (v : list Z) : list Z :=
  be_enc 2 ty ++ be_enc 2 (4 + Z.of_nat (pad4len (length v))) ++ pad4 v.

Definition auth_field (nonce ct : list Z) : list Z :=
  be_enc 2 ext_authenticator
  ++ be_enc 2 (8 + Z.of_nat (pad4len (length nonce)) + Z.of_nat (pad4len (length ct)))
  ++ be_enc 2 (Z.of_nat (length nonce)) ++ be_enc 2 (Z.of_nat (length ct)) ++ pad4 nonce ++ pad4 ct.

Definition nts_wire (hdr : list Z) (p : nts_in) (nonce ct : list Z) : list Z :=
  hdr ++ ext_field ext_unique_id (ni_id p)
  ++ flat_map (ext_field ext_cookie) (ni_cookies p)
  ++ flat_map (ext_field ext_cookie_placeholder) (ni_placeholders p)
  ++ auth_field nonce ct.

(* the packet a decoder must see after that encoding *)
Definition ext_of (ty : Z) (v : list Z) : ext_val := (ty, 4 + Z.of_nat (pad4len (length v)), pad4 v).
Definition nts_decoded (p0 : nts_pkt) (p : nts_in) (nonce ct : list Z) : nts_pkt :=
  {| np_uid := ext_of ext_unique_id (ni_id p);
     np_cookies := np_cookies p0 ++ map (ext_of ext_cookie) (ni_cookies p);
     np_placeholders := np_placeholders p0 ++
        map (fun c => (ext_cookie_placeholder, 4 + Z.of_nat (pad4len (length c)))) (ni_placeholders p);
     np_auth := (ext_authenticator, 8 + Z.of_nat (pad4len (length nonce)) + Z.of_nat (pad4len (length ct)), nonce, ct) |}.

(* ---------- property oracle ---------- *)

Definition zs_eqb (a b : list Z) : bool :=
  (fix go a b := match a, b with
     | [], [] => true
     | x :: a', y :: b' => (x =? y) && go a' b'
     | _, _ => false end) a b.

(* a decoded field has kind ty, a length that is a multiple of 4 covering header + value,
   and the value that was encoded, zero-padded to a multiple of 4 *)
Definition field_ok (ty : Z) (v : list Z) (d : ext_val) : bool :=
  let '(ty', len, v') := d in
  (ty' =? ty) && (len mod 4 =? 0) && (len =? 4 + Z.of_nat (length v'))
  && (length v <=? length v')%nat && (length v' <? length v + 4)%nat
  && zs_eqb (firstn (length v) v') v && forallb (Z.eqb 0) (skipn (length v) v').

Fixpoint fields_ok (ty : Z) (vs : list (list Z)) (ds : list ext_val) : bool :=
  match vs, ds with
  | [], [] => true
  | v :: vs', d :: ds' => field_ok ty v d && fields_ok ty vs' ds'
  | _, _ => false
  end.

Fixpoint placeholders_ok (vs : list (list Z)) (ds : list (Z * Z)) : bool :=
  match vs, ds with
  | [], [] => true
  | v :: vs', (ty, len) :: ds' =>
      (ty =? ext_cookie_placeholder) && (len mod 4 =? 0) && (Z.of_nat (length v) + 4 <=? len) && (len <? Z.of_nat (length v) + 8)
      && placeholders_ok vs' ds'
  | _, _ => false
  end.

Definition sum_lens (ds : list ext_val) : Z := fold_right (fun d s => snd (fst d) + s) 0 ds.
Definition sum_plens (ds : list (Z * Z)) : Z := fold_right (fun d s => snd d + s) 0 ds.

(* "each field decodes as the kind that was encoded, 4-byte aligned": evaluated on the
   encoder's input, the bytes it produced and what the decoder made of them *)
Definition C14_nts_ok (hdr : list Z) (p : nts_in) (nonce ct : list Z) (enc : list Z) (derr : Z) (d : nts_pkt) : bool :=
  (derr =? 0)
  && zs_eqb (firstn 48 enc) hdr && (Z.of_nat (length enc) mod 4 =? 0) && bytes_okb enc
  && field_ok ext_unique_id (ni_id p) (np_uid d)
  && fields_ok ext_cookie (ni_cookies p) (np_cookies d)
  && placeholders_ok (ni_placeholders p) (np_placeholders d)
  && (let '(ty, len, n', c') := np_auth d in
      (ty =? ext_authenticator) && (len mod 4 =? 0) && zs_eqb n' nonce && zs_eqb c' ct
      && (8 + Z.of_nat (length nonce) + Z.of_nat (length ct) <=? len) && (len <? 8 + Z.of_nat (length nonce) + Z.of_nat (length ct) + 8)
      && (Z.of_nat (length enc) =? 48 + snd (fst (np_uid d)) + sum_lens (np_cookies d) + sum_plens (np_placeholders d) + len)).

(* the cookies a response carries encrypted come back, in order, as cookies *)
Definition C14_resp_cookies_ok (sent : list (list Z)) (got : list ext_val) : bool :=
  fields_ok ext_cookie sent got.
