(* Property oracle of C20, written from the property text and RFC 8915 section 4 - it never
   calls the model of the code (Model/Ntske.v is imported only for the containers bytes/kdata
   and byte-string equality).

   A key-exchange peer is described by a script: whether anything listens, its ALPN list, the
   records it sends (type, critical bit, body), optional raw bytes after them, how many bytes
   of all that it sends before closing/dropping the connection, and its address.  An
   observation of one FetchData call: how many connections the peer saw, whether the handshake
   completed and with which protocol, the two keys the PEER exported from that session, and
   what FetchData returned.  The oracle walks through a history of FetchData / StoreCookie
   calls on one Fetcher.  The key exchange runs over TLS/TCP or over QUIC/SCION ([scion]); the
   only clause that depends on it is the default target: "the standard NTP port" is 123 for
   NTP over IP and 10123 for NTP over SCION in this project. *)
From ST Require Import Base.Ints Model.Ntske.
From Coq Require Import ZArith List Bool.
Import ListNotations.
Open Scope Z_scope.

(* ---------- records on the wire (RFC 8915, 4.): C bit, 15-bit type, 16-bit length, body ---------- *)

Record krec := { r_type : Z; r_crit : bool; r_body : bytes }.

Definition wire_rec (r : krec) : bytes :=
  let n := Z.of_nat (length (r_body r)) in
  [(if r_crit r then 128 else 0) + r_type r / 256; r_type r mod 256; n / 256; n mod 256] ++ r_body r.

Definition wire (rs : list krec) : bytes := flat_map wire_rec rs.

Definition byte_b (b : Z) : bool := (0 <=? b) && (b <? 256).

(* a record as a conforming server encodes it: 15-bit type, fixed-size bodies of the fixed-size
   record types (end: empty; next protocol, error, the one chosen algorithm, port: 2 bytes) *)
Definition rec_canonical (r : krec) : bool :=
  let t := r_type r in
  let n := Z.of_nat (length (r_body r)) in
  (0 <=? t) && (t <? 32768) && forallb byte_b (r_body r) && (n <? 65536)
  && (if t =? 0 then n =? 0
      else if (t =? 1) || (t =? 2) || (t =? 4) || (t =? 7) then n =? 2
      else true).

Definition body16 (r : krec) : Z := nth 0 (r_body r) 0 * 256 + nth 1 (r_body r) 0.

(* ---------- what a record sequence means to a client (property text) ---------- *)

Inductive scan_result := Accepted | Refused | Incomplete.

Record scan_acc := { a_algo : option Z; a_server : option bytes; a_port : option Z; a_cookies : list bytes }.
Definition acc0 : scan_acc := {| a_algo := None; a_server := None; a_port := None; a_cookies := [] |}.

(* end of message ends the exchange; an error record or an unrecognised critical record refuses
   it; unrecognised non-critical records are ignored; recognised: next protocol (1), algorithm
   (4), cookie (5), server (6), port (7) *)
Fixpoint scan (rs : list krec) (a : scan_acc) : scan_result * scan_acc :=
  match rs with
  | [] => (Incomplete, a)
  | r :: rest =>
    let t := r_type r in
    if t =? 0 then (Accepted, a)
    else if t =? 2 then (Refused, a)
    else if t =? 1 then scan rest a
    else if t =? 4 then scan rest {| a_algo := Some (body16 r); a_server := a_server a; a_port := a_port a; a_cookies := a_cookies a |}
    else if t =? 5 then scan rest {| a_algo := a_algo a; a_server := a_server a; a_port := a_port a; a_cookies := a_cookies a ++ [r_body r] |}
    else if t =? 6 then scan rest {| a_algo := a_algo a; a_server := Some (r_body r); a_port := a_port a; a_cookies := a_cookies a |}
    else if t =? 7 then scan rest {| a_algo := a_algo a; a_server := a_server a; a_port := Some (body16 r); a_cookies := a_cookies a |}
    else if r_crit r then (Refused, a)
    else scan rest a
  end.

(* the records that arrive completely when only the first k bytes are sent *)
Fixpoint delivered (rs : list krec) (k : nat) : list krec :=
  match rs with
  | [] => []
  | r :: rest =>
    let n := length (wire_rec r) in
    if (n <=? k)%nat then r :: delivered rest (k - n) else []
  end.

Definition algo_is_siv (a : scan_acc) : bool := match a_algo a with Some v => v =? 15 | None => false end.
Definition has_cookie (a : scan_acc) : bool := match a_cookies a with [] => false | _ => true end.

(* a cookie must fit into an NTS-protected NTP packet (1024 bytes) next to the unique
   identifier and the authenticator: at most 896 bytes (fix commit df23410) *)
Definition cookie_fits (c : bytes) : bool := Z.of_nat (length c) <=? 896.
Definition cookies_fit (a : scan_acc) : bool := forallb cookie_fits (a_cookies a).

(* proper termination, AES-SIV-CMAC-256 selected, at least one cookie, every cookie usable *)
Definition stream_accepted (rs : list krec) (k : nat) : bool :=
  match scan (delivered rs k) acc0 with
  | (Accepted, a) => algo_is_siv a && has_cookie a && cookies_fit a
  | _ => false
  end.

Definition scanned (rs : list krec) (k : nat) : scan_acc := snd (scan (delivered rs k) acc0).

(* ---------- scripts, observations ---------- *)

Record script := {
  sc_mode : Z;               (* 0: TLS (QUIC) server; 1: nothing listens; 2: accepts TCP, never completes a handshake *)
  sc_alpn : list bytes;
  sc_recs : list krec;
  sc_tail : bytes;           (* raw bytes sent after the records (malformed streams) *)
  sc_cut : nat;              (* number of bytes of the stream that are sent before the connection ends *)
  sc_host : bytes }.

Definition sc_strict (sc : script) : bool :=
  forallb rec_canonical (sc_recs sc) && match sc_tail sc with [] => true | _ => false end.

Record fobs := {
  o_conns : Z; o_hs_ok : bool; o_negotiated : bytes; o_peer_c2s : bytes; o_peer_s2c : bytes;
  o_err : Z; o_data : kdata }.

(* what the script puts on the wire *)
Definition sent_bytes (sc : script) : bytes := firstn (sc_cut sc) (wire (sc_recs sc) ++ sc_tail sc).

(* for scripts that are not strict (encodings no conforming server produces, raw bytes) the
   property text does not say how the bytes divide into records, but it still says where the
   client's data come from: the pool is "the cookies issued", the target "the server and port
   named in the exchange" or the default - so every cookie, a server other than the key-exchange
   host, and a port other than the standard one must occur in the bytes this peer sent on this
   connection (nothing invented, nothing left over from an earlier exchange) *)
Fixpoint prefix_b (x s : bytes) : bool :=
  match x, s with
  | [], _ => true
  | a :: x', b :: s' => (a =? b) && prefix_b x' s'
  | _ :: _, [] => false
  end.

Fixpoint infix_b (x s : bytes) : bool :=
  prefix_b x s || match s with [] => false | _ :: s' => infix_b x s' end.

Fixpoint port_in (v : Z) (s : bytes) : bool :=
  match s with
  | a :: s' => match s' with b :: _ => (a * 256 + b =? v) || port_in v s' | [] => false end
  | [] => false
  end.

Fixpoint bytes_list_eqb (a b : list bytes) : bool :=
  match a, b with
  | [], [] => true
  | x :: a', y :: b' => bytes_eqb x y && bytes_list_eqb a' b'
  | _, _ => false
  end.

Definition ntske1 : bytes := [110; 116; 115; 107; 101; 47; 49].   (* "ntske/1" *)

(* ---------- the oracle's own account of the fetcher ---------- *)

Record ostate := {
  os_pool : list bytes; os_c2s : bytes; os_s2c : bytes; os_server : bytes; os_port : Z;
  os_last_ok : bool;      (* the most recent FetchData succeeded *)
  os_free : bool }.       (* the history left what a client does (StoreCookie without a successful FetchData before it) *)

Definition os0 : ostate :=
  {| os_pool := []; os_c2s := []; os_s2c := []; os_server := []; os_port := 0; os_last_ok := false; os_free := false |}.

Definition info_matches (st : ostate) (d : kdata) : bool :=
  bytes_eqb (k_c2s d) (os_c2s st) && bytes_eqb (k_s2c d) (os_s2c st)
  && bytes_eqb (k_server d) (os_server st) && (k_port d =? os_port st) && (k_algo d =? 15).

Definition opt_bytes (o : option bytes) (dflt : bytes) : bytes := match o with Some v => v | None => dflt end.
Definition opt_z (o : option Z) (dflt : Z) : Z := match o with Some v => v | None => dflt end.

Definition std_ntp_port (scion : bool) : Z := if scion then 10123 else 123.

Definition fetch_ok (scion : bool) (st : ostate) (sc : script) (o : fobs) : option ostate :=
  if os_free st then Some st else
  let d := o_data o in
  match os_pool st with
  | _ :: rest =>
    (* cookies are left: no key exchange, same keys and target, the pool as it stands *)
    if (o_conns o =? 0) && (o_err o =? 0) && info_matches st d && bytes_list_eqb (k_cookies d) (os_pool st)
    then Some {| os_pool := rest; os_c2s := os_c2s st; os_s2c := os_s2c st; os_server := os_server st;
                 os_port := os_port st; os_last_ok := true; os_free := false |}
    else None
  | [] =>
    (* nothing left (also after a failure): a complete new exchange *)
    let attempted := if sc_mode sc =? 1 then negb (o_err o =? 0) else o_conns o =? 1 in
    let alpn_ok := (sc_mode sc =? 0) && o_hs_ok o && bytes_eqb (o_negotiated o) ntske1 in
    let success := o_err o =? 0 in
    let strict := sc_strict sc in
    let a := scanned (sc_recs sc) (sc_cut sc) in
    let iff_ok :=
      if strict then Bool.eqb success (alpn_ok && stream_accepted (sc_recs sc) (sc_cut sc))
      else implb success alpn_ok in
    let data_ok :=
      if success then
        bytes_eqb (k_c2s d) (o_peer_c2s o) && bytes_eqb (k_s2c d) (o_peer_s2c o)
        && (k_algo d =? 15) && (match k_cookies d with [] => false | _ => true end)
        && forallb cookie_fits (k_cookies d)
        && (if strict then
              bytes_list_eqb (k_cookies d) (a_cookies a)
              && bytes_eqb (k_server d) (opt_bytes (a_server a) (sc_host sc))
              && (k_port d =? opt_z (a_port a) (std_ntp_port scion))
            else
              forallb (fun c => infix_b c (sent_bytes sc)) (k_cookies d)
              && (bytes_eqb (k_server d) (sc_host sc) || infix_b (k_server d) (sent_bytes sc))
              && ((k_port d =? std_ntp_port scion) || port_in (k_port d) (sent_bytes sc)))
      else true in
    if attempted && iff_ok && data_ok then
      if success then
        Some {| os_pool := tl (k_cookies d); os_c2s := k_c2s d; os_s2c := k_s2c d; os_server := k_server d;
                os_port := k_port d; os_last_ok := true; os_free := false |}
      else Some os0
    else None
  end.

Definition store_ok (st : ostate) (c : bytes) : ostate :=
  if negb (cookie_fits c) then st else     (* an unusable cookie is not kept *)
  if os_last_ok st then
    if 8 <=? Z.of_nat (length (os_pool st)) then st else   (* the pool holds at most 8 cookies through StoreCookie *)
    {| os_pool := os_pool st ++ [c]; os_c2s := os_c2s st; os_s2c := os_s2c st; os_server := os_server st;
       os_port := os_port st; os_last_ok := true; os_free := os_free st |}
  else {| os_pool := []; os_c2s := []; os_s2c := []; os_server := []; os_port := 0; os_last_ok := false; os_free := true |}.

Inductive op := OpFetch (sc : script) | OpStore (c : bytes).

(* observations: one per FetchData, in order *)
Fixpoint hist_ok (scion : bool) (st : ostate) (ops : list op) (obs : list fobs) : bool :=
  match ops with
  | [] => match obs with [] => true | _ => false end
  | OpStore c :: rest => hist_ok scion (store_ok st c) rest obs
  | OpFetch sc :: rest =>
    match obs with
    | [] => false
    | o :: obs' => match fetch_ok scion st sc o with Some st' => hist_ok scion st' rest obs' | None => false end
    end
  end.

(* a history on one Fetcher; scion = the Fetcher does its key exchanges over QUIC/SCION *)
Definition C20_ok (scion : bool) (ops : list op) (obs : list fobs) : bool := hist_ok scion os0 ops obs.

(* ---------- calls that overlap in time on one Fetcher ----------
   The property speaks of sequences of exchanges on one client; calls made while another call is
   still in its exchange must behave like SOME sequence: there is an order of the calls such that,
   with the connections taken in the order in which they reached the peer, every result and what
   the fetcher holds afterwards are what that sequence of calls allows - every successful result
   is the complete data of ONE exchange whose message had ended (keys of that connection, all its
   cookies, its server and port) or comes from the pool such an exchange left, and a failed
   exchange leaves nothing.  A candidate = the calls in one order, each paired with the
   connection it is taken to have caused (none for a call answered from the pool). *)

Fixpoint hist_end (scion : bool) (st : ostate) (ops : list op) (obs : list fobs) : option ostate :=
  match ops with
  | [] => match obs with [] => Some st | _ => None end
  | OpStore c :: rest => hist_end scion (store_ok st c) rest obs
  | OpFetch sc :: rest =>
    match obs with
    | [] => None
    | o :: obs' => match fetch_ok scion st sc o with Some st' => hist_end scion st' rest obs' | None => None end
    end
  end.

(* what the fetcher holds after the history (pool; keys and target if a request could use them) *)
Definition final_ok (st : ostate) (d : kdata) : bool :=
  os_free st ||
  (bytes_list_eqb (k_cookies d) (os_pool st) && (if os_last_ok st then info_matches st d else true)).

Definition cand_ok (scion : bool) (final : kdata) (c : list op * list fobs) : bool :=
  match hist_end scion os0 (fst c) (snd c) with Some st => final_ok st final | None => false end.

Definition C20_overlap_ok (scion : bool) (cands : list (list op * list fobs)) (final : kdata) : bool :=
  existsb (cand_ok scion final) cands.

(* ---------- the record framing of RFC 8915 for records of any body length ----------
   RFC 8915, 4.: every record is a 4-byte header and a body as long as the header's length field
   says, whatever the record type.  A script whose records have 15-bit types and bodies below
   65536 bytes and no raw tail is framed: read by the framing, the bytes it sends ARE its record
   list, also when a next-protocol, algorithm, port or error record has a body of another length
   than 2 (scan reads the first two bytes of such a body).  The clause "succeeds only if the peer
   ... terminates the record stream properly without an error record or an unrecognised critical
   record", with at least one cookie and algorithm 15, then speaks about that record list. *)
Definition rec_framed (r : krec) : bool :=
  let t := r_type r in
  (0 <=? t) && (t <? 32768) && forallb byte_b (r_body r) && (Z.of_nat (length (r_body r)) <? 65536).

Definition sc_framed (sc : script) : bool :=
  forallb rec_framed (sc_recs sc) && match sc_tail sc with [] => true | _ => false end.

(* an exchange (one connection) that succeeded: the framed message must be acceptable *)
Definition framed_step_ok (sc : script) (o : fobs) : bool :=
  if sc_framed sc && (o_conns o =? 1) && (o_err o =? 0) then stream_accepted (sc_recs sc) (sc_cut sc) else true.

Fixpoint framed_hist_ok (ops : list op) (obs : list fobs) : bool :=
  match ops with
  | [] => true
  | OpStore _ :: rest => framed_hist_ok rest obs
  | OpFetch sc :: rest =>
    match obs with
    | [] => true
    | o :: obs' => framed_step_ok sc o && framed_hist_ok rest obs'
    end
  end.

Definition C20_framed_ok (scion : bool) (ops : list op) (obs : list fobs) : bool :=
  C20_ok scion ops obs && framed_hist_ok ops obs.
