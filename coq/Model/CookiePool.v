(* Model of the NTS cookie lifecycle (C11).  No proofs here.

   Client side : net/ntske/fetcher.go  FetchData, StoreCookie
                 net/nts/nts.go        NewRequestPacket, EncodePacket, the pack
                                       methods, DecodePacket, authenticate,
                                       ProcessResponse, maxCookies
   Server side : core/server/server_ip.go / server_scion.go (authenticated
                 branch: one cookie per cookie or placeholder of the request),
                 net/nts/nts.go NewResponsePacket, core/server/ntske.go (eight
                 cookies per key exchange).

   Bytes are list Z.  Go's int is unbounded here except where the code converts
   to uint16 (written u16).  The encode buffer is the fixed 1024-byte slice of
   EncodePacket: [out] below is buf[:pos], copy() silently truncates at the end
   of the buffer, PutUint16 on fewer than two remaining bytes panics.
   AES-SIV (miscreant) is a Section variable; crypto/rand output (unique
   identifier, nonces) is an input. *)
From ST Require Import Base.Ints Base.Bytes.
From Coq Require Import ZArith List Bool Lia.
Import ListNotations.
Open Scope Z_scope.

Definition bytes := list Z.
Definition zlen {A} (l : list A) : Z := Z.of_nat (length l).

(* ---- constants of net/nts/nts.go ---- *)
Definition MaxPacketLen : Z := 1024.
Definition numStoredCookies : Z := 8.
Definition ntpPacketLen : Z := 48.
Definition extUniqueIdentifier : Z := 260.    (* 0x104 *)
Definition extCookie : Z := 516.              (* 0x204 *)
Definition extCookiePlaceholder : Z := 772.   (* 0x304 *)
Definition extAuthenticator : Z := 1028.      (* 0x404 *)
(* net/ntske/fetcher.go: MaxCookieLen *)
Definition MaxCookieLen : Z := 896.
(* core/server/ntske.go: for range 8 *)
Definition keCookies : nat := 8.
(* cookie length issued by this project's servers: EncryptedServerCookie.Encode of
   a 16-byte nonce and the sealed (16-byte tag) ServerCookie.Encode of two 32-byte keys *)
Definition serverCookieLen : Z := (3 * 4 + 2) + 16 + (((3 * 4 + 2) + 32 + 32) + 16).

(* (n + 3) &^ 3 for a length n >= 0 *)
Definition pad4 (n : Z) : Z := (n + 3) / 4 * 4.

(* func maxCookies(idLen, cookieLen int) int; Go's / truncates *)
Definition max_cookies (idLen cookieLen : Z) : Z :=
  Z.quot (MaxPacketLen - ntpPacketLen - (4 + pad4 idLen) - (4 + 4 + 16 + 16)) (4 + pad4 cookieLen).

(* ---- packets ---- *)
Record packet := {
  p_uid : bytes;                 (* UniqueID.ID *)
  p_cookies : list bytes;        (* Cookies[i].Cookie *)
  p_placeholders : list bytes;   (* CookiePlaceholders[i].Cookie *)
  p_key : bytes;                 (* Auth.Key *)
  p_plain : bytes                (* Auth.PlainText *)
}.

(* func NewRequestPacket(ntskeData) : pool = ntskeData.Cookie (the pool as FetchData
   returned it, the cookie to be sent first), id = the 32 random bytes of newID() *)
Definition num_placeholders (level idLen cookieLen : Z) : Z :=
  let n := numStoredCookies - level in
  let m := max_cookies idLen cookieLen - 1 in
  if m <? n then m else n.

Definition new_request (pool : list bytes) (c2s id : bytes) : outcome packet :=
  match pool with
  | [] => Panic                                   (* ntskeData.Cookie[0] *)
  | c :: _ =>
      let n := num_placeholders (zlen pool) (zlen id) (zlen c) in
      Ok {| p_uid := id; p_cookies := [c];
            p_placeholders := repeat (repeat 0 (length c)) (Z.to_nat n);
            p_key := c2s; p_plain := [] |}
  end.

(* func NewResponsePacket(cookies, key, uniqueid) : the caller guarantees len(cookies) >= 1 *)
Definition cap_cookies (idLen : Z) (cookies : list bytes) : list bytes :=
  match cookies with
  | [] => []
  | c0 :: _ =>
      let n := max_cookies idLen (zlen c0) in
      if (1 <=? n) && (n <? zlen cookies) then firstn (Z.to_nat n) cookies else cookies
  end.

Section AEAD.
(* aessiv.Seal(nil, nonce, plaintext, additionalData) under key *)
Variable seal : bytes -> bytes -> bytes -> bytes -> bytes.

(* ---- the pack methods on the 1024-byte buffer ---- *)
Definition be16 (x : Z) : bytes := be_enc 2 x.

(* two PutUint16 at buf[pos:] and buf[pos+2:] *)
Definition pack_hdr (out : bytes) (a b : Z) : outcome bytes :=
  if zlen out + 4 <=? MaxPacketLen then Ok (out ++ be16 a ++ be16 b) else Panic.

(* n := copy(buf[pos:], src); pos += n *)
Definition copy_to (out src : bytes) : bytes :=
  out ++ firstn (Z.to_nat (MaxPacketLen - zlen out)) src.

(* Cookie.pack, CookiePlaceholder.pack, and UniqueIdentifier.pack after its length test *)
Definition pack_field (out : bytes) (typ : Z) (body : bytes) : outcome bytes :=
  let newlen := pad4 (zlen body) in
  obind (pack_hdr out typ (u16 (4 + u16 newlen))) (fun o1 =>
  let o2 := copy_to o1 body in
  Ok (copy_to o2 (repeat 0 (Z.to_nat (newlen - zlen body))))).

Definition pack_uid (out id : bytes) : outcome bytes :=
  if zlen id <? 32 then Panic (* errShortUniqueID -> panic(err) in EncodePacket *)
  else pack_field out extUniqueIdentifier id.

Fixpoint pack_fields (out : bytes) (typ : Z) (bodies : list bytes) : outcome bytes :=
  match bodies with
  | [] => Ok out
  | b :: r => obind (pack_field out typ b) (fun o => pack_fields o typ r)
  end.

(* miscreant.NewAEAD("AES-CMAC-SIV", key, 16) fails unless the key has 32 or 64 bytes *)
Definition key_ok (k : bytes) : bool :=
  let n := zlen k in (n =? 32) || (n =? 64).

(* Authenticator.pack; nonce = the 16 bytes read from crypto/rand *)
Definition pack_auth (out key plain nonce : bytes) : outcome bytes :=
  if negb (key_ok key) then Panic else
  let nonceLen := u16 (zlen nonce) in
  let npad := u16 (- nonceLen) mod 4 in
  let ct := seal key nonce plain out in
  let ctLen := u16 (zlen ct) in
  let cpad := u16 (- ctLen) mod 4 in
  obind (pack_hdr out extAuthenticator (u16 (4 + 2 + 2 + nonceLen + npad + ctLen + cpad))) (fun o1 =>
  obind (pack_hdr o1 nonceLen ctLen) (fun o2 =>
  let o3 := copy_to o2 nonce in
  let o4 := copy_to o3 (repeat 0 (Z.to_nat npad)) in
  let o5 := copy_to o4 ct in
  Ok (copy_to o5 (repeat 0 (Z.to_nat cpad))))).

(* func EncodePacket(b *[]byte, pkt *Packet); hdr = *b on entry *)
Definition encode_packet (hdr : bytes) (p : packet) (nonce : bytes) : outcome bytes :=
  if negb (zlen hdr =? ntpPacketLen) then Panic else
  obind (pack_uid hdr (p_uid p)) (fun o1 =>
  obind (pack_fields o1 extCookie (p_cookies p)) (fun o2 =>
  obind (pack_fields o2 extCookiePlaceholder (p_placeholders p)) (fun o3 =>
  pack_auth o3 (p_key p) (p_plain p) nonce))).

(* NewResponsePacket: the capped cookies packed as cookie fields into
   buf := make([]byte, len(cookies) * (4 + len(cookies[0]))) - a buffer of its own:
   the same truncation/panic rules with that length.  For cookies of one length
   that is a multiple of 4 (the only ones the servers pass) nothing is cut. *)
Definition pack_hdr_n (lim : Z) (out : bytes) (a b : Z) : outcome bytes :=
  if zlen out + 4 <=? lim then Ok (out ++ be16 a ++ be16 b) else Panic.
Definition copy_to_n (lim : Z) (out src : bytes) : bytes :=
  out ++ firstn (Z.to_nat (lim - zlen out)) src.
Fixpoint pack_cookies_n (lim : Z) (out : bytes) (cs : list bytes) : outcome bytes :=
  match cs with
  | [] => Ok out
  | c :: r =>
      let newlen := pad4 (zlen c) in
      obind (pack_hdr_n lim out extCookie (u16 (4 + u16 newlen))) (fun o1 =>
      let o2 := copy_to_n lim o1 c in
      pack_cookies_n lim (copy_to_n lim o2 (repeat 0 (Z.to_nat (newlen - zlen c)))) r)
  end.

Definition new_response (cookies : list bytes) (key uid : bytes) : outcome packet :=
  match cookies with
  | [] => Panic                                   (* cookies[0] *)
  | c0 :: _ =>
      let cs := cap_cookies (zlen uid) cookies in
      let lim := zlen cs * (4 + zlen c0) in
      obind (pack_cookies_n lim [] cs) (fun buf =>
      Ok {| p_uid := uid; p_cookies := []; p_placeholders := [];
            p_key := key; p_plain := buf ++ repeat 0 (Z.to_nat (lim - zlen buf)) |})
  end.

End AEAD.

(* ---- DecodePacket / authenticate: the extension field walk ---- *)
Definition be16_at (b : bytes) (pos : Z) : Z := be_dec (firstn 2 (skipn (Z.to_nat pos) b)).
(* make([]byte, n); copy(dst, buf[pos:]) *)
Definition take_at (b : bytes) (pos n : Z) : bytes := zpad (Z.to_nat n) (skipn (Z.to_nat pos) b).

Record decoded := {
  d_uid : option bytes;
  d_cookies : list bytes;          (* in order of appearance *)
  d_nplaceholders : Z;
  d_auth : option (Z * bytes * bytes)   (* position of the authenticator field, nonce, ciphertext *)
}.
Definition decoded0 : decoded := {| d_uid := None; d_cookies := []; d_nplaceholders := 0; d_auth := None |}.

(* error classes: 1 too long, 2 short extension, 3 short unique id, 4 no unique id,
   5 no authenticator *)
Fixpoint decode_loop (fuel : nat) (b : bytes) (pos : Z) (d : decoded) : outcome decoded :=
  match fuel with
  | O => OutOfFuel
  | S f =>
      match d_auth d with
      | Some _ => Ok d
      | None =>
          if zlen b - pos <? 28 then Ok d else
          let typ := be16_at b pos in
          let len := be16_at b (pos + 2) in
          if len <? 4 then Err 2 else
          let p := pos + 4 in
          let next := pos + len in
          if typ =? extUniqueIdentifier then
            let vl := u16 (len - 4) in
            if vl <? 32 then Err 3
            else decode_loop f b next {| d_uid := Some (take_at b p vl); d_cookies := d_cookies d;
                                         d_nplaceholders := d_nplaceholders d; d_auth := d_auth d |}
          else if typ =? extAuthenticator then
            let nl := be16_at b p in
            let cl := be16_at b (p + 2) in
            let nonce := take_at b (p + 4) nl in
            (* pos += n where n = bytes actually copied into the nonce *)
            let ncopied := Z.min nl (Z.max 0 (zlen b - (p + 4))) in
            let ct := take_at b (p + 4 + ncopied) cl in
            decode_loop f b next {| d_uid := d_uid d; d_cookies := d_cookies d;
                                    d_nplaceholders := d_nplaceholders d; d_auth := Some (pos, nonce, ct) |}
          else if typ =? extCookie then
            decode_loop f b next {| d_uid := d_uid d; d_cookies := d_cookies d ++ [take_at b p (u16 (len - 4))];
                                    d_nplaceholders := d_nplaceholders d; d_auth := d_auth d |}
          else if typ =? extCookiePlaceholder then
            decode_loop f b next {| d_uid := d_uid d; d_cookies := d_cookies d;
                                    d_nplaceholders := d_nplaceholders d + 1; d_auth := d_auth d |}
          else decode_loop f b next d
      end
  end.

Definition decode_packet (b : bytes) : outcome decoded :=
  if MaxPacketLen <? zlen b then Err 1 else
  match decode_loop (S (length b)) b ntpPacketLen decoded0 with
  | Ok d =>
      match d_uid d, d_auth d with
      | None, _ => Err 4
      | _, None => Err 5
      | Some _, Some _ => Ok d
      end
  | o => o
  end.

(* the loop of authenticate over the decrypted buffer: only cookie fields count *)
Fixpoint plain_cookies (fuel : nat) (b : bytes) (pos : Z) (acc : list bytes) : outcome (list bytes) :=
  match fuel with
  | O => OutOfFuel
  | S f =>
      if zlen b - pos <? 28 then Ok acc else
      let typ := be16_at b pos in
      let len := be16_at b (pos + 2) in
      if len <? 4 then Err 2 else
      if typ =? extCookie
      then plain_cookies f b (pos + len) (acc ++ [take_at b (pos + 4) (u16 (len - 4))])
      else plain_cookies f b (pos + len) acc
  end.

(* ---- the client's pool: net/ntske/fetcher.go ---- *)
Record client := { pool : list bytes; c2s : bytes; s2c : bytes }.
Definition client0 : client := {| pool := []; c2s := []; s2c := [] |}.

(* the outcome of exchangeKeys (the key exchange itself is C20): the Data it left
   in f.data, or an error *)
Inductive ke_result := KeOk (cookies : list bytes) (kc2s ks2c : bytes) | KeErr.

(* func (f *Fetcher) FetchData: the Data returned (pool before the pop) and the
   fetcher afterwards.  exchangeKeys reports errNoCookies for an empty list and
   errCookieLen when a cookie is longer than MaxCookieLen. *)
Definition cookie_len_ok (c : bytes) : bool := zlen c <=? MaxCookieLen.
Definition fetch (c : client) (ke : ke_result) : option (client * client) :=
  let after_ke :=
    match pool c with
    | [] => match ke with
            | KeOk (x :: r) k1 k2 =>
                if forallb cookie_len_ok (x :: r) then Some {| pool := x :: r; c2s := k1; s2c := k2 |} else None
            | _ => None
            end
    | _ => Some c
    end in
  match after_ke with
  | None => None                           (* f.data = Data{}; error *)
  | Some d => Some (d, {| pool := tl (pool d); c2s := c2s d; s2c := s2c d |})
  end.
Definition fetch_failed : client := client0.

(* net/ntske/fetcher.go: MaxStoredCookies *)
Definition MaxStoredCookies : Z := 8.

(* func (f *Fetcher) StoreCookie, called by ProcessResponse for every cookie of the
   response: cookies longer than MaxCookieLen are ignored, and so is every cookie
   once MaxStoredCookies are cached *)
Definition store_cookie (p : list bytes) (c : bytes) : list bytes :=
  if negb (cookie_len_ok c) then p
  else if MaxStoredCookies <=? zlen p then p
  else p ++ [c].
Definition store (c : client) (cookies : list bytes) : client :=
  {| pool := fold_left store_cookie cookies (pool c); c2s := c2s c; s2c := s2c c |}.

(* ---- the three parts of an exchange, as the check executes them on the observed datagrams ---- *)
Fixpoint bytes_eq (a b : bytes) : bool :=
  match a, b with
  | [], [] => true
  | x :: a', y :: b' => (x =? y) && bytes_eq a' b'
  | _, _ => false
  end.

Section Exchange.
Variable seal : bytes -> bytes -> bytes -> bytes -> bytes.          (* aessiv.Seal key nonce plaintext ad *)
Variable aopen : bytes -> bytes -> bytes -> bytes -> option bytes.  (* aessiv.Open key nonce ciphertext ad *)

(* client: NewRequestPacket + EncodePacket on the Data that FetchData returned *)
Definition client_request (d : client) (uid nonce hdr : bytes) : outcome bytes :=
  obind (new_request (pool d) (c2s d) uid) (fun pkt => encode_packet seal hdr pkt nonce).

(* func (pkt *Packet) authenticate(b, key): Open over the bytes before the authenticator, then
   the cookie fields of the plaintext.  Error classes 6 key, 7 nonce length, 8 not authentic *)
Definition authenticate (b : bytes) (d : decoded) (key : bytes) : outcome (list bytes) :=
  match d_auth d with
  | None => Err 5
  | Some (pos, nonce, ct) =>
      if negb (key_ok key) then Err 6 else
      if negb (zlen nonce =? 16) then Err 7 else
      match aopen key nonce ct (firstn (Z.to_nat pos) b) with
      | None => Err 8
      | Some plain => plain_cookies (S (length plain)) plain 0 []
      end
  end.

(* server, the NTS branch of runIPServer / runSCIONServer once the first cookie has been opened
   to (c2s, s2c): ProcessRequest; one new cookie per cookie or placeholder of the request
   (mk n = the n cookies EncryptWithNonce makes under provider.Current()); NewResponsePacket;
   EncodePacket.  Result: the reply and the cookies it carries. *)
Definition server_reply (req kc2s ks2c : bytes) (mk : nat -> list bytes) (rnonce rhdr : bytes)
  : outcome (bytes * list bytes) :=
  obind (decode_packet req) (fun dq =>
  match d_cookies dq with
  | [] => Err 9                                   (* FirstCookie: errNoCookies *)
  | _ =>
      obind (authenticate req dq kc2s) (fun extra =>
      let n := zlen (d_cookies dq ++ extra) + d_nplaceholders dq in
      let cs := mk (Z.to_nat n) in
      match d_uid dq with
      | None => Err 4
      | Some uid =>
          obind (new_response cs ks2c uid) (fun rp =>
          obind (encode_packet seal rhdr rp rnonce) (fun b => Ok (b, cap_cookies (zlen uid) cs)))
      end)
  end).

(* client: DecodePacket + ProcessResponse (the unique identifier must be the request's; authenticate;
   StoreCookie for every cookie of the packet, in the clear or in the ciphertext).  Error 10: other identifier *)
Definition client_process (reply ks2c reqid : bytes) (c1 : client) : outcome client :=
  obind (decode_packet reply) (fun dr =>
  match d_uid dr with
  | None => Err 4
  | Some u =>
      if negb (bytes_eq reqid u) then Err 10 else
      obind (authenticate reply dr ks2c) (fun cs => Ok (store c1 (d_cookies dr ++ cs)))
  end).

End Exchange.

(* ---- server: number of cookies issued for a decoded request ---- *)
Definition server_issue_count (d : decoded) : Z := zlen (d_cookies d) + d_nplaceholders d.

(* ---- lengths ---- *)
Definition field_len (bodyLen : Z) : Z := 4 + pad4 bodyLen.
Definition auth_len (plainLen : Z) : Z := 4 + 4 + 16 + (plainLen + 16).
Definition request_len (level idLen cookieLen : Z) : Z :=
  ntpPacketLen + field_len idLen + (1 + Z.max 0 (num_placeholders level idLen cookieLen)) * field_len cookieLen + auth_len 0.
Definition reply_count (requested idLen cookieLen : Z) : Z :=
  let n := max_cookies idLen cookieLen in
  if (1 <=? n) && (n <? requested) then n else requested.
Definition reply_len (ncookies idLen cookieLen : Z) : Z :=
  ntpPacketLen + field_len idLen + auth_len (ncookies * field_len cookieLen).

(* ---- abstract exchange histories (cookies as opaque values) ----
   issue k = the k-th cookie the servers ever issue (NTS-KE or NTP replies, to
   this client or to any other). *)
Record exch := {
  e_ke_ok : bool;     (* if a key exchange is needed: does it succeed *)
  e_ok : bool;        (* request reaches the server, is accepted, and the authenticated reply reaches the client *)
  e_skip : nat;       (* cookies the servers issue to other clients (or in replies that get lost) before this call *)
  e_waste : nat;      (* cookies the server makes in this call that never reach the client (a reply that gets lost) *)
  e_nosend : bool     (* the call ends after FetchData, before a request leaves (deadline passed, the key
                         exchange named a server that is not an IP address): the cookie taken is gone, nothing is sent *)
}.

Record sys (C : Type) := {
  s_pool : list C;       (* Fetcher.data.Cookie *)
  s_next : nat;          (* number of cookies issued so far *)
  s_sent : list C        (* cookies sent in requests, newest first *)
}.
Arguments s_pool {C}. Arguments s_next {C}. Arguments s_sent {C}. Arguments Build_sys {C}.

Definition issue_n {C} (issue : nat -> C) (from n : nat) : list C := map issue (seq from n).

(* the request/reply part of one call, the pool p being what FetchData returned *)
Definition sys_exchange {C} (issue : nat -> C) (cookieLen : Z) (p : list C) (nx : nat) (sent : list C) (ok nosend : bool)
  (waste : nat) (dflt : sys C) : sys C :=
  match p with
  | [] => dflt
  | c :: rest =>
      if nosend then {| s_pool := rest; s_next := nx; s_sent := sent |} else
      let np := Z.max 0 (num_placeholders (zlen p) 32 cookieLen) in
      if ok then
        let requested := Z.to_nat (1 + np) in
        (* StoreCookie keeps the cookies of the reply unless they are longer than MaxCookieLen *)
        let k := if cookieLen <=? MaxCookieLen then Z.to_nat (reply_count (1 + np) 32 cookieLen) else O in
        {| s_pool := rest ++ issue_n issue nx k; s_next := (nx + requested)%nat; s_sent := c :: sent |}
      else {| s_pool := rest; s_next := (nx + waste)%nat; s_sent := c :: sent |}
  end.

(* one call of the client (measureClockOffsetIP / ...SCION with NTS): cookies of
   cookieLen bytes, 32-byte unique identifier *)
Definition sys_step {C} (issue : nat -> C) (cookieLen : Z) (s : sys C) (o : exch) : sys C :=
  let nx := (s_next s + e_skip o)%nat in
  match s_pool s with
  | [] =>
      if e_ke_ok o
      then sys_exchange issue cookieLen (issue_n issue nx keCookies) (nx + keCookies)%nat (s_sent s) (e_ok o) (e_nosend o) (e_waste o) s
      else {| s_pool := []; s_next := nx; s_sent := s_sent s |}
  | p => sys_exchange issue cookieLen p nx (s_sent s) (e_ok o) (e_nosend o) (e_waste o) s
  end.

Definition sys0 {C} : sys C := {| s_pool := []; s_next := O; s_sent := [] |}.
Definition sys_run {C} (issue : nat -> C) (cookieLen : Z) (s : sys C) (os : list exch) : sys C :=
  fold_left (sys_step issue cookieLen) os s.
