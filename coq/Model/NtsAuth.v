(* Model of the NTS authentication code of /repo:
     net/nts/nts.go      EncodePacket, DecodePacket, authenticate, ProcessRequest,
                         ProcessResponse, NewRequestPacket, NewResponsePacket, maxCookies,
                         the pack/unpack methods of the four extension fields
     net/ntske/cookies.go  ServerCookie / EncryptedServerCookie Encode, Decode,
                         EncryptWithNonce, Decrypt
     net/ntske/ntske.go  ExportKeys
     core/server/server_ip.go, server_scion.go   the NTS part of the request path
     core/client/client_ip.go                    the NTS part of the response path
   No proofs here.

   Conventions: a byte string is a list of Z; positions and lengths of byte
   strings are nat (Go's int positions never go negative in this code), the
   16-bit values read from the wire are Z.  The AEAD (miscreant AES-SIV-CMAC) and
   the TLS exporter are Section variables: symbolic crypto.  The random nonce
   / unique identifier that the Go code reads from crypto/rand is an explicit
   argument. *)
From Coq Require Import ZArith List Bool Lia.
From ST Require Import Base.Ints.
Import ListNotations.
Open Scope Z_scope.

Definition bytes := list Z.

Inductive err :=
| EPacketTooLong | EShortExtension | EShortUniqueID | ENoUniqueID | ENoAuthenticator
| ENoCookies | EUnexpectedNonceLen | EUnexpectedResponseID
| EKeySize          (* miscreant.ErrKeySize: key is not 32 or 64 bytes *)
| ENotAuthentic     (* miscreant.ErrNotAuthentic *)
| ECookieData       (* ntske.errUnexpectedCookieData *)
| ENoKey.           (* provider.Get: no valid key with that id *)

Inductive outcome (A : Type) :=
| Ok (a : A) | Err (e : err) | Panic | OutOfFuel.
Arguments Ok {A} a.
Arguments Err {A} e.
Arguments Panic {A}.
Arguments OutOfFuel {A}.

Definition err_code (e : err) : Z :=
  match e with
  | EPacketTooLong => 1 | EShortExtension => 2 | EShortUniqueID => 3 | ENoUniqueID => 4
  | ENoAuthenticator => 5 | ENoCookies => 6 | EUnexpectedNonceLen => 7
  | EUnexpectedResponseID => 8 | EKeySize => 9 | ENotAuthentic => 10 | ECookieData => 11
  | ENoKey => 12
  end.

(* ---- byte helpers ---- *)
Definition nthz (b : bytes) (i : nat) : Z := nth i b 0.
(* binary.BigEndian.Uint16(b[pos:]) *)
Definition be16 (b : bytes) (pos : nat) : Z := nthz b pos * 256 + nthz b (S pos).
(* the two bytes binary.BigEndian.PutUint16 writes for a uint16 value *)
Definition enc16 (v : Z) : bytes := [(v / 256) mod 256; v mod 256].
(* x := make([]byte, n); copy(x, src) *)
Definition take_pad (n : nat) (src : bytes) : bytes :=
  firstn n src ++ repeat 0 (n - length src).
(* (n + 3) &^ 3 *)
Definition pad4 (n : nat) : nat := ((n + 3) / 4 * 4)%nat.
Definition lenz (b : bytes) : Z := Z.of_nat (length b).

Fixpoint bytes_eqb (a b : bytes) : bool :=
  match a, b with
  | [], [] => true
  | x :: a', y :: b' => (x =? y) && bytes_eqb a' b'
  | _, _ => false
  end.

(* extension field types *)
Definition extUniqueIdentifier : Z := 260.   (* 0x104 *)
Definition extCookie : Z := 516.             (* 0x204 *)
Definition extCookiePlaceholder : Z := 772.  (* 0x304 *)
Definition extAuthenticator : Z := 1028.     (* 0x404 *)
Definition MaxPacketLen : nat := 1024.
Definition ntpPacketLen : nat := 48.
Definition numStoredCookies : Z := 8.

(* nts.Packet, as far as the code reads it back: the Key/PlainText members of
   the Authenticator are only inputs of the encoder (see enc_packet). *)
Record packet := {
  p_uid : bytes;
  p_cookies : list bytes;
  p_nph : nat;                (* len(CookiePlaceholders) *)
  p_nonce : bytes;
  p_ct : bytes;
  p_pos : nat                 (* Auth.pos *)
}.
Definition packet0 : packet :=
  {| p_uid := []; p_cookies := []; p_nph := 0; p_nonce := []; p_ct := []; p_pos := 0 |}.

(* ------------------------------------------------------------------ *)
(* DecodePacket                                                        *)
(* ------------------------------------------------------------------ *)
Record dstate := { d_pkt : packet; d_uid : bool; d_auth : bool }.

(* Authenticator.unpack(buf, pos): pos is the position of the field body *)
Definition unpack_auth (b : bytes) (vpos : nat) : bytes * bytes :=
  let nonceLen := Z.to_nat (be16 b vpos) in
  let ctLen := Z.to_nat (be16 b (vpos + 2)) in
  let p := (vpos + 4)%nat in
  let nonce := take_pad nonceLen (skipn p b) in
  let n := Nat.min nonceLen (length b - p) in      (* n := copy(nonce, buf[pos:]) *)
  (nonce, take_pad ctLen (skipn (p + n) b)).

(* one iteration of the for loop of DecodePacket, at a position where the
   loop condition holds *)
Definition decode_field (b : bytes) (pos : nat) (s : dstate) : outcome (nat * dstate) :=
  let t := be16 b pos in
  let l := be16 b (pos + 2) in
  if l <? 4 then Err EShortExtension else
  let vpos := (pos + 4)%nat in
  let vlen := Z.to_nat (l - 4) in
  let next := (pos + Z.to_nat l)%nat in
  let pk := d_pkt s in
  if t =? extUniqueIdentifier then
    if l - 4 <? 32 then Err EShortUniqueID else
    Ok (next, {| d_pkt := {| p_uid := take_pad vlen (skipn vpos b); p_cookies := p_cookies pk; p_nph := p_nph pk;
                             p_nonce := p_nonce pk; p_ct := p_ct pk; p_pos := p_pos pk |};
                 d_uid := true; d_auth := d_auth s |})
  else if t =? extAuthenticator then
    let '(nonce, ct) := unpack_auth b vpos in
    Ok (next, {| d_pkt := {| p_uid := p_uid pk; p_cookies := p_cookies pk; p_nph := p_nph pk;
                             p_nonce := nonce; p_ct := ct; p_pos := pos |};
                 d_uid := d_uid s; d_auth := true |})
  else if t =? extCookie then
    Ok (next, {| d_pkt := {| p_uid := p_uid pk; p_cookies := p_cookies pk ++ [take_pad vlen (skipn vpos b)]; p_nph := p_nph pk;
                             p_nonce := p_nonce pk; p_ct := p_ct pk; p_pos := p_pos pk |};
                 d_uid := d_uid s; d_auth := d_auth s |})
  else if t =? extCookiePlaceholder then
    Ok (next, {| d_pkt := {| p_uid := p_uid pk; p_cookies := p_cookies pk; p_nph := S (p_nph pk);
                             p_nonce := p_nonce pk; p_ct := p_ct pk; p_pos := p_pos pk |};
                 d_uid := d_uid s; d_auth := d_auth s |})
  else Ok (next, s).

(* for len(b)-pos >= 28 && !foundAuthenticator *)
Definition decode_continue (b : bytes) (pos : nat) (s : dstate) : bool :=
  (pos + 28 <=? length b)%nat && negb (d_auth s).

Fixpoint decode_loop (fuel : nat) (b : bytes) (pos : nat) (s : dstate) : outcome dstate :=
  if decode_continue b pos s then
    match fuel with
    | O => OutOfFuel
    | S f =>
        match decode_field b pos s with
        | Ok (next, s') => decode_loop f b next s'
        | Err e => Err e
        | Panic => Panic
        | OutOfFuel => OutOfFuel
        end
    end
  else Ok s.

Definition decode_packet (b : bytes) : outcome packet :=
  if (MaxPacketLen <? length b)%nat then Err EPacketTooLong else
  match decode_loop (length b) b ntpPacketLen {| d_pkt := packet0; d_uid := false; d_auth := false |} with
  | Ok s => if negb (d_uid s) then Err ENoUniqueID
            else if negb (d_auth s) then Err ENoAuthenticator
            else Ok (d_pkt s)
  | Err e => Err e
  | Panic => Panic
  | OutOfFuel => OutOfFuel
  end.

(* Packet.FirstCookie *)
Definition first_cookie (p : packet) : outcome bytes :=
  match p_cookies p with [] => Err ENoCookies | c :: _ => Ok c end.

(* maxCookies(idLen, cookieLen); Go's int division truncates *)
Definition max_cookies (idLen cookieLen : nat) : Z :=
  let idFieldLen := 4 + Z.of_nat (pad4 idLen) in
  let cookieFieldLen := 4 + Z.of_nat (pad4 cookieLen) in
  Z.quot (1024 - 48 - idFieldLen - 40) cookieFieldLen.

(* ------------------------------------------------------------------ *)
(* writers: buf[pos:] of a buffer of cap bytes; acc = the bytes written *)
(* so far (pos = length acc)                                           *)
(* ------------------------------------------------------------------ *)
(* extHdr.pack / two PutUint16: panics (index out of range) unless 4 bytes remain *)
Definition wr_hdr (cap : nat) (acc : bytes) (t l : Z) : outcome bytes :=
  if (length acc + 4 <=? cap)%nat then Ok (acc ++ enc16 t ++ enc16 l) else Panic.
(* n := copy(buf[pos:], src); pos += n   -- copies what fits *)
Definition wr_copy (cap : nat) (acc : bytes) (src : bytes) : bytes :=
  acc ++ firstn (cap - length acc) src.

(* Cookie.pack / CookiePlaceholder.pack / the body of UniqueIdentifier.pack *)
Definition pack_field (cap : nat) (acc : bytes) (t : Z) (v : bytes) : outcome bytes :=
  let newlen := pad4 (length v) in
  match wr_hdr cap acc t (u16 (4 + u16 (Z.of_nat newlen))) with
  | Ok acc1 =>
      let acc2 := wr_copy cap acc1 v in
      Ok (wr_copy cap acc2 (repeat 0 (newlen - length v)))
  | o => o
  end.

Definition pack_uid (cap : nat) (acc : bytes) (id : bytes) : outcome bytes :=
  if (length id <? 32)%nat then Panic (* errShortUniqueID -> panic(err) in EncodePacket *)
  else pack_field cap acc extUniqueIdentifier id.

Fixpoint pack_fields (cap : nat) (acc : bytes) (t : Z) (vs : list bytes) : outcome bytes :=
  match vs with
  | [] => Ok acc
  | v :: r => match pack_field cap acc t v with
              | Ok acc' => pack_fields cap acc' t r
              | o => o
              end
  end.

Definition key_ok (k : bytes) : bool := (length k =? 32)%nat || (length k =? 64)%nat.

(* ExportKeys: label and the two contexts *)
Definition export_label : bytes :=  (* "EXPORTER-network-time-security" *)
  [69;88;80;79;82;84;69;82;45;110;101;116;119;111;114;107;45;116;105;109;101;45;115;101;99;117;114;105;116;121].
Definition s2c_context : bytes := [0;0;0;15;1].
Definition c2s_context : bytes := [0;0;0;15;0].

(* generic TLV walk of ServerCookie.Decode / EncryptedServerCookie.Decode:
   t1 carries a uint16 (length >= 2 required), t2 and t3 carry byte strings *)
Record tlv := { v1 : Z; v2 : bytes; v3 : bytes; f1 : bool; f2 : bool; f3 : bool }.
Definition tlv0 : tlv := {| v1 := 0; v2 := []; v3 := []; f1 := false; f2 := false; f3 := false |}.

Fixpoint tlv_loop (fuel : nat) (t1 t2 t3 : Z) (b : bytes) (pos : nat) (s : tlv) : outcome tlv :=
  if (pos <? length b)%nat then
    match fuel with
    | O => OutOfFuel
    | S f =>
        if (length b - pos <? 4)%nat then Err ECookieData else
        let t := be16 b pos in
        let l := Z.to_nat (be16 b (pos + 2)) in
        if (length b - pos - 4 <? l)%nat then Err ECookieData else
        let v := firstn l (skipn (pos + 4) b) in
        if t =? t1 then
          if (l <? 2)%nat then Err ECookieData else
          tlv_loop f t1 t2 t3 b (pos + 4 + l)
            {| v1 := be16 b (pos + 4); v2 := v2 s; v3 := v3 s; f1 := true; f2 := f2 s; f3 := f3 s |}
        else if t =? t2 then
          tlv_loop f t1 t2 t3 b (pos + 4 + l)
            {| v1 := v1 s; v2 := v; v3 := v3 s; f1 := f1 s; f2 := true; f3 := f3 s |}
        else if t =? t3 then
          tlv_loop f t1 t2 t3 b (pos + 4 + l)
            {| v1 := v1 s; v2 := v2 s; v3 := v; f1 := f1 s; f2 := f2 s; f3 := true |}
        else tlv_loop f t1 t2 t3 b (pos + 4 + l) s
    end
  else if negb (pos =? length b)%nat then Err ECookieData
  else if negb (f1 s && f2 s && f3 s) then Err ECookieData
  else Ok s.

Definition tlv_decode (t1 t2 t3 : Z) (b : bytes) : outcome tlv :=
  tlv_loop (length b) t1 t2 t3 b 0 tlv0.

Definition tlv_encode (t1 t2 t3 : Z) (x : Z) (a b : bytes) : bytes :=
  enc16 t1 ++ enc16 2 ++ enc16 x ++
  enc16 t2 ++ enc16 (u16 (lenz a)) ++ a ++
  enc16 t3 ++ enc16 (u16 (lenz b)) ++ b.

Definition cookieTypeAlgorithm : Z := 257.  (* 0x101 *)
Definition cookieTypeKeyS2C : Z := 513.     (* 0x201 *)
Definition cookieTypeKeyC2S : Z := 769.     (* 0x301 *)
Definition cookieTypeKeyID : Z := 1025.     (* 0x401 *)
Definition cookieTypeNonce : Z := 1281.     (* 0x501 *)
Definition cookieTypeCiphertext : Z := 1537. (* 0x601 *)

Record server_cookie := { sc_algo : Z; sc_s2c : bytes; sc_c2s : bytes }.
Record enc_cookie := { ec_id : Z; ec_nonce : bytes; ec_ct : bytes }.

(* ServerCookie.Encode / Decode *)
Definition sc_encode (c : server_cookie) : bytes :=
  tlv_encode cookieTypeAlgorithm cookieTypeKeyS2C cookieTypeKeyC2S (sc_algo c) (sc_s2c c) (sc_c2s c).
Definition sc_decode (b : bytes) : outcome server_cookie :=
  match tlv_decode cookieTypeAlgorithm cookieTypeKeyS2C cookieTypeKeyC2S b with
  | Ok s => Ok {| sc_algo := v1 s; sc_s2c := v2 s; sc_c2s := v3 s |}
  | Err e => Err e | Panic => Panic | OutOfFuel => OutOfFuel
  end.
(* EncryptedServerCookie.Encode / Decode *)
Definition ec_encode (c : enc_cookie) : bytes :=
  tlv_encode cookieTypeKeyID cookieTypeNonce cookieTypeCiphertext (ec_id c) (ec_nonce c) (ec_ct c).
Definition ec_decode (b : bytes) : outcome enc_cookie :=
  match tlv_decode cookieTypeKeyID cookieTypeNonce cookieTypeCiphertext b with
  | Ok s => Ok {| ec_id := v1 s; ec_nonce := v2 s; ec_ct := v3 s |}
  | Err e => Err e | Panic => Panic | OutOfFuel => OutOfFuel
  end.

(* ------------------------------------------------------------------ *)
(* everything that calls the AEAD / the exporter                       *)
(* ------------------------------------------------------------------ *)
Section Crypto.
  (* aessiv.Seal(nil, nonce, plaintext, ad) / aessiv.Open(nil, nonce, ciphertext, ad)
     for the key the AEAD was made with; ad = None is Go's nil (the cookie
     code), Some x a non-nil slice (the packet code). *)
  Variable seal : bytes -> bytes -> option bytes -> bytes -> bytes.
  Variable open : bytes -> bytes -> option bytes -> bytes -> option bytes.
  (* cs.ExportKeyingMaterial(label, context, 32) *)
  Variable export : bytes -> bytes -> bytes.

  (* Authenticator.pack(buf, pos) with the 16 random bytes it reads *)
  Definition pack_auth (cap : nat) (acc : bytes) (key pt rnd : bytes) : outcome bytes :=
    if negb (key_ok key) then Panic (* NewAEAD error -> panic(err) in EncodePacket *) else
    let nonce := rnd in
    let nonceLen := u16 (lenz nonce) in
    let noncepadlen := u16 (- nonceLen) mod 4 in
    let ct := seal key nonce (Some acc) pt in
    let ctLen := u16 (lenz ct) in
    let cpadlen := u16 (- ctLen) mod 4 in
    match wr_hdr cap acc extAuthenticator (u16 (4 + 2 + 2 + nonceLen + noncepadlen + ctLen + cpadlen)) with
    | Ok a1 =>
        match wr_hdr cap a1 nonceLen ctLen with   (* two PutUint16, same bounds rule as a header *)
        | Ok a2 =>
            let a3 := wr_copy cap a2 nonce in
            let a4 := wr_copy cap a3 (repeat 0 (Z.to_nat noncepadlen)) in
            let a5 := wr_copy cap a4 ct in
            Ok (wr_copy cap a5 (repeat 0 (Z.to_nat cpadlen)))
        | o => o
        end
    | o => o
    end.

  (* EncodePacket(&b, &pkt): hdr = the 48 bytes already in b; the Packet is
     given by its unique identifier, cookies, placeholder bodies, key and
     plaintext; rnd = the 16 bytes read from crypto/rand *)
  Definition enc_packet (hdr uid : bytes) (cookies placeholders : list bytes)
                        (key pt rnd : bytes) : outcome bytes :=
    if negb (length hdr =? ntpPacketLen)%nat then Panic else
    match pack_uid MaxPacketLen hdr uid with
    | Ok a1 =>
        match pack_fields MaxPacketLen a1 extCookie cookies with
        | Ok a2 =>
            match pack_fields MaxPacketLen a2 extCookiePlaceholder placeholders with
            | Ok a3 => pack_auth MaxPacketLen a3 key pt rnd
            | o => o
            end
        | o => o
        end
    | o => o
    end.

  (* NewResponsePacket(cookies, key, uniqueid): the cookies kept and the plaintext *)
  Definition new_response (cookies : list bytes) (uid : bytes) : outcome bytes :=
    match cookies with
    | [] => Panic    (* cookies[0] *)
    | c0 :: _ =>
        let n := max_cookies (length uid) (length c0) in
        let cs := if (1 <=? n) && (n <? Z.of_nat (length cookies)) then firstn (Z.to_nat n) cookies else cookies in
        let cap := (length cs * (4 + length c0))%nat in
        match pack_fields cap [] extCookie cs with
        | Ok acc => Ok (acc ++ repeat 0 (cap - length acc))
        | o => o
        end
    end.

  (* NewRequestPacket(ntskeData) with the 32 random bytes of newID: cookies and placeholder bodies *)
  Definition new_request (kecookies : list bytes) : outcome (list bytes * list bytes) :=
    match kecookies with
    | [] => Panic
    | c :: _ =>
        let nph := numStoredCookies - Z.of_nat (length kecookies) in
        let mx := max_cookies 32 (length c) - 1 in
        let nph := if mx <? nph then mx else nph in
        Ok ([c], repeat (repeat 0 (length c)) (Z.to_nat nph))
    end.

  (* the loop of authenticate over the decrypted buffer: appends the cookie fields *)
  Fixpoint plain_loop (fuel : nat) (b : bytes) (pos : nat) (cs : list bytes) : outcome (list bytes) :=
    if (pos + 28 <=? length b)%nat then
      match fuel with
      | O => OutOfFuel
      | S f =>
          let t := be16 b pos in
          let l := be16 b (pos + 2) in
          if l <? 4 then Err EShortExtension else
          let cs' := if t =? extCookie then cs ++ [take_pad (Z.to_nat (l - 4)) (skipn (pos + 4) b)] else cs in
          plain_loop f b (pos + Z.to_nat l) cs'
      end
    else Ok cs.

  (* Packet.authenticate(b, key) *)
  Definition authenticate (b key : bytes) (p : packet) : outcome packet :=
    if negb (key_ok key) then Err EKeySize else
    if negb (length (p_nonce p) =? 16)%nat then Err EUnexpectedNonceLen else
    if (length b <? p_pos p)%nat then Panic (* b[:pos]; not reachable with the b that was decoded *) else
    match open key (p_nonce p) (Some (firstn (p_pos p) b)) (p_ct p) with
    | None => Err ENotAuthentic
    | Some pt =>
        match plain_loop (length pt) pt 0 (p_cookies p) with
        | Ok cs => Ok {| p_uid := p_uid p; p_cookies := cs; p_nph := p_nph p;
                         p_nonce := p_nonce p; p_ct := p_ct p; p_pos := p_pos p |}
        | Err e => Err e | Panic => Panic | OutOfFuel => OutOfFuel
        end
    end.

  Definition process_request (b key : bytes) (p : packet) : outcome packet := authenticate b key p.

  Definition process_response (b key : bytes) (p : packet) (reqID : bytes) : outcome packet :=
    if negb (bytes_eqb reqID (p_uid p)) then Err EUnexpectedResponseID else authenticate b key p.

  (* what a receiver does with a datagram: DecodePacket, then ProcessRequest / ProcessResponse *)
  Definition server_accept (b key : bytes) : outcome packet :=
    match decode_packet b with
    | Ok p => process_request b key p
    | o => o
    end.
  Definition client_accept (b key reqID : bytes) : outcome packet :=
    match decode_packet b with
    | Ok p => process_response b key p reqID
    | o => o
    end.

  (* the receive loop of IPClient.measureClockOffsetIP as far as NTS decides: the
     datagrams ds arrive in this order; one that fails DecodePacket /
     ProcessResponse is skipped once (maxNumRetries = 1) when the context has a
     deadline, otherwise the call fails; the result is the position of the
     datagram the measurement is computed from (i counts the datagrams already
     consumed, retries the retries already used) *)
  Fixpoint client_loop (deadline : bool) (key reqID : bytes) (ds : list bytes) (retries i : nat) : option nat :=
    match ds with
    | [] => None
    | b :: r =>
        match client_accept b key reqID with
        | Ok _ => Some i
        | _ => if deadline && (retries =? 0)%nat then client_loop deadline key reqID r 1 (S i) else None
        end
    end.

  (* ServerCookie.EncryptWithNonce(key, keyid) with the 16 random bytes *)
  Definition sc_encrypt (c : server_cookie) (key : bytes) (keyid : Z) (rnd : bytes) : outcome enc_cookie :=
    if negb (key_ok key) then Err EKeySize else
    Ok {| ec_id := u16 keyid; ec_nonce := rnd; ec_ct := seal key rnd None (sc_encode c) |}.

  (* EncryptedServerCookie.Decrypt(key) *)
  Definition ec_decrypt (c : enc_cookie) (key : bytes) : outcome server_cookie :=
    if negb (key_ok key) then Err EKeySize else
    if negb (length (ec_nonce c) =? 16)%nat then Err ECookieData else
    match open key (ec_nonce c) None (ec_ct c) with
    | None => Err ENotAuthentic
    | Some pt => sc_decode pt
    end.

  (* cookie bytes -> keys, as the listeners do it (Decode, then Decrypt) *)
  Definition cookie_open (cb key : bytes) : outcome server_cookie :=
    match ec_decode cb with
    | Ok ec => ec_decrypt ec key
    | Err e => Err e | Panic => Panic | OutOfFuel => OutOfFuel
    end.
  Definition cookie_seal (c : server_cookie) (key : bytes) (keyid : Z) (rnd : bytes) : outcome bytes :=
    match sc_encrypt c key keyid rnd with
    | Ok ec => Ok (ec_encode ec)
    | Err e => Err e | Panic => Panic | OutOfFuel => OutOfFuel
    end.

  (* the NTS part of runIPServer / runSCIONServer for a datagram longer than 48
     bytes: getkey = provider.Get.  Result: the authenticated packet and the
     cookie contents (S2C is the key of the reply). *)
  Definition server_nts (getkey : Z -> option bytes) (b : bytes) : outcome (packet * server_cookie) :=
    match decode_packet b with
    | Ok p =>
        match first_cookie p with
        | Ok cb =>
            match ec_decode cb with
            | Ok ec =>
                match getkey (ec_id ec) with
                | None => Err ENoKey
                | Some mk =>
                    match ec_decrypt ec mk with
                    | Ok sc =>
                        match process_request b (sc_c2s sc) p with
                        | Ok p' => Ok (p', sc)
                        | Err e => Err e | Panic => Panic | OutOfFuel => OutOfFuel
                        end
                    | Err e => Err e | Panic => Panic | OutOfFuel => OutOfFuel
                    end
                end
            | Err e => Err e | Panic => Panic | OutOfFuel => OutOfFuel
            end
        | Err e => Err e | Panic => Panic | OutOfFuel => OutOfFuel
        end
    | Err e => Err e | Panic => Panic | OutOfFuel => OutOfFuel
    end.

  (* ExportKeys: (S2cKey, C2sKey) *)
  Definition export_keys : bytes * bytes :=
    (export export_label s2c_context, export export_label c2s_context).
End Crypto.

(* ------------------------------------------------------------------ *)
(* Property oracle, written from the statement of C10 (it does not use *)
(* the decoder or the authentication model above).                     *)
(* An honest packet is described by what the sender did: the bytes it  *)
(* sent, where its authenticator field starts, the nonce and the       *)
(* ciphertext it computed, its key, its direction (0 = request under   *)
(* C2S, 1 = response under S2C) and its unique identifier.             *)
(* ------------------------------------------------------------------ *)
Record honest := {
  h_bytes : bytes; h_pos : nat; h_nonce : bytes; h_ct : bytes;
  h_key : bytes; h_dir : Z; h_uid : bytes
}.

(* b carries the authenticated bytes, the nonce and the ciphertext of h
   unchanged: the bytes before the authenticator are those of h, and the
   authenticator of b holds h's nonce and ciphertext with their lengths.
   (The authenticator's own type/length word, padding and anything after
   the ciphertext are not covered by the property.) *)
Definition untampered (b : bytes) (h : honest) : bool :=
  (h_pos h <=? length b)%nat &&
  bytes_eqb (firstn (h_pos h) b) (firstn (h_pos h) (h_bytes h)) &&
  (be16 b (h_pos h + 4) =? lenz (h_nonce h)) &&
  (be16 b (h_pos h + 6) =? lenz (h_ct h)) &&
  bytes_eqb (take_pad (length (h_nonce h)) (skipn (h_pos h + 8) b)) (h_nonce h) &&
  bytes_eqb (take_pad (length (h_ct h)) (skipn (h_pos h + 8 + length (h_nonce h)) b)) (h_ct h).

(* AES-SIV (RFC 5297) splits its key in two halves: the first keys S2V/CMAC (the
   tag), the second keys CTR (the encryption).  With an empty plaintext - every
   NTS request - nothing is encrypted and the second half is never used: two keys
   with the same first half produce and verify the same tag.  "The same key" for
   the receiver of a packet whose plaintext is empty (ciphertext = the 16-byte
   tag alone) therefore means, for the real cipher: the same first half (theorem
   C10_wrong_key).  The ORACLE judges by the property text: "the use of a
   different key is rejected" - the receiver's key must be the sender's key. *)
Definition mac_half (k : bytes) : bytes := firstn (length k / 2) k.
Definition key_accepts (h : honest) (key : bytes) : bool := bytes_eqb (h_key h) key.

(* receiver of direction dir (0 = server, 1 = client) holding key; for a
   client reqid = the unique identifier of its outstanding request *)
Definition justifies (b key : bytes) (dir : Z) (reqid : bytes) (h : honest) : bool :=
  key_accepts h key && (h_dir h =? dir) && untampered b h &&
  (if dir =? 1 then bytes_eqb (h_uid h) reqid else true).

(* the packet is exactly one of the honest ones *)
Definition is_honest (b key : bytes) (dir : Z) (reqid : bytes) (h : honest) : bool :=
  bytes_eqb (h_bytes h) b && bytes_eqb (h_key h) key && (h_dir h =? dir) &&
  (if dir =? 1 then bytes_eqb (h_uid h) reqid else true).

(* accepted = what the implementation did with b *)
Definition C10_packet_ok (hs : list honest) (b key : bytes) (dir : Z) (reqid : bytes) (accepted : bool) : bool :=
  (if accepted then existsb (justifies b key dir reqid) hs else true) &&
  (if existsb (is_honest b key dir reqid) hs then accepted else true).

(* cookies: sealed = (the cookie bytes issued, the sealing key, the contents);
   cb, key = what was presented; result = Some contents when it opened *)
Definition sc_eqb (a b : server_cookie) : bool :=
  (sc_algo a =? sc_algo b) && bytes_eqb (sc_s2c a) (sc_s2c b) && bytes_eqb (sc_c2s a) (sc_c2s b).
Definition C10_cookie_ok (cb0 key0 : bytes) (c0 : server_cookie) (cb key : bytes) (result : option server_cookie) : bool :=
  match result with
  | Some c => bytes_eqb key key0 && sc_eqb c c0
  | None => negb (bytes_eqb cb cb0 && bytes_eqb key key0)
  end.

(* keys exported for the two directions: both ends agree, the directions differ *)
Definition C10_export_ok (cl_s2c cl_c2s sv_s2c sv_c2s : bytes) : bool :=
  bytes_eqb cl_s2c sv_s2c && bytes_eqb cl_c2s sv_c2s && negb (bytes_eqb cl_c2s cl_s2c).

(* listeners: a datagram longer than 48 bytes is answered only if it carries,
   unchanged, the authenticated bytes, nonce and ciphertext of a request that an
   honest client sent (the key is the one inside that request's own cookie);
   and every honest request is answered *)
Definition C10_listener_ok (hs : list honest) (b : bytes) (replied verified : bool) : bool :=
  (if replied then existsb (fun h => (h_dir h =? 0) && untampered b h) hs else true) &&
  (if existsb (fun h => (h_dir h =? 0) && bytes_eqb (h_bytes h) b) hs then replied else true) &&
  (* the reply is itself a packet of the project's encoder under the S2C key of
     the request's cookie: the requesting client must accept it *)
  (if replied then verified else true).

(* the cookies the listener re-issues in a reply (observed by opening each of
   them with the server key its key id names): every one must be sealed under
   the server's current key and yield exactly the algorithm and keys of the
   session that made the request - "a cookie ... yields exactly the sealed
   algorithm and keys", and the next request made with it must be accepted *)
Definition C10_reissue_ok (replied cookies_ok : bool) : bool :=
  if replied then cookies_ok else true.

(* a client takes nothing from a packet it rejects: stored = the cookies found
   in the (previously empty) cookie store of the client after the packet *)
Definition C10_reject_clean (accepted : bool) (stored : list bytes) : bool :=
  accepted || match stored with [] => true | _ :: _ => false end.

(* "a response to a different request is rejected": the client whose request
   number n is outstanding was handed the response that the server made for
   request number k of the same session *)
Definition C10_session_ok (accepted : bool) (n k : Z) : bool :=
  if accepted then n =? k else true.

(* the client's receive loop: used = the position in ds of the datagram the
   returned offset was computed from (negative: the call failed).  "A client
   accepts an NTS response only if the authenticator verifies ... and the unique
   identifier equals that of its outstanding request": that datagram carries,
   unchanged, the authenticated bytes, nonce and ciphertext of a response an
   honest server sealed under the client's S2C key for this request; and the
   genuine response, when it is the first datagram, is the one used *)
Definition C10_client_ok (hs : list honest) (ds : list bytes) (key reqid : bytes) (used : Z) : bool :=
  (if used <? 0 then (-1 <=? used)
   else existsb (justifies (nth (Z.to_nat used) ds []) key 1 reqid) hs) &&
  match ds with
  | b :: _ => if existsb (is_honest b key 1 reqid) hs then used =? 0 else true
  | [] => true
  end.

(* the cookies a listener puts into its reply: the server cookie of the request,
   sealed again under the provider's current key, once per cookie / placeholder
   field of the request (rnds = the nonces read from crypto/rand) *)
Definition reissue (seal : bytes -> bytes -> option bytes -> bytes -> bytes)
                   (sc : server_cookie) (key : bytes) (keyid : Z) (rnds : list bytes) : list (outcome bytes) :=
  map (cookie_seal seal sc key keyid) rnds.
(* what the harness observes of them: each opens under that key to exactly sc *)
Definition reissued_ok (open : bytes -> bytes -> option bytes -> bytes -> option bytes)
                       (sc : server_cookie) (key : bytes) (cbs : list (outcome bytes)) : bool :=
  forallb (fun o => match o with
                    | Ok cb => match cookie_open open cb key with Ok c => sc_eqb c sc | _ => false end
                    | _ => false
                    end) cbs.
(* what a client's cookie store receives from one packet *)
Definition client_stored (o : outcome packet) : list bytes :=
  match o with Ok p => p_cookies p | _ => [] end.

(* ---- oracles of the remaining case kinds, from the property text ---- *)
(* "every packet produced by the project's own encoder for the same keys is
   accepted": EncodePacket was given a 48-byte header, an identifier of at least
   32 bytes, a key of legal length, 16 random bytes, fields that fit into 1024
   bytes, and no plaintext (ptkind 0) or the plaintext NewResponsePacket makes
   from cookies of one length that is a multiple of 4 (ptkind 1); code = 0: it
   did not panic; acc = 1: the receiver accepted the result under the same key *)
Definition sum_fields (vs : list bytes) : nat :=
  fold_right (fun v s => (4 + pad4 (length v) + s)%nat) 0%nat vs.
Definition C10_encode_ok (hdr uid : bytes) (cs phs : list bytes) (key pt rnd : bytes) (ptkind code acc : Z) : bool :=
  let fits := (length hdr =? 48)%nat && (32 <=? length uid)%nat && key_ok key && (length rnd =? 16)%nat &&
              (48 + (4 + pad4 (length uid)) + sum_fields cs + sum_fields phs + (24 + pad4 (16 + length pt)) <=? 1024)%nat &&
              ((ptkind =? 0) || (ptkind =? 1)) in
  if fits then (code =? 0) && (acc =? 1) else true.

(* the same clause for what NewRequestPacket / NewResponsePacket build, whatever
   the sizes come to (C10_complete proves that these always fit): srckind 1 = the
   parts are NewRequestPacket's for a pool whose first cookie has first_len <= 896
   bytes (what the key exchange lets through), identifier of 32 bytes; srckind 2 =
   the plaintext is NewResponsePacket's for cookies of one length L, a multiple
   of 4 (shape_ok), an identifier of at least 32 bytes, a multiple of 4, and room
   for one cookie by the specification of maxCookies.  The result must be encoded
   without panic and be accepted under the same key. *)
Definition C10_encode_src_ok (srckind : Z) (first_len : nat) (shape_ok : bool) (L : nat)
                             (hdr uid key pt rnd : bytes) (code acc : Z) : bool :=
  let common := (length hdr =? 48)%nat && key_ok key && (length rnd =? 16)%nat in
  if (srckind =? 1) && common && (length uid =? 32)%nat && (first_len <=? 896)%nat &&
     match pt with [] => true | _ :: _ => false end
  then (code =? 0) && (acc =? 1)
  else if (srckind =? 2) && common && (32 <=? length uid)%nat && (length uid mod 4 =? 0)%nat &&
          shape_ok && (1 <=? max_cookies (length uid) L)
  then (code =? 0) && (acc =? 1)
  else true.

(* a TLV string that decodes is decoded again to the same cookie after
   re-encoding ("yields exactly the sealed algorithm and keys") *)
Definition C10_tlv_ok (code same : Z) : bool := if code =? 0 then negb (same =? 0) else true.

(* the real NTS-KE server: the cookies it issued to a client whose exported keys
   are c2s / s2c each open (under the server key they name) to exactly these keys
   by direction and the negotiated algorithm, and the exchange names the
   listener; obs = what each cookie opened to (opened, algorithm, S2C, C2S) *)
Definition C10_realke_ok (c2s s2c : bytes) (algo addr_ok : Z) (obs : list (bool * server_cookie)) : bool :=
  (algo =? 15) && negb (addr_ok =? 0) &&
  match obs with [] => false | _ :: _ => true end &&
  forallb (fun o => fst o && sc_eqb (snd o) {| sc_algo := 15; sc_s2c := s2c; sc_c2s := c2s |}) obs.

(* ntp.DecodePacket + ntp.ValidateRequest on the first byte of a plain 48-byte
   request (leap indicator 0 or 3, version 1..4, mode 3, or mode 0 for version 1) *)
Definition ntp_req_ok (b0 : Z) : bool :=
  let li := b0 / 64 in let vn := (b0 / 8) mod 8 in let mode := b0 mod 8 in
  ((li =? 0) || (li =? 3)) && (1 <=? vn) && (vn <=? 4) &&
  (if vn =? 1 then mode =? 0 else mode =? 3).

(* the strict reading of "any change to ... the ciphertext ... is rejected" for a
   datagram that was shortened: only a datagram that is byte for byte the one an
   honest sender sealed (for this receiver) may be accepted / answered *)
Definition C10_exact_ok (hs : list honest) (b key : bytes) (dir : Z) (reqid : bytes) (accepted : bool) : bool :=
  if accepted then existsb (is_honest b key dir reqid) hs else true.
Definition C10_exact_listener_ok (hs : list honest) (b : bytes) (replied : bool) : bool :=
  if replied then existsb (fun h => (h_dir h =? 0) && bytes_eqb (h_bytes h) b) hs else true.
