(* C11: the concrete system - one NTS client (net/ntske/fetcher.go, net/nts/nts.go as
   used by core/client), the NTS-KE server (core/server/ntske.go) and the NTP server's
   NTS branch (core/server/server_ip.go, server_scion.go) sharing one key provider
   (net/ntske/provider.go: Current and Get are Section variables here; Proofs/CookieSystemC12.v
   puts the model of C12, Model/Provider.v, in their place).  Every call is made of
   the very functions the check executes on the observed datagrams (Model/CookiePool.v:
   fetch, client_request, server_reply, client_process, store).  No proofs here.

   Time is a parameter of every call (the provider reads time.Now()).  AES-SIV, the
   sealing of server cookies (ServerCookie.EncryptWithNonce / EncryptedServerCookie.Decrypt,
   the subject of C10 and C14) and the TLS exporter keys are Section variables. *)
From ST Require Import Base.Ints Base.Bytes Model.CookiePool.
From Coq Require Import ZArith List Bool Lia.
Import ListNotations.
Open Scope Z_scope.

(* a server key as far as cookies are concerned: Key.ID and Key.Value *)
Record skey := { sk_id : Z; sk_val : Z }.

Section System.
(* the key provider: its state, Current() and Get(id) at a clock reading; None = panic *)
Variable pstate : Type.
Variable pcurrent : pstate -> Z -> option (skey * pstate).
Variable pget : pstate -> Z -> Z -> option skey.
Variable seal : bytes -> bytes -> bytes -> bytes -> bytes.
Variable aopen : bytes -> bytes -> bytes -> bytes -> option bytes.
(* the cookie the server makes for session keys (c2s, s2c) under key (id, value) with its n-th nonce *)
Variable mk_cookie : Z -> Z -> nat -> bytes -> bytes -> bytes.
(* EncryptedServerCookie.Decode: the key identifier a cookie names *)
Variable cookie_keyid : bytes -> Z.
(* Decrypt under a key value: the session keys *)
Variable open_cookie : Z -> bytes -> option (bytes * bytes).

Record server := {
  sv_prov : pstate;   (* the key provider *)
  sv_next : nat               (* nonces used so far *)
}.

Record csys := {
  cs_client : client;         (* Fetcher.data *)
  cs_server : server;
  cs_now : Z;                 (* the clock *)
  cs_sent : list bytes        (* ghost: cookies sent in requests so far, newest first *)
}.

(* what the network and the peers do during one call *)
Inductive fate :=
| Deliver          (* request and reply arrive *)
| LoseRequest
| LoseReply
| NoSend.          (* the call ends after FetchData, before the request leaves *)

Record cop := {
  o_age : Z;                         (* time that passes before the call *)
  o_skip : nat;                      (* cookies the servers issue to other clients before the call *)
  o_ke : option (bytes * bytes);     (* if a key exchange is needed: the TLS exporter keys (C2S, S2C), or failure *)
  o_fate : fate;
  o_uid : bytes; o_nonce : bytes; o_hdr : bytes;      (* crypto/rand and NTP header of the request *)
  o_rnonce : bytes; o_rhdr : bytes                    (* ... of the reply *)
}.

(* n cookies under the provider's current key: key := provider.Current(); EncryptWithNonce n times *)
Definition make_cookies (k : skey) (from : nat) (kc2s ks2c : bytes) (n : nat) : list bytes :=
  map (fun i => mk_cookie (sk_id k) (sk_val k) i kc2s ks2c) (seq from n).

(* what one call shows: the observation the property oracle judges *)
Record cobs := {
  ob_sent : option bytes;                  (* the request datagram *)
  ob_rekeyed : bool;
  ob_openable : bool;                      (* the server could open the request's cookie *)
  ob_reply : option (bytes * list bytes * skey);  (* reply, the cookies in it, the provider's current key *)
  ob_intact : bool;
  ob_nosend : bool
}.

(* the NTS-KE exchange (core/server/ntske.go newNTSKEMsg): eight cookies under the current key *)
Definition key_exchange (sv : server) (now : Z) (keys : bytes * bytes) : option (ke_result * server) :=
  match pcurrent (sv_prov sv) now with
  | None => None                                                 (* panic("ID overflow") *)
  | Some (k, p') =>
      Some (KeOk (make_cookies k (sv_next sv) (fst keys) (snd keys) keCookies) (fst keys) (snd keys),
            {| sv_prov := p'; sv_next := (sv_next sv + keCookies)%nat |})
  end.

(* the NTP server on an NTS request: open the first cookie under provider.Get(its key id), then server_reply *)
Definition ntp_server (sv : server) (now : Z) (req rnonce rhdr : bytes)
  : option (option (bytes * list bytes * skey) * server) :=
  match decode_packet req with
  | Ok dq =>
      match d_cookies dq with
      | c :: _ =>
          match pget (sv_prov sv) (cookie_keyid c) now with
          | None => Some (None, sv)                               (* "failed to get key" *)
          | Some key =>
              match open_cookie (sk_val key) c with
              | None => Some (None, sv)                           (* "failed to decrypt cookie" *)
              | Some (kc2s, ks2c) =>
                  match pcurrent (sv_prov sv) now with
                  | None => None
                  | Some (cur, p') =>
                      (* the cookies are made before the reply is built: count them from the result *)
                      match server_reply seal aopen req kc2s ks2c
                              (make_cookies cur (sv_next sv) kc2s ks2c) rnonce rhdr with
                      | Ok (reply, cs) =>
                          let n := Z.to_nat (zlen (d_cookies dq) + d_nplaceholders dq) in
                          Some (Some (reply, cs, cur), {| sv_prov := p'; sv_next := (sv_next sv + n)%nat |})
                      | _ => Some (None, sv)
                      end
                  end
              end
          end
      | [] => Some (None, sv)
      end
  | _ => Some (None, sv)
  end.

(* the part of a call after FetchData returned d (c1 = the fetcher afterwards) *)
Definition cexchange (sent0 : list bytes) (now : Z) (sv1 : server) (rekeyed : bool) (d c1 : client) (o : cop)
  : option (csys * cobs) :=
  match o_fate o with
  | NoSend =>
      Some ({| cs_client := c1; cs_server := sv1; cs_now := now; cs_sent := sent0 |},
            {| ob_sent := None; ob_rekeyed := rekeyed; ob_openable := false; ob_reply := None;
               ob_intact := false; ob_nosend := true |})
  | f =>
      match client_request seal d (o_uid o) (o_nonce o) (o_hdr o), pool d with
      | Ok req, c :: _ =>
          let sent := c :: sent0 in
          match f with
          | LoseRequest =>
              Some ({| cs_client := c1; cs_server := sv1; cs_now := now; cs_sent := sent |},
                    {| ob_sent := Some req; ob_rekeyed := rekeyed; ob_openable := false; ob_reply := None;
                       ob_intact := false; ob_nosend := false |})
          | _ =>
              match ntp_server sv1 now req (o_rnonce o) (o_rhdr o) with
              | None => None
              | Some (None, sv2) =>
                  Some ({| cs_client := c1; cs_server := sv2; cs_now := now; cs_sent := sent |},
                        {| ob_sent := Some req; ob_rekeyed := rekeyed; ob_openable := false; ob_reply := None;
                           ob_intact := false; ob_nosend := false |})
              | Some (Some (reply, cs, cur), sv2) =>
                  let c2 := match f with
                            | Deliver => match client_process aopen reply (s2c d) (o_uid o) c1 with
                                         | Ok c2 => Some c2
                                         | _ => None
                                         end
                            | _ => None
                            end in
                  Some ({| cs_client := match c2 with Some x => x | None => c1 end;
                           cs_server := sv2; cs_now := now; cs_sent := sent |},
                        {| ob_sent := Some req; ob_rekeyed := rekeyed; ob_openable := true;
                           ob_reply := Some (reply, cs, cur);
                           ob_intact := match c2 with Some _ => true | None => false end;
                           ob_nosend := false |})
              end
          end
      | _, _ => None
      end
  end.

(* one call of the client; None: a panic (provider id overflow, request that cannot be encoded) *)
Definition cstep (s : csys) (o : cop) : option (csys * cobs) :=
  let now := cs_now s + o_age o in
  let sv0 := {| sv_prov := sv_prov (cs_server s); sv_next := (sv_next (cs_server s) + o_skip o)%nat |} in
  (* FetchData: a key exchange when the pool is empty *)
  let kex :=
    match pool (cs_client s), o_ke o with
    | [], Some keys => match key_exchange sv0 now keys with
                       | Some (ke, sv1) => Some (ke, sv1, true)
                       | None => None
                       end
    | _, _ => Some (KeErr, sv0, false)
    end in
  match kex with
  | None => None
  | Some (ke, sv1, rekeyed) =>
      match fetch (cs_client s) ke with
      | None =>
          Some ({| cs_client := fetch_failed; cs_server := sv1; cs_now := now; cs_sent := cs_sent s |},
                {| ob_sent := None; ob_rekeyed := false; ob_openable := false; ob_reply := None;
                   ob_intact := false; ob_nosend := false |})
      | Some (d, c1) => cexchange (cs_sent s) now sv1 rekeyed d c1 o
      end
  end.

Fixpoint crun (s : csys) (os : list cop) : option (csys * list cobs) :=
  match os with
  | [] => Some (s, [])
  | o :: r =>
      match cstep s o with
      | None => None
      | Some (s', b) => match crun s' r with
                        | None => None
                        | Some (s'', bs) => Some (s'', b :: bs)
                        end
      end
  end.

(* the start: a provider, a client that has never exchanged keys *)
Definition csys0 (p : pstate) (t0 : Z) : csys :=
  {| cs_client := client0; cs_server := {| sv_prov := p; sv_next := O |}; cs_now := t0; cs_sent := [] |}.

End System.

Arguments sv_prov {pstate}. Arguments sv_next {pstate}.
Arguments cs_client {pstate}. Arguments cs_server {pstate}. Arguments cs_now {pstate}. Arguments cs_sent {pstate}.
Arguments Build_server {pstate}. Arguments Build_csys {pstate}.
