(* Model of core/client/filter_ntimed.go (NtimedFilter), bit-exact in binary64
   through Flocq, and the property oracle of the Ntimed clauses of C17.
   No proofs in this file. *)
From ST Require Import Base.Ints Base.Value Base.F64 Model.NtpTime Model.Ftm Model.Lucky.
Open Scope Z_scope.

Definition c1 : f64 := f_of_int 1.
Definition c2 : f64 := f_of_int 2.
Definition c3 : f64 := f_of_int 3.
Definition c20 : f64 := f_of_int 20.

(* NtimedFilter: epoch is a uint64, the rest float64 *)
Record ntimed := {
  nt_epoch : Z;
  nt_alo : f64; nt_amid : f64; nt_ahi : f64;
  nt_alolo : f64; nt_ahihi : f64;
  nt_navg : f64 }.

(* the state Reset() leaves behind when the clock's epoch is e; NewNtimedFilter = nt_zero 0 *)
Definition nt_zero (e : Z) : ntimed :=
  {| nt_epoch := e; nt_alo := fzero; nt_amid := fzero; nt_ahi := fzero;
     nt_alolo := fzero; nt_ahihi := fzero; nt_navg := fzero |}.

(* lo := cTxTime.Sub(sRxTime).Seconds(); hi := cRxTime.Sub(sTxTime).Seconds() *)
Definition lo_ns (s : sample) : Z := time_sub (sm_ctx s) (sm_srx s).
Definition hi_ns (s : sample) : Z := time_sub (sm_crx s) (sm_stx s).
Definition lo_f (s : sample) : f64 := dur_seconds (lo_ns s).
Definition hi_f (s : sample) : f64 := dur_seconds (hi_ns s).
Definition mid_f (s : sample) : f64 := fdiv (fadd (lo_f s) (hi_f s)) c2.

(* timemath.Inv(timemath.Duration(mid)) *)
Definition out_of_mid (mid : f64) : Z := inv (dur_of_seconds mid).

(* what Do returns when the midpoint is left alone: a function of the sample only *)
Definition raw_f (s : sample) : Z := out_of_mid (mid_f s).

(* everything one Do call computes *)
Record nt_info := {
  ni_state : ntimed;       (* the state afterwards *)
  ni_out : Z;              (* the return value *)
  ni_fail_lo : bool;       (* lo < loLim *)
  ni_fail_hi : bool;       (* hi > hiLim *)
  ni_branch : Z }.

(* the learned delay bounds (loLim, hiLim) of a state whose navg has already been advanced *)
Definition nt_limits (navg alo ahi alolo ahihi : f64) : f64 * f64 :=
  let loNoise := if fgt navg c2 then fsqrt (fsub alolo (fmul alo alo)) else fzero in
  let hiNoise := if fgt navg c2 then fsqrt (fsub ahihi (fmul ahi ahi)) else fzero in
  (fsub alo (fmul loNoise c3), fadd ahi (fmul hiNoise c3)).

(* if f.epoch != timebase.Epoch() { f.Reset() } *)
Definition nt_pre (f0 : ntimed) (e : Z) : ntimed := if nt_epoch f0 =? e then f0 else nt_zero e.

(* if f.navg < filterAverage { f.navg += 1.0 } *)
Definition nt_advance (navg : f64) : f64 := if flt navg c20 then fadd navg c1 else navg.

(* the branch selection: the midpoint to use and the branch number *)
Definition nt_choose (f : ntimed) (navg lo hi mid0 : f64) (failLo failHi : bool) : f64 * Z :=
  if failLo && failHi then (mid0, 1)
  else if fgt navg c3 && failLo then (fadd (nt_amid f) (fsub hi (nt_ahi f)), 2)
  else if fgt navg c3 && failHi then (fadd (nt_amid f) (fsub lo (nt_alo f)), 3)
  else (mid0, 4).

(* Do with the registered clock's epoch being e during the call *)
Definition nt_do_info (f0 : ntimed) (e : Z) (s : sample) : nt_info :=
  let lo := lo_f s in
  let hi := hi_f s in
  let f := nt_pre f0 e in
  let navg := nt_advance (nt_navg f) in
  let lims := nt_limits navg (nt_alo f) (nt_ahi f) (nt_alolo f) (nt_ahihi f) in
  let failLo := flt lo (fst lims) in
  let failHi := fgt hi (snd lims) in
  let mb := nt_choose f navg lo hi (mid_f s) failLo failHi in
  let mid := fst mb in
  let r := if fgt navg c2 && negb (snd mb =? 4) then fmul navg navg else navg in
  {| ni_state :=
       {| nt_epoch := nt_epoch f;
          nt_alo := fadd (nt_alo f) (fdiv (fsub lo (nt_alo f)) r);
          nt_amid := fadd (nt_amid f) (fdiv (fsub mid (nt_amid f)) r);
          nt_ahi := fadd (nt_ahi f) (fdiv (fsub hi (nt_ahi f)) r);
          nt_alolo := fadd (nt_alolo f) (fdiv (fsub (fmul lo lo) (nt_alolo f)) r);
          nt_ahihi := fadd (nt_ahihi f) (fdiv (fsub (fmul hi hi) (nt_ahihi f)) r);
          nt_navg := navg |};
     ni_out := out_of_mid mid;
     ni_fail_lo := failLo; ni_fail_hi := failHi; ni_branch := snd mb |}.

(* operations of a history; each carries the epoch the registered clock reports during the call *)
Inductive nop := NDo (e : Z) (s : sample) | NReset (e : Z).
Definition op_epoch (op : nop) : Z := match op with NDo e _ => e | NReset e => e end.

Definition nt_step (f : ntimed) (op : nop) : ntimed * option nt_info :=
  match op with
  | NReset e => (nt_zero e, None)
  | NDo e s => let i := nt_do_info f e s in (ni_state i, Some i)
  end.

(* the Do calls of a history with everything they computed *)
Fixpoint nt_trace (f : ntimed) (ops : list nop) : list nt_info :=
  match ops with
  | [] => []
  | op :: r => let '(f', i) := nt_step f op in
               match i with Some i => i :: nt_trace f' r | None => nt_trace f' r end
  end.
Definition nt_run (f : ntimed) (ops : list nop) : list Z := map ni_out (nt_trace f ops).

Fixpoint nt_after (f : ntimed) (ops : list nop) : ntimed :=
  match ops with [] => f | op :: r => nt_after (fst (nt_step f op)) r end.

(* ---- reset points: an explicit Reset, or a Do during which the clock reports
   another epoch than during the previous call on this filter (0 for a new filter) ---- *)
Definition is_reset_point (prev : Z) (op : nop) : bool :=
  match op with NReset _ => true | NDo e _ => negb (e =? prev) end.

(* positions (0-based, counting all operations) of the reset points of a history *)
Fixpoint reset_points (prev : Z) (i : Z) (ops : list nop) : list Z :=
  match ops with
  | [] => []
  | op :: r => (if is_reset_point prev op then [i] else []) ++ reset_points (op_epoch op) (i + 1) r
  end.

(* for every Do of a history: how many samples the filter has seen since the
   last reset point, this one included *)
Fixpoint since_counts (prev : Z) (n : nat) (ops : list nop) : list nat :=
  match ops with
  | [] => []
  | NReset e :: r => since_counts e 0 r
  | NDo e s :: r => let n' := if e =? prev then S n else 1%nat in n' :: since_counts e n' r
  end.

Fixpoint do_samples (ops : list nop) : list sample :=
  match ops with [] => [] | NDo _ s :: r => s :: do_samples r | NReset _ :: r => do_samples r end.

(* the history replayed with a new filter started at every reset point *)
Fixpoint nt_run_restarting (f : ntimed) (ops : list nop) : list Z :=
  match ops with
  | [] => []
  | op :: r =>
      let f0 := if is_reset_point (nt_epoch f) op then nt_zero 0 else f in
      let '(f', i) := nt_step f0 op in
      match i with Some i => ni_out i :: nt_run_restarting f' r | None => nt_run_restarting f' r end
  end.

(* ---- property oracle, from the property text ---- *)
(* "the raw offset of a sample (correct sign, within float rounding)": the exact
   integer offset is ntp.ClockOffset; float rounding allows 2 ns plus 2^-50 of
   the magnitudes involved.  Below 2^62 ns of one-way difference ntp.ClockOffset
   neither saturates nor wraps.  Beyond (the wild range: Time.Sub saturates at
   +-292 years, ntp.ClockOffset wraps) the reference is the offset over the
   integers, -(lo + hi) / 2 of the (saturated) one-way differences.  The oracle
   judges every sample strictly.  (Finding ntimed-corner-wrong-sign: when
   lo + hi >= 2^64 - 2^14, both differences within 8 us of +292 years, mid * 1e9
   may round to 2^63, int64() of it is -2^63 (amd64) and Inv of that is MaxInt64:
   the filter then reports +292 years for an offset of -292 years, and the oracle
   rejects it.) *)
Definition raw_tol (s : sample) : Z := 2 + (Z.abs (lo_ns s) + Z.abs (hi_ns s)) / 2^50.
Definition wide_offset (s : sample) : Z := Z.quot (- (lo_ns s + hi_ns s)) 2.
Definition raw_close_to (x tol obs : Z) : bool :=
  (Z.abs (obs - x) <=? tol)
  && (if tol <? x then 0 <? obs else true)
  && (if x <? - tol then obs <? 0 else true).
Definition raw_close (s : sample) (obs : Z) : bool :=
  if (Z.abs (lo_ns s) <? 2^62) && (Z.abs (hi_ns s) <? 2^62) then raw_close_to (raw_offset s) (raw_tol s) obs
  else raw_close_to (wide_offset s) (raw_tol s) obs.

(* the corner in which the float product can reach 2^63 *)
Definition in_corner (s : sample) : bool := 2^64 - 2^14 <=? lo_ns s + hi_ns s.

(* per Do: young (at most the third sample since the last reset point) or within
   the learned bounds (neither limit violated) => the output is the raw offset *)
Fixpoint C17_ntimed_steps_ok (samples : list sample) (counts : list nat) (within : list bool) (obs : list Z) : bool :=
  match samples, counts, within, obs with
  | [], [], [], [] => true
  | s :: ss, n :: ns, w :: ws, o :: os =>
      (if Nat.leb n 3 || w then raw_close s o else true) && C17_ntimed_steps_ok ss ns ws os
  | _, _, _, _ => false
  end.

(* obs: what the filter under test returned; fresh: what new filters, started at
   each of the positions starts and fed the operations from there to the next
   start, returned; within: whether each sample lay within the learned bounds *)
Definition C17_ntimed_ok (ops : list nop) (within : list bool) (obs : list Z) (starts : list Z) (fresh : list Z) : bool :=
  C17_ntimed_steps_ok (do_samples ops) (since_counts 0 0 ops) within obs
  && list_eqb Z.eqb starts (reset_points 0 0 ops)
  && list_eqb Z.eqb fresh obs.

(* ---- service wiring: one filter per client ----
   C17's reset and warm-up clauses speak about ONE filter instance and its own sample
   stream (C17_ntimed_reset_fresh: what follows a Reset of that instance depends only on
   what that instance sees afterwards).  The service must therefore give every NTP
   client (one per IP reference clock, seven path clients per SCION clock or peer) a
   filter of its own.  Observation of createClocks for a configuration with the
   reference clocks kinds (0 = IP, 1 = SCION, in configuration order) and npeer SCION
   peers: whether it completed, the number of clients of every clock, per client
   whether its Filter is a *client.NtimedFilter, and per client the identity of its
   filter (pointers numbered in order of first appearance, -1 = no filter). *)
Definition svc_counts (kinds : list Z) (npeer : nat) : list Z :=
  map (fun k => if k =? 0 then 1 else 7) kinds ++ repeat 7 npeer.
Fixpoint zsum (l : list Z) : Z := match l with [] => 0 | x :: r => x + zsum r end.
Fixpoint znodup (l : list Z) : bool :=
  match l with [] => true | x :: r => negb (existsb (Z.eqb x) r) && znodup r end.
Fixpoint ziota (a : Z) (n : nat) : list Z := match n with O => [] | S m => a :: ziota (a + 1) m end.

Definition C17_filters_ok (kinds : list Z) (npeer : nat) (ok : bool) (counts types ids : list Z) : bool :=
  let total := Z.to_nat (zsum (svc_counts kinds npeer)) in
  ok && list_eqb Z.eqb counts (svc_counts kinds npeer)
  && Nat.eqb (length types) total && forallb (fun t => t =? 1) types
  && Nat.eqb (length ids) total && forallb (fun i => 0 <=? i) ids && znodup ids.

(* what a correct wiring shows *)
Definition svc_expected (kinds : list Z) (npeer : nat) : list Z * list Z * list Z :=
  let total := Z.to_nat (zsum (svc_counts kinds npeer)) in
  (svc_counts kinds npeer, repeat 1 total, ziota 0 total).
