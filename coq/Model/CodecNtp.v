(* Model of net/ntp/ntp.go: EncodePacket, DecodePacket and the leap / version /
   mode accessors of the first header byte.  No proofs here. *)
From ST Require Import Base.Ints Base.Bytes.
Open Scope Z_scope.

Record ntp_packet := {
  np_lvm : Z; np_stratum : Z; np_poll : Z; np_precision : Z;          (* uint8 uint8 int8 int8 *)
  np_rdelay_s : Z; np_rdelay_f : Z; np_rdisp_s : Z; np_rdisp_f : Z;   (* Time32 x 2 *)
  np_refid : Z;                                                       (* uint32 *)
  np_ref_s : Z; np_ref_f : Z; np_org_s : Z; np_org_f : Z;             (* Time64 x 4 *)
  np_rx_s : Z; np_rx_f : Z; np_tx_s : Z; np_tx_f : Z }.

Definition ntp_packet_len : nat := 48.

(* the 48-byte layout in the order EncodePacket writes buf[0..47] *)
Definition ntp_layout : list fkind :=
  [FU 1; FU 1; FS 1; FS 1; FU 2; FU 2; FU 2; FU 2; FU 4;
   FU 4; FU 4; FU 4; FU 4; FU 4; FU 4; FU 4; FU 4].

Definition ntp_to_list (p : ntp_packet) : list Z :=
  [np_lvm p; np_stratum p; np_poll p; np_precision p;
   np_rdelay_s p; np_rdelay_f p; np_rdisp_s p; np_rdisp_f p; np_refid p;
   np_ref_s p; np_ref_f p; np_org_s p; np_org_f p; np_rx_s p; np_rx_f p; np_tx_s p; np_tx_f p].

Definition ntp_of_list (l : list Z) : ntp_packet :=
  let g i := nth i l 0 in
  {| np_lvm := g 0%nat; np_stratum := g 1%nat; np_poll := g 2%nat; np_precision := g 3%nat;
     np_rdelay_s := g 4%nat; np_rdelay_f := g 5%nat; np_rdisp_s := g 6%nat; np_rdisp_f := g 7%nat;
     np_refid := g 8%nat;
     np_ref_s := g 9%nat; np_ref_f := g 10%nat; np_org_s := g 11%nat; np_org_f := g 12%nat;
     np_rx_s := g 13%nat; np_rx_f := g 14%nat; np_tx_s := g 15%nat; np_tx_f := g 16%nat |}.

(* every field inside the range of its Go type *)
Definition ntp_wf (p : ntp_packet) : Prop := franges ntp_layout (ntp_to_list p).
Definition ntp_wfb (p : ntp_packet) : bool := frangesb ntp_layout (ntp_to_list p).

(* EncodePacket(b, pkt): *b becomes exactly 48 bytes (fresh or resliced), every
   one of them written; the previous content of the buffer is irrelevant *)
Definition ntp_encode (p : ntp_packet) : list Z := enc_fields ntp_layout (ntp_to_list p).

(* DecodePacket(pkt, b): error (pkt untouched) when len(b) < 48, otherwise every field
   of pkt is assigned from b[0..47]; bytes after 47 are ignored *)
Definition ntp_decode (p0 : ntp_packet) (b : list Z) : ntp_packet * bool :=
  if (length b <? ntp_packet_len)%nat then (p0, false)
  else (ntp_of_list (dec_fields ntp_layout b), true).

(* accessors on the LVM byte, with Go's uint8 operators *)
Definition ntp_leap (p : ntp_packet) : Z := Z.land (Z.shiftr (np_lvm p) 6) 3.
Definition ntp_version (p : ntp_packet) : Z := Z.land (Z.shiftr (np_lvm p) 3) 7.
Definition ntp_mode (p : ntp_packet) : Z := Z.land (np_lvm p) 7.

Definition with_lvm (p : ntp_packet) (v : Z) : ntp_packet :=
  {| np_lvm := v; np_stratum := np_stratum p; np_poll := np_poll p; np_precision := np_precision p;
     np_rdelay_s := np_rdelay_s p; np_rdelay_f := np_rdelay_f p; np_rdisp_s := np_rdisp_s p;
     np_rdisp_f := np_rdisp_f p; np_refid := np_refid p;
     np_ref_s := np_ref_s p; np_ref_f := np_ref_f p; np_org_s := np_org_s p; np_org_f := np_org_f p;
     np_rx_s := np_rx_s p; np_rx_f := np_rx_f p; np_tx_s := np_tx_s p; np_tx_f := np_tx_f p |}.

(* setters: panic unless the argument fits the field; None = panic *)
Definition ntp_set_leap (p : ntp_packet) (l : Z) : option ntp_packet :=
  if Z.land l 3 =? l then Some (with_lvm p (Z.lor (Z.land (np_lvm p) 63) (u8 (Z.shiftl l 6)))) else None.
Definition ntp_set_version (p : ntp_packet) (v : Z) : option ntp_packet :=
  if Z.land v 7 =? v then Some (with_lvm p (Z.lor (Z.land (np_lvm p) 199) (u8 (Z.shiftl v 3)))) else None.
Definition ntp_set_mode (p : ntp_packet) (m : Z) : option ntp_packet :=
  if Z.land m 7 =? m then Some (with_lvm p (Z.lor (Z.land (np_lvm p) 248) m)) else None.

(* ---- property oracle pieces, written from the property text ---- *)

(* accessors agree with the first byte: b0 = leap*64 + version*8 + mode, each in range *)
Definition lvm_agree (b0 leap version mode : Z) : bool :=
  (0 <=? leap) && (leap <? 4) && (0 <=? version) && (version <? 8) && (0 <=? mode) && (mode <? 8)
  && (b0 =? leap * 64 + version * 8 + mode).

Definition zlist_eqb (a b : list Z) : bool :=
  (fix go a b := match a, b with
     | [], [] => true
     | x :: a', y :: b' => (x =? y) && go a' b'
     | _, _ => false end) a b.

(* observation of "encode v, then decode the bytes": the encoded bytes, the decoded
   field values and the three accessors of the decoded packet *)
Definition C14_ntp_enc_ok (v : list Z) (enc : list Z) (dec_ok : bool) (dec : list Z) (leap version mode : Z) : bool :=
  (length enc =? 48)%nat && bytes_okb enc && dec_ok && zlist_eqb dec v
  && lvm_agree (nth 0 enc 0) leap version mode.

(* observation of "decode b, then re-encode": error exactly when b is short; otherwise the
   re-encoded bytes are the first 48 bytes of b and the accessors agree with b[0] *)
Definition C14_ntp_dec_ok (b : list Z) (dec_ok : bool) (reenc : list Z) (leap version mode : Z) : bool :=
  if (length b <? 48)%nat then negb dec_ok
  else dec_ok && zlist_eqb reenc (firstn 48 b) && lvm_agree (nth 0 b 0) leap version mode.

(* a setter changes only its own field, and panics exactly on values that do not fit *)
Definition C14_ntp_set_ok (which lvm0 arg : Z) (panicked : bool) (leap version mode : Z) : bool :=
  let l0 := lvm0 / 64 in let v0 := lvm0 / 8 mod 8 in let m0 := lvm0 mod 8 in
  let lim := if which =? 0 then 4 else 8 in
  if (0 <=? arg) && (arg <? lim) then
    negb panicked &&
    (if which =? 0 then (leap =? arg) && (version =? v0) && (mode =? m0)
     else if which =? 1 then (leap =? l0) && (version =? arg) && (mode =? m0)
     else (leap =? l0) && (version =? v0) && (mode =? arg))
  else panicked && (leap =? l0) && (version =? v0) && (mode =? m0).
