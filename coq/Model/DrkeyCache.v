(* C13 - model of the DRKey host-AS key cache of the listener:
     net/scion/fetcher.go  Fetcher.FetchHostASKey (one cached key per client AS,
                           re-fetched when absent, when its epoch does not contain
                           the validity time asked for, or when it was fetched for
                           another protocol / server AS / server host)
     net/scion/drkey.go    FetchHostASKey (the daemon call)
   The daemon is an input: a function from the request to its answer (None: an
   error, a key of a wrong length, no daemon).  Times are integers (the unit
   does not matter); cppki.Validity.Contains is inclusive at both ends.
   The mock-key branch (USE_MOCK_KEYS) is not modelled.  No proofs in this file. *)
From Coq Require Import ZArith List Bool.
From ST Require Import Base.Ints Model.ScionGlue.
Import ListNotations.
Open Scope Z_scope.

Record hameta := mkMeta { m_proto : Z; m_src_ia : Z; m_dst_ia : Z; m_src_host : bytes; m_time : Z }.

Record hakey := mkHak { k_proto : Z; k_src_ia : Z; k_dst_ia : Z; k_src_host : bytes;
                        k_nb : Z; k_na : Z; k_key : bytes }.

Definition kcache := list (Z * hakey).    (* map[addr.IA]drkey.HostASKey *)

Fixpoint klookup (ia : Z) (c : kcache) : option hakey :=
  match c with
  | [] => None
  | (i, k) :: r => if i =? ia then Some k else klookup ia r
  end.

Fixpoint kstore (ia : Z) (k : hakey) (c : kcache) : kcache :=
  match c with
  | [] => [(ia, k)]
  | (i, k0) :: r => if i =? ia then (ia, k) :: r else (i, k0) :: kstore ia k r
  end.

(* hak.Epoch.Contains(t) *)
Definition kcontains (k : hakey) (t : Z) : bool := (k_nb k <=? t) && (t <=? k_na k).

Definition kusable (k : hakey) (m : hameta) : bool :=
  kcontains k (m_time m) && (k_proto k =? m_proto m) && (k_src_ia k =? m_src_ia m) &&
  (k_dst_ia k =? m_dst_ia m) && bytes_eqb (k_src_host k) (m_src_host m).

(* one call of Fetcher.FetchHostASKey: the new cache, whether the daemon was asked, the result *)
Definition kfetch (daemon : hameta -> option hakey) (c : kcache) (m : hameta) : kcache * bool * option hakey :=
  let refetch := match daemon m with
                 | Some k => (kstore (k_dst_ia k) k c, true, Some k)
                 | None => (c, true, None)
                 end in
  match klookup (m_dst_ia m) c with
  | Some k => if kusable k m then (c, false, Some k) else refetch
  | None => refetch
  end.

(* a history of calls on one Fetcher, the daemon possibly answering differently every time *)
Fixpoint krun (c : kcache) (calls : list (hameta * (hameta -> option hakey))) : list (bool * option hakey) :=
  match calls with
  | [] => []
  | (m, d) :: r => let '(c', asked, res) := kfetch d c m in (asked, res) :: krun c' r
  end.
