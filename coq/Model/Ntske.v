(* Model of the client side of the NTS key exchange as it is in /repo now:
     net/ntske/ntske.go     ReadData (record loop), ExportKeys
     net/ntske/ntske_ip.go  dialTLS (ALPN check, defaults), exchangeDataTLS
     net/ntske/ntske_scion.go  dialQUIC (defaults), exchangeDataQUIC
     net/ntske/fetcher.go   exchangeKeys (TLS branch and QUIC branch), FetchData, StoreCookie
   and of the server message of core/server/ntske.go newNTSKEMsg.
   Byte strings are lists of Z in 0..255.  No proofs in this file.  Self-contained on purpose
   (depends on Base.Ints only). *)
From ST Require Import Base.Ints.
From Coq Require Import ZArith List Bool String Ascii.
Import ListNotations.
Open Scope Z_scope.
Local Notation length := (@List.length _).

Definition bytes := list Z.

Fixpoint bytes_eqb (a b : bytes) : bool :=
  match a, b with
  | [], [] => true
  | x :: a', y :: b' => (x =? y) && bytes_eqb a' b'
  | _, _ => false
  end.

Fixpoint bytes_of_string (s : string) : bytes :=
  match s with
  | EmptyString => []
  | String c r => Z.of_nat (nat_of_ascii c) :: bytes_of_string r
  end.

(* ---------- ntske.Data ---------- *)

Record kdata := {
  k_c2s : bytes; k_s2c : bytes; k_server : bytes; k_port : Z; k_cookies : list bytes; k_algo : Z }.

Definition kzero : kdata :=
  {| k_c2s := []; k_s2c := []; k_server := []; k_port := 0; k_cookies := []; k_algo := 0 |}.

Definition set_c2s d v := {| k_c2s := v; k_s2c := k_s2c d; k_server := k_server d; k_port := k_port d; k_cookies := k_cookies d; k_algo := k_algo d |}.
Definition set_s2c d v := {| k_c2s := k_c2s d; k_s2c := v; k_server := k_server d; k_port := k_port d; k_cookies := k_cookies d; k_algo := k_algo d |}.
Definition set_server d v := {| k_c2s := k_c2s d; k_s2c := k_s2c d; k_server := v; k_port := k_port d; k_cookies := k_cookies d; k_algo := k_algo d |}.
Definition set_port d v := {| k_c2s := k_c2s d; k_s2c := k_s2c d; k_server := k_server d; k_port := v; k_cookies := k_cookies d; k_algo := k_algo d |}.
Definition set_cookies d v := {| k_c2s := k_c2s d; k_s2c := k_s2c d; k_server := k_server d; k_port := k_port d; k_cookies := v; k_algo := k_algo d |}.
Definition set_algo d v := {| k_c2s := k_c2s d; k_s2c := k_s2c d; k_server := k_server d; k_port := k_port d; k_cookies := k_cookies d; k_algo := v |}.

(* ---------- error classes (0 = nil) ---------- *)
Definition e_alpn := 1.              (* errServerNoNTSKE *)
Definition e_eof := 2.               (* io.EOF from the record reader *)
Definition e_unexp := 3.             (* io.ErrUnexpectedEOF *)
Definition e_rec_critical := 4.      (* Error record, code 0 *)
Definition e_rec_badreq := 5.        (* Error record, code 1 *)
Definition e_rec_internal := 6.      (* Error record, code 2 *)
Definition e_rec_unknown := 7.       (* Error record, any other code *)
Definition e_unknown_critical := 8.  (* unknown record type with the critical bit *)
Definition e_nocookies := 9.         (* errNoCookies *)
Definition e_algo := 10.             (* errUnknownAlgo *)
Definition e_dial := 11.             (* tls.DialWithDialer failed: refused, handshake failure *)
Definition e_export := 12.           (* ExportKeyingMaterial failed *)
Definition e_cookielen := 13.        (* errCookieLen: a cookie longer than MaxCookieLen *)
Definition e_fuel := 99.

(* ---------- ReadData ---------- *)

(* io.ReadFull / binary.Read of n bytes from the buffered stream: all n bytes or an error; a
   read of 0 bytes always succeeds.  That the way the transport cuts the stream into pieces
   does not matter is a theorem (Proofs/NtskeProofs.v, chunked reader below). *)
Definition take (n : nat) (s : bytes) : option (bytes * bytes) :=
  if (n <=? length s)%nat then Some (firstn n s, skipn n s) else None.

Definition io_err (s : bytes) : Z := match s with [] => e_eof | _ => e_unexp end.

Definition rec_eom := 0. Definition rec_nextproto := 1. Definition rec_error := 2.
Definition rec_warning := 3. Definition rec_aead := 4. Definition rec_cookie := 5.
Definition rec_server := 6. Definition rec_port := 7.

Definition be16 (b : bytes) : Z := nth 0 b 0 * 256 + nth 1 b 0.

(* the critical bit of a 16-bit record type: hasBit(n, 15), setBit(n, 15) on a type below 2^15,
   n &^ (1 << 15)  (coq/GenEquiv/C20.v ties the first two to the translated Go functions) *)
Definition has_critical (ty : Z) : bool := 32768 <=? ty.
Definition set_critical (t : Z) : Z := t + 32768.
Definition clear_critical (ty : Z) : Z := ty mod 32768.

Definition error_of_code (code : Z) : Z :=
  if code =? 0 then e_rec_critical else if code =? 1 then e_rec_badreq
  else if code =? 2 then e_rec_internal else e_rec_unknown.

(* One iteration of the loop of ReadData, for any reader: tk n r = io.ReadFull / binary.Read of
   n bytes (the bytes and the reader after them, or failure), ioe r = the error such a failed
   read reports.  Data is updated through the pointer, so what was assigned before an error
   stays assigned. *)
Section Reader.
  Variable R : Type.
  Variable tk : nat -> R -> option (bytes * R).
  Variable ioe : R -> Z.

  Inductive iter := Stop (d : kdata) (e : Z) | Next (r : R) (d : kdata).

  Definition rd_step (s : R) (d : kdata) : iter :=
    match tk 4 s with
    | None => Stop d (ioe s)
    | Some (h, s1) =>
      let ty := be16 h in
      let blen := Z.to_nat (be16 (skipn 2 h)) in
      let critical := has_critical ty in       (* hasBit(msg.Type, 15) *)
      let t := clear_critical ty in            (* msg.Type &^= 1 << 15 *)
      if t =? rec_eom then Stop d 0
      else if t =? rec_nextproto then
        match tk 2 s1 with Some (_, s2) => Next s2 d | None => Stop d (ioe s1) end
      else if t =? rec_aead then
        match tk 2 s1 with Some (v, s2) => Next s2 (set_algo d (be16 v)) | None => Stop d (ioe s1) end
      else if t =? rec_cookie then
        match tk blen s1 with Some (c, s2) => Next s2 (set_cookies d (k_cookies d ++ [c])) | None => Stop d (ioe s1) end
      else if t =? rec_server then
        match tk blen s1 with Some (a, s2) => Next s2 (set_server d a) | None => Stop d (ioe s1) end
      else if t =? rec_port then
        match tk 2 s1 with Some (v, s2) => Next s2 (set_port d (be16 v)) | None => Stop d (ioe s1) end
      else if t =? rec_error then
        match tk 2 s1 with Some (v, _) => Stop d (error_of_code (be16 v)) | None => Stop d (ioe s1) end
      else if critical then Stop d e_unknown_critical
      else match tk blen s1 with Some (_, s2) => Next s2 d | None => Stop d (ioe s1) end
    end.

  (* the loop; every iteration consumes a 4-byte header, so fuel = stream length + 1 is never
     exhausted (theorem) *)
  Fixpoint rd_loop (fuel : nat) (s : R) (d : kdata) : kdata * Z :=
    match fuel with
    | O => (d, e_fuel)
    | S fuel' =>
      match rd_step s d with
      | Stop d' e => (d', e)
      | Next s' d' => rd_loop fuel' s' d'
      end
    end.
End Reader.
Arguments Stop {R}. Arguments Next {R}.

Definition read_stream (s : bytes) (d : kdata) : kdata * Z := rd_loop bytes take io_err (S (length s)) s d.

(* ---------- the same loop over a stream that arrives in pieces ----------
   A reader is the list of pieces still to come (TLS records, in whatever sizes the peer and
   the transport produce); ReadFull keeps reading until it has n bytes or the pieces run out. *)
Fixpoint take_chunks_acc (n : nat) (acc : bytes) (cs : list bytes) : option (bytes * list bytes) :=
  match n with
  | O => Some (acc, cs)
  | _ =>
    match cs with
    | [] => None
    | c :: r =>
      if (n <=? length c)%nat then Some (acc ++ firstn n c, skipn n c :: r)
      else take_chunks_acc (n - length c) (acc ++ c) r
    end
  end.
Definition take_chunks (n : nat) (cs : list bytes) := take_chunks_acc n [] cs.

Definition io_err_chunks (cs : list bytes) : Z := io_err (List.concat cs).

Definition read_stream_chunks (cs : list bytes) (d : kdata) : kdata * Z :=
  rd_loop (list bytes) take_chunks io_err_chunks (S (length (List.concat cs))) cs d.

(* ---------- TLS dial ---------- *)

Definition alpn_ntske : bytes := bytes_of_string "ntske/1".

(* crypto/tls (third party, modelled): the server picks the first of ITS protocols that the
   client offered; a side without a list means "no ALPN"; no common protocol is a fatal alert *)
Inductive handshake := HsFail | HsOk (proto : bytes).

Fixpoint mem_bytes (x : bytes) (l : list bytes) : bool :=
  match l with [] => false | y :: r => bytes_eqb x y || mem_bytes x r end.

Fixpoint first_common (srv cli : list bytes) : option bytes :=
  match srv with
  | [] => None
  | p :: r => if mem_bytes p cli then Some p else first_common r cli
  end.

Definition tls_negotiate (cli srv : list bytes) : handshake :=
  match srv, cli with
  | [], _ => HsOk []
  | _, [] => HsOk []
  | _, _ => match first_common srv cli with Some p => HsOk p | None => HsFail end
  end.

(* what the key-exchange peer does on one connection attempt *)
Record peer := {
  p_up : bool;              (* a TLS (QUIC) server answers at the address and completes handshakes it can *)
  p_alpn : list bytes;      (* the server's ALPN list *)
  p_host : bytes;           (* host part of the connection's remote address *)
  p_stream : bytes          (* everything the server sends before it closes or drops the connection, or, over TLS, before
                               the deadline of the exchange passes (commit 59cf705: min(context deadline, 5 s after the
                               request); a read after it is an I/O error like a truncated stream) *)
}.

Definition ntp_port_ip := 123.

(* dialTLS: config.NextProtos is overwritten with [ntske/1]; Data{Server: remote host, Port: 123} *)
Definition dial_tls (p : peer) : kdata * Z :=
  if p_up p then
    match tls_negotiate [alpn_ntske] (p_alpn p) with
    | HsFail => (kzero, e_dial)
    | HsOk proto =>
      if bytes_eqb proto alpn_ntske
      then (set_port (set_server kzero (p_host p)) ntp_port_ip, 0)
      else (kzero, e_alpn)
    end
  else (kzero, e_dial).

(* ---------- QUIC dial (NTS-KE over SCION) ---------- *)

(* crypto/tls inside QUIC (third party, modelled; RFC 9001, 8.1): an application protocol is
   mandatory.  A client that offers a list gets a session only if the server selects one of the
   offered protocols (the server picks the first of ITS protocols that the client offered); a
   server without a list, or no common protocol, ends the handshake with an alert *)
Definition quic_negotiate (cli srv : list bytes) : handshake :=
  match cli with
  | [] => match srv with [] => HsOk [] | _ => HsFail end
  | _ => match first_common srv cli with Some p => HsOk p | None => HsFail end
  end.

Definition ntp_port_scion := 10123.    (* ntp.ServerPortSCION *)

(* dialQUIC: config.NextProtos is overwritten with [ntske/1]; a path to the remote AS is chosen
   (none: error), scion.DialQUIC performs the handshake; Data{Server: host of the configured
   remote address, Port: 10123}.  There is no ALPN check after the dial: the handshake itself
   fails unless the peer selects ntske/1.  For a QUIC peer: p_up = a path exists and a QUIC
   listener answers at the remote address, p_host = host part of Fetcher.QUIC.RemoteAddr,
   p_stream = what the server sends on the stream the client opens, before it finishes the
   stream or the connection ends. *)
Definition dial_quic (p : peer) : kdata * Z :=
  if p_up p then
    match quic_negotiate [alpn_ntske] (p_alpn p) with
    | HsFail => (kzero, e_dial)
    | HsOk _ => (set_port (set_server kzero (p_host p)) ntp_port_scion, 0)
    end
  else (kzero, e_dial).

(* ---------- ExportKeys ---------- *)

Definition exporter_label : bytes := bytes_of_string "EXPORTER-network-time-security".
Definition ctx_c2s : bytes := [0; 0; 0; 15; 0].
Definition ctx_s2c : bytes := [0; 0; 0; 15; 1].
Definition key_len := 32.
Definition aes_siv_cmac_256 := 15.

(* the TLS exporter of one session: label, context, length -> keying material or failure *)
Definition exporter := bytes -> bytes -> Z -> option bytes.

Definition export_keys (ex : exporter) (d : kdata) : kdata * Z :=
  match ex exporter_label ctx_s2c key_len with
  | None => (set_s2c d [], e_export)
  | Some s2c =>
    let d1 := set_s2c d s2c in
    match ex exporter_label ctx_c2s key_len with
    | None => (set_c2s d1 [], e_export)
    | Some c2s => (set_c2s d1 c2s, 0)
    end
  end.

(* ---------- Fetcher ---------- *)

(* MaxCookieLen: what still fits into an NTS-protected NTP packet *)
Definition max_cookie_len := 896.
Definition cookie_too_long (c : bytes) : bool := max_cookie_len <? Z.of_nat (length c).

(* exchangeKeys, TLS branch: returns the new f.data and the error class *)
Definition exchange_keys (ex : exporter) (p : peer) : kdata * Z :=
  let '(d0, e0) := dial_tls p in
  if negb (e0 =? 0) then (d0, e0) else
  let '(d1, e1) := read_stream (p_stream p) d0 in
  if negb (e1 =? 0) then (d1, e1) else
  let '(d2, e2) := export_keys ex d1 in
  if negb (e2 =? 0) then (d2, e2) else
  match k_cookies d2 with
  | [] => (d2, e_nocookies)
  | _ => if existsb cookie_too_long (k_cookies d2) then (d2, e_cookielen)
         else if negb (k_algo d2 =? aes_siv_cmac_256) then (d2, e_algo) else (d2, 0)
  end.

(* exchangeKeys, QUIC branch (Fetcher.QUIC.Enabled): st = f.data before the call.  When the dial
   fails exchangeKeys returns before f.data is touched; otherwise f.data = the Data returned by
   dialQUIC (fix commit 38f59d0; before it the value was dropped and the record loop wrote into
   what the previous exchange had left), then exchangeDataQUIC (request written to a new stream,
   ReadData on that stream through the pointer), then ExportKeys on the TLS state of the QUIC
   connection, then the same checks as on the TLS branch *)
Definition exchange_keys_quic (ex : exporter) (st : kdata) (p : peer) : kdata * Z :=
  let '(d0, e0) := dial_quic p in
  if negb (e0 =? 0) then (st, e0) else
  let '(d1, e1) := read_stream (p_stream p) d0 in
  if negb (e1 =? 0) then (d1, e1) else
  let '(d2, e2) := export_keys ex d1 in
  if negb (e2 =? 0) then (d2, e2) else
  match k_cookies d2 with
  | [] => (d2, e_nocookies)
  | _ => if existsb cookie_too_long (k_cookies d2) then (d2, e_cookielen)
         else if negb (k_algo d2 =? aes_siv_cmac_256) then (d2, e_algo) else (d2, 0)
  end.

(* exchangeKeys of a Fetcher whose transport flag QUIC.Enabled is [quic]: f.data before the call
   -> f.data after it and the error class *)
Definition exchange_keys_of (quic : bool) (ex : exporter) (st : kdata) (p : peer) : kdata * Z :=
  if quic then exchange_keys_quic ex st p else exchange_keys ex p.

(* FetchData: (new state, returned data or error class, whether an exchange was attempted) *)
Record fetch_out := { fo_err : Z; fo_data : kdata; fo_exchanged : bool }.

Definition fetch_data (quic : bool) (ex : exporter) (st : kdata) (p : peer) : kdata * fetch_out :=
  match k_cookies st with
  | [] =>
    let '(d, e) := exchange_keys_of quic ex st p in
    if e =? 0 then (set_cookies d (tl (k_cookies d)), {| fo_err := 0; fo_data := d; fo_exchanged := true |})
    else (kzero, {| fo_err := e; fo_data := kzero; fo_exchanged := true |})
  | _ :: rest =>
    (set_cookies st rest, {| fo_err := 0; fo_data := st; fo_exchanged := false |})
  end.

(* MaxStoredCookies: the number of unused cookies a Fetcher keeps at most *)
Definition max_stored_cookies := 8.

(* StoreCookie: a cookie that is too long, or one that arrives while MaxStoredCookies cookies are
   cached already, is dropped.  (FetchData installs whatever the exchange returned: the cap is not
   applied to the cookies of a key-exchange message.) *)
Definition store_cookie (st : kdata) (c : bytes) : kdata :=
  if cookie_too_long c then st
  else if max_stored_cookies <=? Z.of_nat (length (k_cookies st)) then st
  else set_cookies st (k_cookies st ++ [c]).

(* ---------- the message of the project's own key-exchange server ----------
   newNTSKEMsg: next protocol 0, algorithm 15, server = local IP (text), port, eight cookies
   (each the encoding of the session keys sealed under the current server key with a fresh
   nonce), end of message.  seal is symbolic: key id, nonce index, plaintext -> cookie bytes. *)
Definition hdr (t : Z) (critical : bool) (len : nat) : bytes :=
  let ty := if critical then set_critical t else t in
  [ty / 256; ty mod 256; (Z.of_nat len mod 65536) / 256; Z.of_nat len mod 256].

Definition pack (t : Z) (critical : bool) (body : bytes) : bytes := hdr t critical (length body) ++ body.

Definition enc16 (v : Z) : bytes := [(v mod 65536) / 256; v mod 256].

Definition server_msg (mk_cookie : nat -> bytes) (local_ip : bytes) (local_port : Z) : bytes :=
  pack rec_nextproto true (enc16 0) ++ pack rec_aead true (enc16 aes_siv_cmac_256)
  ++ pack rec_server false local_ip ++ pack rec_port false (enc16 local_port)
  ++ flat_map (fun i => pack rec_cookie false (mk_cookie i)) (seq 0 8)
  ++ pack rec_eom true [].
