(* C13 - "with authentication enabled ... on either side": enabled by configuration.
     timeservice.go createClocks: with "spao" among auth_modes (and a SCION daemon
     address) one DRKey fetcher is created and every SCION client of every SCION
     reference clock and of every SCION peer clock gets Auth.Enabled = true and that
     fetcher; without "spao" none of them does.
   Model: the flags createClocks gives the clients of the configured clocks;
   oracle: what the configuration demands of what the service built (observed
   through harness/svclib: the service's own loadConfig and createClocks). *)
From Coq Require Import ZArith List Bool.
Import ListNotations.
Open Scope Z_scope.

Definition MODE_NTS : Z := 1.
Definition MODE_SPAO : Z := 2.

(* one SCION client as built: SPAO enabled, a DRKey fetcher assigned, which one (0 = none) *)
Record svcclient := mkSvcclient { sc_auth : bool; sc_drkey : bool; sc_fetcher : Z }.
(* one clock: reference clock or peer, its clients *)
Record svcclock := mkSvcclock { sk_peer : bool; sk_clients : list svcclient }.

Definition has_mode (m : Z) (modes : list Z) : bool := existsb (fun x => x =? m) modes.

Definition clients_per_scion_clock : nat := 7.

(* ---- model of createClocks (the SCION clocks of the configuration, daemon address given) ---- *)
Definition model_clock (modes : list Z) (peer : bool) : svcclock :=
  let spao := has_mode MODE_SPAO modes in
  mkSvcclock peer (repeat (mkSvcclient spao spao (if spao then 1 else 0)) clients_per_scion_clock).

Definition model_clocks (modes : list Z) (nrefs npeers : nat) : list svcclock :=
  repeat (model_clock modes false) nrefs ++ repeat (model_clock modes true) npeers.

(* ---- oracle ---- *)
Definition all_clients (cs : list svcclock) : list svcclient := flat_map sk_clients cs.

Definition C13_svc_spao_ok (modes : list Z) (nrefs npeers : nat) (finished : bool) (cs : list svcclock) : bool :=
  let spao := has_mode MODE_SPAO modes in
  let cl := all_clients cs in
  finished &&
  (* every configured clock is there, references first, with its seven path clients *)
  (length (filter (fun c => negb (sk_peer c)) cs) =? length (firstn nrefs cs))%nat &&
  (length cs =? nrefs + npeers)%nat &&
  forallb (fun c => Bool.eqb (sk_peer c) false) (firstn nrefs cs) &&
  forallb (fun c => Bool.eqb (sk_peer c) true) (skipn nrefs cs) &&
  forallb (fun c => (length (sk_clients c) =? clients_per_scion_clock)%nat) cs &&
  (* authentication is enabled on every client of every reference clock and every peer iff the
     configuration says "spao"; then every client has the DRKey fetcher, one and the same *)
  forallb (fun c => Bool.eqb (sc_auth c) spao) cl &&
  forallb (fun c => Bool.eqb (sc_drkey c) spao) cl &&
  (if spao then
     match cl with
     | [] => true
     | c0 :: _ => negb (sc_fetcher c0 =? 0) && forallb (fun c => sc_fetcher c =? sc_fetcher c0) cl
     end
   else forallb (fun c => sc_fetcher c =? 0) cl).
