(* Model of core/sync/sync.go (Run: start-up refusals, per-round clamp / cutoff /
   midpoint, the measurement slices that are reused across rounds) together
   with core/client collectMeasurements as Run uses it.  No proofs here.

   float64 values are Flocq binary64 (Base/F64.v); time.Duration is int64
   nanoseconds in Z.  SystemClock.Drift is modelled in Model/Units.v
   (sysclk_drift); here D is the value both Drift(SyncInterval) calls return. *)
From ST Require Import Base.Ints Base.F64 Base.Sorting Model.NtpTime Model.Ftm.
From Coq Require Import ZArith List Bool.
Import ListNotations.
Open Scope Z_scope.

Record config := mkcfg {
  c_ref : f64;        (* ReferenceClockImpact *)
  c_peer : f64;       (* PeerClockImpact *)
  c_cutoff : Z;       (* PeerClockCutoff *)
  c_timeout : Z;      (* SyncTimeout *)
  c_interval : Z      (* SyncInterval *)
}.

Definition fone : f64 := f_of_int 1.

(* Run's prologue.  Refuse code n: the n-th panic of the prologue fired after
   ndrift calls of clk.Drift; Start: the loop is entered with these two caps. *)
Inductive startup :=
| Refuse (code : Z) (ndrift : nat)
| Start (refMax peerMax : f64).

Definition max_corr (impact : f64) (D : Z) : f64 := fmul impact (f_of_int D).

(* the three factor tests are written !(x > y) in the code (since /repo 6abb997), so that a NaN factor,
   for which every comparison is false, is refused *)
Definition prologue (cfg : config) (D : Z) : startup :=
  if negb (fgt (c_ref cfg) fone) then Refuse 1 0
  else if negb (fgt (c_peer cfg) fone) then Refuse 2 0
  else if negb (fgt (fsub (c_peer cfg) fone) (c_ref cfg)) then Refuse 3 0
  else if c_interval cfg <=? 0 then Refuse 4 0
  else if (c_timeout cfg <? 0) || (go_div (c_interval cfg) 2 <? c_timeout cfg) then Refuse 5 0
  else
    let refMax := max_corr (c_ref cfg) D in
    if fle refMax fzero then Refuse 6 1
    else
      let peerMax := max_corr (c_peer cfg) D in
      if fle peerMax fzero then Refuse 7 2
      else Start refMax peerMax.

(* time.Duration.Abs *)
Definition dabs (d : Z) : Z := if 0 <=? d then d else if d =? min_i64 then max_i64 else - d.

(* if float64(corr.Abs()) > max { corr = time.Duration(float64(Sgn(corr)) * max) } *)
Definition exceeds (off : Z) (mx : f64) : bool := fgt (f_of_int (dabs off)) mx.
Definition clamp (mx : f64) (off : Z) : Z :=
  if exceeds off mx then f_to_i64 (fmul (f_of_int (sgn off)) mx) else off.

(* the loop body after the two aggregated offsets have arrived;
   nref = len(refClks), npeer = len(peerClks) *)
Definition round (cfg : config) (refMax peerMax : f64) (nref npeer : nat) (refOff peerOff : Z) : Z :=
  let refCorr := clamp refMax refOff in
  let refOk := negb (Nat.eqb nref 0) in
  let beyond := c_cutoff cfg <? dabs peerOff in
  let peerCorr := if beyond then clamp peerMax peerOff else peerOff in
  let peerOk := beyond && negb (Nat.eqb npeer 0) in
  if refOk && negb peerOk then refCorr
  else if negb refOk && peerOk then peerCorr
  else if refOk && peerOk then midpoint refCorr peerCorr
  else 0.

(* collectMeasurements on a slice that the previous round's
   FaultTolerantMidpoint left sorted: the timely successes (in arrival order)
   overwrite ms[0..j); everything else (errors, late and missing answers)
   leaves the slice alone.  Only offsets matter to Run. *)
Definition collect (old arrivals : list Z) : list Z :=
  let a := firstn (length old) arrivals in
  zsort (a ++ skipn (length a) old).

(* measureOffsetToRefClks for a non-empty clock list / the zero value otherwise *)
Definition measure (old arrivals : list Z) : list Z * Z :=
  match old with
  | [] => ([], 0)
  | _ => let s := collect old arrivals in (s, ftm_sorted s)
  end.

(* what one source does in one round *)
Inductive src :=
| Timely (v : Z)     (* answers v without error before the round's deadline *)
| Failed.            (* error, answer after the deadline, or no answer *)

Fixpoint timely (l : list src) : list Z :=
  match l with
  | [] => []
  | Timely v :: r => v :: timely r
  | Failed :: r => timely r
  end.

Record rnd := mkrnd { r_ref : list src; r_peer : list src }.

Inductive event :=
| EDrift (arg res : Z)
| EDo (c : Z)
| ESleep (d : Z).

(* peers: Run appends the local clock (offset 0, never fails) when there is at least one peer *)
Definition peer_arrivals (npeer : nat) (l : list src) : list Z :=
  match npeer with O => [] | _ => timely l ++ [0] end.
Definition peer_slots (npeer : nat) : nat := match npeer with O => O | S n => S (S n) end.

Fixpoint loop (cfg : config) (refMax peerMax : f64) (nref npeer : nat)
         (rs : list rnd) (sref speer : list Z) : list event :=
  match rs with
  | [] => []
  | r :: rest =>
      let '(sref', ro) := measure sref (timely (r_ref r)) in
      let '(speer', po) := measure speer (peer_arrivals npeer (r_peer r)) in
      EDo (round cfg refMax peerMax nref npeer ro po) :: ESleep (c_interval cfg)
        :: loop cfg refMax peerMax nref npeer rest sref' speer'
  end.

(* (panicked, events) of Run driven for the given rounds *)
Definition run (cfg : config) (D : Z) (nref npeer : nat) (rs : list rnd) : bool * list event :=
  match prologue cfg D with
  | Refuse _ nd => (true, repeat (EDrift (c_interval cfg) D) nd)
  | Start refMax peerMax =>
      (false, EDrift (c_interval cfg) D :: EDrift (c_interval cfg) D ::
              loop cfg refMax peerMax nref npeer rs (repeat 0 nref) (repeat 0 (peer_slots npeer)))
  end.

(* ------------------------------------------------------------------------ *)
(* Property oracle C01_ok, written from the property text; it never calls
   prologue / clamp / round / loop / run.

   The cap of a side is "impact factor x Drift(SyncInterval)", a float64 number
   of nanoseconds; "|c| does not exceed the cap" is read in float64 as the
   property's anchors do (for caps below 2^53 ns this is the integer inequality
   |c| <= floor(cap), see Props/C01.v). *)

Definition cap (factor : f64) (D : Z) : f64 := fmul factor (f_of_int D).
Definition within (c : Z) (mx : f64) : bool := fle (f_of_int (Z.abs c)) mx.

(* the bounded version of an offset: itself when within the cap, otherwise the
   cap (towards zero to whole nanoseconds) with the offset's sign *)
Definition bounded (mx : f64) (off : Z) : Z :=
  if within off mx then off else sgn off * f_to_i64 mx.

(* settings that void the bound: a factor that is not a number above 1 (so: <= 1, or NaN), a peer factor
   that does not exceed the reference factor by more than 1 (again: also when the difference is not a
   number), non-positive interval, negative timeout or timeout above half the interval *)
Definition inadmissible (cfg : config) : bool :=
  negb (fgt (c_ref cfg) fone) || negb (fgt (c_peer cfg) fone) || negb (fgt (fsub (c_peer cfg) fone) (c_ref cfg))
  || (c_interval cfg <=? 0) || (c_timeout cfg <? 0) || (Z.quot (c_interval cfg) 2 <? c_timeout cfg).

Definition all_timely (n : nat) (l : list src) : option (list Z) :=
  if forallb (fun s => match s with Timely _ => true | Failed => false end) l && Nat.eqb (length l) n
  then Some (timely l) else None.

(* the aggregated offset of a side when every one of its sources answered in
   time this round (otherwise values of earlier rounds are involved and the
   oracle only applies the clauses that hold for every offset) *)
Definition known_ref (nref : nat) (l : list src) : option Z :=
  match all_timely nref l with Some vs => ftm vs | None => None end.
(* peers: the local clock (offset 0) is one of the peers.  MinInt64 has no
   magnitude in int64 (the code's Abs() saturates), so that single value is left
   to the model *)
Definition known_peer (npeer : nat) (l : list src) : option Z :=
  match all_timely npeer l with
  | Some vs => match ftm (vs ++ [0]) with
               | Some po => if po =? min_i64 then None else Some po
               | None => None end
  | None => None end.

Definition two62f : f64 := f_of_int (2^62).

(* Rounds in which a source failed, answered late or not at all: the code aggregates over values of earlier rounds
   as well, so the exact value of the correction is the model's business.  What the property still demands there,
   besides the bound: "a peer offset within the cutoff contributes nothing".  The aggregated peer offset is a
   fault-tolerant midpoint of values that peers (and the local clock, offset 0) have reported in this or an earlier
   round; if EVERY peer answer counted so far is within the cutoff (and below 2^62 ns, where midpoints are exact), so
   is the aggregated offset, whatever mixture of old and new values it is taken over: the peers then contribute
   nothing - the correction is 0 without reference clocks and within the REFERENCE cap with them.  pe = "every peer
   answer counted so far, and 0, is within the cutoff". *)
Definition peer_small (cfg : config) (v : Z) : bool := (Z.abs v <=? c_cutoff cfg) && (Z.abs v <? 2^62).

Definition round_ok (cfg : config) (refMax peerMax : f64) (nref npeer : nat) (pe : bool)
           (kr kp : option Z) (c : Z) : bool :=
  let small := flt refMax two62f && flt peerMax two62f in     (* both caps below 2^62 ns: Midpoint cannot wrap *)
  match nref, npeer with
  | O, O => c =? 0
  | S _, O =>
      within c refMax && match kr with Some ro => c =? bounded refMax ro | None => true end
  | O, S _ =>
      ((c =? 0) || within c peerMax) && (if pe then c =? 0 else true) &&
      match kp with
      | Some po => if Z.abs po <=? c_cutoff cfg then c =? 0 else c =? bounded peerMax po
      | None => true
      end
  | S _, S _ =>
      (* the bound: both caps below 2^62 ns, or both aggregated offsets known and their bounded values less than
         2^63 apart: Midpoint cannot wrap (beyond that it can: Props/C01.v C01_midpoint_refuted_beyond_2p62) *)
      let nw := match kr, kp with
                | Some ro, Some po => Z.abs (bounded peerMax po - bounded refMax ro) <=? max_i64
                | _, _ => false
                end in
      (if small || nw then within c refMax || within c peerMax else true) &&
      (if pe then within c refMax else true) &&
      match kr, kp with
      | Some ro, Some po =>
          if Z.abs po <=? c_cutoff cfg then c =? bounded refMax ro
          else c =? midpoint (bounded refMax ro) (bounded peerMax po)
      | None, Some po => if Z.abs po <=? c_cutoff cfg then within c refMax else true
      | _, None => true
      end
  end.

(* Do c ; Sleep interval, once per round *)
Fixpoint rounds_ok (cfg : config) (refMax peerMax : f64) (nref npeer : nat) (pe : bool)
         (rs : list rnd) (evs : list event) : bool :=
  match rs, evs with
  | [], [] => true
  | r :: rest, EDo c :: ESleep d :: evs' =>
      let pe' := pe && forallb (peer_small cfg) (timely (r_peer r)) in
      (d =? c_interval cfg)
      && round_ok cfg refMax peerMax nref npeer pe' (known_ref nref (r_ref r)) (known_peer npeer (r_peer r)) c
      && rounds_ok cfg refMax peerMax nref npeer pe' rest evs'
  | _, _ => false
  end.

Definition no_do (evs : list event) : bool :=
  forallb (fun e => match e with EDrift _ _ => true | _ => false end) evs.

(* the leading Drift calls: (arguments and results, remaining events) *)
Fixpoint drift_calls (evs : list event) : list (Z * Z) * list event :=
  match evs with
  | EDrift a d :: r => let '(ds, rest) := drift_calls r in ((a, d) :: ds, rest)
  | _ => ([], evs)
  end.

(* env: the history rs says exactly which answers were counted in each round (false for scenarios in which that is
   left open - SyncTimeout = 0 - where the clause about peers within the cutoff cannot be evaluated) *)
Definition C01_ok_env (env : bool) (cfg : config) (nref npeer : nat) (rs : list rnd) (obs : bool * list event) : bool :=
  let '(pan, evs) := obs in
  if inadmissible cfg then pan && no_do evs                 (* refused at start-up (NaN factors included), nothing handed on *)
  else
    let '(ds, evs') := drift_calls evs in
    forallb (fun ad => fst ad =? c_interval cfg) ds &&
    if forallb (fun ad => 0 <? snd ad) ds then
      match ds with
      | [] => pan && no_do evs'
      | (_, D1) :: _ =>
          negb pan && rounds_ok cfg (cap (c_ref cfg) D1) (cap (c_peer cfg) (snd (last ds (0, D1)))) nref npeer (env && peer_small cfg 0) rs evs'
      end
    else pan && no_do evs'.      (* the clock does not report a positive drift: refused as well *)

Definition C01_ok : config -> nat -> nat -> list rnd -> bool * list event -> bool := C01_ok_env true.

(* "In every synchronization round exactly one correction is handed to the clock discipline ... whatever offsets,
   errors or delays reference clocks and peers produce": a round's measurement ends at its deadline, so the
   correction of a round is handed on no later than SyncTimeout after the round began (the model has no clock: this
   clause is judged on the virtual time the harness observes between the beginning of a round and its Do) *)
Definition C01_deadline_ok (timeout : Z) (dts : list Z) : bool :=
  forallb (fun dt => (0 <=? dt) && (dt <=? Z.max 0 timeout)) dts.

(* clk.Drift for the real SystemClock: configured drift x interval, up to the
   rounding of the float64 computation (6 roundings, one truncation) *)
Definition C01_drift_ok (drift_ns interval D : Z) : bool :=
  if (0 <? drift_ns) && (0 <? interval) && (drift_ns * interval <? 2^62 * 1000000000) then
    let q := drift_ns * interval in
    Z.abs (D * 1000000000 - q) * 2^48 <=? 1000000000 * 2^48 + q
  else true.
