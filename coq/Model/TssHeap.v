(* The priority queue of core/server/server.go made concrete: the array
   tssQ : []*tssItem driven by Go's container/heap (src/container/heap/heap.go),
   and handleRequest / updateTXTimestamp issuing the same heap calls as the
   code.  An array element is the pair (key, qval) of the tssItem the slot points
   to; the qidx fields of the items are the back-pointer table h_bp (key -> index).
   tssQueue.Less is qval.Before (strict <), tssQueue.Swap exchanges two slots and
   rewrites the two qidx fields, tssQueue.Push stores qidx = len and appends,
   tssQueue.Pop drops the last slot.  No proofs here (Proofs/TssHeapProofs.v). *)
From ST Require Import Base.Ints Model.NtpTime Model.Tss.
From Coq Require Import ZArith List Bool.
Import ListNotations.
Open Scope Z_scope.

Definition hel := (Z * Z)%type.            (* key, qval *)
Definition hd0 : hel := (0, 0).

(* ---- the qidx fields ---- *)
Fixpoint bp_get (k : Z) (bp : list (Z * nat)) : nat :=
  match bp with
  | [] => O
  | (k', i) :: r => if k' =? k then i else bp_get k r
  end.
Fixpoint bp_set (k : Z) (i : nat) (bp : list (Z * nat)) : list (Z * nat) :=
  match bp with
  | [] => [(k, i)]
  | (k', j) :: r => if k' =? k then (k', i) :: r else (k', j) :: bp_set k i r
  end.
Fixpoint bp_del (k : Z) (bp : list (Z * nat)) : list (Z * nat) :=
  match bp with
  | [] => []
  | (k', j) :: r => if k' =? k then r else (k', j) :: bp_del k r
  end.

Record heap := { h_arr : list hel; h_bp : list (Z * nat) }.
Definition heap_empty : heap := {| h_arr := []; h_bp := [] |}.

(* tssQueue.Less(i, j) *)
Definition hless (a : list hel) (i j : nat) : bool := snd (nth i a hd0) <? snd (nth j a hd0).

(* tssQueue.Swap(i, j): q[i], q[j] = q[j], q[i]; q[i].qidx = i; q[j].qidx = j *)
Definition hswap (h : heap) (i j : nat) : heap :=
  let a := h_arr h in
  let xi := nth i a hd0 in
  let xj := nth j a hd0 in
  {| h_arr := set_nth j xi (set_nth i xj a);
     h_bp := bp_set (fst xi) j (bp_set (fst xj) i (h_bp h)) |}.

(* func up(h, j): for { i := (j-1)/2; if i == j || !h.Less(j, i) { break }; h.Swap(i, j); j = i }
   (Go's (0-1)/2 = 0 like the truncated subtraction here) *)
Fixpoint up_f (fuel : nat) (h : heap) (j : nat) : option heap :=
  match fuel with
  | O => None
  | S f =>
      let i := ((j - 1) / 2)%nat in
      if Nat.eqb i j || negb (hless (h_arr h) j i) then Some h
      else up_f f (hswap h i j) i
  end.

(* func down(h, i0, n) bool: for { j1 := 2*i+1; if j1 >= n { break }; j := j1;
     if j2 := j1+1; j2 < n && h.Less(j2, j1) { j = j2 }; if !h.Less(j, i) { break };
     h.Swap(i, j); i = j }; return i > i0
   (the int-overflow guard j1 < 0 cannot fire: n <= 2^20).  Returns the final i. *)
Fixpoint down_f (fuel : nat) (h : heap) (i n : nat) : option (heap * nat) :=
  match fuel with
  | O => None
  | S f =>
      let j1 := (2 * i + 1)%nat in
      if negb (Nat.ltb j1 n) then Some (h, i)
      else
        let j2 := (j1 + 1)%nat in
        let j := if Nat.ltb j2 n && hless (h_arr h) j2 j1 then j2 else j1 in
        if negb (hless (h_arr h) j i) then Some (h, i)
        else down_f f (hswap h i j) j n
  end.

(* the fuel given is always enough (TssHeapProofs.up_fuel / down_fuel) *)
Definition up (h : heap) (j : nat) : heap :=
  match up_f (S j) h j with Some h' => h' | None => h end.
Definition down (h : heap) (i0 n : nat) : heap * bool :=
  match down_f (S (n - i0)) h i0 n with
  | Some (h', i) => (h', Nat.ltb i0 i)
  | None => (h, false)
  end.

(* tssQueue.Pop: the last slot goes *)
Definition hpop_last (h : heap) : heap * hel :=
  ({| h_arr := removelast (h_arr h); h_bp := h_bp h |}, last (h_arr h) hd0).

(* heap.Push(h, x): h.Push(x) (qidx = len, append); up(h, h.Len()-1) *)
Definition hpush (h : heap) (x : hel) : heap :=
  let n := length (h_arr h) in
  up {| h_arr := h_arr h ++ [x]; h_bp := bp_set (fst x) n (h_bp h) |} n.

(* heap.Pop(h): n := h.Len()-1; h.Swap(0, n); down(h, 0, n); return h.Pop() *)
Definition hpop (h : heap) : heap * hel :=
  let n := (length (h_arr h) - 1)%nat in
  hpop_last (fst (down (hswap h 0 n) 0 n)).

(* heap.Fix(h, i): if !down(h, i, h.Len()) { up(h, i) } *)
Definition hfix (h : heap) (i : nat) : heap :=
  let '(h2, moved) := down h i (length (h_arr h)) in
  if moved then h2 else up h2 i.

(* heap.Remove(h, i): n := h.Len()-1; if n != i { h.Swap(i, n); if !down(h, i, n) { up(h, i) } }; return h.Pop() *)
Definition hremove (h : heap) (i : nat) : heap * hel :=
  let n := (length (h_arr h) - 1)%nat in
  hpop_last (if Nat.eqb n i then h
             else let '(h2, moved) := down (hswap h i n) i n in
                  if moved then h2 else up h2 i).

(* tssi.qval = v: the slots hold pointers, so the item's new qval is seen through
   whichever slot points to it *)
Definition hset_qval (h : heap) (k v : Z) : heap :=
  {| h_arr := hq_fix k v (h_arr h); h_bp := h_bp h |}.

(* tssQ[0].qval *)
Definition qmin (h : heap) : option Z :=
  match h_arr h with [] => None | (_, v) :: _ => Some v end.
Definition root_key (h : heap) : Z := fst (nth 0 (h_arr h) hd0).

(* ---- the store: the map as in Tss.v, the queue concrete ---- *)
Record tssh := { hs_items : list item; hs_heap : heap }.
Definition tssh_empty : tssh := {| hs_items := []; hs_heap := heap_empty |}.

Record houtcome := { ho_state : tssh; ho_reply : reply; ho_rxt : Z; ho_txt : Z; ho_evicted : option Z; ho_stateless : bool }.

(* handleRequest, as Tss.handle, with the heap calls of the code: heap.Fix(&tssQ, tssi.qidx)
   after a new maximum, heap.Pop on eviction (the victim is what Pop returns),
   heap.Push for a new item *)
Definition handle_h (c : config) (s : tssh) (cid : Z) (q : request) (rxt now : Z) : option houtcome :=
  let txt0 := if rxt <? now then now else rxt + 1 in
  match find_item cid (hs_items s) with
  | Some it =>
      match uniq (S (length (it_ents it))) (it_ents it) rxt txt0 with
      | None => None
      | Some (rxt', txt') =>
          let rx64 := to64 rxt' in let tx64 := to64 txt' in
          let '(o, mn, mx) := scan (it_ents it) (q_org q) in
          let inter := negb (q_rx q =? q_tx q) && match o with Some _ => true | None => false end in
          let rep := match o with
                     | Some (_, otx) => if inter then {| r_org := q_rx q; r_rx := rx64; r_tx := otx; r_inter := true; r_ref := tx64 |}
                                       else {| r_org := q_tx q; r_rx := rx64; r_tx := tx64; r_inter := false; r_ref := tx64 |}
                     | None => {| r_org := q_tx q; r_rx := rx64; r_tx := tx64; r_inter := false; r_ref := tx64 |}
                     end in
          let newmax := match mx with Some (_, m) => m <? rx64 | None => false end in
          let qval' := if newmax then rx64 else it_qval it in
          let hp' := if newmax then hfix (hset_qval (hs_heap s) cid rx64) (bp_get cid (h_bp (hs_heap s))) else hs_heap s in
          let e := {| e_rx := rx64; e_tx := tx64 |} in
          let ents' := match o with
                       | Some (i, _) => set_nth i e (it_ents it)
                       | None => if Z.of_nat (length (it_ents it)) =? icap c
                                 then match mn with Some (i, _) => set_nth i e (it_ents it) | None => it_ents it end
                                 else it_ents it ++ [e]
                       end in
          let it' := {| it_key := cid; it_ents := ents'; it_qval := qval' |} in
          Some {| ho_state := {| hs_items := replace_item it' (hs_items s); hs_heap := hp' |};
                  ho_reply := rep; ho_rxt := rxt'; ho_txt := txt'; ho_evicted := None; ho_stateless := false |}
      end
  | None =>
      let rx64 := to64 rxt in let tx64 := to64 txt0 in
      let rep := {| r_org := q_tx q; r_rx := rx64; r_tx := tx64; r_inter := false; r_ref := tx64 |} in
      let it' := {| it_key := cid; it_ents := [{| e_rx := rx64; e_tx := tx64 |}]; it_qval := rx64 |} in
      match admission_decision c (length (hs_items s)) (qmin (hs_heap s)) rx64 with
      | Stateless =>
          Some {| ho_state := s; ho_reply := rep; ho_rxt := rxt; ho_txt := txt0; ho_evicted := None; ho_stateless := true |}
      | Insert =>
          Some {| ho_state := {| hs_items := it' :: hs_items s; hs_heap := hpush (hs_heap s) (cid, rx64) |};
                  ho_reply := rep; ho_rxt := rxt; ho_txt := txt0; ho_evicted := None; ho_stateless := false |}
      | Evict =>
          (* x := heap.Pop(&tssQ); delete(tss, x.key) *)
          let '(h1, x) := hpop (hs_heap s) in
          let items1 := remove_item (fst x) (hs_items s) in
          let h1' := {| h_arr := h_arr h1; h_bp := bp_del (fst x) (h_bp h1) |} in
          Some {| ho_state := {| hs_items := it' :: items1; hs_heap := hpush h1' (cid, rx64) |};
                  ho_reply := rep; ho_rxt := rxt; ho_txt := txt0; ho_evicted := Some (fst x); ho_stateless := false |}
      end
  end.

Record htx_outcome := { ht_state : tssh; ht_txt : Z; ht_removed_item : bool; ht_removed_entry : bool; ht_updated : bool }.

(* updateTXTimestamp, as Tss.update_tx, with heap.Remove(&tssQ, tssi.qidx) when the
   item goes and heap.Fix(&tssQ, tssi.qidx) after the queue value dropped *)
Definition update_tx_h (s : tssh) (cid rxt txt : Z) : htx_outcome :=
  let txt' := if rxt <? txt then txt else rxt + 1 in
  let same := {| ht_state := s; ht_txt := txt'; ht_removed_item := false; ht_removed_entry := false; ht_updated := false |} in
  match find_item cid (hs_items s) with
  | None => same
  | Some it =>
      let rx64 := to64 rxt in let tx64 := to64 txt' in
      match scan_tx_from 0 (it_ents it) rx64 None None None with
      | (None, _, _) => same
      | (Some (x, xtx), m0, m1) =>
          if negb (xtx =? tx64) then
            let it' := {| it_key := cid; it_ents := set_nth x {| e_rx := rx64; e_tx := tx64 |} (it_ents it); it_qval := it_qval it |} in
            {| ht_state := {| hs_items := replace_item it' (hs_items s); hs_heap := hs_heap s |}; ht_txt := txt';
               ht_removed_item := false; ht_removed_entry := false; ht_updated := true |}
          else if Nat.eqb (length (it_ents it)) 1 then
            let '(h1, _) := hremove (hs_heap s) (bp_get cid (h_bp (hs_heap s))) in
            {| ht_state := {| hs_items := remove_item cid (hs_items s);
                              hs_heap := {| h_arr := h_arr h1; h_bp := bp_del cid (h_bp h1) |} |}; ht_txt := txt';
               ht_removed_item := true; ht_removed_entry := true; ht_updated := false |}
          else
            let ismax := match m0 with Some a => a =? rx64 | None => false end in
            let qval' := if ismax then match m1 with Some b => b | None => it_qval it end else it_qval it in
            let hp' := if ismax then hfix (hset_qval (hs_heap s) cid qval') (bp_get cid (h_bp (hs_heap s))) else hs_heap s in
            let it' := {| it_key := cid; it_ents := swap_remove {| e_rx := 0; e_tx := 0 |} x (it_ents it); it_qval := qval' |} in
            {| ht_state := {| hs_items := replace_item it' (hs_items s); hs_heap := hp' |}; ht_txt := txt';
               ht_removed_item := false; ht_removed_entry := true; ht_updated := false |}
      end
  end.

(* ---- runs: the operations of Tss.v; the victim field of OpHandle is ignored
   (the victim is whatever heap.Pop returns) ---- *)
Definition step_h (c : config) (s : tssh) (o : op) : option tssh :=
  match o with
  | OpHandle cid q rxt now _ =>
      match handle_h c s cid q rxt now with Some out => Some (ho_state out) | None => None end
  | OpUpdateTx cid rxt txt => Some (ht_state (update_tx_h s cid rxt txt))
  end.

Fixpoint run_h (c : config) (s : tssh) (ops : list op) : option tssh :=
  match ops with
  | [] => Some s
  | o :: r => match step_h c s o with Some s' => run_h c s' r | None => None end
  end.

(* the same operation with the victim the concrete queue pops in state s *)
Definition with_victim (s : tssh) (o : op) : op :=
  match o with
  | OpHandle cid q rxt now _ => OpHandle cid q rxt now (root_key (hs_heap s))
  | OpUpdateTx cid rxt txt => OpUpdateTx cid rxt txt
  end.
Fixpoint with_victims (c : config) (s : tssh) (ops : list op) : list op :=
  match ops with
  | [] => []
  | o :: r => with_victim s o :: match step_h c s o with Some s' => with_victims c s' r | None => r end
  end.
