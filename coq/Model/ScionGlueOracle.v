(* C13 - property oracle, written from the property text; it looks only at
   observations (the datagram sent, the datagrams seen afterwards at the
   harness sockets, the client's result) and never calls server_step /
   client_run.  Shared with the model: the packet record types, the constants
   and the accessors of the authenticator option.

   "carries a packet authenticator for the time-service DRKey (expected SPI
   and algorithm)": the end-to-end extension was decoded and its first
   authenticator option (slayers.FindOption) has 28 bytes of data, the SPI of
   the direction and algorithm 0. *)
From Coq Require Import ZArith List Bool.
From ST Require Import Base.Ints Model.ScionGlue.
Import ListNotations.
Open Scope Z_scope.

Definition carries_auth (spi : Z) (q : rx) : option opt :=
  if rx_ok q && existsb (fun l => l =? LT_E2E) (rx_layers q) then
    match find_opt OPT_AUTH (rx_opts q) with
    | Some o => if (zlen (o_data o) =? auth_opt_data_len) && (opt_spi o =? spi) && (opt_algo o =? auth_algorithm)
                then Some o else None
    | None => None
    end
  else None.

(* a datagram seen at harness socket [so_sock], with the MAC recomputed for its
   first authenticator option under the host-host key ([] if there is none) *)
Record sobs := mkSobs { so_sock : Z; so_rx : rx; so_mac : bytes }.

Fixpoint sock_index (socks : list (bytes * Z)) (host : bytes) (port : Z) (i : Z) : option Z :=
  match socks with
  | [] => None
  | (h, p) :: r => if bytes_eqb h host && (p =? port) then Some i else sock_index r host port (i + 1)
  end.

Definition opt_pair_eqb (a b : option (Z * bytes)) : bool :=
  match a, b with
  | Some (t, p), Some (t', p') => (t =? t') && bytes_eqb p p'
  | _, _ => false
  end.

(* the request is addressed to the time service of this listener *)
Definition for_service (local_port : Z) (q : rx) : bool :=
  match rx_l4 q with
  | Udp _ d _ _ => (d =? local_port) && negb (local_port =? endhost_port)
  | _ => false
  end.

(* reply addressing: to the previous hop (the socket the request came from),
   ISD-AS, host and port exchanged, reversed path, echoed payload intact *)
Definition reply_ok (sender : Z) (q : rx) (qrev : option (Z * bytes)) (o : sobs) : bool :=
  let h := rx_hdr q in let g := rx_hdr (so_rx o) in
  (so_sock o =? sender) && rx_ok (so_rx o) &&
  (h_dst_ia g =? h_src_ia h) && (h_src_ia g =? h_dst_ia h) &&
  (h_dst_type g =? h_src_type h) && (h_src_type g =? h_dst_type h) &&
  bytes_eqb (h_dst_raw g) (h_src_raw h) && bytes_eqb (h_src_raw g) (h_dst_raw h) &&
  opt_pair_eqb qrev (Some (h_path_type g, h_path g)) &&
  match rx_l4 q, rx_l4 (so_rx o) with
  | Udp s d _ _, Udp s' d' _ _ => (s' =? d) && (d' =? s)
  | Scmp t _ p, Scmp t' c' p' =>
      (((t =? SCMP_ECHO_REQUEST) && (t' =? SCMP_ECHO_REPLY)) || ((t =? SCMP_TRACEROUTE_REQUEST) && (t' =? SCMP_TRACEROUTE_REPLY)))
      && (c' =? 0) && bytes_eqb p p'
  | _, _ => false
  end.

(* forwarding: only from the end-host port, to another end-host port (neither
   this service's nor the end-host port itself), to the addressed host and
   port, addressing and payload unchanged *)
Definition forward_ok (local_port conn_port : Z) (socks : list (bytes * Z)) (q : rx) (o : sobs) : bool :=
  let h := rx_hdr q in let g := rx_hdr (so_rx o) in
  match rx_l4 q, rx_l4 (so_rx o) with
  | Udp s d _ p, Udp s' d' _ p' =>
      (conn_port =? endhost_port) && negb (d =? endhost_port) && negb (d =? local_port) &&
      match sock_index socks (h_dst_raw h) d 0 with Some i => so_sock o =? i | None => false end &&
      rx_ok (so_rx o) &&
      (h_dst_ia g =? h_dst_ia h) && (h_src_ia g =? h_src_ia h) &&
      (h_dst_type g =? h_dst_type h) && (h_src_type g =? h_src_type h) &&
      bytes_eqb (h_dst_raw g) (h_dst_raw h) && bytes_eqb (h_src_raw g) (h_src_raw h) &&
      (h_path_type g =? h_path_type h) && bytes_eqb (h_path g) (h_path h) &&
      (s' =? s) && (d' =? d) && bytes_eqb p' p
  | _, _ => false
  end.

(* should have been forwarded (and the target is a socket we can see) *)
Definition forward_due (local_port conn_port : Z) (socks : list (bytes * Z)) (q : rx) : option Z :=
  match rx_l4 q with
  | Udp s d len p =>
      if rx_ok q && valid_type (rx_layers q) && (last_layer (rx_layers q) =? LT_UDP) && (len <=? rx_buflen q)
         && host_ok (h_src_raw (rx_hdr q)) && host_ok (h_dst_raw (rx_hdr q))
         && (conn_port =? endhost_port) && negb (d =? endhost_port) && negb (d =? local_port)
      then sock_index socks (h_dst_raw (rx_hdr q)) d 0 else None
  | _ => None
  end.

(* the reply to a verified request carries an authenticator the client verifies:
   server SPI, algorithm, MAC equal to the one recomputed over the reply,
   end-to-end extension directly in front of UDP *)
Definition reply_authenticated (o : sobs) : bool :=
  match carries_auth spi_server (so_rx o) with
  | Some a => bytes_eqb (so_mac o) (opt_mac a) && (zlen (so_mac o) =? 16)
              && (second_last_layer (rx_layers (so_rx o)) =? LT_E2E)
  | None => false
  end.

Definition C13_srv_ok (local_port conn_port : Z) (auth_enabled : bool) (socks : list (bytes * Z))
    (sender : Z) (q : rx) (qmac : bytes) (qrev : option (Z * bytes)) (obs : list sobs) : bool :=
  let auth := carries_auth spi_client q in
  (* 1. a request whose MAC does not verify is never served *)
  (match auth with
   | Some a => if auth_enabled && for_service local_port q && negb (bytes_eqb qmac (opt_mac a))
               then match obs with [] => true | _ => false end else true
   | None => true
   end) &&
  (* 2. the reply to a verified request verifies at the client *)
  (match auth with
   | Some a => if auth_enabled && for_service local_port q && bytes_eqb qmac (opt_mac a)
               then forallb reply_authenticated obs else true
   | None => true
   end) &&
  (* 3. whatever is sent is one correctly addressed reply or one admissible forward *)
  (zlen obs <=? 1) &&
  forallb (fun o => if for_service local_port q || match rx_l4 q with Scmp _ _ _ => true | _ => false end
                    then reply_ok sender q qrev o else forward_ok local_port conn_port socks q o) obs &&
  (* 4. packets for another end-host port are forwarded *)
  (match forward_due local_port conn_port socks q with
   | Some i => existsb (fun o => so_sock o =? i) obs
   | None => true
   end).

(* What a forwarded packet carries besides header and payload (theorem
   C13_forward_extensions): if the end-to-end extension of the received packet
   directly follows the SCION header, all its options in their order
   (authenticator included); otherwise none of them.  The receive-timestamp
   option the forwarder may append (and timestamp options in general) are left
   out of the comparison. *)
Definition strip_ts (os : list opt) : list opt := filter (fun o => negb (o_type o =? OPT_TIMESTAMP)) os.

Fixpoint opts_same (a b : list opt) : bool :=
  match a, b with
  | [], [] => true
  | x :: a', y :: b' => (o_type x =? o_type y) && bytes_eqb (o_data x) (o_data y) && opts_same a' b'
  | _, _ => false
  end.

Definition C13_srv_fwdext_ok (local_port : Z) (q : rx) (obs : list sobs) : bool :=
  if for_service local_port q || match rx_l4 q with Scmp _ _ _ => true | _ => false end then true
  else forallb (fun o => rx_ok (so_rx o) &&
                         (* traffic class and flow id are the packet's own *)
                         (h_tc (rx_hdr (so_rx o)) =? h_tc (rx_hdr q)) && (h_flow (rx_hdr (so_rx o)) =? h_flow (rx_hdr q)) &&
                         opts_same (strip_ts (rx_opts (so_rx o)))
                                   (if h_next (rx_hdr q) =? E2E_CLASS then strip_ts (rx_opts q) else [])) obs.

(* no datagram seen claims the server's authentication *)
Definition no_srv_auth (obs : list sobs) : bool :=
  forallb (fun o => match carries_auth spi_server (so_rx o) with Some _ => false | None => true end) obs.

(* The listener could not obtain the host-host key (DRKey daemon error, key of a
   wrong length): authentication does not take place - the clauses about
   addressing and forwarding stay, and a reply to a request for the service
   must not carry the server's authenticator (nothing is passed off as
   authenticated). *)
Definition C13_srv_nokey_ok (local_port conn_port : Z) (socks : list (bytes * Z))
    (sender : Z) (q : rx) (qrev : option (Z * bytes)) (obs : list sobs) : bool :=
  C13_srv_ok local_port conn_port false socks sender q [] qrev obs &&
  (if for_service local_port q then no_srv_auth obs else true) &&
  (* the authenticator of a request cannot verify without a key: such a request is not served *)
  (match carries_auth spi_client q with
   | Some _ => if for_service local_port q then match obs with [] => true | _ => false end else true
   | None => true
   end).

(* "carries a packet authenticator for the time-service DRKey (expected SPI and algorithm)"
   whatever the length of its data: an authenticator whose data does not have the 28 bytes of
   metadata and AES-CMAC tag cannot verify *)
Definition claims_auth (spi : Z) (q : rx) : option opt :=
  if rx_ok q && existsb (fun l => l =? LT_E2E) (rx_layers q) then
    match find_opt OPT_AUTH (rx_opts q) with
    | Some o => if (opt_spi o =? spi) && (opt_algo o =? auth_algorithm) then Some o else None
    | None => None
    end
  else None.

Definition C13_srv_maclen_ok (auth_enabled : bool) (local_port : Z) (q : rx) (obs : list sobs) : bool :=
  match claims_auth spi_client q with
  | Some o => if auth_enabled && for_service local_port q && negb (zlen (o_data o) =? auth_opt_data_len)
              then match obs with [] => true | _ => false end else true
  | None => true
  end.

(* ---- client ---- *)
(* result: 0 i a = accepted response i (a: counted as authenticated), 1 = error, 2 = timeout *)
Definition C13_cli_ok (auth_enabled : bool) (req : rx) (reqmac : bytes) (resps : list (rx * bytes))
    (accepted : option nat) : bool :=
  (* the request of a client with authentication carries the client-side authenticator with a valid MAC *)
  (if auth_enabled then
     match carries_auth spi_client req with
     | Some a => bytes_eqb reqmac (opt_mac a) && (zlen reqmac =? 16)
     | None => false
     end
   else match carries_auth spi_client req with Some _ => false | None => true end) &&
  (* a response whose MAC does not verify is never accepted *)
  match accepted with
  | Some i =>
      match nth_error resps i with
      | Some (q, m) =>
          match carries_auth spi_server q with
          | Some a => if auth_enabled then bytes_eqb m (opt_mac a) else true
          | None => true
          end
      | None => false
      end
  | None => true
  end.

(* The response an offset is computed from comes from the queried host and is
   addressed to the client: ISD-AS, an IP address type (a service or other
   non-IP address with the same bytes is not the host), and the same IP address
   (an IPv4 address and its IPv4-mapped IPv6 form are the same host). *)
Definition from_queried (lia : Z) (lh : bytes) (ria : Z) (rh : bytes) (q : rx) : bool :=
  let h := rx_hdr q in
  (h_src_ia h =? ria) && ((h_src_type h =? 0) || (h_src_type h =? 3)) && same_ip (h_src_raw h) rh &&
  (h_dst_ia h =? lia) && ((h_dst_type h =? 0) || (h_dst_type h =? 3)) && same_ip (h_dst_raw h) lh.

Definition C13_cli_from_queried_ok (lia : Z) (lh : bytes) (ria : Z) (rh : bytes) (resps : list (rx * bytes))
    (accepted : option nat) : bool :=
  match accepted with
  | Some i => match nth_error resps i with Some (q, _) => from_queried lia lh ria rh q | None => false end
  | None => true
  end.

(* ---- which key: the requests the listener and the client make to the DRKey
        daemon, as the daemon sees them ----
   "The host-to-host key" of a datagram of the time service is the key of protocol
   number 123 (the low 16 bits of the SPI) between the server (fast side: the
   request's destination ISD-AS and host) and the client (slow side: its source
   ISD-AS and host), valid at the time of the packet. *)
Record kreq := mkKreq { kq_hh : bool; kq_proto : Z; kq_fast_ia : Z; kq_slow_ia : Z;
                        kq_fast_host : bytes; kq_slow_host : bytes; kq_time_ok : bool }.

Definition ts_proto : Z := Z.land spi_client 65535.

(* the listener asks for the host-AS key of (server AS and host, client AS) and derives the rest *)
Definition srv_keyreq_ok (q : rx) (r : kreq) : bool :=
  let h := rx_hdr q in
  negb (kq_hh r) && (kq_proto r =? ts_proto) && (kq_fast_ia r =? h_dst_ia h) && (kq_slow_ia r =? h_src_ia h) &&
  bytes_eqb (kq_fast_host r) (h_dst_raw h) && kq_time_ok r.

(* the client asks for the host-host key between the queried server and itself *)
Definition cli_keyreq_ok (lia : Z) (lh : bytes) (ria : Z) (rh : bytes) (r : kreq) : bool :=
  kq_hh r && (kq_proto r =? ts_proto) && (kq_fast_ia r =? ria) && (kq_slow_ia r =? lia) &&
  same_ip (kq_fast_host r) rh && same_ip (kq_slow_host r) lh && kq_time_ok r.

(* A client with authentication enabled that could not obtain the key cannot verify an
   authenticator: it never computes an offset from a response that carries the server's. *)
Definition C13_cli_nokey_ok (wanted key_ok : bool) (resps : list (rx * bytes)) (accepted : option nat) : bool :=
  if wanted && negb key_ok then
    match accepted with
    | Some i => match nth_error resps i with
                | Some (q, _) => match carries_auth spi_server q with Some _ => false | None => true end
                | None => false
                end
    | None => true
    end
  else true.

(* ---- fail-closed authentication (NOT a clause of C13 as stated; the pinned
        code does not have this property, see Props/C13.v) ----
   A client configured to authenticate computes an offset only from a response
   that carries the server's authenticator with the MAC of the received packet
   under a host-host key it holds, of the current epoch: no key, a stale key, a
   response without (or with an unrecognised) authenticator => nothing is accepted. *)
Definition C13_cli_strict_ok (auth_wanted key_ok epoch_ok : bool) (resps : list (rx * bytes))
    (accepted : option nat) : bool :=
  if auth_wanted then
    match accepted with
    | None => true
    | Some i =>
        key_ok && epoch_ok &&
        match nth_error resps i with
        | Some (q, m) =>
            match carries_auth spi_server q with
            | Some a => bytes_eqb m (opt_mac a)
            | None => false
            end
        | None => false
        end
    end
  else true.

(* C13's first sentence read literally also covers SCMP: an echo or traceroute
   REQUEST that carries the time service's authenticator (client SPI,
   algorithm) whose MAC does not verify is not answered.  The pinned code does
   not look at the authenticator of SCMP requests (KNOWN_FINDINGS; theorem
   C13_scmp_bad_mac_served_refuted). *)
Definition scmp_request (q : rx) : bool :=
  match rx_l4 q with
  | Scmp t _ _ => (t =? SCMP_ECHO_REQUEST) || (t =? SCMP_TRACEROUTE_REQUEST)
  | _ => false
  end.

Definition C13_srv_scmpauth_ok (auth_enabled : bool) (q : rx) (qmac : bytes) (obs : list sobs) : bool :=
  match carries_auth spi_client q with
  | Some a => if auth_enabled && scmp_request q && negb (bytes_eqb qmac (opt_mac a))
              then match obs with [] => true | _ => false end else true
  | None => true
  end.

(* A listener does not authenticate with a key whose epoch is over: the reply
   to a request for the service does not carry the server's authenticator. *)
Definition C13_srv_strict_ok (local_port : Z) (epoch_ok : bool) (q : rx) (obs : list sobs) : bool :=
  if for_service local_port q && negb epoch_ok then no_srv_auth obs else true.
